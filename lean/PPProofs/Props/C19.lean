import PPProofs.Lemmas.Settings
import PPProofs.Props.Gen.Settings
/-!
# C19 — global settings are scoped as documented and fully restorable

Model: `PPModel/Mod/Settings.lean` (transcription of `reset_pyparsing_context.save/restore`, of every
public setter with its guards, and of the whitespace attributes of expressions).
Class data of the live package (`__diag__` / `__compat__` names, defaults, built-ins) is regenerated
into `PPProofs/Props/Gen/Settings.lean` on every check; the `live_*` theorems below consume it.

All statements quantify over **all** well-formed states and **all** finite command sequences; no bound.
`WF` (packrat flag ⇒ `_parse` is the caching one and the cache is a real cache; flag tables have the
class's names) is proved to be an invariant of every command, and holds right after import.
-/
namespace PP.Settings

/-! ## 1. leaving a context restores every setting, without raising -/

/-- One context, *any* state `t` reached inside it (or later: `restore()` may be called again on an
    exited context object): `restore` does not raise, every setting is back to its entry value, and so
    are the built-ins' `whiteChars` (the built-ins of `t` being the same objects, which `run_flags`
    shows for every reachable `t`). (`restore_raw` in the lemma file gives the exact resulting state.) -/
theorem restore_exact {cfg : Cfg} (hc : CfgOK cfg) {s t : State} (hs : WF cfg s) (ht : WF cfg t) :
    (restore cfg (save cfg s) t).2 = none ∧
    obs (restore cfg (save cfg s) t).1 = obs s ∧
    (restore cfg (save cfg s) t).1.memo = s.memo ∧
    (flagsOf t.builtins = flagsOf s.builtins → (restore cfg (save cfg s) t).1.builtins = s.builtins) ∧
    WF cfg (restore cfg (save cfg s) t).1 := by
  rw [restore_raw hc hs ht]
  exact ⟨rfl, obs_restoredState s t, rfl, restoredBuiltins_eq s t, WF_restoredState t hs⟩

example : CfgOK liveCfg ∧ WF liveCfg liveInit ∧
    WF liveCfg (stepOp liveCfg (.enableLR none true 0) (stepOp liveCfg (.enablePackrat (some 64) false 0) liveInit).1).1 :=
  ⟨⟨by decide, by decide, by decide⟩, ⟨by decide, by decide, by decide, by decide⟩,
   ⟨by decide, by decide, by decide, by decide⟩⟩

/-- no command changes which built-ins follow the default (`copyDefaultWhiteChars` flags), so the
    built-ins inside a context are always "the same objects" as on entry -/
theorem run_flags {cfg : Cfg} (hc : CfgOK cfg) : ∀ (cs : List Cmd) {m : Mach}, MachOK cfg m →
    flagsOf (run cfg cs m).st.builtins = flagsOf m.st.builtins
  | [], _, _ => rfl
  | c :: cs, m, hm => by
    simp only [run]
    rw [run_flags hc cs (MachOK_step hc c hm)]
    cases c with
    | op o =>
      simp only [stepCmd]
      rcases stepOp_builtins cfg o m.st with ⟨h1, _⟩ | ⟨ch, h1, _⟩
      · rw [h1]
      · rw [h1]; exact flagsOf_setDefaultWs ch m.st
    | enter r => simp only [stepCmd, saveRaises_of_WF hm.wf, Bool.false_eq_true, if_false]
    | exit v =>
      simp only [stepCmd]
      cases hstk : m.stack with
      | nil => rfl
      | cons sv rest =>
        simp only
        obtain ⟨s0, hs0, rfl⟩ := hm.frames sv (by rw [hstk]; simp)
        rw [restore_raw hc hs0 hm.wf]
        exact flagsOf_restoredBuiltins s0 m.st
    | restoreLast =>
      simp only [stepCmd]
      cases hl : m.last with
      | none => rfl
      | some sv =>
        simp only
        obtain ⟨s0, hs0, rfl⟩ := hm.lastOK sv hl
        rw [restore_raw hc hs0 hm.wf]
        exact flagsOf_restoredBuiltins s0 m.st

/-- **restore_total_and_exact.**  From any machine state reachable through the modelled API (`MachOK`),
    for *every* well-nested command sequence `body` (any setters in any order, `force=True` mode
    switches, nested contexts to any depth):  `with reset_pyparsing_context(): body`
    * raises neither in `__enter__` nor in any `__exit__` (inner or outer),
    * leaves the stack of enclosing contexts as it was,
    * restores every setting (`obs`) to its value on entry, and the `recursion_memos` object itself,
    * and restores every built-in's `whiteChars` — also of built-ins whose own set was not the
      default's on entry, such as `line_start` (see `live_builtins_restored_though_unsynced`). -/
theorem restore_total_and_exact {cfg : Cfg} (hc : CfgOK cfg) (m : Mach) (hm : MachOK cfg m)
    (body : List Cmd) (hb : Balanced body) (r v : Bool) :
    (run cfg (.enter r :: body ++ [.exit v]) m).ctxErr = false ∧
    (run cfg (.enter r :: body ++ [.exit v]) m).stack = m.stack ∧
    obs (run cfg (.enter r :: body ++ [.exit v]) m).st = obs m.st ∧
    (run cfg (.enter r :: body ++ [.exit v]) m).st.memo = m.st.memo ∧
    (run cfg (.enter r :: body ++ [.exit v]) m).st.builtins = m.st.builtins := by
  have hfin := MachOK_run hc (.enter r :: body ++ [.exit v]) hm
  refine ⟨hfin.noErr, ?_⟩
  simp only [List.cons_append, run]
  rw [run_append]
  have h1 : (stepCmd cfg (.enter r) m).1
      = { m with stack := save cfg m.st :: m.stack, last := if r then none else m.last } := by
    simp only [stepCmd, saveRaises_of_WF hm.wf, Bool.false_eq_true, if_false]
  have hm1 : MachOK cfg (stepCmd cfg (.enter r) m).1 := MachOK_step hc (.enter r) hm
  rw [h1] at hm1 ⊢
  obtain ⟨pre', hst, hlen⟩ := run_stack body 0 0 _ [] (save cfg m.st :: m.stack) hm1 hc hb rfl rfl
  have hpre : pre' = [] := List.eq_nil_of_length_eq_zero hlen
  subst hpre
  have hm2 := MachOK_run hc body hm1
  simp only [List.nil_append] at hst
  simp only [run, stepCmd, hst]
  rw [restore_raw hc hm.wf hm2.wf]
  refine ⟨by first | rfl | trivial, obs_restoredState _ _, by first | rfl | trivial, ?_⟩
  exact restoredBuiltins_eq _ _ (run_flags hc body hm1)

/-- non-vacuity: the design-time finding F3 as a command sequence (enter with packrat on, switch to left
    recursion with `force=True` inside, plus a nested context switching back) is `Balanced`, starts
    from a `MachOK` machine, and really changes the settings inside -/
def exM0 : Mach := ⟨(stepOp liveCfg (.enablePackrat (some 64) false 0) liveInit).1, [], false, none⟩
def exBody : List Cmd :=
  [.op (.enableLR none true 0), .enter false, .op (.enablePackrat none true 0), .op (.setDefaultWs " " 0), .exit true,
   .restoreLast, .enter true, .op (.setKwChars "abc" 0), .exit false,
   .op (.compatAssign "collect_all_And_tokens" false)]

example : Balanced exBody ∧ obs (run liveCfg (.enter false :: exBody) exM0).st ≠ obs exM0.st ∧
    obs (run liveCfg (.enter false :: exBody ++ [.exit false]) exM0).st = obs exM0.st := by
  decide +kernel

/-- the same for the live package: every entry configuration reachable from `import pyparsing` by any
    command sequence `pre` (possibly already inside contexts), every well-nested `body` -/
theorem live_restore_total_and_exact (pre body : List Cmd) (hb : Balanced body) (r v : Bool) :
    let m := run liveCfg pre ⟨liveInit, [], false, none⟩
    let m' := run liveCfg (.enter r :: body ++ [.exit v]) m
    m'.ctxErr = false ∧ m'.stack = m.stack ∧ obs m'.st = obs m.st ∧ m'.st.memo = m.st.memo ∧
    m'.st.builtins = m.st.builtins := by
  have hc : CfgOK liveCfg := ⟨by decide, by decide, by decide⟩
  have h0 : MachOK liveCfg ⟨liveInit, [], false, none⟩ :=
    ⟨⟨by decide, by decide, by decide, by decide⟩, by simp, rfl, by simp⟩
  have hm := MachOK_run hc pre h0
  exact restore_total_and_exact hc _ hm body hb r v

/-- The built-ins clause needs no "in sync with the default" hypothesis, and that matters for the live
    package: its pristine state is *not* in sync (the built-in `line_start` follows the default,
    `copyDefaultWhiteChars`, but its `whiteChars` lack `"\n"` because LineStart.__init__ discards it),
    a change of the default inside a context does change that built-in, and leaving the context puts its
    own set back (before /repo e056afa it came back as the full default set: finding
    `unsynced_builtin_whitechars_not_restored`). -/
theorem live_builtins_restored_though_unsynced :
    ¬ Synced liveInit ∧
    (run liveCfg [.enter false, .op (.setDefaultWs " " 0)] ⟨liveInit, [], false, none⟩).st.builtins ≠ liveInit.builtins ∧
    (run liveCfg [.enter false, .op (.setDefaultWs " " 0), .exit false] ⟨liveInit, [], false, none⟩).st.builtins = liveInit.builtins := by
  refine ⟨?_, by decide, by decide⟩
  intro h
  have := h ⟨['\t', '\r', ' '], true, false, false⟩ (by decide) rfl
  revert this
  decide

/-! ## 2. packrat and left recursion refuse to be combined unless `force=True` -/

/-- at most one memoization mode is on -/
def Excl (s : State) : Prop := ¬ (s.packratEnabled = true ∧ s.lrEnabled = true)

instance (s : State) : Decidable (Excl s) := by unfold Excl; infer_instance

theorem Excl_disableMemo (s : State) : Excl (disableMemo s) := by simp [Excl, disableMemo, resetCache]

/-- **packrat_lr_exclusive** (decision logic of the two setters):
    without `force` each refuses (RuntimeError, nothing changed) while the other mode is on;
    with `force` neither raises RuntimeError and the other mode is switched off. -/
theorem packrat_lr_exclusive (s : State) (sz cap : Option Int) :
    (s.lrEnabled = true → enablePackrat sz false s = (s, some .runtime)) ∧
    (s.packratEnabled = true → enableLR cap false s = (s, some .runtime)) ∧
    ((enablePackrat sz true s).2 = none ∧ (enablePackrat sz true s).1.packratEnabled = true ∧
      (enablePackrat sz true s).1.lrEnabled = false) ∧
    ((enableLR cap true s).2 ≠ some .runtime ∧ (enableLR cap true s).1.packratEnabled = false ∧
      ((enableLR cap true s).2 = none → (enableLR cap true s).1.lrEnabled = true)) := by
  refine ⟨?_, ?_, ?_, ?_⟩
  · intro h; simp [enablePackrat, h]
  · intro h; simp [enableLR, h]
  · simp only [enablePackrat, if_true, enablePackratTail, disableMemo, resetCache]
    cases sz <;> simp
  · simp only [enableLR, if_true, enableLRTail, disableMemo, resetCache]
    cases cap with
    | none => simp
    | some n => by_cases hn : n > 0 <;> simp [hn]

example : (enablePackrat (some 8) false (enableLR none false liveInit).1).2 = some .runtime ∧
    (enableLR (some 3) false (enablePackrat none false liveInit).1).2 = some .runtime := by decide

theorem Excl_stepOp (cfg : Cfg) (o : Op) {s : State} (h : Excl s) : Excl (stepOp cfg o s).1 := by
  cases o with
  | enablePackrat sz f r =>
    simp only [stepOp, enablePackrat]
    split
    · simp only [enablePackratTail, disableMemo, resetCache]
      cases sz <;> simp [Excl]
    · split
      · exact h
      · rename_i h1 h2
        simp only [enablePackratTail]
        split
        · exact h
        · cases sz <;> simp_all [Excl]
  | enableLR cap f r =>
    simp only [stepOp, enableLR]
    split
    · simp only [enableLRTail, disableMemo, resetCache]
      cases cap with
      | none => simp [Excl]
      | some n => simp only; split <;> simp [Excl]
    · split
      · exact h
      · rename_i h1 h2
        simp only [enableLRTail]
        cases cap with
        | none => simp_all [Excl]
        | some n => simp only; split <;> simp_all [Excl]
  | disableMemo r => exact Excl_disableMemo s
  | copyExpr i => simp only [stepOp]; split <;> exact h
  | wrapExpr i => simp only [stepOp]; split <;> exact h
  | assignFwd i j => simp only [stepOp]; split <;> exact h
  | newAlt i => simp only [stepOp]; split <;> exact h
  | _ => exact h

/-- a saved context taken while at most one mode was on -/
def SavedExcl (sv : Saved) : Prop := ¬ (sv.packratEnabled = true ∧ sv.lrEnabled = true)

/-- exclusivity of the current state and of every saved context still around -/
structure ExclM (m : Mach) : Prop where
  st : Excl m.st
  frames : ∀ sv ∈ m.stack, SavedExcl sv
  last : ∀ sv, m.last = some sv → SavedExcl sv

theorem ExclM_step {cfg : Cfg} (hc : CfgOK cfg) (c : Cmd) {m : Mach} (hm : MachOK cfg m) (h : ExclM m) :
    ExclM (stepCmd cfg c m).1 := by
  cases c with
  | op o => exact ⟨Excl_stepOp cfg o h.st, h.frames, h.last⟩
  | enter r =>
    simp only [stepCmd, saveRaises_of_WF hm.wf, Bool.false_eq_true, if_false]
    refine ⟨h.st, ?_, ?_⟩
    · intro sv hsv
      simp only [List.mem_cons] at hsv
      rcases hsv with rfl | hsv
      · exact h.st
      · exact h.frames sv hsv
    · intro sv hsv
      cases r with
      | true => simp at hsv
      | false => exact h.last sv (by simpa using hsv)
  | exit v =>
    simp only [stepCmd]
    cases hstk : m.stack with
    | nil => exact h
    | cons sv rest =>
      simp only
      have hsv := h.frames sv (by rw [hstk]; simp)
      obtain ⟨s0, hs0, rfl⟩ := hm.frames sv (by rw [hstk]; simp)
      rw [restore_raw hc hs0 hm.wf]
      refine ⟨hsv, ?_, ?_⟩
      · intro sv' hsv'
        exact h.frames sv' (by rw [hstk]; exact List.mem_cons_of_mem _ hsv')
      · intro sv' hsv'
        simp only [Option.some.injEq] at hsv'
        subst hsv'
        exact hsv
  | restoreLast =>
    simp only [stepCmd]
    cases hl : m.last with
    | none => exact h
    | some sv =>
      simp only
      have hsv := h.last sv hl
      obtain ⟨s0, hs0, rfl⟩ := hm.lastOK sv hl
      rw [restore_raw hc hs0 hm.wf]
      exact ⟨hsv, h.frames, fun sv' hsv' => h.last sv' (by simpa [hl] using hsv')⟩

/-- **the two modes are never on together**, whatever is done — setters with or without `force`,
    contexts entered, re-entered, left (directly or through a copy) and restored again in any order
    (well nested or not) — starting from any reachable machine whose state and saved contexts are exclusive -/
theorem packrat_lr_never_both {cfg : Cfg} (hc : CfgOK cfg) : ∀ (cs : List Cmd) (m : Mach), MachOK cfg m →
    ExclM m → Excl (run cfg cs m).st
  | [], _, _, h => h.st
  | c :: cs, _, hm, h => packrat_lr_never_both hc cs _ (MachOK_step hc c hm) (ExclM_step hc c hm h)

/-- `_parse` is the caching parse function exactly while packrat is flagged enabled — after any
    command sequence (so `disable_memoization` / `force=True` really switch the packrat mechanism off,
    and "packrat off" in `packrat_lr_never_both` means the cache is not consulted) -/
theorem parse_selector_follows_packrat {cfg : Cfg} (hc : CfgOK cfg) (cs : List Cmd) (m : Mach)
    (hm : MachOK cfg m) :
    ((run cfg cs m).st.parseSel = .cache ↔ (run cfg cs m).st.packratEnabled = true) :=
  have h := (MachOK_run hc cs hm).wf
  ⟨h.sel, fun hp => (h.cache hp).1⟩

/-- for the live package: never both, on any command sequence after import -/
theorem live_packrat_lr_never_both (cs : List Cmd) : Excl (run liveCfg cs ⟨liveInit, [], false, none⟩).st :=
  packrat_lr_never_both ⟨by decide, by decide, by decide⟩ cs _
    ⟨⟨by decide, by decide, by decide, by decide⟩, by simp, rfl, by simp⟩ ⟨by decide, by simp, by simp⟩

/-! ## 3. `enable_packrat` is idempotent -/

/-- calling `enable_packrat` (any size, no `force`) while packrat is already on changes nothing — not
    the cache object, not its size — and does not raise -/
theorem enablePackrat_idempotent (s : State) (sz : Option Int) (hp : s.packratEnabled = true)
    (hl : s.lrEnabled = false) : enablePackrat sz false s = (s, none) := by
  simp [enablePackrat, enablePackratTail, hp, hl]

/-- so a second call after a successful first one is a no-op, whatever size it asks for -/
theorem enablePackrat_twice (s : State) (sz sz' : Option Int) (hl : s.lrEnabled = false) :
    enablePackrat sz' false (enablePackrat sz false s).1 = ((enablePackrat sz false s).1, none) := by
  have h : enablePackrat sz false s = (enablePackratTail sz s, none) := by simp [enablePackrat, hl]
  rw [h]
  apply enablePackrat_idempotent
  · unfold enablePackratTail
    split
    · assumption
    · cases sz <;> rfl
  · unfold enablePackratTail
    split
    · exact hl
    · cases sz <;> simp [hl]

example : (enablePackrat (some 5) false (enablePackrat (some 64) false liveInit).1).1.cache
    = ⟨2, .fifo 64⟩ := by decide

/-! ## 4. scope of `set_default_whitespace_chars` (attribute level) -/

/-- the user's own changes to one of his expressions: `e.set_whitespace_chars(...)`, `fwd <<= e`,
    `e.leave_whitespace()`, `e.ignore_whitespace()` -/
def Cmd.isExprSetWs : Cmd → Bool
  | .op (.exprSetWs _ _ _) => true
  | .op (.assignFwd _ _) => true
  | .op (.leaveWs _) => true
  | .op (.ignoreWs _) => true
  | _ => false

/-- no setting change and no context entry/exit touches an existing user expression: the user
    expressions that existed before are still there, unchanged, in the same order (new ones are
    appended) — unless the user calls `set_whitespace_chars` / `leave_whitespace` / `ignore_whitespace` on
    one or assigns to a `Forward` himself -/
theorem users_untouched {cfg : Cfg} (hc : CfgOK cfg) : ∀ (cs : List Cmd) (m : Mach), MachOK cfg m →
    (∀ c ∈ cs, c.isExprSetWs = false) → ∃ ext, (run cfg cs m).st.users = m.st.users ++ ext
  | [], m, _, _ => ⟨[], by simp [run]⟩
  | c :: cs, m, hm, hcs => by
    simp only [run]
    have hm' := MachOK_step hc c hm
    obtain ⟨ext, hext⟩ := users_untouched hc cs _ hm' (fun c' hc' => hcs c' (List.mem_cons_of_mem _ hc'))
    suffices h : ∃ e1, (stepCmd cfg c m).1.st.users = m.st.users ++ e1 by
      obtain ⟨e1, he1⟩ := h
      exact ⟨e1 ++ ext, by rw [hext, he1, List.append_assoc]⟩
    cases c with
    | op o =>
      simp only [stepCmd]
      apply stepOp_users
      · intro i ch cd ho
        have := hcs _ (List.mem_cons_self)
        simp [ho, Cmd.isExprSetWs] at this
      · intro i j ho
        have := hcs _ (List.mem_cons_self)
        simp [ho, Cmd.isExprSetWs] at this
      · intro i ho
        have := hcs _ (List.mem_cons_self)
        simp [ho, Cmd.isExprSetWs] at this
      · intro i ho
        have := hcs _ (List.mem_cons_self)
        simp [ho, Cmd.isExprSetWs] at this
    | enter r =>
      exact ⟨[], by simp [stepCmd, saveRaises_of_WF hm.wf]⟩
    | exit v =>
      simp only [stepCmd]
      cases hstk : m.stack with
      | nil => exact ⟨[], by simp⟩
      | cons sv rest =>
        obtain ⟨s0, hs0, rfl⟩ := hm.frames sv (by rw [hstk]; simp)
        simp only
        rw [restore_raw hc hs0 hm.wf]
        exact ⟨[], by simp [restoredState]⟩
    | restoreLast =>
      simp only [stepCmd]
      cases hl : m.last with
      | none => exact ⟨[], by simp⟩
      | some sv =>
        obtain ⟨s0, hs0, rfl⟩ := hm.lastOK sv hl
        simp only
        rw [restore_raw hc hs0 hm.wf]
        exact ⟨[], by simp [restoredState]⟩

/-- **default_ws_scope_partial.**  `set_default_whitespace_chars(c)`
    (a) gives expressions created afterwards the set `set(c)`;
    (b) gives *copies* made afterwards `set(c)` iff the original follows the default
        (`copyDefaultWhiteChars`), else the original's own set;
    (c) sets every built-in that follows the default to `set(c)` and leaves the other built-ins alone;
    (d) does not change any existing user expression (see `users_untouched` for arbitrary sequences);
    (e) a *composite* (`And`, `Group`/`Opt`/... wrappers) built afterwards over an existing expression
        inherits that expression's set, `copyDefaultWhiteChars` and `skipWhitespace` flags, not the new default
        (`MatchFirst`/`Or` take only `skipWhitespace` over: `newAlt`, see `alt_ws_scope`);
    for `Forward`s see `forward_ws_scope_partial`.
    PARTIAL: the statement is about the attributes `whiteChars`/`copyDefaultWhiteChars`, which is all the
    setter touches; that these attributes determine which characters an expression actually skips, and
    how composites inherit them from their first sub-expression, is not modelled — it is checked on the
    real parser by the oracle (`ws-behaviour` stream). -/
theorem default_ws_scope_partial (cfg : Cfg) (c : String) (s : State) :
    (stepOp cfg .newExpr (setDefaultWs c s)).1.users = s.users ++ [⟨pySet c, true, false, true⟩] ∧
    (∀ e : Expr, e.fwdEmpty = false →
      copyExpr (setDefaultWs c s) e = if e.copyDef then { e with ws := pySet c } else e) ∧
    (∀ e ∈ (setDefaultWs c s).builtins, e.copyDef = true → e.ws = pySet c) ∧
    BRelL s.builtins (setDefaultWs c s).builtins ∧
    (setDefaultWs c s).users = s.users ∧
    (∀ i e, s.users[i]? = some e →
      (stepOp cfg (.wrapExpr i) (setDefaultWs c s)).1.users = s.users ++ [⟨e.ws, e.copyDef, false, e.skip⟩]) := by
  refine ⟨rfl, ?_, ?_, ?_, rfl, ?_⟩
  rotate_left 3
  · intro i e he
    have : (setDefaultWs c s).users[i]? = some e := he
    simp only [stepOp, this, wrapExpr]
    rfl
  · intro e he
    simp [copyExpr, setDefaultWs, he]
  · exact Synced_setDefaultWs c s
  · exact BRel_setDefaultWs c s.builtins s.builtins (BRel_refl _)

/-- **forward_ws_scope_partial** (the `Forward` clauses of the same statement).
    (a) `fwd <<= e` gives the Forward `e`'s whitespace set *and* `e`'s `copyDefaultWhiteChars` and `skipWhitespace` flags
        (nothing else among the user expressions changes);
    (b) hence a copy (`copy()`, `fwd()`, `fwd("name")`) of an assigned Forward made after
        `set_default_whitespace_chars(c)` has `set(c)` iff the assigned expression follows the default —
        in particular always when it was built from ordinary leaves/composites without own whitespace;
    (c) a `Forward()` created afterwards has `set(c)`;
    (d) the copy of a *not yet assigned* Forward is a new Forward assigned to the original: it takes over
        the original's set and flag (no re-read of the default).
    PARTIAL in the same sense as `default_ws_scope_partial` (attributes; skipping is oracle-checked). -/
theorem forward_ws_scope_partial (cfg : Cfg) (c : String) (s : State) (i j : Nat) (src : Expr)
    (hj : s.users[j]? = some src) :
    (stepOp cfg (.assignFwd i j) s).1.users
      = modifyNth (fun _ => ⟨src.ws, src.copyDef, false, src.skip⟩) i s.users ∧
    (src.copyDef = true →
      copyExpr (setDefaultWs c (stepOp cfg (.assignFwd i j) s).1) ⟨src.ws, src.copyDef, false, src.skip⟩
        = ⟨pySet c, true, false, src.skip⟩) ∧
    (src.copyDef = false →
      copyExpr (setDefaultWs c (stepOp cfg (.assignFwd i j) s).1) ⟨src.ws, src.copyDef, false, src.skip⟩
        = ⟨src.ws, false, false, src.skip⟩) ∧
    (stepOp cfg .newFwd (setDefaultWs c s)).1.users = s.users ++ [⟨pySet c, true, true, true⟩] ∧
    (∀ e : Expr, e.fwdEmpty = true → copyExpr (setDefaultWs c s) e = ⟨e.ws, e.copyDef, false, e.skip⟩) := by
  refine ⟨?_, ?_, ?_, rfl, ?_⟩
  · simp only [stepOp, hj, wrapExpr]
  · intro h
    simp [copyExpr, setDefaultWs, h]
  · intro h
    simp [copyExpr, h]
  · intro e he
    simp [copyExpr, he, wrapExpr]

example :
    let s0 := (stepOp liveCfg .newFwd (stepOp liveCfg .newExpr liveInit).1).1
    let s1 := (stepOp liveCfg (.assignFwd 1 0) s0).1
    let s2 := (stepOp liveCfg (.copyExpr 1) (setDefaultWs " " s1)).1
    s2.users = [⟨['\t', '\n', '\r', ' '], true, false, true⟩, ⟨['\t', '\n', '\r', ' '], true, false, true⟩,
                ⟨[' '], true, false, true⟩] := by decide

/-- corollary of `restore_total_and_exact`: an expression built right after a context has been left gets
    the whitespace set of the default that was in force when the context was entered -/
theorem new_expr_after_exit {cfg : Cfg} (hc : CfgOK cfg) (m : Mach) (hm : MachOK cfg m)
    (body : List Cmd) (hb : Balanced body) (r v : Bool) :
    newExpr (run cfg (.enter r :: body ++ [.exit v]) m).st = newExpr m.st := by
  have h := (restore_total_and_exact hc m hm body hb r v).2.2.1
  have hw : (run cfg (.enter r :: body ++ [.exit v]) m).st.defaultWs = m.st.defaultWs := by
    have := congrArg Obs.defaultWs h
    simpa [obs] using this
  unfold newExpr
  rw [hw]

example :
    let s := (stepOp liveCfg (.exprSetWs 0 "ab" false) (stepOp liveCfg .newExpr liveInit).1).1
    let s' := (stepOp liveCfg (.copyExpr 0) (stepOp liveCfg .newExpr (setDefaultWs "x" s)).1).1
    s'.users = [⟨['a', 'b'], false, false, true⟩, ⟨['x'], true, false, true⟩, ⟨['a', 'b'], false, false, true⟩] := by
  decide

/-! ## 5. `leave_whitespace` / `ignore_whitespace`: the default reaches copies whatever the skip flag -/

/-- `leave_whitespace()` / `ignore_whitespace()` on a user expression change nothing but that expression's
    `skipWhitespace` flag: no setting, no built-in, no other user expression, and not the expression's own
    `whiteChars` / `copyDefaultWhiteChars` (so it keeps following — or not following — the default). -/
theorem leave_ignore_only_flag (cfg : Cfg) (s : State) (i : Nat) :
    stepOp cfg (.leaveWs i) s = ({ s with users := modifyNth (fun e => { e with skip := false }) i s.users }, none) ∧
    stepOp cfg (.ignoreWs i) s = ({ s with users := modifyNth (fun e => { e with skip := true }) i s.users }, none) :=
  ⟨rfl, rfl⟩

/-- **copy_ws_whatever_skip.**  A copy (`copy()`, `expr()`, `expr("name")`, `set_results_name`) made while the
    default whitespace is `s.defaultWs`:
    (a) has `set(default)` if the source follows the default (`copyDefaultWhiteChars`), else the source's own
        set — nothing else is consulted, in particular not `skipWhitespace`;
    (b) hence has `set(default)` **iff** the source follows the default (or happens to have that set already);
    (c) keeps the source's `skipWhitespace` and `copyDefaultWhiteChars`;
    (d) copying commutes with `leave_whitespace()` / `ignore_whitespace()`: the copy of a `leave_whitespace()`d
        expression is the `leave_whitespace()`d copy — its `whiteChars` are those any copy made now gets, so
        switching skipping back on later (`ignore_whitespace()`) skips the default in force when the copy was
        made (this also holds for the copy of an unassigned `Forward`). -/
theorem copy_ws_whatever_skip (s : State) (e : Expr) :
    (e.fwdEmpty = false → (copyExpr s e).ws = (if e.copyDef then pySet s.defaultWs else e.ws)) ∧
    (e.fwdEmpty = false →
      ((copyExpr s e).ws = pySet s.defaultWs ↔ (e.copyDef = true ∨ e.ws = pySet s.defaultWs))) ∧
    (copyExpr s e).skip = e.skip ∧ (copyExpr s e).copyDef = e.copyDef ∧
    copyExpr s (exprLeaveWs e) = exprLeaveWs (copyExpr s e) ∧
    copyExpr s (exprIgnoreWs e) = exprIgnoreWs (copyExpr s e) := by
  refine ⟨?_, ?_, ?_, ?_, ?_, ?_⟩
  · intro h; by_cases hc : e.copyDef = true <;> simp [copyExpr, h, hc]
  · intro h
    by_cases hc : e.copyDef = true
    · simp [copyExpr, h, hc]
    · simp [copyExpr, h, hc]
  · by_cases h : e.fwdEmpty = true <;> by_cases hc : e.copyDef = true <;> simp [copyExpr, wrapExpr, h, hc]
  · by_cases h : e.fwdEmpty = true <;> by_cases hc : e.copyDef = true <;> simp [copyExpr, wrapExpr, h, hc]
  · by_cases h : e.fwdEmpty = true <;> by_cases hc : e.copyDef = true <;>
      simp [copyExpr, wrapExpr, exprLeaveWs, h, hc]
  · by_cases h : e.fwdEmpty = true <;> by_cases hc : e.copyDef = true <;>
      simp [copyExpr, wrapExpr, exprIgnoreWs, h, hc]

/-- **behaviour = attributes** for a plain element (the whitespace part of `preParse`, core.py:800-812):
    nothing is skipped unless `skipWhitespace`; with `skipWhitespace` exactly the longest prefix of characters of
    `whiteChars` is skipped (every skipped character is in the set, the next one is not). -/
theorem preParseWs_spec (e : Expr) (inp : List Char) :
    (e.skip = false → preParseWs e inp = inp) ∧
    (e.skip = true → ∃ pre, inp = pre ++ preParseWs e inp ∧ (∀ ch ∈ pre, ch ∈ e.ws) ∧
      (∀ ch rest, preParseWs e inp = ch :: rest → ch ∉ e.ws)) := by
  constructor
  · intro h; simp [preParseWs, h]
  · intro h
    obtain ⟨pre, h1, h2, h3⟩ := dropWhile_spec (fun ch => e.ws.contains ch) inp
    refine ⟨pre, by simpa [preParseWs, h] using h1, ?_, ?_⟩
    · intro ch hch; simpa using h2 ch hch
    · intro ch rest hr
      have := h3 ch rest (by simpa [preParseWs, h] using hr)
      simpa using this

/-- the whitespace set of an expression that took `set(c)` has exactly the characters of the string `c` -/
theorem mem_ws_of_default (c : String) (x : Char) : x ∈ pySet c ↔ x ∈ c.toList := mem_pySet x c

/-- **leave → default change → copy → ignore** (the history of seeded change C19-4), for every state, every
    user expression `i` that follows the default and every new default `c`:
    `users[i].leave_whitespace(); set_default_whitespace_chars(c); cpy = users[i].copy(); cpy.ignore_whitespace()`
    leaves the original as it was except for its flag, and the copy skips exactly the characters of `c`:
    its attributes are `(set(c), copyDefaultWhiteChars, skipWhitespace)`, so by `preParseWs_spec` its `preParse`
    removes the longest prefix of characters of `c`. -/
theorem leave_copy_ignore_follows_default (cfg : Cfg) (c : String) (s : State) (i : Nat) (e : Expr)
    (hi : s.users[i]? = some e) (hcd : e.copyDef = true) (hf : e.fwdEmpty = false) :
    let s' := (run cfg [.op (.leaveWs i), .op (.setDefaultWs c 0), .op (.copyExpr i),
                         .op (.ignoreWs s.users.length)] ⟨s, [], false, none⟩).st
    s'.users = modifyNth exprLeaveWs i s.users ++ [⟨pySet c, true, false, true⟩] ∧
    s'.defaultWs = c ∧
    (∀ inp, preParseWs ⟨pySet c, true, false, true⟩ inp = inp.dropWhile (fun ch => c.toList.contains ch)) := by
  have hlen : i < s.users.length := by
    rcases Nat.lt_or_ge i s.users.length with h | h
    · exact h
    · rw [List.getElem?_eq_none h] at hi; cases hi
  have hmod : ∀ (l : List Expr) (k : Nat) (x : Expr), l[k]? = some x →
      (modifyNth exprLeaveWs k l)[k]? = some (exprLeaveWs x) := by
    intro l
    induction l with
    | nil => intro k x h; simp at h
    | cons a l ih =>
      intro k x h
      cases k with
      | zero => simp only [List.getElem?_cons_zero, Option.some.injEq] at h; subst h; simp [modifyNth]
      | succ k => simp only [List.getElem?_cons_succ] at h; simpa [modifyNth] using ih k x h
  have hmlen : ∀ (l : List Expr) (k : Nat) (f : Expr → Expr), (modifyNth f k l).length = l.length := by
    intro l
    induction l with
    | nil => intro k f; cases k <;> rfl
    | cons a l ih => intro k f; cases k <;> simp [modifyNth, ih]
  have hlast : ∀ (l : List Expr) (x : Expr) (f : Expr → Expr), modifyNth f l.length (l ++ [x]) = l ++ [f x] := by
    intro l
    induction l with
    | nil => intro x f; rfl
    | cons a l ih => intro x f; simp [modifyNth, ih]
  have h1 := hmod s.users i e hi
  refine ⟨?_, ?_, ?_⟩
  · simp only [run, stepCmd, stepOp, setDefaultWs, h1]
    have := hlast (modifyNth exprLeaveWs i s.users) (copyExpr { s with
      defaultWs := c
      builtins := s.builtins.map (fun e => if e.copyDef then { e with ws := pySet c } else e)
      users := modifyNth exprLeaveWs i s.users } (exprLeaveWs e)) exprIgnoreWs
    rw [hmlen] at this
    rw [this]
    simp [copyExpr, exprLeaveWs, exprIgnoreWs, hcd, hf]
  · simp only [run, stepCmd, stepOp, setDefaultWs, h1]
  · intro inp
    simp only [preParseWs, if_true]
    congr 1
    funext ch
    have := mem_pySet ch c
    by_cases h : ch ∈ c.toList <;> simp_all

example :
    let s := (stepOp liveCfg .newExpr liveInit).1
    (run liveCfg [.op (.leaveWs 0), .op (.setDefaultWs " \t" 0), .op (.copyExpr 0), .op (.ignoreWs 1)]
      ⟨s, [], false, none⟩).st.users
      = [⟨['\t', '\n', '\r', ' '], true, false, false⟩, ⟨['\t', ' '], true, false, true⟩] ∧
    preParseWs ⟨['\t', ' '], true, false, true⟩ "\n  abc".toList = "\n  abc".toList ∧
    preParseWs ⟨['\t', ' '], true, false, true⟩ " \t abc".toList = "abc".toList ∧
    preParseWs ⟨['\t', ' '], true, false, false⟩ " \t abc".toList = " \t abc".toList := by decide

/-- **across a context**: after `with reset_pyparsing_context(): body` (any well-nested `body`), a copy of *any*
    expression that follows the default — built before, or inside the block under another default, skipping or
    `leave_whitespace()`d — gets the whitespace set of the default that was in force on entry; nothing of the
    setting inside the block survives in copies made after it. -/
theorem copy_after_exit_follows_entry_default {cfg : Cfg} (hc : CfgOK cfg) (m : Mach) (hm : MachOK cfg m)
    (body : List Cmd) (hb : Balanced body) (r v : Bool) (e : Expr) (hf : e.fwdEmpty = false)
    (hcd : e.copyDef = true) :
    copyExpr (run cfg (.enter r :: body ++ [.exit v]) m).st e = { e with ws := pySet m.st.defaultWs } := by
  have h := (restore_total_and_exact hc m hm body hb r v).2.2.1
  have hw : (run cfg (.enter r :: body ++ [.exit v]) m).st.defaultWs = m.st.defaultWs := by
    have := congrArg Obs.defaultWs h
    simpa [obs] using this
  simp only [List.cons_append] at hw
  simp [copyExpr, hf, hcd, hw]

/-- non-vacuity / the second half of the C19-4 demo: an expression built and `leave_whitespace()`d inside a block
    that set the default to `" \t"`; copied after the block and told to skip again, it skips the entry default -/
example :
    (run liveCfg [.enter false, .op (.setDefaultWs " \t" 0), .op .newExpr, .op (.leaveWs 0), .exit false,
                  .op (.copyExpr 0), .op (.ignoreWs 1)] ⟨liveInit, [], false, none⟩).st.users
      = [⟨['\t', ' '], true, false, false⟩, ⟨['\t', '\n', '\r', ' '], true, false, true⟩] := by decide

/-- `MatchFirst` / `Or` over an existing expression: whitespace set and `copyDefaultWhiteChars` of a new element
    (current default), `skipWhitespace` of the alternative -/
theorem alt_ws_scope (cfg : Cfg) (c : String) (s : State) (i : Nat) (e : Expr) (hi : s.users[i]? = some e) :
    (stepOp cfg (.newAlt i) (setDefaultWs c s)).1.users = s.users ++ [⟨pySet c, true, false, e.skip⟩] := by
  have : (setDefaultWs c s).users[i]? = some e := hi
  simp only [stepOp, this, newAlt]
  rfl

example : (stepOp liveCfg (.newAlt 0) (stepOp liveCfg (.leaveWs 0) (stepOp liveCfg .newExpr liveInit).1).1).1.users
    = [⟨['\t', '\n', '\r', ' '], true, false, false⟩, ⟨['\t', '\n', '\r', ' '], true, false, false⟩] := by decide

/-! ## 6. a setting is ONE cell read by all classes: the route of a setter call is irrelevant -/

/-- **route_irrelevant.**  `set_default_whitespace_chars`, `set_default_keyword_chars`, `inline_literals_using`,
    `enable_packrat`, `enable_left_recursion`, `disable_memoization`, `reset_cache` are staticmethods that assign to
    the base class by name; called through any class of the hierarchy, an instance, or the camelCase synonym
    (route `r`), they produce the same state and the same exception. -/
theorem route_irrelevant (cfg : Cfg) (o : Op) (r : Nat) (s : State) :
    stepOp cfg (o.withRoute r) s = stepOp cfg o s := by
  cases o <;> rfl

/-- two command sequences that differ only in the routes of their setter calls -/
inductive Rerouted : List Cmd → List Cmd → Prop
  | nil : Rerouted [] []
  | same (c : Cmd) {cs cs' : List Cmd} : Rerouted cs cs' → Rerouted (c :: cs) (c :: cs')
  | op (o : Op) (r : Nat) {cs cs' : List Cmd} : Rerouted cs cs' → Rerouted (.op o :: cs) (.op (o.withRoute r) :: cs')

/-- whole histories: the machine (settings, built-ins, user expressions, saved contexts) after a history does not
    depend on the routes through which its setters were called -/
theorem run_route_irrelevant (cfg : Cfg) {cs cs' : List Cmd} (h : Rerouted cs cs') (m : Mach) :
    run cfg cs m = run cfg cs' m := by
  induction h generalizing m with
  | nil => rfl
  | same c _ ih => simp only [run]; exact ih _
  | op o r _ ih =>
    simp only [run]
    have : stepCmd cfg (.op (o.withRoute r)) m = stepCmd cfg (.op o) m := by
      simp only [stepCmd, route_irrelevant]
    rw [this]
    exact ih _

example : Rerouted
    [.enter false, .op (.setKwChars "abc" 0), .op (.enablePackrat none true 0), .exit false]
    [.enter false, .op (.setKwChars "abc" 3), .op (.enablePackrat none true 7), .exit false] :=
  .same _ (.op (.setKwChars "abc" 0) 3 (.op (.enablePackrat none true 0) 7 (.same _ .nil)))

theorem enablePackratTail_shadows (sz : Option Int) (s : State) : (enablePackratTail sz s).shadows = s.shadows := by
  unfold enablePackratTail
  split
  · rfl
  · cases sz <;> rfl

theorem enableLRTail_shadows (cap : Option Int) (s : State) : (enableLRTail cap s).1.shadows = s.shadows := by
  unfold enableLRTail
  cases cap with
  | none => rfl
  | some n => simp only; split <;> rfl

/-- no operation gives a subclass an own copy of a setting attribute -/
theorem stepOp_shadows (cfg : Cfg) (o : Op) (s : State) : (stepOp cfg o s).1.shadows = s.shadows := by
  cases o with
  | enablePackrat sz f r =>
    simp only [stepOp, enablePackrat]
    split
    · exact enablePackratTail_shadows sz (disableMemo s)
    · split
      · rfl
      · exact enablePackratTail_shadows sz s
  | enableLR cap f r =>
    simp only [stepOp, enableLR]
    split
    · exact enableLRTail_shadows cap (disableMemo s)
    · split
      · rfl
      · exact enableLRTail_shadows cap s
  | copyExpr i => simp only [stepOp]; split <;> rfl
  | wrapExpr i => simp only [stepOp]; split <;> rfl
  | assignFwd i j => simp only [stepOp]; split <;> rfl
  | newAlt i => simp only [stepOp]; split <;> rfl
  | _ => rfl

/-- **shadows_never_created.**  Whatever is done through the modelled API (any setters through any routes, contexts
    entered / left / restored again in any order), the set of classes with a class-local copy of a setting
    attribute stays what it was -/
theorem shadows_never_created {cfg : Cfg} (hc : CfgOK cfg) : ∀ (cs : List Cmd) {m : Mach}, MachOK cfg m →
    (run cfg cs m).st.shadows = m.st.shadows
  | [], _, _ => rfl
  | c :: cs, m, hm => by
    simp only [run]
    rw [shadows_never_created hc cs (MachOK_step hc c hm)]
    cases c with
    | op o => simp only [stepCmd]; exact stepOp_shadows cfg o m.st
    | enter r => simp only [stepCmd, saveRaises_of_WF hm.wf, Bool.false_eq_true, if_false]
    | exit v =>
      simp only [stepCmd]
      cases hstk : m.stack with
      | nil => rfl
      | cons sv rest =>
        simp only
        obtain ⟨s0, hs0, rfl⟩ := hm.frames sv (by rw [hstk]; simp)
        rw [restore_raw hc hs0 hm.wf]
        rfl
    | restoreLast =>
      simp only [stepCmd]
      cases hl : m.last with
      | none => rfl
      | some sv =>
        simp only
        obtain ⟨s0, hs0, rfl⟩ := hm.lastOK sv hl
        rw [restore_raw hc hs0 hm.wf]
        rfl

/-- **one cell for the live package**: after import no subclass has an own copy of a setting attribute (generated
    fact `liveShadows`), so after *any* history every class of the hierarchy reads exactly the settings of the base
    class — `CaselessKeyword.DEFAULT_KEYWORD_CHARS` is `Keyword.DEFAULT_KEYWORD_CHARS`, `Word._packratEnabled` is
    `ParserElement._packratEnabled`, ... -/
theorem live_one_cell (cs : List Cmd) (cls : String) :
    classView cls (run liveCfg cs ⟨liveInit, [], false, none⟩).st
      = some (obs (run liveCfg cs ⟨liveInit, [], false, none⟩).st) := by
  have hc : CfgOK liveCfg := ⟨by decide, by decide, by decide⟩
  have h0 : MachOK liveCfg ⟨liveInit, [], false, none⟩ :=
    ⟨⟨by decide, by decide, by decide, by decide⟩, by simp, rfl, by simp⟩
  have hs := shadows_never_created hc cs h0
  have hl : liveInit.shadows = [] := by decide
  simp only [classView, hs, hl, List.any_nil, Bool.false_eq_true, if_false]

/-- **restore_every_class_view.**  Leaving a context restores the settings *as seen from every class*: for any
    reachable machine, any well-nested body (setters through any routes) and any class, what the class reads after
    the block is what it read on entry. -/
theorem restore_every_class_view {cfg : Cfg} (hc : CfgOK cfg) (m : Mach) (hm : MachOK cfg m)
    (body : List Cmd) (hb : Balanced body) (r v : Bool) (cls : String) :
    classView cls (run cfg (.enter r :: body ++ [.exit v]) m).st = classView cls m.st := by
  have ho := (restore_total_and_exact hc m hm body hb r v).2.2.1
  have hs := shadows_never_created hc (.enter r :: body ++ [.exit v]) hm
  simp only [classView, hs, ho]

/-- the C19-5 history: the keyword characters changed through `CaselessKeyword` (route 1) inside a block, and through
    `Keyword` in a nested one; afterwards every class reads the entry value again -/
example :
    let m := run liveCfg [.enter false, .op (.setKwChars "abc" 1), .enter false, .op (.setKwChars "xyz" 0), .exit false]
      ⟨liveInit, [], false, none⟩
    (obs m.st).kwChars = "abc" ∧ classView "CaselessKeyword" m.st = some (obs m.st) ∧
    classView "CaselessKeyword" (run liveCfg [.exit false] m).st = some (obs liveInit) := by
  decide +kernel

end PP.Settings
