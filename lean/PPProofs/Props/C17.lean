import PPProofs.Lemmas.WordPaths
import PPProofs.Lemmas.Literal
import PPProofs.Lemmas.Ranges
import PPProofs.Lemmas.OneOf
import PPProofs.Lemmas.OneOfCaseless
import PPProofs.Lemmas.CompressedRe
import PPProofs.Lemmas.RoundTrip
import PPProofs.Lemmas.WordTwin
import PPProofs.Lemmas.WordKeyword
/-!
# C17 — alternative matching strategies for the same element are equivalent

Models (`PPModel/Mod`): `WordPaths` (Word.__init__, both parseImpl's, Literal variants), `OneOf`,
`CompressedRe`, `Ranges` (_collapse_string_to_ranges, _escape_regex_range_chars, srange), `ReLite`
(the regex fragment: AST, `render` to pattern text, `parse`, backtracking matcher `ends`/`matchAt`/`fullMatch`).

All statements quantify over ALL constructor arguments, inputs and positions; nothing is bounded.
Regex statements are about the ReLite semantics of the AST whose `render` is the text pyparsing
generates (text equality and the `parse ∘ render` round trip are checked per generated case on
every run; for character classes the text level is proved here: `ranges_text`, `escaped_class_text`).
-/
namespace PP.C17
open PP.ReLite PP.Ranges PP.WordPaths PP.OneOf PP.CompressedRe

/-! ## Word -/

/-- the declarative reading of the constructed Word: an initial character, then the longest run of
    body characters, capped at `maxLen`, failing below `minLen` (`WordPaths.wordSpec`) -/
def specOf (w : Word) (s : List Char) (loc : Nat) : Option Nat :=
  wordSpec w.initSet.contains w.bodySet.contains w.minLen w.maxLen s loc

/-- which characters the constructed Word uses. The second clause shows the constructor quirk
    (finding word_exclude_all_body): when `exclude_chars` removes every body character the body silently
    becomes the initial set. -/
theorem word_sets (a : WordArgs) (w : Word) (h : mkWord a = some w) (c : Char) :
    (c ∈ w.initSet ↔ c ∈ a.init ∧ c ∉ a.excl) ∧
    ((∃ d ∈ a.body, d ∉ a.excl) → (c ∈ w.bodySet ↔ c ∈ a.body ∧ c ∉ a.excl)) ∧
    ((∀ d ∈ a.body, d ∈ a.excl) → w.bodySet = w.initSet) := by
  obtain ⟨hi, hb, -⟩ := mkWord_facts a w h
  have hrm : ∀ (l : List Char) x, x ∈ removeAll l a.excl ↔ x ∈ l ∧ x ∉ a.excl := by
    intro l x; simp [removeAll]
  have hba : ∀ x, x ∈ bodyArg a ↔ x ∈ a.body ∧ x ∉ a.excl := by
    intro x
    unfold bodyArg
    split
    · exact hrm _ x
    · rename_i hc
      simp only [Bool.and_eq_true, Bool.not_eq_eq_eq_not, Bool.not_true, not_and,
        Bool.not_eq_false] at hc
      by_cases he : a.excl.isEmpty = true
      · have : a.excl = [] := by simpa using he
        simp [this]
      · have he' : a.excl.isEmpty = false := by simpa using he
        have hb0 : a.body.isEmpty = true := hc he'
        have : a.body = [] := by simpa using hb0
        simp [this]
  refine ⟨?_, ?_, ?_⟩
  · rw [hi]; unfold initSetOf; rw [mem_sortU]
    split
    · rename_i he
      have : a.excl = [] := by simpa using he
      simp [this]
    · exact hrm _ c
  · rintro ⟨d, hd1, hd2⟩
    rw [hb]; unfold bodySetOf
    have : (bodyArg a).isEmpty = false := by
      cases hba' : bodyArg a with
      | nil => have := (hba d).mpr ⟨hd1, hd2⟩; rw [hba'] at this; cases this
      | cons x xs => rfl
    rw [this]; simp only [Bool.false_eq_true, if_false]
    rw [mem_sortU]; exact hba c
  · intro hall
    rw [hb, hi]; unfold bodySetOf
    have : (bodyArg a).isEmpty = true := by
      cases hba' : bodyArg a with
      | nil => rfl
      | cons x xs =>
        have := (hba x).mp (by rw [hba']; simp)
        exact absurd (hall x this.1) this.2
    rw [this]; rfl

/-- **complete description of `Word.parseImpl`** (as_keyword off): the spec, except that when `max` was
    given and the character after the capped run is another body character, it fails (strict max). -/
theorem word_slow_char (a : WordArgs) (w : Word) (h : mkWord a = some w) (hkw : a.asKeyword = false)
    (s : List Char) (loc : Nat) :
    slowPath w s loc =
      match specOf w s loc with
      | some e => if w.maxSpecified && charIn w.bodySet s e then none else some e
      | none => none := by
  obtain ⟨-, -, -, hml, -, -, hk, -⟩ := mkWord_facts a w h
  apply slowPath_char w s loc
  · intro m hm
    rw [hml] at hm; unfold maxLenOf at hm
    split at hm
    · injection hm with hm; omega
    · cases hm
  · rw [hk]; exact hkw

/-- **complete description of `Word.parseImpl` for every flag combination** (incl. as_keyword): the spec,
    then the strict-max test, then the as_keyword test — which looks at *body characters* on both sides
    (the regex path uses `\b` instead: finding word_askeyword_paths). -/
theorem word_slow_full (a : WordArgs) (w : Word) (h : mkWord a = some w) (s : List Char) (loc : Nat) :
    slowPath w s loc =
      match specOf w s loc with
      | some e =>
          if w.maxSpecified && charIn w.bodySet s e then none
          else if w.asKeyword &&
              ((decide (loc > 0) && charIn w.bodySet s (loc - 1)) || charIn w.bodySet s e) then none
          else some e
      | none => none := by
  obtain ⟨-, -, -, hml, -, -, -, -⟩ := mkWord_facts a w h
  apply slowPath_full w s loc
  intro m hm
  rw [hml] at hm; unfold maxLenOf at hm
  split at hm
  · injection hm with hm; omega
  · cases hm

/-- **word_slow_spec**: `Word.parseImpl` = "longest run init·body*, capped at max, fail below min",
    under exactly the hypotheses the proof forces: as_keyword off, and either `max` not given or the
    character after the capped run is not a body character. -/
theorem word_slow_spec (a : WordArgs) (w : Word) (h : mkWord a = some w) (hkw : a.asKeyword = false)
    (s : List Char) (loc : Nat)
    (hstrict : w.maxSpecified = true →
      charIn w.bodySet s (runEnd w.bodySet.contains w.maxLen s loc) = false) :
    slowPath w s loc = specOf w s loc := by
  rw [word_slow_char a w h hkw]
  cases hsp : specOf w s loc with
  | none => rfl
  | some e =>
    simp only []
    by_cases hms : w.maxSpecified = true
    · have he : e = runEnd w.bodySet.contains w.maxLen s loc := by
        unfold specOf wordSpec at hsp
        unfold runEnd
        cases hs : s[loc]? with
        | none => rw [hs] at hsp; cases hsp
        | some c =>
          rw [hs] at hsp
          simp only [] at hsp
          split at hsp
          · split at hsp
            · cases hsp
            · injection hsp with hsp; exact hsp.symm
          · cases hsp
      rw [he, hstrict hms]; simp
    · have : w.maxSpecified = false := by simpa using hms
      simp [this]

/-- **word_re_spec**: matching the regex that `Word.__init__` builds (the AST whose rendering is
    `reString`) = the same spec, for all arguments (as_keyword off); no side condition on `max`. -/
theorem word_re_spec (a : WordArgs) (w : Word) (r : Re) (h : mkWord a = some w) (hr : w.re = some r)
    (hkw : a.asKeyword = false) (s : List Char) (loc : Nat) :
    rePath r s loc = specOf w s loc := by
  obtain ⟨hi, hb, hmn, hml, h1, h2, -, -, hre⟩ := mkWord_facts a w h
  rw [hre] at hr
  unfold reOf at hr
  split at hr
  · cases hr
  · split at hr
    · cases hr
    · injection hr with hr
      subst hr
      unfold rePath specOf wordRe
      rw [hkw, hi, hb, hmn, hml]
      simp only [Bool.false_eq_true, if_false]
      exact wordReCore_spec ranges_denote _ _ _ _ h1 h2 s loc

/-- **word_re_keyword_spec**: complete description of the regex path when as_keyword is on
    (`\b core \b`, with backtracking): `\b` must hold at `loc`; then among the run lengths from the capped
    longest one down to `minLen` (`wordCands`, longest first) the first whose end is a `\b` position. Compare
    `word_slow_full`: the character loop never backtracks and tests body characters, not `\b`. -/
theorem word_re_keyword_spec (a : WordArgs) (w : Word) (r : Re) (h : mkWord a = some w)
    (hr : w.re = some r) (hkw : a.asKeyword = true) (s : List Char) (loc : Nat) :
    rePath r s loc =
      if isBoundary s loc then
        (wordCands w.initSet.contains w.bodySet.contains w.minLen w.maxLen s loc).find?
          (fun e => isBoundary s e)
      else none :=
  WordPaths.word_re_keyword_spec a w r h hr hkw s loc

/-- the candidate end positions in `word_re_keyword_spec` are exactly `loc + minLen .. runEnd` -/
theorem word_cands_mem (w : Word) (s : List Char) (loc : Nat) (c : Char) (hc : s[loc]? = some c)
    (hi : w.initSet.contains c = true) (e : Nat) :
    e ∈ wordCands w.initSet.contains w.bodySet.contains w.minLen w.maxLen s loc ↔
      loc + w.minLen ≤ e ∧ e ≤ runEnd w.bodySet.contains w.maxLen s loc := by
  unfold wordCands runEnd
  rw [hc]; simp only [hi, if_true]
  exact mem_descFrom

/-- **word_paths_agree_partial**: whichever `parseImpl` is installed, the result is the same —
    PARTIAL: proved outside two regions where the paths really differ (the theorems below are the
    witnesses): (1) `max` given and the capped run is followed by another body character,
    (2) as_keyword. The full statement `∀ a w r s loc, rePath r s loc = slowPath w s loc` is false. -/
theorem word_paths_agree_partial (a : WordArgs) (w : Word) (r : Re) (h : mkWord a = some w)
    (hr : w.re = some r) (hkw : a.asKeyword = false) (s : List Char) (loc : Nat)
    (hstrict : w.maxSpecified = true →
      charIn w.bodySet s (runEnd w.bodySet.contains w.maxLen s loc) = false) :
    rePath r s loc = slowPath w s loc := by
  rw [word_re_spec a w r h hr hkw, word_slow_spec a w h hkw s loc hstrict]

/-- **word_space_twin**: the device "whether or not its character sets allow the compiled-regex path": the
    same Word with a blank added to its sets (`twinArgs`) never gets the regex path, and on blank-free input
    its character loop computes exactly what the character loop of the original object computes. (Excluded:
    a blank in `exclude_chars`, and the constructor quirk where `exclude_chars` removes every body character.) -/
theorem word_space_twin (a : WordArgs) (w w' : Word) (h : mkWord a = some w)
    (h' : mkWord (twinArgs a) = some w') (hex : ' ' ∉ a.excl)
    (hq : a.body = [] ∨ ∃ d ∈ a.body, d ∉ a.excl)
    (s : List Char) (hs : ' ' ∉ s) (loc : Nat) :
    w'.re = none ∧ slowPath w' s loc = slowPath w s loc :=
  twin_slow a w w' h h' hex hq s hs loc

/-- **word_twin_agrees_partial**: the statement's reading of path independence: a regex-path Word and its
    blank-class twin (character-loop path) return the same result on blank-free input — PARTIAL: outside
    the strict-max and as_keyword regions (see `word_paths_agree_partial`). -/
theorem word_twin_agrees_partial (a : WordArgs) (w w' : Word) (r : Re) (h : mkWord a = some w)
    (h' : mkWord (twinArgs a) = some w') (hr : w.re = some r) (hkw : a.asKeyword = false)
    (hex : ' ' ∉ a.excl) (hq : a.body = [] ∨ ∃ d ∈ a.body, d ∉ a.excl)
    (s : List Char) (hs : ' ' ∉ s) (loc : Nat)
    (hstrict : w.maxSpecified = true →
      charIn w.bodySet s (runEnd w.bodySet.contains w.maxLen s loc) = false) :
    parseWord w s loc = parseWord w' s loc := by
  obtain ⟨hre', hsl⟩ := twin_slow a w w' h h' hex hq s hs loc
  unfold parseWord
  rw [hr, hre']
  simp only []
  rw [hsl]
  exact word_paths_agree_partial a w r h hr hkw s loc hstrict

/-- the two paths of `Word('a', max=3)` differ on `'aaaa'` (finding word_max_slow_strict): the installed
    regex path returns 3, the character loop forced on the same object raises -/
theorem word_max_paths_differ :
    ∃ w, mkWord { init := ['a'], max := 3 } = some w ∧
      parseWord w "aaaa".toList 0 = some 3 ∧ slowPath w "aaaa".toList 0 = none := by
  refine ⟨_, rfl, ?_, ?_⟩ <;> decide

/-- as_keyword: the regex path uses `\b`, the character loop tests body characters
    (finding word_askeyword_paths) -/
theorem word_askeyword_paths_differ :
    ∃ w, mkWord { init := ['a', 'b'], body := ['c', 'd'], asKeyword := true } = some w ∧
      parseWord w "xacd".toList 1 = none ∧ slowPath w "xacd".toList 1 = some 4 := by
  refine ⟨_, rfl, ?_, ?_⟩ <;> decide

/-- as_keyword on a Word of symbol characters: `Word('+', as_keyword=True)` on `'+'`: the regex path never
    matches (`\b` fails next to a non-word character), the character loop returns 1 -/
theorem word_askeyword_symbol_witness :
    ∃ w, mkWord { init := ['+'], asKeyword := true } = some w ∧
      parseWord w "+".toList 0 = none ∧ slowPath w "+".toList 0 = some 1 :=
  WordPaths.word_askeyword_symbol_witness

/-- finding word_exclude_all_body in the model: `Word('a','b',exclude_chars='b')` matches `'aaa'` -/
theorem word_exclude_all_body_witness :
    ∃ w, mkWord { init := ['a'], body := ['b'], excl := ['b'] } = some w ∧
      parseWord w "aaa".toList 0 = some 3 := by
  refine ⟨_, rfl, ?_⟩; decide

-- non-vacuity: a Word with a metacharacter class, different body, min/max, on an input where the
-- hypotheses hold and the match is non-trivial
example : ∃ w r, mkWord { init := ['a', '-'], body := ['0', '1', ']'], min := 2, max := 4 } = some w ∧
    w.re = some r ∧ render r = "[\\-a][01\\]]{1,3}".toList ∧
    rePath r "x-01]!".toList 1 = some 5 ∧ slowPath w "x-01]!".toList 1 = some 5 ∧
    specOf w "x-01]!".toList 1 = some 5 ∧
    charIn w.bodySet "x-01]!".toList (runEnd w.bodySet.contains w.maxLen "x-01]!".toList 1) = false := by
  refine ⟨_, _, rfl, rfl, ?_, ?_, ?_, ?_, ?_⟩ <;> decide

/-! ## Literal -/

/-- **literal_single_char_same**: the one-character class `_SingleCharLiteral` computes what the
    general `Literal.parseImpl` computes -/
theorem literal_single_char_same (c : Char) (s : List Char) (loc : Nat) :
    literalSingle c s loc = literalLong [c] s loc := literalSingle_eq_long c s loc

/-- **literal_spec**: whatever class `Literal.__new__` picks (Empty / _SingleCharLiteral / Literal),
    `Literal(m)` succeeds at `loc` iff the text starts with `m` there (inside the text unless `m` is
    empty), ending at `loc + len(m)` -/
theorem literal_spec (m s : List Char) (loc : Nat) :
    literal m s loc =
      if isPrefixAt m s loc && (m.isEmpty || decide (loc < s.length)) then some (loc + m.length)
      else none := literal_spec' m s loc

example : literal "ab".toList "xab".toList 1 = some 3 ∧ literal "a".toList "xab".toList 1 = some 2 ∧
    literal "a".toList "xab".toList 3 = none := by decide

/-! ## one_of -/

/-- **termination of the reorder loop** is proved, not assumed: the fuel `reorder` supplies suffices -/
theorem oneof_reorder_terminates (ci : Bool) (syms : List Sym) : ∃ out, reorder ci syms = some out :=
  reorder_terminates ci syms

/-- **oneof_reorder_post**: after the loop no symbol is (case-folded-)equal to, or a masked proper
    prefix of, a LATER one; the result is a permutation of a sub-list of the input; every input symbol
    still has a (case-folded-)equal representative. -/
theorem oneof_reorder_post (ci : Bool) (syms out : List Sym) (h : reorder ci syms = some out) :
    NoMask ci out ∧ (∃ l, l.Sublist syms ∧ out.Perm l) ∧
      (∀ y ∈ syms, ∃ z ∈ out, isEqual ci z y = true) :=
  reorder_post ci syms out h

/-- **oneof_paths_agree**: the regex strategy (ordered alternation / character class, `re.IGNORECASE` and
    the `symbol_map` parse action when caseless) returns exactly what the `MatchFirst` of
    `Literal`/`CaselessLiteral` returns: same end position, same token; for every symbol list, caseless
    flag, input and position. (Caseless = ASCII case folding in the model.) -/
theorem oneof_paths_agree (ci : Bool) (syms : List Sym) (s : List Char) (loc : Nat) :
    oneOf ci true syms s loc = oneOf ci false syms s loc := by
  cases ci
  · exact oneOf_regex_eq_matchFirst syms s loc
  · exact oneOf_regex_eq_matchFirst_ci syms s loc

/-- **oneof_longest** (either strategy, caseless or not, any symbol order): the result is a
    listed symbol that matches at `loc`, ends at `loc + len`, and no listed matching symbol is longer;
    no result iff no listed symbol matches. -/
theorem oneof_longest (ci useRegex : Bool) (syms : List Sym) (s : List Char) (loc : Nat) :
    match oneOf ci useRegex syms s loc with
    | some (e, y) => y ∈ syms ∧ litMatch ci y s loc = true ∧ e = loc + y.length ∧
        ∀ z ∈ syms, litMatch ci z s loc = true → z.length ≤ y.length
    | none => ∀ z ∈ syms, litMatch ci z s loc = false := by
  cases useRegex
  · exact oneOf_matchFirst_longest ci syms s loc
  · rw [oneof_paths_agree]; exact oneOf_matchFirst_longest ci syms s loc

/-- what "matches at loc" means in `oneof_longest`: the slice of the text of the symbol's length equals
    the symbol (after ASCII upper-casing both when caseless) -/
theorem oneof_litMatch_iff (ci : Bool) (y : Sym) (s : List Char) (loc : Nat) :
    litMatch ci y s loc = true ↔ key ci (slice s loc (loc + y.length)) = key ci y :=
  litMatch_iff_key ci y s loc

example : reorder false ["a".toList, "ab".toList, "b".toList, "abc".toList, "ab".toList] =
    some ["abc".toList, "ab".toList, "a".toList, "b".toList] := by decide
example : oneOf false true ["a".toList, "ab".toList, "abc".toList] "xabd".toList 1 = some (3, "ab".toList) ∧
    oneOf true false ["a".toList, "AB".toList] "xabd".toList 1 = some (3, "AB".toList) := by decide

/-! ## character classes, srange -/

/-- **ranges_denote**: the class items `_collapse_string_to_ranges` writes match exactly the given
    characters (any characters, incl. the metacharacters `\ ^ - [ ]`) -/
theorem ranges_denote (cs : List Char) (c : Char) : clsMem (collapseItems cs) c = true ↔ c ∈ cs :=
  Ranges.ranges_denote cs c

/-- **ranges_text**: at the level of the pattern text: the text `_collapse_string_to_ranges(cs)` followed
    by `]` parses (as a class body) to items that match exactly the characters of `cs` -/
theorem ranges_text (cs : List Char) (hne : cs ≠ []) (rest : List Char) :
    ∃ items, parseCls (collapse cs ++ ']' :: rest) = some (items, rest) ∧
      ∀ c, clsMem items c = true ↔ c ∈ cs :=
  collapse_text_denote cs hne rest

/-- `_escape_regex_range_chars` (seven sequential `str.replace`) is a character-wise map -/
theorem escapeRangeChars_charwise (s : List Char) :
    escapeRangeChars s = s.flatMap (fun c => renderItem (escItem c)) :=
  Ranges.escapeRangeChars_charwise s

/-- **escaped_class_text**: the class text one_of / make_compressed_re build from single characters with
    `_escape_regex_range_chars` parses to items matching exactly those characters -/
theorem escaped_class_text (syms : List Char) (hne : syms ≠ []) (rest : List Char) :
    ∃ items, parseCls (escapeRangeChars syms ++ ']' :: rest) = some (items, rest) ∧
      ∀ c, clsMem items c = true ↔ c ∈ syms :=
  escapeRangeChars_text_denote syms hne rest

/-- **srange_inverts_partial**: `srange("[" + _collapse_string_to_ranges(cs) + "]")` = the sorted distinct
    characters of `cs` — PARTIAL: only for sets without blank/tab/newline/CR. For sets with whitespace
    the statement is false of the code (finding srange_drops_whitespace, witness below). -/
theorem srange_inverts_partial (cs : List Char) (hne : cs ≠ []) (hws : ∀ c ∈ cs, isWs c = false) :
    srange ('[' :: collapse cs ++ [']']) = some (sortU cs) :=
  Ranges.srange_inverts_partial cs hne hws

/-- finding srange_drops_whitespace in the model: `srange("[ a-c]") == "abc"` -/
theorem srange_whitespace_witness :
    collapse " abc".toList = " a-c".toList ∧ srange "[ a-c]".toList = some "abc".toList := by
  constructor <;> decide

example : collapse "-]a[^cb\\".toList = "\\-\\[-\\^a-c".toList ∧
    srange ('[' :: collapse "-]a[^cb\\".toList ++ [']']) = some "-[\\]^abc".toList := by
  constructor <;> decide

/-! ## make_compressed_re -/

/-- **compressed_re_language**: for all word lists and all `max_level`, the regex (AST; its rendering is
    the returned text) fully matches exactly the given words. -/
theorem compressed_re_language (words : List W) (maxLevel : Nat) (r : Re)
    (h : makeCompressedRe words maxLevel = some r) (w : W) :
    fullMatch false r w = true ↔ w ∈ words :=
  CompressedRe.compressed_re_language words maxLevel r h w

example : ∃ r, makeCompressedRe ["abc".toList, "abd".toList, "ab".toList, "x.".toList] 2 = some r ∧
    render r = "a(?:b[cd]?)|x\\.".toList ∧ fullMatch false r "abd".toList = true ∧
    fullMatch false r "a".toList = false := by
  refine ⟨_, rfl, ?_, ?_, ?_⟩ <;> decide

/-! ## the pattern TEXT: `parse` inverts `render` on everything the builders produce

so the statements above about ASTs are statements about the texts `reString`, `one_of(...).pattern`,
`make_compressed_re(...)` as read by the ReLite parser. -/

/-- the `reString` text of any constructed Word parses back to the AST the theorems talk about -/
theorem word_re_text (a : WordArgs) (w : Word) (r : Re) (h : mkWord a = some w) (hr : w.re = some r) :
    parse (render r) = some r := by
  obtain ⟨-, -, -, -, -, -, -, -, hre⟩ := mkWord_facts a w h
  exact parse_render_reOf a w h r (hre ▸ hr)

/-- **word_re_text_spec**: reading the generated text back and matching it = the spec -/
theorem word_re_text_spec (a : WordArgs) (w : Word) (r : Re) (h : mkWord a = some w) (hr : w.re = some r)
    (hkw : a.asKeyword = false) :
    ∃ r', parse (render r) = some r' ∧ ∀ s loc, matchAt false r' s loc = specOf w s loc :=
  ⟨r, word_re_text a w r h hr, fun s loc => word_re_spec a w r h hr hkw s loc⟩

/-- the pattern text one_of builds parses back to its AST (non-empty list of non-empty symbols) -/
theorem oneof_re_text (syms : List Sym) (hne : syms ≠ []) (hs : ∀ y ∈ syms, y ≠ []) :
    parse (render (oneOfRe syms)) = some (oneOfRe syms) :=
  parse_render_oneOfRe syms hne hs

/-- **compressed_re_language_text**: the text `make_compressed_re(words, max_level)` returns, read back by
    the parser, fully matches exactly the given words -/
theorem compressed_re_language_text (words : List W) (maxLevel : Nat) (r : Re)
    (h : makeCompressedRe words maxLevel = some r) :
    ∃ r', parse (render r) = some r' ∧ ∀ w, fullMatch false r' w = true ↔ w ∈ words :=
  ⟨r, parse_render_makeCompressedRe words maxLevel r h,
   fun w => CompressedRe.compressed_re_language words maxLevel r h w⟩

-- non-vacuity of the text level: a concrete generated text and its round trip (through the theorem)
example : ∃ r, makeCompressedRe ["ab".toList, "a".toList] 2 = some r ∧ render r = "ab?".toList ∧
    parse "ab?".toList = some r := by
  refine ⟨_, rfl, by decide, ?_⟩
  have := parse_render_makeCompressedRe ["ab".toList, "a".toList] 2 _ rfl
  have hr : render (Re.cat (.chr 'a') (.opt (.chr 'b'))) = "ab?".toList := by decide
  rw [← hr]; exact this

end PP.C17
