import PPModel.Mod.CompressedRe
/-!
# C17 — alternative matching strategies for the same element are equivalent
-/
namespace PP.C17
open PP.ReLite PP.Ranges PP.WordPaths PP.OneOf PP.CompressedRe

/-- the two paths of `Word('a', max=3)` / its slow twin differ on `'aaaa'` (finding word_max_slow_strict):
    slow path (forced on the same object) raises, regex path returns 3 -/
theorem word_max_paths_differ :
    ∃ w, mkWord { init := ['a'], max := 3 } = some w ∧
      parseWord w "aaaa".toList 0 = some 3 ∧ slowPath w "aaaa".toList 0 = none := by
  refine ⟨_, rfl, ?_, ?_⟩ <;> decide

/-- as_keyword: regex path uses `\b`, the character loop tests body characters (finding word_askeyword_paths) -/
theorem word_askeyword_paths_differ :
    ∃ w, mkWord { init := ['a', 'b'], body := ['c', 'd'], asKeyword := true } = some w ∧
      parseWord w "xacd".toList 1 = none ∧ slowPath w "xacd".toList 1 = some 4 := by
  refine ⟨_, rfl, ?_, ?_⟩ <;> decide

end PP.C17
