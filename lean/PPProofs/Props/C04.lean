import PPModel.Mod.LeftRec
import PPProofs.Lemmas.ParseFwd
/-!
# C04 — left-recursive grammars parse as their iterative equivalents (and C03's loop-level clause)

Model: `PPModel/Mod/LeftRec.lean`.  `growLoop body acts loc` is the `while True` loop of `Forward.parseImpl`, generic in
`body a pk ak` = "the Forward's expression parsed with `do_actions = a` while nested references to the Forward at this
location see `pk` (peek key) / `ak` (action key)".  The theorems hold for **every** body, location and round budget.
-/
namespace PP.Parse

/-- the seed: "Forward recursion without base case" -/
def seedAt (loc : Nat) : Out := .fail .parse loc

/-- **no base case ⇒ ParseException, not unbounded recursion**: if the expression cannot match while its own
    recursive reference fails, the Forward fails with that ParseException in the very first round -/
theorem lr_no_base (body : Bool → Out → Out → Out) (acts : Bool) (loc k l : Nat)
    (h : body false (seedAt loc) (seedAt loc) = .fail .parse l) :
    growLoop body acts loc (k + 1) (seedAt loc) (seedAt loc) = .fail .parse l := by
  unfold growLoop
  rw [h]
  rfl

/-- the peek results of successive growth rounds -/
def peekIter (body : Bool → Out → Out → Out) (loc : Nat) : Nat → Out × Out
  | 0 => (seedAt loc, seedAt loc)
  | n+1 => let pa := peekIter body loc n
           (body false pa.1 pa.2, body true pa.1 pa.2)

def Out.endOf : Out → Option Nat
  | .ok e _ => some e
  | _ => none

/-- **growth is strictly monotone and bounded**: whenever the loop goes on for another round, the new peek match ends
    strictly after the previous one (and after `loc - 1` in the first round) -/
theorem growLoop_round_grows (body : Bool → Out → Out → Out) (acts : Bool) (loc k nl : Nat) (nt : List Tok)
    (pk ak : Out) (hb : body false pk ak = .ok nl nt) (hnb : notBetter nl loc pk = false) :
    (match pk with
      | .ok pl _ => pl < nl
      | _ => loc ≤ nl) := by
  unfold notBetter at hnb
  cases pk <;> simp at hnb ⊢ <;> omega

/-- the loop without actions returns the last peek result before growth stopped: there is a round `n` such that the
    result is round `n`'s peek match, round `n+1` did not get further (or failed), and every earlier round got
    strictly further — "the longest input obtainable by repeatedly growing the recursion from its base" -/
theorem growLoop_peek_spec (body : Bool → Out → Out → Out) (loc : Nat) :
    ∀ k pk ak e ts, growLoop body false loc k pk ak = .ok e ts →
      ∃ m, ∃ chain : Nat → Out, chain 0 = pk ∧ (∀ i < m, chain (i + 1) = body false (chain i) ak) ∧
        chain m = .ok e ts ∧
        (∀ i < m, ∃ nl nt, chain (i + 1) = .ok nl nt ∧ notBetter nl loc (chain i) = false) ∧
        (match body false (.ok e ts) ak with
          | .ok nl _ => notBetter nl loc (.ok e ts) = true
          | .fail .parse _ => True
          | _ => False) := by
  intro k
  induction k with
  | zero => intro pk ak e ts h; simp [growLoop] at h
  | succ k ih =>
    intro pk ak e ts h
    unfold growLoop at h
    cases hb : body false pk ak with
    | hang => rw [hb] at h; simp at h
    | idx => rw [hb] at h; simp at h
    | fail c l =>
      rw [hb] at h
      cases c with
      | parse =>
        simp only at h
        cases pk with
        | ok pl pt =>
          simp at h
          obtain ⟨rfl, rfl⟩ := h
          exact ⟨0, fun _ => .ok pl pt, rfl, by simp, rfl, by simp, by rw [hb]; trivial⟩
        | fail c2 l2 => simp at h
        | idx => simp at h
        | hang => simp at h
      | fatal => simp at h
      | «syntax» => simp at h
    | ok nl nt =>
      rw [hb] at h
      simp only at h
      by_cases hnb : notBetter nl loc pk = true
      · simp only [hnb, if_true, Bool.false_eq_true, if_false] at h
        subst h
        exact ⟨0, fun _ => .ok e ts, rfl, by simp, rfl, by simp, by rw [hb]; simpa using hnb⟩
      · simp only [hnb, Bool.false_eq_true, if_false] at h
        obtain ⟨m, chain, h0, hstep, hm, hgrow, hstop⟩ := ih _ _ _ _ h
        refine ⟨m + 1, fun i => if i = 0 then pk else chain (i - 1), by simp, ?_, ?_, ?_, hstop⟩
        · intro i hi
          cases i with
          | zero => simp [h0, hb]
          | succ i => simp; exact hstep i (by omega)
        · simpa using hm
        · intro i hi
          cases i with
          | zero => exact ⟨nl, nt, by simp [h0], by simpa using hnb⟩
          | succ i => simpa using hgrow i (by omega)

/-- **C03, loop level**: a Forward whose expression does not depend on the recursion entries (no left recursion
    through this Forward at this location) yields exactly what its expression yields — one evaluation's worth:
    the loop evaluates it, sees that a second round gets no further, and returns it -/
theorem lr_transparent_nonrec (r ra : Out) (acts : Bool) (loc k e : Nat) (ts : List Tok)
    (hr : r = .ok e ts) (hfwd : loc ≤ e) (hra : ∀ c l, ra ≠ .fail c l) (hra2 : ra ≠ .idx ∧ ra ≠ .hang) :
    growLoop (fun a _ _ => if a then ra else r) acts loc (k + 2) (seedAt loc) (seedAt loc)
      = (if acts then ra else r) := by
  subst hr
  have nb1 : notBetter e loc (seedAt loc) = false := by simp [notBetter, seedAt]; omega
  have nb2 : ∀ x, notBetter e loc (.ok e x) = true := by intro x; simp [notBetter]
  cases acts with
  | false => simp [growLoop, nb1, nb2]
  | true =>
    cases ra with
    | ok al at' => simp [growLoop, nb1, nb2]
    | fail c l => exact absurd rfl (hra c l)
    | idx => exact absurd rfl hra2.1
    | hang => exact absurd rfl hra2.2

/-- and when the expression fails, the Forward fails with the same ParseException -/
theorem lr_transparent_nonrec_fail (ra : Out) (acts : Bool) (loc k l : Nat) :
    growLoop (fun a _ _ => if a then ra else .fail .parse l) acts loc (k + 1) (seedAt loc) (seedAt loc)
      = .fail .parse l := by
  simp [growLoop, seedAt]

/-! ### non-vacuity: `E <<= E + '+' + n | n` on "1+1+1" as an abstract body (ends 1, 3, 5, then no further) -/
def exBody : Bool → Out → Out → Out := fun _ pk _ =>
  match pk with
  | .ok 1 _ => .ok 3 [.s ['1'], .s ['+'], .s ['1']]
  | .ok 3 _ => .ok 5 [.s ['1'], .s ['+'], .s ['1'], .s ['+'], .s ['1']]
  | .ok 5 _ => .ok 1 [.s ['1']]
  | _ => .ok 1 [.s ['1']]

example : growLoop exBody false 0 7 (seedAt 0) (seedAt 0) = .ok 5 [.s ['1'], .s ['+'], .s ['1'], .s ['+'], .s ['1']] := by
  rfl

end PP.Parse
