import PPProofs.Lemmas.InfixLeft
import PPProofs.Props.C16
/-!
# C16 — `infix_notation`: LEFT-associative binary levels

Extends `infix_roundtrip_partial` (C16.lean; RIGHT-associative binary + prefix levels) to tables that also have
LEFT-associative binary levels, the most common kind.

PROVED HERE (`infix_roundtrip_left_partial`), for ALL tables in `ClassTL` (= class T of C16.lean, each level now a
LEFT- or RIGHT-associative binary operator or a prefix operator; any number of levels, in any order) and ALL trees of
ALL sizes in the table's normal form `WFL` (for a left-associative level: a chain `a0 op a1 op … an`, n ≥ 1, of operands
from tighter levels, written as the left-nested `Ex.bin`): `parse_string(render t e ++ blanks, parse_all=True)` of the
model parser on `infixGrammar t` returns exactly `[nest t e]`, where `nest` makes ONE flat group
`[a0, op, a1, op, …, an]` of a left-associative chain (`chain_nest`).  `ClassT ⊆ ClassTL` and `WF ⊆ WFL`
(`ClassT.toTL`, `WF.toWFL`), so the statement subsumes `infix_roundtrip_partial`.

Postfix levels and kept (non-Suppress) parentheses are added by `infix_roundtrip_general_partial` (C16Gen.lean), which
contains this statement as an instance.  It also covers ternary levels.  STILL MISSING there (oracle/correspondence only): level parse
actions, overlapping spellings, ill-formed strings, packrat.
-/
namespace PP.Infix.Left
open PP.Parse

theorem lvl_le_of_WFL {t : Table} {cs : List Char} : ∀ e, WFL t cs e → e.lvl ≤ t.levels.length := by
  intro e
  cases e with
  | atom ws w => intro _; simp [Ex.lvl]
  | paren wl e wr => intro _; simp [Ex.lvl]
  | pre k wo e =>
    intro h
    obtain ⟨lv, hk, hlv, _⟩ := h
    have := (List.getElem?_eq_some_iff.mp hlv).1
    simp only [Ex.lvl]; omega
  | post k e wo => intro h; exact absurd h id
  | bin k a wo b =>
    intro h
    obtain ⟨lv, hk, hlv, _⟩ := h
    have := (List.getElem?_eq_some_iff.mp hlv).1
    simp only [Ex.lvl]; omega
  | tern k a w1 b w2 c => intro h; exact absurd h id

/-- a tree of a tighter level is a one-element chain of level `k` -/
theorem chain_of_low {t : Table} {cs s : List Char} {e : Ex} {k : Nat} (hwf : WFL t cs e)
    (hall : ∀ d, e.lvl + d ≤ t.levels.length → Goal t cs s e (e.lvl + d)) (hlt : e.lvl < k)
    (hkn : k ≤ t.levels.length) : ChainOK t cs s k (chainHead k e) (chainRest k e) := by
  obtain ⟨h1, h2⟩ := chain_low e hlt
  rw [h1, h2]
  refine ⟨⟨hwf, hlt, ?_⟩, by simp⟩
  have := hall (k - 1 - e.lvl) (by omega)
  rwa [show e.lvl + (k - 1 - e.lvl) = k - 1 by omega] at this

section main
variable {t : Table} {cs : List Char} {re : Bool} (hT : ClassTL t cs re) (s : List Char)
include hT

/-- a LEFT-associative binary application (the whole chain it closes) at its own level: ONE flat group -/
theorem goal_binL {k : Nat} {lv : Level} (hK : 1 ≤ k) (hlv : t.levels[k - 1]? = some lv)
    (ha : lv.arity = 2) (hr : lv.right = false) {ea eb : Ex} {wo : List Char}
    (hch : ChainOK t cs s k (chainHead k ea) (chainRest k ea ++ [(wo, eb)])) :
    Goal t cs s (.bin k ea wo eb) k := by
  intro q suf hs hq hf a c loc hloc
  obtain ⟨x1, r, hxr⟩ : ∃ x1 r, chainRest k ea ++ [(wo, eb)] = x1 :: r := by
    cases chainRest k ea with
    | nil => exact ⟨_, _, rfl⟩
    | cons y ys => exact ⟨_, _, rfl⟩
  have hrB : renderB t (.bin k ea wo eb) = renderB t (chainHead k ea) ++ restR t lv.op1 (x1 :: r) := by
    have := chain_renderB t k (.bin k ea wo eb)
    simpa [chainHead, chainRest, opOf_eq hlv, hxr] using this
  have hnest : nest t (.bin k ea wo eb) = .g (nest t (chainHead k ea) :: restN t lv.op1 (x1 :: r)) := by
    rw [chain_nest t k (by simp [rightOf, hlv, hr]), opOf_eq hlv, hxr]
  rw [hxr] at hch
  have hl : q + (renderB t (.bin k ea wo eb)).length
      = q + (renderB t (chainHead k ea)).length + (restR t lv.op1 (x1 :: r)).length := by
    rw [hrB, List.length_append, Nat.add_assoc]
  rw [hl] at hf ⊢
  rw [hnest]
  exact chain_parse hT s hK hlv ha hr hch q suf (by rw [hs, hrB, List.append_assoc]) hq hf a c loc hloc

/-- a tree parsed at its own level is parsed, unchanged, at every looser level -/
theorem lift_all {e : Ex} (hwf : WFL t cs e) (h0 : Goal t cs s e e.lvl) :
    ∀ d, e.lvl + d ≤ t.levels.length → Goal t cs s e (e.lvl + d) := by
  intro d
  induction d with
  | zero => intro _; exact h0
  | succ d ih =>
    intro hd
    have hlt : e.lvl + (d + 1) - 1 < t.levels.length := by omega
    have hlv : t.levels[e.lvl + (d + 1) - 1]? = some t.levels[e.lvl + (d + 1) - 1] := List.getElem?_eq_getElem hlt
    have := goal_lift hT s (K := e.lvl + (d + 1)) (by omega) hlv hwf (by omega)
      (by have := ih (by omega); simpa [Nat.add_sub_cancel] using this)
    exact this

/-- every level `k ≥ lvl e` parses the spelling of `e` to `nest e`; and seen from a LEFT-associative level `k ≥ lvl e`,
    `e` is a chain of operands that level `k-1` parses -/
theorem goal_all : ∀ e, WFL t cs e →
    (∀ d, e.lvl + d ≤ t.levels.length → Goal t cs s e (e.lvl + d)) ∧
    (∀ k lv, 1 ≤ k → t.levels[k - 1]? = some lv → lv.arity = 2 → lv.right = false → e.lvl ≤ k →
      ChainOK t cs s k (chainHead k e) (chainRest k e)) := by
  intro e
  induction e with
  | atom ws w =>
    intro hwf
    have p1 := lift_all hT s hwf (goal_atom hT s hwf)
    refine ⟨p1, fun k lv hk hlv _ _ _ => ?_⟩
    have := (List.getElem?_eq_some_iff.mp hlv).1
    exact chain_of_low hwf p1 (by simp only [Ex.lvl]; omega) (by omega)
  | paren wl e wr ih =>
    intro hwf
    have p1 : ∀ d, (Ex.paren wl e wr).lvl + d ≤ t.levels.length → Goal t cs s (.paren wl e wr) ((Ex.paren wl e wr).lvl + d) := by
      apply lift_all hT s hwf
      have hle := lvl_le_of_WFL e hwf.2.2
      have := (ih hwf.2.2).1 (t.levels.length - e.lvl) (by omega)
      exact goal_paren hT s hwf (by simpa [Nat.add_sub_cancel' hle] using this)
    refine ⟨p1, fun k lv hk hlv _ _ _ => ?_⟩
    have := (List.getElem?_eq_some_iff.mp hlv).1
    exact chain_of_low hwf p1 (by simp only [Ex.lvl]; omega) (by omega)
  | pre k wo e ih =>
    intro hwf
    obtain ⟨lv, hk, hlv, har, _, _, hwe, hle⟩ := id hwf
    have hkn := (List.getElem?_eq_some_iff.mp hlv).1
    have p1 : ∀ d, (Ex.pre k wo e).lvl + d ≤ t.levels.length → Goal t cs s (.pre k wo e) ((Ex.pre k wo e).lvl + d) := by
      apply lift_all hT s hwf
      have := (ih hwe).1 (k - e.lvl) (by omega)
      exact goal_pre hT s hwf (by simpa [Nat.add_sub_cancel' hle] using this)
    refine ⟨p1, fun k2 lv2 hk2 hlv2 ha2 _ hle2 => ?_⟩
    have := (List.getElem?_eq_some_iff.mp hlv2).1
    simp only [Ex.lvl] at hle2
    have hne : k ≠ k2 := by
      rintro rfl
      rw [hlv] at hlv2; cases hlv2; omega
    exact chain_of_low hwf p1 (by simp only [Ex.lvl]; omega) (by omega)
  | post k e wo ih => intro h; exact absurd h id
  | bin k a wo b iha ihb =>
    intro hwf
    obtain ⟨lv, hk, hlv, har, hwo, hwa, hwb, hcase⟩ := id hwf
    have hkn := (List.getElem?_eq_some_iff.mp hlv).1
    rcases hcase with ⟨hr, hla, hlb⟩ | ⟨hr, hla, hlb⟩
    · -- RIGHT-associative
      have p1 : ∀ d, (Ex.bin k a wo b).lvl + d ≤ t.levels.length → Goal t cs s (.bin k a wo b) ((Ex.bin k a wo b).lvl + d) := by
        apply lift_all hT s hwf
        have h1 := (iha hwa).1 (k - 1 - a.lvl) (by omega)
        have h2 := (ihb hwb).1 (k - b.lvl) (by omega)
        exact goal_binR hT s hwf hlv hr (by simpa [show a.lvl + (k - 1 - a.lvl) = k - 1 by omega] using h1)
          (by simpa [Nat.add_sub_cancel' hlb] using h2)
      refine ⟨p1, fun k2 lv2 hk2 hlv2 _ hr2 hle2 => ?_⟩
      have := (List.getElem?_eq_some_iff.mp hlv2).1
      simp only [Ex.lvl] at hle2
      have hne : k ≠ k2 := by
        rintro rfl
        rw [hlv] at hlv2; cases hlv2; rw [hr] at hr2; cases hr2
      exact chain_of_low hwf p1 (by simp only [Ex.lvl]; omega) (by omega)
    · -- LEFT-associative: the chain
      have hchain : ChainOK t cs s k (chainHead k a) (chainRest k a ++ [(wo, b)]) := by
        have hca := (iha hwa).2 k lv hk hlv har hr hla
        have hgb := (ihb hwb).1 (k - 1 - b.lvl) (by omega)
        rw [show b.lvl + (k - 1 - b.lvl) = k - 1 by omega] at hgb
        refine ⟨hca.1, fun x hx => ?_⟩
        rcases List.mem_append.mp hx with hx | hx
        · exact hca.2 x hx
        · simp only [List.mem_singleton] at hx
          subst hx
          exact ⟨hwo, hwb, hlb, hgb⟩
      have p1 : ∀ d, (Ex.bin k a wo b).lvl + d ≤ t.levels.length → Goal t cs s (.bin k a wo b) ((Ex.bin k a wo b).lvl + d) :=
        lift_all hT s hwf (goal_binL hT s hk hlv har hr hchain)
      refine ⟨p1, fun k2 lv2 hk2 hlv2 _ hr2 hle2 => ?_⟩
      have := (List.getElem?_eq_some_iff.mp hlv2).1
      simp only [Ex.lvl] at hle2
      by_cases hkk : k = k2
      · subst hkk
        simpa [chainHead, chainRest] using hchain
      · exact chain_of_low hwf p1 (by simp only [Ex.lvl]; omega) (by omega)
  | tern k a w1 b w2 c iha ihb ihc => intro h; exact absurd h id

end main

/-- **infix_roundtrip (partial: LEFT- and RIGHT-associative binary + prefix levels, any number of them).**
    For every table in class TL and every tree in its normal form, of any size, written with any blanks before its
    tokens and any trailing blanks: `parse_string(.., parse_all=True)` of the model parser on `infixGrammar t` returns
    exactly the documented nesting `[nest t e]` — a left-associative chain as ONE flat group — for every fuel from
    some point on.

    FULL STATEMENT (properties.jsonl) additionally covers postfix and ternary levels, kept parentheses, level parse
    actions and overlapping spellings; those stay with the oracle/correspondence legs. -/
theorem _root_.PP.Infix.infix_roundtrip_left_partial {t : Table} {cs : List Char} {re : Bool} (hT : ClassTL t cs re)
    (e : Ex) (hwf : WFL t cs e) (trail : List Char) (htr : White t.white trail) :
    ∃ F, ∀ f, F ≤ f →
      parseString (parseX (fbIds t) (infixGrammar t) (render t e ++ trail) f) (infixGrammar t) rootId t.white
        (render t e ++ trail) true = .ok (render t e).length [nest t e] := by
  let s := render t e ++ trail
  have hs0 : s.drop 0 = lead e ++ (renderB t e ++ trail) := by simp [s, render_eq, List.append_assoc]
  have h1 := drop_add hs0
  have hq0 : skipWhite t.white s 0 = 0 + (lead e).length := skip_lead hT s hwf hs0
  rw [Nat.zero_add] at h1 hq0
  have hq1 := skip_at_body hT s hwf h1
  have hend : s.drop ((lead e).length + (renderB t e).length) = trail ++ [] := by
    simpa using drop_add h1
  have hlen : s.length = (lead e).length + (renderB t e).length + trail.length := by
    simp [s, render_eq, List.length_append]; omega
  have hsk : skipWhite t.white s ((lead e).length + (renderB t e).length) = s.length := by
    rw [skipWhite_eq hend htr (by simp), hlen]
  have hfol : Follow t cs s t.levels.length ((lead e).length + (renderB t e).length) := by
    constructor
    · intro ch hch
      cases htl : trail with
      | nil =>
        rw [htl] at hend hlen
        have : s[(lead e).length + (renderB t e).length]? = none := by
          apply getElem?_none_of_drop; simpa using hend
        rw [this] at hch; cases hch
      | cons w0 ws0 =>
        rw [htl] at hend
        have := getElem?_of_drop (by simpa using hend)
        rw [this] at hch; cases hch
        exact white_not_cs hT htr ch (by simp [htl])
    · intro j lv _ _ hlv _
      rw [hsk]
      have : s.drop s.length = [] := by simp
      rw [this]
      intro hp
      exact (hT.opOk lv (lv_mem hlv)).1 (List.prefix_nil.mp hp)
  have hle := lvl_le_of_WFL e hwf
  have hgoal := (goal_all hT s e hwf).1 (t.levels.length - e.lvl) (by omega)
  rw [Nat.add_sub_cancel' hle] at hgoal
  have hg1 : (infixGrammar t)[1]? = some (mkNode t.white (.forward (some (E t.levels.length))) true true) := by
    rw [gram_header t (by omega)]; simp [header]
  have hroot : Holds t s 1 0 true true (.ok ((lead e).length + (renderB t e).length) [nest t e]) := by
    apply H_forward_ok t s (fb_header t (by omega)) hg1
    rw [preOf_true, hq0]
    exact hgoal _ _ h1 hq1 hfol true false _ (preOf_false _ _ _)
  obtain ⟨F, hF⟩ := hroot
  refine ⟨F, fun f hf => ?_⟩
  have hrl : (render t e).length = (lead e).length + (renderB t e).length := by
    simp [render_eq, List.length_append]
  show parseString (parseX (fbIds t) (infixGrammar t) s f) (infixGrammar t) rootId t.white s true = _
  unfold parseString
  have := hF f hf
  simp only [PX] at this
  rw [show rootId = 1 from rfl, this, hg1]
  have hsk2 : skipWhite t.white s s.length = s.length := by
    have := skipWhite_eq (W := t.white) (s := s) (loc := s.length) (ws := []) (x := []) (by simp) (by simp) (by simp)
    simpa using this
  simp [preParse, mkNode, hsk, stringEndCheck, hsk2, stringEndImpl, hrl]


/-- the statement for class TL contains `infix_roundtrip_partial`'s (class T tables, `WF` trees) -/
theorem _root_.PP.Infix.infix_roundtrip_left_covers_right {t : Table} {cs : List Char} {re : Bool} (hT : ClassT t cs re)
    (e : Ex) (hwf : WF t cs e) (trail : List Char) (htr : White t.white trail) :
    ∃ F, ∀ f, F ≤ f →
      parseString (parseX (fbIds t) (infixGrammar t) (render t e ++ trail) f) (infixGrammar t) rootId t.white
        (render t e ++ trail) true = .ok (render t e).length [nest t e] :=
  infix_roundtrip_left_partial hT.toTL e (WF.toWFL e hwf) trail htr

/-! ### non-vacuity: a concrete table of class TL (prefix `-`, then LEFT-associative `*`, LEFT-associative `+`,
    RIGHT-associative `^^` loosest), a tree with chains of length 3, and the theorem's conclusion evaluated on it -/

def exTableL : Table :=
  { white := [' ', '\t', '\n', '\r'],
    base := mkNode [' ', '\t', '\n', '\r'] (.word ['0', '1', '2', '3'] ['0', '1', '2', '3'] 1 none false false true) false true,
    lpar := ['('], rpar := [')'],
    levels := [{ arity := 1, right := true, op1 := ['-'] }, { arity := 2, right := false, op1 := ['*'] },
               { arity := 2, right := false, op1 := ['+'] }, { arity := 2, right := true, op1 := ['^', '^'] }] }

/-- `1 * 2*3 + -0 +(1+2) ^^ 3` -/
def exTreeL : Ex :=
  .bin 4
    (.bin 3
      (.bin 3 (.bin 2 (.bin 2 (.atom [] ['1']) [' '] (.atom [' '] ['2'])) [] (.atom [] ['3'])) [' ']
        (.pre 1 [' '] (.atom [] ['0'])))
      [' '] (.paren [] (.bin 3 (.atom [] ['1']) [] (.atom [] ['2'])) []))
    [' '] (.atom [' '] ['3'])

theorem exTableL_class : ClassTL exTableL ['0', '1', '2', '3'] true where
  base := rfl
  lsup := rfl
  rsup := rfl
  csW := by decide
  kinds := by decide
  lparOk := by decide
  rparOk := by decide
  opOk := by decide
  opsInc := by
    intro i j lvi lvj hi hj hij
    have hi4 : i < 4 := (List.getElem?_eq_some_iff.mp hi).1
    have hj4 : j < 4 := (List.getElem?_eq_some_iff.mp hj).1
    match i, j, hi4, hj4 with
    | 0, 0, _, _ => exact absurd rfl hij
    | 1, 1, _, _ => exact absurd rfl hij
    | 2, 2, _, _ => exact absurd rfl hij
    | 3, 3, _, _ => exact absurd rfl hij
    | 0, 1, _, _ | 0, 2, _, _ | 0, 3, _, _ | 1, 0, _, _ | 1, 2, _, _ | 1, 3, _, _
    | 2, 0, _, _ | 2, 1, _, _ | 2, 3, _, _ | 3, 0, _, _ | 3, 1, _, _ | 3, 2, _, _ =>
      simp [exTableL] at hi hj; subst hi; subst hj; decide
  parInc := by decide

theorem exTreeL_wf : WFL exTableL ['0', '1', '2', '3'] exTreeL := by
  simp [exTreeL, WFL, exTableL, White, Ex.lvl]

/-- the hypotheses of `infix_roundtrip_left_partial` are satisfiable together (trailing blanks included) -/
example := infix_roundtrip_left_partial exTableL_class exTreeL exTreeL_wf [' ', '\n'] (by simp [White, exTableL])

example : render exTableL exTreeL = "1 * 2*3 + -0 +(1+2) ^^ 3".toList := by decide

example : (match parseString (parseX (fbIds exTableL) (infixGrammar exTableL) (render exTableL exTreeL) 80)
      (infixGrammar exTableL) rootId exTableL.white (render exTableL exTreeL) true with
    | .ok e ts => some (e, showToks ts)
    | _ => none) = some (24, "[[[1 * 2 * 3 ] + [- 0 ] + [1 + 2 ] ] ^^ 3 ] ".toList) := by
  decide +kernel

example : showTok (nest exTableL exTreeL) = "[[[1 * 2 * 3 ] + [- 0 ] + [1 + 2 ] ] ^^ 3 ]".toList := by decide +kernel

end PP.Infix.Left
