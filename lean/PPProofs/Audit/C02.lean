import PPProofs.Props.C02
#print axioms PP.Parse.packrat_transparent
#print axioms PP.Parse.packrat_parseString
#print axioms PP.Parse.packrat_scanString
#print axioms PP.Parse.packrat_transformString
#print axioms PP.Parse.fifo_cache_sound
#print axioms PP.Parse.fifoSet_ok
#print axioms PP.Parse.stored_value_correct
#print axioms PP.Parse.fifo_size0_empty
#print axioms PP.Parse.parse_mono
#print axioms PP.Parse.parse_fuel_irrelevant
#print axioms PP.Parse.parseStep_mono
