import PPProofs.Props.C19
#print axioms PP.Settings.restore_exact
#print axioms PP.Settings.restore_total_and_exact
#print axioms PP.Settings.live_restore_total_and_exact
#print axioms PP.Settings.live_builtins_restored_though_unsynced
#print axioms PP.Settings.packrat_lr_exclusive
#print axioms PP.Settings.packrat_lr_never_both
#print axioms PP.Settings.live_packrat_lr_never_both
#print axioms PP.Settings.parse_selector_follows_packrat
#print axioms PP.Settings.enablePackrat_idempotent
#print axioms PP.Settings.enablePackrat_twice
#print axioms PP.Settings.users_untouched
#print axioms PP.Settings.new_expr_after_exit
#print axioms PP.Settings.default_ws_scope_partial
#print axioms PP.Settings.forward_ws_scope_partial
