import PPProofs.Props.C10
#print axioms PP.PR.refines_step
#print axioms PP.PR.prinv_step
#print axioms PP.PR.refines_history
#print axioms PP.PR.prinv_of_ctor
#print axioms PP.PR.prinv_of_reinit
#print axioms PP.PR.reinit_refines
#print axioms PP.PR.list_ops_keep_names
#print axioms PP.PR.del_insert_keep_names
#print axioms PP.PR.unknown_attr_empty
#print axioms PP.PR.iadd_is_merge
#print axioms PP.PR.iadd_falsy_keeps_listall
#print axioms PP.PR.contains_is_not_list_membership
