import PPProofs.Props.C16
#print axioms PP.Infix.infix_roundtrip_partial
#print axioms PP.Infix.goal_all
#print axioms PP.Infix.lift_all
#print axioms PP.Infix.goal_lift
#print axioms PP.Infix.goal_atom
#print axioms PP.Infix.goal_paren
#print axioms PP.Infix.goal_pre
#print axioms PP.Infix.goal_binR
