import PPProofs.Props.C16
import PPProofs.Props.C16Left
import PPProofs.Props.C16Gen
#print axioms PP.Infix.infix_roundtrip_partial
#print axioms PP.Infix.goal_all
#print axioms PP.Infix.lift_all
#print axioms PP.Infix.goal_lift
#print axioms PP.Infix.goal_atom
#print axioms PP.Infix.goal_paren
#print axioms PP.Infix.goal_pre
#print axioms PP.Infix.goal_binR
#print axioms PP.Infix.infix_roundtrip_left_partial
#print axioms PP.Infix.infix_roundtrip_left_covers_right
#print axioms PP.Infix.Left.goal_all
#print axioms PP.Infix.Left.lift_all
#print axioms PP.Infix.Left.goal_binL
#print axioms PP.Infix.Left.chain_parse
#print axioms PP.Infix.Left.chain_nest
#print axioms PP.Infix.Left.goal_lift
#print axioms PP.Infix.Left.goal_atom
#print axioms PP.Infix.Left.goal_paren
#print axioms PP.Infix.Left.goal_pre
#print axioms PP.Infix.Left.goal_binR
#print axioms PP.Infix.infix_roundtrip_general_partial
#print axioms PP.Infix.infix_roundtrip_general_covers_left
#print axioms PP.Infix.infix_roundtrip_post_partial
#print axioms PP.Infix.Gen.goal_all
#print axioms PP.Infix.Gen.lift_all
#print axioms PP.Infix.Gen.goal_post
#print axioms PP.Infix.Gen.post_parse
#print axioms PP.Infix.Gen.p_nest
#print axioms PP.Infix.Gen.goal_binL
#print axioms PP.Infix.Gen.chain_parse
#print axioms PP.Infix.Gen.goal_lift
#print axioms PP.Infix.Gen.goal_atom
#print axioms PP.Infix.Gen.goal_paren
#print axioms PP.Infix.Gen.goal_pre
#print axioms PP.Infix.Gen.goal_binR
