import PPProofs.Props.C01
import PPProofs.Props.C01Sem
#print axioms PP.Parse.and_rest_iff_chain
#print axioms PP.Parse.matchfirst_first
#print axioms PP.Parse.or_longest_leftmost
#print axioms PP.Parse.sortDesc_head
#print axioms PP.Parse.best_spec
#print axioms PP.Parse.orPass1_cands
#print axioms PP.Parse.rep_greedy_no_giveback
#print axioms PP.Parse.rep_iterations_advance
#print axioms PP.Parse.lookahead_consumes_nothing
#print axioms PP.Parse.notany_iff
#print axioms PP.Parse.opt_spec
#print axioms PP.Parse.zeroOrMore_spec
#print axioms PP.Parse.group_nests
#print axioms PP.Parse.suppress_omits
#print axioms PP.Parse.combine_joins
#print axioms PP.Parse.skipWhite_stops
#print axioms PP.Parse.skipWhite_skips_only_white
#print axioms PP.Parse.preParse_is_skipWhite
#print axioms PP.Parse.skip_then_match
#print axioms PP.Parse.plain_parse_sound
#print axioms PP.Parse.sem_deterministic
#print axioms PP.Parse.plain_parse_iff_sem
#print axioms PP.Parse.plain_parse_stable
#print axioms PP.Parse.plain_parse_ok_excludes_fail
#print axioms PP.Parse.plainTable_iff
