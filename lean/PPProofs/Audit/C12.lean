import PPProofs.Props.C12
#print axioms PP.Parse.parse_rename
#print axioms PP.Parse.simCheck_sound
#print axioms PP.Parse.closedCheck_sound
#print axioms PP.Parse.sim_parse_eq
#print axioms PP.Parse.frame
#print axioms PP.Parse.copy_equiv
#print axioms PP.Parse.and_flatten_partial
#print axioms PP.Parse.and_flatten_head_impl
#print axioms PP.Parse.and_flatten_inner_step
#print axioms PP.Parse.andRest_splice
#print axioms PP.Parse.and_flatten_fails_lineStart
#print axioms PP.Parse.and_flatten_fails_errorStop
