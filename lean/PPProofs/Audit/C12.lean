import PPProofs.Props.C12
#print axioms PP.Parse.parse_rename
#print axioms PP.Parse.simCheck_sound
#print axioms PP.Parse.closedCheck_sound
#print axioms PP.Parse.sim_parse_eq
#print axioms PP.Parse.frame
#print axioms PP.Parse.copy_equiv
