import PPProofs.Props.C13
import PPProofs.Props.C13Gate
#print axioms PP.TrimArity.live_call_line
#print axioms PP.TrimArity.called_once_with_trailing_args
#print axioms PP.TrimArity.called_once_events
#print axioms PP.TrimArity.no_accepted_arity_raises_typeError
#print axioms PP.TrimArity.no_body_run_while_probing
#print axioms PP.TrimArity.wrapper_invariant
#print axioms PP.TrimArity.sticky_arity
#print axioms PP.TrimArity.first_return_sets_found
#print axioms PP.TrimArity.body_exceptions_propagate
#print axioms PP.TrimArity.body_exceptions_propagate_probing
#print axioms PP.TrimArity.body_exceptions_propagate_found
#print axioms PP.TrimArity.indexError_after_found_propagates
#print axioms PP.TrimArity.return_value_protocol
#print axioms PP.TrimArity.condition_protocol
#print axioms PP.ActionGate.fired_ids_firable
#print axioms PP.ActionGate.no_actions_when_trying
#print axioms PP.ActionGate.or_first_pass_fires_nothing
#print axioms PP.ActionGate.each_first_pass_fires_nothing
#print axioms PP.ActionGate.skipTo_scan_fires_nothing
#print axioms PP.ActionGate.skipTo_without_include_is_silent
#print axioms PP.ActionGate.stop_on_check_fires_nothing
#print axioms PP.ActionGate.or_each_skipto_stopon_fire_only_real
#print axioms PP.ActionGate.action_loc_is_prestart_partial
