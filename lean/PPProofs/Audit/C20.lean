import PPProofs.Props.C20
import PPProofs.Props.C20Links
#print axioms PP.Diagram.bookmarks_distinct
#print axioms PP.Diagram.output_sorted
#print axioms PP.Diagram.unnamed_never_extracted
#print axioms PP.Diagram.diverges_of_unnamed_loop
#print axioms PP.Diagram.diverges_unnamed_cycle
#print axioms PP.Diagram.ranked_cycle_has_cut
#print axioms PP.Diagram.terminates_partial
#print axioms PP.Diagram.empty_placeholder_witness
#print axioms PP.Diagram.dangling_link_witness
#print axioms PP.Diagram.unnamed_forward_root_witness
#print axioms PP.Diagram.root_not_first_witness
#print axioms PP.Diagram.named_cycle_ok
#print axioms PP.Diagram.links_resolve_partial
#print axioms PP.Diagram.root_first_partial
#print axioms PP.Diagram.root_first_unnamed_partial
#print axioms PP.Diagram.no_empty_placeholder_partial
#print axioms PP.Diagram.no_empty_placeholder_output_partial
#print axioms PP.Diagram.no_empty_placeholder_tree_partial
#print axioms PP.Diagram.no_dangling_reference
#print axioms PP.Diagram.no_empty_placeholder_of_acyclic_partial
#print axioms PP.Diagram.conv_HS
#print axioms PP.Diagram.conv_KD
#print axioms PP.Diagram.conv_step
