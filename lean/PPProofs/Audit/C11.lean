import PPProofs.Props.C11
import PPProofs.Props.C11Heap
import PPProofs.Props.C11FromDict
import PPProofs.Props.C11Deep
import PPProofs.Props.C11DeepC
#print axioms PP.PR.copy_preserves
#print axioms PP.PR.pickle_roundtrip
#print axioms PP.PR.copy_same_answers
#print axioms PP.PR.concat_is_merge
#print axioms PP.PR.concat_assoc
#print axioms PP.PR.concat_empty_right
#print axioms PP.PR.concat_empty_left
#print axioms PP.PR.sum_is_fold
#print axioms PP.PR.concat_assoc_former_witness
#print axioms PP.PR.from_dict_item_step
#print axioms PP.PRHeap.deepcopyLoop_eq
#print axioms PP.PRHeap.deepcopy_tokens_fresh
#print axioms PP.PRHeap.deepcopy_frame_tokens
#print axioms PP.PRHeap.deepcopy_frame_tokens_many
#print axioms PP.PRHeap.deepcopy_frame_views
#print axioms PP.PRHeap.deepcopy_names_shared
#print axioms PP.PRHeap.deepcopy_named_alias_any_depth
#print axioms PP.PRHeap.deepcopy_tokens_fresh_full
#print axioms PP.PRHeap.deepcopy_views
#print axioms PP.PRHeap.deepcopyN_corr
#print axioms PP.PRHeap.deepcopyN_ext
#print axioms PP.PRHeap.copyModule_deep_fresh
#print axioms PP.PRHeap.copyModule_deep_frame
#print axioms PP.PRHeap.copyModule_deep_as_list
#print axioms PP.PRHeap.copyModule_deep_views
#print axioms PP.PRHeap.deepObjN_drel
#print axioms PP.PRHeap.deepObjN_rel
#print axioms PP.PRHeap.deepObjN_spec
#print axioms PP.PRHeap.deepcopyC_tokens_fresh
#print axioms PP.PRHeap.deepcopyC_frame_tokens
#print axioms PP.PRHeap.deepcopyC_corr
#print axioms PP.PRHeap.frame_step
#print axioms PP.PRHeap.frame_all
#print axioms PP.PRHeap.copy_frame
#print axioms PP.PRHeap.copyModule_frame
#print axioms PP.PRHeap.fixOccs_fst
#print axioms PP.PRHeap.deepcopy_named_group_aliased_witness
#print axioms PP.FromDict.from_dict_roundtrip
#print axioms PP.FromDict.rt_conv
#print axioms PP.FromDict.rt_body
#print axioms PP.FromDict.from_dict_empty_inner_dict
