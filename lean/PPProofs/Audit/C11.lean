import PPProofs.Props.C11
#print axioms PP.PR.copy_preserves
#print axioms PP.PR.pickle_roundtrip
#print axioms PP.PR.copy_same_answers
#print axioms PP.PR.concat_is_merge
#print axioms PP.PR.concat_assoc
#print axioms PP.PR.concat_assoc_of_truthy
#print axioms PP.PR.concat_empty_right
#print axioms PP.PR.concat_empty_left
#print axioms PP.PR.sum_is_fold
#print axioms PP.PR.concat_assoc_fails_witness
