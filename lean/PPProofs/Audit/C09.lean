import PPProofs.Props.C09
#print axioms PP.Parse.skipWhite_append_gap
#print axioms PP.Parse.gap_size_irrelevant
#print axioms PP.Parse.lit_local
#print axioms PP.Parse.lit1_local
#print axioms PP.Parse.charsNotIn_local
#print axioms PP.Parse.preParse_noskip
#print axioms PP.Parse.ordered_choice_flips_witness
#print axioms PP.Parse.skipWhite_stops
#print axioms PP.Parse.skipWhite_skips_only_white
