import PPProofs.Props.C15
#print axioms PP.Threads.packrat_atomic
#print axioms PP.Threads.packrat_mutual_exclusion
#print axioms PP.Threads.cache_entries_correct
#print axioms PP.Threads.eval_deterministic
#print axioms PP.Threads.result_is_serial_answer
#print axioms PP.Threads.concurrent_eq_serial
#print axioms PP.Threads.no_internal_error
#print axioms PP.Threads.no_deadlock
#print axioms PP.Threads.Locks.lock_order_no_deadlock
#print axioms PP.Threads.Locks.packrat_nested_ordered
#print axioms PP.Threads.Locks.lr_nested_ordered
#print axioms PP.Threads.Locks.nested_entry_no_deadlock
#print axioms PP.Threads.Locks.Ex.two_orders_unorderable
#print axioms PP.Threads.Locks.Ex.two_orders_deadlock
#print axioms PP.Threads.LR.lr_race_witness
#print axioms PP.Threads.LR.lr_reset_race_witness
