import PPProofs.Props.C03
#print axioms PP.Parse.lr_no_forward_transparent
#print axioms PP.Parse.lr_transparent_nonrec
#print axioms PP.Parse.lr_transparent_nonrec_fail
#print axioms PP.Parse.lr_memo_hits_transparent
#print axioms PP.Parse.lr_no_base
#print axioms PP.Parse.growLoop_peek_spec
#print axioms PP.Parse.growLoop_round_grows
