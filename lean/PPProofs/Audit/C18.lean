import PPProofs.Props.C18
#print axioms PP.C18.integer_pattern_ast
#print axioms PP.C18.integer_language
#print axioms PP.C18.hex_integer_pattern_ast
#print axioms PP.C18.hex_integer_language
#print axioms PP.C18.signed_integer_pattern_ast
#print axioms PP.C18.signed_integer_language
