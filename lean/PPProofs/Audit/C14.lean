import PPProofs.Props.C14
import PPProofs.Props.C14Src
#print axioms PP.LineCol.C14_linecol_consistent
#print axioms PP.LineCol.IsLineStart.unique
#print axioms PP.LineCol.col_is_offset
#print axioms PP.LineCol.loc_on_line
#print axioms PP.LineCol.lineno_counts_newlines
#print axioms PP.LineCol.lineno_of_lineStart
#print axioms PP.LineCol.line_is_the_line
#print axioms PP.LineCol.line_no_newline
#print axioms PP.LineCol.col_le_line_length
#print axioms PP.LineCol.expandTabs_no_tab
#print axioms PP.LineCol.expandTabs_idem
#print axioms PP.LineCol.src_col_eq
#print axioms PP.LineCol.src_lineno_eq
#print axioms PP.LineCol.src_line_eq
#print axioms PP.LineCol.src_col_index_in_range
