import PPProofs.Props.C08
#print axioms PP.Parse.scanLoop_spec
#print axioms PP.Parse.parse_fwd
#print axioms PP.Parse.scan_match_forward_parse
#print axioms PP.Parse.scanString_spec
#print axioms PP.Parse.scan_each_is_direct_parse
#print axioms PP.Parse.scan_sorted_disjoint
#print axioms PP.Parse.scan_match_forward
#print axioms PP.Parse.scan_max_matches
#print axioms PP.Parse.split_join
#print axioms PP.Parse.split_pieces_are_gaps
#print axioms PP.Parse.transform_spec
#print axioms PP.Parse.transform_no_match
#print axioms PP.Parse.parseAll_tokens_eq_plain
#print axioms PP.Parse.parseAll_of_plain_and_end
#print axioms PP.Parse.parseAll_fails_on_trailing_text
#print axioms PP.Parse.preParse_ge
