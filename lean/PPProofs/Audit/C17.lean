import PPProofs.Props.C17
#print axioms PP.C17.word_max_paths_differ
#print axioms PP.C17.word_askeyword_paths_differ
