import PPProofs.Props.C06
import PPProofs.Props.C06Term
import PPProofs.Props.C06Rec
#print axioms PP.Parse.no_indexerror_escapes
#print axioms PP.Parse.parse_match_forward
#print axioms PP.Parse.parse_locations_inside
#print axioms PP.Parse.parseString_error_loc_inside
#print axioms PP.Parse.scanString_locations_inside
#print axioms PP.Parse.leaf_indexerror_only_at_end
#print axioms PP.Parse.parseString_no_indexerror
#print axioms PP.Parse.scanString_no_indexerror
#print axioms PP.Parse.parse_noIdx
#print axioms PP.Parse.parseImpl_idx
#print axioms PP.LineCol.C14_linecol_consistent
#print axioms PP.Parse.acyclic_terminates
#print axioms PP.Parse.acyclic_terminates_uniform
#print axioms PP.Parse.parseString_terminates
#print axioms PP.Parse.scanString_terminates
#print axioms PP.Parse.advancing_of_nonempty
#print axioms PP.Parse.exG_advancing
#print axioms PP.Parse.rankOk_spec
#print axioms PP.Parse.consumes_sound
#print axioms PP.Parse.advancing_of_advOk
#print axioms PP.Parse.acyclic_terminates_checked
#print axioms PP.Parse.entry_points_terminate_checked
#print axioms PP.Parse.acyclic_terminates_depth
#print axioms PP.Parse.entry_points_terminate_depth
#print axioms PP.Parse.recursive_terminates_partial
#print axioms PP.Parse.recursive_terminates_checked_partial
#print axioms PP.Parse.recursive_terminates_depth_partial
#print axioms PP.Parse.entry_points_terminate_rec_partial
