import PPProofs.Props.C04
#print axioms PP.Parse.growLoop_peek_spec
#print axioms PP.Parse.growLoop_round_grows
#print axioms PP.Parse.lr_no_base
#print axioms PP.Parse.lr_transparent_nonrec
#print axioms PP.Parse.lr_transparent_nonrec_fail
