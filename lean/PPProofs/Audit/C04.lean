import PPProofs.Props.C04
import PPProofs.Props.C04Iter
#print axioms PP.Parse.growLoop_peek_spec
#print axioms PP.Parse.growLoop_round_grows
#print axioms PP.Parse.lr_no_base
#print axioms PP.Parse.lr_transparent_nonrec
#print axioms PP.Parse.lr_transparent_nonrec_fail
#print axioms PP.Parse.lr_direct_eq_iterative
#print axioms PP.Parse.lr_direct_eq_iterative_acts
#print axioms PP.Parse.lr_direct_eq_iterative_budget
#print axioms PP.Parse.iterLoop_budget
#print axioms PP.Parse.iterLoop_no_hang
#print axioms PP.Parse.iterRef_plain
#print axioms PP.Parse.growLoop_lrBody_loop
#print axioms PP.Parse.parseLR_frame
#print axioms PP.Parse.parseLR_body_eq_lrBody
#print axioms PP.Parse.parseLR_direct_eq_iterative_partial
#print axioms PP.Parse.growLoop_congr
#print axioms PP.Parse.growLoop_enhFix
#print axioms PP.Parse.tailOf_strict
#print axioms PP.Parse.parse_lit1_strict
#print axioms PP.Parse.parseLR_direct_eq_parse_iterative_partial
#print axioms PP.Parse.parse_I_step
#print axioms PP.Parse.manyLoop_eq_iterLoop
#print axioms PP.Parse.exG2_end_differs
#print axioms PP.Parse.parseLR_direct_eq_parse_iterative_ws_partial
#print axioms PP.Parse.parse_I_step_ws
