import PPProofs.Props.C07
import PPProofs.Props.C07Depth
#print axioms PP.Parse.errorstop_any_failure_is_syntax
#print axioms PP.Parse.errorstop_raises_at_failing_loc
#print axioms PP.Parse.errorstop_switches_on
#print axioms PP.Parse.and_failure_passes_through
#print axioms PP.Parse.matchfirst_never_swallows_fatal
#print axioms PP.Parse.opt_never_swallows_fatal
#print axioms PP.Parse.repetition_never_swallows_fatal
#print axioms PP.Parse.repetition_first_never_swallows_fatal
#print axioms PP.Parse.zeroOrMore_never_swallows_fatal
#print axioms PP.Parse.enhance_never_swallows_fatal
#print axioms PP.Parse.followedBy_never_swallows
#print axioms PP.Parse.parseStep_failure_passes
#print axioms PP.Parse.tryParse_converts_fatal
#print axioms PP.Parse.notany_treats_fatal_as_nonmatch
#print axioms PP.Parse.or_fatal_only_if_none_matched
#print axioms PP.Parse.or_raises_fatal_when_none_matched
#print axioms PP.Parse.step_fail
#print axioms PP.Parse.fatal_propagates_exact
#print axioms PP.Parse.fatal_propagates_any_depth
#print axioms PP.Parse.fatal_class_preserved_without_stop
#print axioms PP.Parse.errorstop_any_depth
