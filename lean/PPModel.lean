import PPModel.Base.Sexp
import PPModel.Mod.LineCol
import PPModel.Driver.LineCol
import PPModel.Mod.Settings
import PPModel.Driver.Settings
