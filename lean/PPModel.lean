import PPModel.Base.Sexp
import PPModel.Mod.LineCol
import PPModel.Driver.LineCol
import PPModel.Mod.Threads
import PPModel.Driver.Threads
