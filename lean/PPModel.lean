import PPModel.Base.Sexp
import PPModel.Mod.LineCol
import PPModel.Driver.LineCol
import PPModel.Mod.ParseTypes
import PPModel.Mod.Parse
import PPModel.Mod.Entry
import PPModel.Driver.Parse
import PPModel.Mod.Cache
