import PPModel.Base.Sexp
import PPModel.Mod.LineCol
import PPModel.Driver.LineCol
import PPModel.Base.Regex
import PPModel.Driver.Regex
