import PPModel.Base.Sexp
import PPModel.Base.PyList
import PPModel.Mod.LineCol
import PPModel.Mod.PR
import PPModel.Mod.PRSpec
import PPModel.Mod.PRHeap
import PPModel.Driver.LineCol
import PPModel.Driver.PR
