import PPModel.Base.Sexp
import PPModel.Mod.LineCol
import PPModel.Driver.LineCol
import PPModel.Mod.TrimArity
import PPModel.Driver.TrimArity
import PPModel.Mod.ActionGate
import PPModel.Driver.ActionGate
