/-
  CPython `list` index / slice semantics and an insertion-ordered `dict` with string keys,
  as used by `ParseResults` (pyparsing/results.py delegates to `self._toklist[...]`,
  `self._tokdict[...]`).  Transcribed from Objects/listobject.c (`list_subscript`,
  `list_ass_subscript`, `list_ass_slice`, `ins1`) and Objects/sliceobject.c
  (`PySlice_AdjustIndices`, `PySlice_Unpack`).  Core Lean only.
-/
namespace PP.PyList

/-- `list[i]` index normalisation: valid iff `-n ≤ i < n` (else IndexError). -/
def normIdx (n : Nat) (i : Int) : Option Nat :=
  if i < 0 then (if i + (n : Int) < 0 then none else some (i + (n : Int)).toNat)
  else if i < (n : Int) then some i.toNat else none

def getIdx (xs : List α) (i : Int) : Option α :=
  match normIdx xs.length i with
  | none => none
  | some k => xs[k]?

def setIdx (xs : List α) (i : Int) (v : α) : Option (List α) :=
  match normIdx xs.length i with
  | none => none
  | some k => some (xs.set k v)

def delIdx (xs : List α) (i : Int) : Option (List α) :=
  match normIdx xs.length i with
  | none => none
  | some k => some (xs.eraseIdx k)

/-- `list.insert(i, v)` (`ins1`): negative indices are shifted by `n` then clamped to `0`,
    indices beyond `n` are clamped to `n`. -/
def insertPos (n : Nat) (i : Int) : Nat :=
  if i < 0 then (if i + (n : Int) < 0 then 0 else (i + (n : Int)).toNat)
  else if i > (n : Int) then n else i.toNat

def insertAt (xs : List α) (i : Int) (v : α) : List α :=
  let j := insertPos xs.length i
  xs.take j ++ v :: xs.drop j

/-- a Python `slice(start, stop, step)`; `none` is Python's `None` -/
structure Slice where
  start : Option Int
  stop : Option Int
  step : Option Int
  deriving Repr, DecidableEq

/-- `slice.indices(n)` = `PySlice_Unpack` + `PySlice_AdjustIndices`; `none` = ValueError (step 0) -/
def Slice.indices (sl : Slice) (n : Nat) : Option (Int × Int × Int) :=
  let step := sl.step.getD 1
  if step = 0 then none else
  let len : Int := n
  let lower : Int := if step < 0 then -1 else 0
  let upper : Int := if step < 0 then len - 1 else len
  let adj (x : Int) : Int := if x < 0 then max (x + len) lower else min x upper
  let start := match sl.start with
    | none => if step < 0 then upper else lower
    | some s => adj s
  let stop := match sl.stop with
    | none => if step < 0 then lower else upper
    | some s => adj s
  some (start, stop, step)

/-- `len(range(start, stop, step))`, step ≠ 0 -/
def rangeLen (start stop step : Int) : Nat :=
  if step > 0 then (if start < stop then ((stop - start - 1) / step + 1).toNat else 0)
  else (if stop < start then ((start - stop - 1) / (-step) + 1).toNat else 0)

/-- `list(range(start, stop, step))` -/
def rangeList (start stop step : Int) : List Int :=
  (List.range (rangeLen start stop step)).map (fun (k : Nat) => start + (k : Int) * step)

inductive SliceErr where
  | value   -- ValueError: slice step cannot be zero / extended-slice size mismatch
  deriving Repr, DecidableEq

/-- `xs[sl]` -/
def getSlice (xs : List α) (sl : Slice) : Option (List α) :=
  match sl.indices xs.length with
  | none => none
  | some (start, stop, step) => some ((rangeList start stop step).filterMap (fun i => xs[i.toNat]?))

/-- `del xs[sl]`: every index of `range(*sl.indices(n))` is removed -/
def delSlice (xs : List α) (sl : Slice) : Option (List α) :=
  match sl.indices xs.length with
  | none => none
  | some (start, stop, step) =>
    let idxs := rangeList start stop step
    some (xs.zipIdx.filterMap (fun p => if (p.2 : Int) ∈ idxs then none else some p.1))

/-- `xs[sl] = vs` (`vs` already converted to a list, as `PySequence_Fast` does):
    step 1 → splice (`list_ass_slice`, with `stop := max start stop`); otherwise the sizes must agree. -/
def setSlice (xs : List α) (sl : Slice) (vs : List α) : Option (List α) :=
  match sl.indices xs.length with
  | none => none
  | some (start, stop, step) =>
    if step = 1 then
      let stop' := if start > stop then start else stop
      some (xs.take start.toNat ++ vs ++ xs.drop stop'.toNat)
    else
      let idxs := rangeList start stop step
      if vs.length ≠ idxs.length then none
      else some ((idxs.zip vs).foldl (fun acc p => acc.set p.1.toNat p.2) xs)

end PP.PyList

namespace PP.PyDict
/-! insertion-ordered dict with `String` keys as an association list (first match wins; the
    operations below keep keys unique) -/

abbrev Dict (β : Type) := List (String × β)

def dget : Dict β → String → Option β
  | [], _ => none
  | (k', v) :: d, k => if k' = k then some v else dget d k

/-- `d[k] = v`: replace in place when present (position in the order kept), else append -/
def dset : Dict β → String → β → Dict β
  | [], k, v => [(k, v)]
  | (k', v') :: d, k, v => if k' = k then (k', v) :: d else (k', v') :: dset d k v

/-- `del d[k]` (caller has checked presence) -/
def ddel : Dict β → String → Dict β
  | [], _ => []
  | (k', v) :: d, k => if k' = k then ddel d k else (k', v) :: ddel d k

def dhas (d : Dict β) (k : String) : Bool := decide (k ∈ d.map (·.1))

def dkeys (d : Dict β) : List String := d.map (·.1)

end PP.PyDict
