/-
  A model of the fragment of Python's `re` pattern language that pyparsing's built-in expressions use,
  with `re.match` semantics (leftmost, ordered alternation, greedy/lazy repetition, backtracking).

  * `Re`          the AST
  * `Regex.parse` pattern STRING (as `List Char`) + flags ↦ AST  (total, fuel = pattern length)
  * `Re.m`        the backtracking matcher as a *list of successes in priority order* over states
                  (consumed text, remaining text, captures); `re.match` = head of that list
  * `Re.ends`     the capture-free projection (remaining text only) on which the language theorems are stated;
                  `PPProofs/Lemmas/Regex.lean` proves `(m r st).map rest = ends r st.rest` for `Simple` patterns
                  (no back-reference, no anchor, no `\b`), and the driver reports any disagreement on every case.

  Character classes `\d \w \s` are the ASCII ones (Python's are Unicode-aware on `str` patterns): the
  correspondence run and the theorems are about ASCII text (plus Latin-1 letters where the pattern has no `\w`).
  Core Lean only.
-/
namespace PP.Regex

/-- one member of a character class -/
inductive Item where
  | c (ch : Char)
  | r (lo hi : Char)
  | d | D | w | W | s | S
  deriving DecidableEq, Repr, Inhabited

def isDigit (c : Char) : Bool := '0' ≤ c && c ≤ '9'
def isWord (c : Char) : Bool :=
  ('0' ≤ c && c ≤ '9') || ('a' ≤ c && c ≤ 'z') || ('A' ≤ c && c ≤ 'Z') || c == '_'
def isSpace (c : Char) : Bool :=
  c == ' ' || c == '\t' || c == '\n' || c == '\r' || c == '\x0c' || c == '\x0b'

def Item.has : Item → Char → Bool
  | .c ch, x => x == ch
  | .r lo hi, x => lo ≤ x && x ≤ hi
  | .d, x => isDigit x
  | .D, x => !isDigit x
  | .w, x => isWord x
  | .W, x => !isWord x
  | .s, x => isSpace x
  | .S, x => !isSpace x

/-- a one-character matcher: literal, `.`, class, class escape — all are sets -/
structure CSet where
  neg : Bool
  items : List Item
  ci : Bool
  deriving DecidableEq, Repr, Inhabited

def lowerC (c : Char) : Char := if 'A' ≤ c ∧ c ≤ 'Z' then Char.ofNat (c.toNat + 32) else c
def upperC (c : Char) : Char := if 'a' ≤ c ∧ c ≤ 'z' then Char.ofNat (c.toNat - 32) else c

def CSet.has (cs : CSet) (x : Char) : Bool :=
  (cs.items.any (·.has x) ||
    (cs.ci && (cs.items.any (·.has (lowerC x)) || cs.items.any (·.has (upperC x))))) != cs.neg

inductive Re where
  | eps
  | set (cs : CSet)
  | seq (a b : Re)
  | alt (a b : Re)
  | rep (r : Re) (mn : Nat) (mx : Option Nat) (greedy : Bool)
  | grp (i : Nat) (r : Re)
  | bref (i : Nat) (ci : Bool)
  | look (neg : Bool) (r : Re)
  | bol (ml : Bool)
  | eol (ml : Bool)
  | wordb (neg : Bool)
  deriving DecidableEq, Repr, Inhabited

namespace Re
/-! builders used to write ASTs down by hand -/
def lit (c : Char) : Re := .set ⟨false, [.c c], false⟩
def cls (items : List Item) : Re := .set ⟨false, items, false⟩
def ncls (items : List Item) : Re := .set ⟨true, items, false⟩
def digit : Re := .set ⟨false, [.d], false⟩
def dot : Re := .set ⟨true, [.c '\n'], false⟩
def dotAll : Re := .set ⟨true, [], false⟩
def star (r : Re) : Re := .rep r 0 none true
def plus (r : Re) : Re := .rep r 1 none true
def opt (r : Re) : Re := .rep r 0 (some 1) true
def exactly (n : Nat) (r : Re) : Re := .rep r n (some n) true
def between (a b : Nat) (r : Re) : Re := .rep r a (some b) true
/-- the parser's normal form of a concatenation: right nested, no trailing `eps` -/
def mkSeq (a b : Re) : Re := match b with | .eps => a | _ => .seq a b
def seqs : List Re → Re
  | [] => .eps
  | [a] => a
  | a :: as => .seq a (seqs as)
def alts : List Re → Re
  | [] => .eps
  | [a] => a
  | a :: as => .alt a (alts as)
def str (s : String) : Re := seqs (s.toList.map lit)
end Re

/-! ## the matcher -/

structure St where
  pre : List Char                  -- text before the current position, reversed
  rest : List Char                 -- text from the current position on
  caps : List (Nat × List Char)    -- captures, newest first
  deriving Repr, Inhabited

def St.adv (st : St) : Nat → St
  | 0 => st
  | n+1 => match st.rest with
    | [] => st
    | c :: t => St.adv { st with pre := c :: st.pre, rest := t } n

def lookupCap (i : Nat) : List (Nat × List Char) → Option (List Char)
  | [] => none
  | (j, t) :: cs => if i == j then some t else lookupCap i cs

def eqCI (ci : Bool) (a b : Char) : Bool := a == b || (ci && lowerC a == lowerC b)

def prefixCI (ci : Bool) : List Char → List Char → Bool
  | [], _ => true
  | _ :: _, [] => false
  | a :: as, b :: bs => eqCI ci a b && prefixCI ci as bs

/-- greedy/lazy repetition; `fuel` counts the iterations that make progress (callers pass `rest.length + 1`).
    An iteration that consumes nothing ends the loop (CPython: no further iteration at an unchanged position;
    the remaining minimum count is met by repeating that empty iteration). -/
def repLoop (step : St → List St) (g : Bool) : Nat → Nat → Option Nat → St → List St
  | 0, _, _, _ => []
  | f+1, mn, mx, st =>
    let more : List St :=
      if mx == some 0 then []
      else (step st).flatMap (fun st' =>
        if st'.rest.length < st.rest.length then repLoop step g f (mn - 1) (mx.map (· - 1)) st'
        else [st'])
    let stop : List St := if mn == 0 then [st] else []
    if g then more ++ stop else stop ++ more

def Re.m : Re → St → List St
  | .eps, st => [st]
  | .set cs, st =>
    match st.rest with
    | c :: t => if cs.has c then [{ st with pre := c :: st.pre, rest := t }] else []
    | [] => []
  | .seq a b, st => (Re.m a st).flatMap (fun st' => Re.m b st')
  | .alt a b, st => Re.m a st ++ Re.m b st
  | .rep r mn mx g, st => repLoop (fun s => Re.m r s) g (st.rest.length + 1) mn mx st
  | .grp i r, st =>
    (Re.m r st).map (fun st' =>
      { st' with caps := (i, (st'.pre.take (st'.pre.length - st.pre.length)).reverse) :: st'.caps })
  | .bref i ci, st =>
    match lookupCap i st.caps with
    | none => []
    | some t => if prefixCI ci t st.rest then [st.adv t.length] else []
  | .look neg r, st =>
    match Re.m r st with
    | [] => if neg then [st] else []
    | st' :: _ => if neg then [] else [{ st with caps := st'.caps }]
  | .bol ml, st =>
    match st.pre with
    | [] => [st]
    | c :: _ => if ml && c == '\n' then [st] else []
  | .eol ml, st =>
    match st.rest with
    | [] => [st]
    | [c] => if c == '\n' then [st] else []
    | c :: _ => if ml && c == '\n' then [st] else []
  | .wordb neg, st =>
    let a := match st.pre with | c :: _ => isWord c | [] => false
    let b := match st.rest with | c :: _ => isWord c | [] => false
    if (a != b) != neg then [st] else []

/-- capture-free repetition (same shape as `repLoop`) -/
def repEnds (step : List Char → List (List Char)) (g : Bool) :
    Nat → Nat → Option Nat → List Char → List (List Char)
  | 0, _, _, _ => []
  | f+1, mn, mx, s =>
    let more : List (List Char) :=
      if mx == some 0 then []
      else (step s).flatMap (fun e =>
        if e.length < s.length then repEnds step g f (mn - 1) (mx.map (· - 1)) e
        else [e])
    let stop : List (List Char) := if mn == 0 then [s] else []
    if g then more ++ stop else stop ++ more

/-- the remaining texts after every way of matching `r` at the start of `s`, in priority order.
    Back-references, anchors and `\b` have no capture-free reading (`[]`; excluded by `Simple`). -/
def Re.ends : Re → List Char → List (List Char)
  | .eps, s => [s]
  | .set cs, s =>
    match s with
    | c :: t => if cs.has c then [t] else []
    | [] => []
  | .seq a b, s => (Re.ends a s).flatMap (fun e => Re.ends b e)
  | .alt a b, s => Re.ends a s ++ Re.ends b s
  | .rep r mn mx g, s => repEnds (fun x => Re.ends r x) g (s.length + 1) mn mx s
  | .grp _ r, s => Re.ends r s
  | .bref _ _, _ => []
  | .look neg r, s =>
    match Re.ends r s with
    | [] => if neg then [s] else []
    | _ :: _ => if neg then [] else [s]
  | .bol _, _ => []
  | .eol _, _ => []
  | .wordb _, _ => []

def Re.Simple : Re → Bool
  | .eps => true
  | .set _ => true
  | .seq a b => a.Simple && b.Simple
  | .alt a b => a.Simple && b.Simple
  | .rep r _ _ _ => r.Simple
  | .grp _ r => r.Simple
  | .bref _ _ => false
  | .look _ r => r.Simple
  | .bol _ => false
  | .eol _ => false
  | .wordb _ => false

/-- `re.match(s)`: where the preferred match ends (number of characters consumed) -/
def Re.matchEnd (r : Re) (s : List Char) : Option Nat :=
  (r.ends s).head?.map (fun e => s.length - e.length)

/-- the expression accepts the whole of `s`: the *preferred* match of `re.match` ends at `len(s)`
    (what `Regex(...).parse_string(s, parse_all=True)` observes; there is no retry with a longer match) -/
def Re.Accepts (r : Re) (s : List Char) : Prop := (r.ends s).head? = some []

instance (r : Re) (s : List Char) : Decidable (r.Accepts s) := by unfold Re.Accepts; infer_instance

/-! ## the pattern parser -/

structure Flags where
  ci : Bool := false
  ml : Bool := false
  dotall : Bool := false
  deriving DecidableEq, Repr, Inhabited

structure PS where
  ng : Nat
  names : List (String × Nat)
  fl : Flags
  deriving DecidableEq, Repr, Inhabited

structure Parsed where
  re : Re
  ngroups : Nat
  names : List (String × Nat)
  deriving DecidableEq, Repr, Inhabited

def hexVal (c : Char) : Option Nat :=
  if '0' ≤ c ∧ c ≤ '9' then some (c.toNat - '0'.toNat)
  else if 'a' ≤ c ∧ c ≤ 'f' then some (c.toNat - 'a'.toNat + 10)
  else if 'A' ≤ c ∧ c ≤ 'F' then some (c.toNat - 'A'.toNat + 10)
  else none

def hexN : Nat → Nat → List Char → Option (Nat × List Char)
  | 0, v, cs => some (v, cs)
  | n+1, v, c :: cs => match hexVal c with
    | some d => hexN n (v * 16 + d) cs
    | none => none
  | _+1, _, [] => none

def isPunct (c : Char) : Bool :=
  c.toNat < 128 && !(isWord c) && !(c.toNat < 33) || c == ' ' || c == '_'

/-- an escape that denotes one character (inside or outside a class): returns the char and the rest -/
def escChar : List Char → Option (Char × List Char)
  | 'n' :: cs => some ('\n', cs)
  | 'r' :: cs => some ('\r', cs)
  | 't' :: cs => some ('\t', cs)
  | 'f' :: cs => some ('\x0c', cs)
  | 'v' :: cs => some ('\x0b', cs)
  | 'a' :: cs => some ('\x07', cs)
  | '0' :: cs => some ('\x00', cs)
  | 'x' :: cs => (hexN 2 0 cs).map (fun (v, r) => (Char.ofNat v, r))
  | 'u' :: cs => (hexN 4 0 cs).map (fun (v, r) => (Char.ofNat v, r))
  | c :: cs => if isPunct c then some (c, cs) else none
  | [] => none

def clsEsc : Char → Option Item
  | 'd' => some .d | 'D' => some .D | 'w' => some .w | 'W' => some .W | 's' => some .s | 'S' => some .S
  | _ => none

/-- one class member (char or class escape) at the head of `cs` -/
def clsAtom : List Char → Option (Sum Char Item × List Char)
  | '\\' :: c :: cs =>
    match clsEsc c with
    | some it => some (.inr it, cs)
    | none => if c == 'b' then some (.inl '\x08', cs) else (escChar (c :: cs)).map (fun (ch, r) => (.inl ch, r))
  | '\\' :: [] => none
  | c :: cs => some (.inl c, cs)
  | [] => none

/-- body of `[...]` after the optional `^`; `first` = a leading `]` is a literal -/
def pClass : Nat → Bool → List Char → List Item → Option (List Item × List Char)
  | 0, _, _, _ => none
  | _+1, _, [], _ => none
  | f+1, first, c :: cs, acc =>
    if c == ']' && !first then some (acc.reverse, cs)
    else
      match clsAtom (c :: cs) with
      | none => none
      | some (.inr it, r) => pClass f false r (it :: acc)
      | some (.inl lo, r) =>
        match r with
        | '-' :: ']' :: _ => pClass f false r (.c lo :: acc)
        | '-' :: r2 =>
          match clsAtom r2 with
          | some (.inl hi, r3) => if lo ≤ hi then pClass f false r3 (.r lo hi :: acc) else none
          | _ => none
        | _ => pClass f false r (.c lo :: acc)

def readNat : List Char → Nat → Bool → (Option Nat × List Char)
  | c :: cs, v, seen => if isDigit c then readNat cs (v * 10 + (c.toNat - 48)) true else (if seen then some v else none, c :: cs)
  | [], v, seen => (if seen then some v else none, [])

/-- `{m}`, `{m,}`, `{,n}`, `{m,n}` after the `{`; none = not a quantifier (then `{` is a literal) -/
def pBrace (cs : List Char) : Option (Nat × Option Nat × List Char) :=
  match readNat cs 0 false with
  | (a, '}' :: r) => a.map (fun n => (n, some n, r))
  | (a, ',' :: r) =>
    match readNat r 0 false with
    | (b, '}' :: r2) =>
      match a, b with
      | none, none => none
      | _, _ => if (match b with | some bb => decide (a.getD 0 ≤ bb) | none => true) then some (a.getD 0, b, r2) else none
    | _ => none
  | _ => none

def isQuantStart (cs : List Char) : Bool :=
  match cs with
  | '?' :: _ => true | '*' :: _ => true | '+' :: _ => true
  | '{' :: r => (pBrace r).isSome
  | _ => false

/-- optional quantifier after an atom; a second quantifier (possessive / multiple repeat) is rejected -/
def pQuant (a : Re) (cs : List Char) : Option (Re × List Char) :=
  let q : Option (Nat × Option Nat × List Char) :=
    match cs with
    | '?' :: r => some (0, some 1, r)
    | '*' :: r => some (0, none, r)
    | '+' :: r => some (1, none, r)
    | '{' :: r => pBrace r
    | _ => none
  match q with
  | none => some (a, cs)
  | some (mn, mx, r) =>
    match r with
    | '?' :: r2 => if isQuantStart r2 then none else some (.rep a mn mx false, r2)
    | _ => if isQuantStart r then none else some (.rep a mn mx true, r)

def readName : Nat → List Char → List Char → Option (String × List Char)
  | 0, _, _ => none
  | _+1, [], _ => none
  | f+1, c :: cs, acc =>
    if c == '>' || c == ')' then (if acc.isEmpty then none else some (String.ofList acc.reverse, c :: cs))
    else if isWord c then readName f cs (c :: acc) else none

/-- scoped inline flags `(?ims-ims:` after the `(?` ; returns the new flags and the rest after `:` -/
def readFlags : Nat → List Char → Flags → Bool → Option (Flags × List Char)
  | 0, _, _, _ => none
  | _+1, [], _, _ => none
  | f+1, c :: cs, fl, on =>
    if c == ':' then some (fl, cs)
    else if c == '-' then (if on then readFlags f cs fl false else none)
    else if c == 'i' then readFlags f cs { fl with ci := on } on
    else if c == 'm' then readFlags f cs { fl with ml := on } on
    else if c == 's' then readFlags f cs { fl with dotall := on } on
    else none

def mkLit (fl : Flags) (c : Char) : Re := .set ⟨false, [.c c], fl.ci⟩

abbrev PR := Option (Re × List Char × PS)

mutual
def pAlt : Nat → PS → List Char → PR
  | 0, _, _ => none
  | f+1, ps, cs =>
    match pSeq f ps cs with
    | none => none
    | some (a, '|' :: cs2, ps1) =>
      match pAlt f ps1 cs2 with
      | none => none
      | some (b, cs3, ps2) => some (.alt a b, cs3, ps2)
    | some (a, cs1, ps1) => some (a, cs1, ps1)

def pSeq : Nat → PS → List Char → PR
  | 0, _, _ => none
  | f+1, ps, cs =>
    match cs with
    | [] => some (.eps, [], ps)
    | '|' :: _ => some (.eps, cs, ps)
    | ')' :: _ => some (.eps, cs, ps)
    | _ =>
      match pAtom f ps cs with
      | none => none
      | some (a, cs1, ps1) =>
        match pQuant a cs1 with
        | none => none
        | some (aq, cs2) =>
          match pSeq f ps1 cs2 with
          | none => none
          | some (b, cs3, ps2) => some (Re.mkSeq aq b, cs3, ps2)

def pGroupBody : Nat → PS → List Char → (Re → Re) → Flags → PR
  | 0, _, _, _, _ => none
  | f+1, ps, cs, wrap, outer =>
    match pAlt f ps cs with
    | some (r, ')' :: cs2, ps2) => some (wrap r, cs2, { ps2 with fl := outer })
    | _ => none

def pAtom : Nat → PS → List Char → PR
  | 0, _, _ => none
  | f+1, ps, cs =>
    match cs with
    | [] => none
    | '(' :: '?' :: ':' :: r => pGroupBody f ps r id ps.fl
    | '(' :: '?' :: '=' :: r => pGroupBody f ps r (Re.look false) ps.fl
    | '(' :: '?' :: '!' :: r => pGroupBody f ps r (Re.look true) ps.fl
    | '(' :: '?' :: 'P' :: '<' :: r =>
      match readName (r.length + 1) r [] with
      | some (nm, '>' :: r2) =>
        let i := ps.ng + 1
        pGroupBody f { ps with ng := i, names := ps.names ++ [(nm, i)] } r2 (Re.grp i) ps.fl
      | _ => none
    | '(' :: '?' :: 'P' :: '=' :: r =>
      match readName (r.length + 1) r [] with
      | some (nm, ')' :: r2) =>
        match ps.names.lookup nm with
        | some i => some (.bref i ps.fl.ci, r2, ps)
        | none => none
      | _ => none
    | '(' :: '?' :: r =>
      match readFlags (r.length + 1) r ps.fl true with
      | some (fl2, r2) => pGroupBody f { ps with fl := fl2 } r2 id ps.fl
      | none => none
    | '(' :: r =>
      let i := ps.ng + 1
      pGroupBody f { ps with ng := i } r (Re.grp i) ps.fl
    | '[' :: '^' :: r =>
      match pClass (r.length + 1) true r [] with
      | some (items, r2) => some (.set ⟨true, items, ps.fl.ci⟩, r2, ps)
      | none => none
    | '[' :: r =>
      match pClass (r.length + 1) true r [] with
      | some (items, r2) => some (.set ⟨false, items, ps.fl.ci⟩, r2, ps)
      | none => none
    | '.' :: r => some (.set ⟨true, if ps.fl.dotall then [] else [.c '\n'], false⟩, r, ps)
    | '^' :: r => some (.bol ps.fl.ml, r, ps)
    | '$' :: r => some (.eol ps.fl.ml, r, ps)
    | '\\' :: c :: r =>
      match clsEsc c with
      | some it => some (.set ⟨false, [it], false⟩, r, ps)
      | none =>
        if c == 'b' then some (.wordb false, r, ps)
        else if c == 'B' then some (.wordb true, r, ps)
        else if c == 'A' then some (.bol false, r, ps)
        else if '1' ≤ c && c ≤ '9' then
          (match r with
           | d :: r2 => if isDigit d then some (.bref ((c.toNat - 48) * 10 + (d.toNat - 48)) ps.fl.ci, r2, ps)
                        else some (.bref (c.toNat - 48) ps.fl.ci, r, ps)
           | [] => some (.bref (c.toNat - 48) ps.fl.ci, r, ps))
        else
          match escChar (c :: r) with
          | some (ch, r2) => some (mkLit ps.fl ch, r2, ps)
          | none => none
    | '\\' :: [] => none
    | '*' :: _ => none
    | '+' :: _ => none
    | '?' :: _ => none
    | ')' :: _ => none
    | '|' :: _ => none
    | c :: r => some (mkLit ps.fl c, r, ps)
end

/-- parse a whole pattern (the `re.compile(pattern, flags)` of the model) -/
def parseL (fl : Flags) (p : List Char) : Option Parsed :=
  match pAlt (4 * p.length + 4) ⟨0, [], fl⟩ p with
  | some (r, [], ps) => some ⟨r, ps.ng, ps.names⟩
  | _ => none

def parse (p : String) : Option Parsed := parseL {} p.toList
def parseF (fl : Flags) (p : String) : Option Parsed := parseL fl p.toList

/-- `re.compile(p, flags).match(s, pos)`: end position and `groups()` -/
def runMatch (r : Parsed) (s : List Char) (pos : Nat) : Option (Nat × List (Option (List Char))) :=
  let st0 : St := (St.mk [] s []).adv pos
  match r.re.m st0 with
  | [] => none
  | st :: _ => some (st.pre.length, (List.range r.ngroups).map (fun i => lookupCap (i + 1) st.caps))

end PP.Regex
