/-
  S-expressions: the case language shared by the Python harness and the Lean driver.

  atom   ::= any run of characters other than blank ( ) "
  string ::= " ... "  with escapes \\ \" \n \t \r \xHH \uHHHH
  list   ::= ( sexp* )
-/
namespace PP

inductive Sexp where
  | atom (s : String)
  | str (s : String)
  | list (xs : List Sexp)
  deriving Repr, Inhabited

namespace Sexp

inductive Tok where
  | lp | rp
  | atom (s : String)
  | str (s : String)
  deriving Repr, Inhabited

inductive Mode where
  | top
  | inAtom (acc : List Char)
  | inStr (acc : List Char)
  | esc (acc : List Char)
  | hex (n : Nat) (v : Nat) (acc : List Char)

def hexVal (c : Char) : Option Nat :=
  if '0' ≤ c ∧ c ≤ '9' then some (c.toNat - '0'.toNat)
  else if 'a' ≤ c ∧ c ≤ 'f' then some (c.toNat - 'a'.toNat + 10)
  else if 'A' ≤ c ∧ c ≤ 'F' then some (c.toNat - 'A'.toNat + 10)
  else none

def isBlank (c : Char) : Bool := c == ' ' || c == '\n' || c == '\t' || c == '\r'

def mkAtom (acc : List Char) : Tok := .atom (String.ofList acc.reverse)

def lex : Mode → List Char → List Tok → Option (List Tok)
  | .top, [], out => some out.reverse
  | .inAtom acc, [], out => some (mkAtom acc :: out).reverse
  | _, [], _ => none
  | .top, c :: cs, out =>
      if isBlank c then lex .top cs out
      else if c == '(' then lex .top cs (.lp :: out)
      else if c == ')' then lex .top cs (.rp :: out)
      else if c == '"' then lex (.inStr []) cs out
      else lex (.inAtom [c]) cs out
  | .inAtom acc, c :: cs, out =>
      if isBlank c then lex .top cs (mkAtom acc :: out)
      else if c == '(' then lex .top cs (.lp :: mkAtom acc :: out)
      else if c == ')' then lex .top cs (.rp :: mkAtom acc :: out)
      else if c == '"' then lex (.inStr []) cs (mkAtom acc :: out)
      else lex (.inAtom (c :: acc)) cs out
  | .inStr acc, c :: cs, out =>
      if c == '"' then lex .top cs (.str (String.ofList acc.reverse) :: out)
      else if c == '\\' then lex (.esc acc) cs out
      else lex (.inStr (c :: acc)) cs out
  | .esc acc, c :: cs, out =>
      if c == 'n' then lex (.inStr ('\n' :: acc)) cs out
      else if c == 't' then lex (.inStr ('\t' :: acc)) cs out
      else if c == 'r' then lex (.inStr ('\r' :: acc)) cs out
      else if c == '\\' then lex (.inStr ('\\' :: acc)) cs out
      else if c == '"' then lex (.inStr ('"' :: acc)) cs out
      else if c == 'x' then lex (.hex 2 0 acc) cs out
      else if c == 'u' then lex (.hex 4 0 acc) cs out
      else none
  | .hex n v acc, c :: cs, out =>
      match hexVal c with
      | none => none
      | some d =>
        let v' := v * 16 + d
        if n ≤ 1 then lex (.inStr (Char.ofNat v' :: acc)) cs out
        else lex (.hex (n - 1) v' acc) cs out

/-- parse a sequence of S-expressions up to a closing paren (or end of tokens at depth 0).
    `fuel` bounds the nesting + length; callers pass `toks.length + 1`. -/
def parseSeq : Nat → List Tok → List Sexp → Option (List Sexp × List Tok)
  | 0, _, _ => none
  | _+1, [], acc => some (acc.reverse, [])
  | _+1, .rp :: rest, acc => some (acc.reverse, .rp :: rest)
  | f+1, .atom s :: rest, acc => parseSeq f rest (.atom s :: acc)
  | f+1, .str s :: rest, acc => parseSeq f rest (.str s :: acc)
  | f+1, .lp :: rest, acc =>
      match parseSeq f rest [] with
      | some (xs, .rp :: rest') => parseSeq f rest' (.list xs :: acc)
      | _ => none

/-- parse a whole line into the list of its top-level S-expressions -/
def parseAll (s : String) : Option (List Sexp) :=
  match lex .top s.toList [] with
  | none => none
  | some toks =>
    match parseSeq (2 * toks.length + 2) toks [] with
    | some (xs, []) => some xs
    | _ => none

def hexDigit (n : Nat) : Char :=
  if n < 10 then Char.ofNat ('0'.toNat + n) else Char.ofNat ('a'.toNat + n - 10)

def escChar (c : Char) : List Char :=
  if c == '\\' then ['\\', '\\']
  else if c == '"' then ['\\', '"']
  else if c == '\n' then ['\\', 'n']
  else if c == '\t' then ['\\', 't']
  else if c == '\r' then ['\\', 'r']
  else if c.toNat < 32 || c.toNat == 127 then
    ['\\', 'x', hexDigit (c.toNat / 16), hexDigit (c.toNat % 16)]
  else if c.toNat > 126 ∧ c.toNat < 65536 then
    ['\\', 'u', hexDigit (c.toNat / 4096), hexDigit (c.toNat / 256 % 16),
      hexDigit (c.toNat / 16 % 16), hexDigit (c.toNat % 16)]
  else [c]

def quote (s : String) : String :=
  String.ofList ('"' :: (s.toList.flatMap escChar) ++ ['"'])

mutual
def render : Sexp → String
  | .atom s => s
  | .str s => quote s
  | .list xs => "(" ++ renderList xs ++ ")"
def renderList : List Sexp → String
  | [] => ""
  | [x] => render x
  | x :: y :: xs => render x ++ " " ++ renderList (y :: xs)
end

def atom? : Sexp → Option String
  | .atom s => some s
  | _ => none

def str? : Sexp → Option String
  | .str s => some s
  | _ => none

def nat? : Sexp → Option Nat
  | .atom s => s.toNat?
  | _ => none

def int? : Sexp → Option Int
  | .atom s => s.toInt?
  | _ => none

def list? : Sexp → Option (List Sexp)
  | .list xs => some xs
  | _ => none

def bool? : Sexp → Option Bool
  | .atom "T" => some true
  | .atom "F" => some false
  | _ => none

def ofBool (b : Bool) : Sexp := .atom (if b then "T" else "F")
def ofNat (n : Nat) : Sexp := .atom (toString n)
def ofInt (n : Int) : Sexp := .atom (toString n)
def ofChars (cs : List Char) : Sexp := .str (String.ofList cs)

end Sexp
end PP
