/-
  Semantics of the CPython `str` / `int` builtins that the *translated* sources use (harness/py2lean.py emits terms
  over these).  `str` is `List Char`, `int` is `Int`.  This file is the trusted reading of CPython for the translator
  tie; it is validated against CPython itself (not against pyparsing) on every run of C14 (`pystr` driver command:
  random strings, needles and — also negative / out-of-range — bounds).

  Index normalisation is CPython's `PySlice_AdjustIndices` / `ADJUST_INDICES`: a negative bound gets `len` added and
  is then clamped to `0`, a bound beyond the end is clamped to `len`.
-/
namespace PP.Py

/-- `len(s)` -/
def len (s : List Char) : Int := s.length

/-- clamp a (possibly negative) bound into `[0, n]` -/
def adj (n : Nat) (i : Int) : Nat :=
  if i < 0 then (i + n).toNat else min i.toNat n

/-- a bound that may be omitted (`None`) -/
def adjO (n : Nat) (dflt : Nat) : Option Int → Nat
  | none => dflt
  | some i => adj n i

/-- `s[a:b]` (step 1) -/
def slice (s : List Char) (a b : Option Int) : List Char :=
  let lo := adjO s.length 0 a
  let hi := adjO s.length s.length b
  (s.take hi).drop lo

/-- `s[i]` as a one-character string; `none` where CPython raises IndexError -/
def item (s : List Char) (i : Int) : Option (List Char) :=
  let j := if i < 0 then i + s.length else i
  if j < 0 then none else (s[j.toNat]?).map (fun c => [c])

/-- last index `i` with `lo ≤ i < hi` and `s[i] = c` (window already normalised) -/
def rfindGo (c : Char) : List Char → Nat → Nat → Option Nat
  | [], _, _ => none
  | _, _, 0 => none
  | x :: xs, lo, hi+1 =>
      match rfindGo c xs (lo - 1) hi with
      | some i => some (i + 1)
      | none => if lo = 0 ∧ x = c then some 0 else none

/-- first index `i` with `lo ≤ i < hi` and `s[i] = c` -/
def findGo (c : Char) : List Char → Nat → Nat → Option Nat
  | [], _, _ => none
  | _, _, 0 => none
  | x :: xs, 0, hi+1 => if x = c then some 0 else (findGo c xs 0 hi).map (· + 1)
  | _ :: xs, lo+1, hi+1 => (findGo c xs lo hi).map (· + 1)

/-- number of `i` with `lo ≤ i < hi` and `s[i] = c` -/
def countGo (c : Char) : List Char → Nat → Nat → Nat
  | [], _, _ => 0
  | _, _, 0 => 0
  | x :: xs, 0, hi+1 => (if x = c then 1 else 0) + countGo c xs 0 hi
  | _ :: xs, lo+1, hi+1 => countGo c xs lo hi

def optIdx : Option Nat → Int
  | some i => i
  | none => -1

/-- `s.rfind(c, lo, hi)` for a one-character needle `c` -/
def rfindC (s : List Char) (c : Char) (lo hi : Option Int) : Int :=
  optIdx (rfindGo c s (adjO s.length 0 lo) (adjO s.length s.length hi))

/-- `s.find(c, lo, hi)` for a one-character needle `c` -/
def findC (s : List Char) (c : Char) (lo hi : Option Int) : Int :=
  optIdx (findGo c s (adjO s.length 0 lo) (adjO s.length s.length hi))

/-- `s.count(c, lo, hi)` for a one-character needle `c` -/
def countC (s : List Char) (c : Char) (lo hi : Option Int) : Int :=
  countGo c s (adjO s.length 0 lo) (adjO s.length s.length hi)

/-- `x in cs` for a one-character string `x` and a collection of characters (a `set` / `str` of single characters) -/
def inChars (x : List Char) (cs : List Char) : Bool :=
  match x with
  | [c] => cs.contains c
  | _ => false

/-- `s.startswith(p, lo)`: CPython's tailmatch — a negative `lo` gets `len` added (clamped to 0), a `lo` beyond the
    end is NOT clamped (then nothing, not even the empty prefix, matches) -/
def startswith (s p : List Char) (lo : Option Int) : Bool :=
  let lo' : Nat := match lo with
    | none => 0
    | some i => if i < 0 then (i + s.length).toNat else i.toNat
  decide (lo' + p.length ≤ s.length) && ((s.drop lo').take p.length == p)

/-- the iterations of `while loc < B and instring[loc] (not) in cs: loc += 1` (`neg` = `not in`), at most `fuel` of
    them; `none` = IndexError raised by `instring[loc]`.  CPython order: `loc < B` first, the index expression only
    when it holds.  With `fuel = 0` the current `loc` is returned: `scanWhile` passes `fuel = (B - loc).toNat`, every
    iteration needs `loc < B` and adds 1 to `loc`, so `fuel = 0` is reached exactly when `loc ≥ B`, where the loop
    condition is false (lemma `scanGo_zero_exact` in Lemmas/LoopSrc.lean: the fuel never cuts a running loop). -/
def scanGo (s cs : List Char) (neg : Bool) (B : Int) : Nat → Int → Option Int
  | 0, loc => some loc
  | k+1, loc =>
      if loc < B then
        match item s loc with
        | none => none
        | some x => if (inChars x cs != neg) then scanGo s cs neg B k (loc + 1) else some loc
      else some loc

/-- `while loc < B and instring[loc] in cs: loc += 1` (`neg = false`) /
    `while loc < B and instring[loc] not in cs: loc += 1` (`neg = true`): the value of `loc` after the loop,
    `none` = IndexError.  Validated against the Python loop itself (`pystr scan`), negative `loc` / `B` included. -/
def scanWhile (s cs : List Char) (neg : Bool) (loc B : Int) : Option Int :=
  scanGo s cs neg B (B - loc).toNat loc

/-- what a leaf `parseImpl` does: `return loc, tokens` | `raise ParseException(instring, loc, …)` | an IndexError
    raised by an index expression -/
inductive Ret where
  | ok (loc : Int) (toks : List (List Char))
  | parseExc (loc : Int)
  | indexError
  deriving Repr, DecidableEq

end PP.Py
