import PPModel.Base.Sexp
import PPModel.Mod.TrimArity
namespace PP.Driver.TrimArityD
open PP PP.Sexp PP.TrimArity

/-!
`trim <mode> (sf sl cf cl maxLimit) <n> (found limit) <inv>*`

  mode  ::= act | cond | condfatal
  inv   ::= ((k*) (beh_0 … beh_m))        accepted argument counts; behaviour of a body run with k arguments
  beh   ::= (ret none|same|<nat>|T|F) | (raise <exc> (f l)*)      frames below the wrapper, outermost first
  exc   ::= T | I | P | F | O<nat>

One wrapper (one `_trim_arity` closure) is invoked once per `inv`, state threaded through.
Output: one item per invocation: `((ev*) <elem> <top> found limit)`.
-/

def excOf (s : String) : Option Exc :=
  match s.toList with
  | ['T'] => some .typeError
  | ['I'] => some .indexError
  | ['P'] => some .parseExc
  | ['F'] => some .parseFatal
  | 'O' :: ds => (String.ofList ds).toNat?.map .other
  | _ => none

def excStr : Exc → String
  | .typeError => "T" | .indexError => "I" | .parseExc => "P" | .parseFatal => "F"
  | .other t => "O" ++ toString t

def frameOf : Sexp → Option Frame
  | .list [a, b] => do pure ((← a.nat?), (← b.nat?))
  | _ => none

def behOf : Sexp → Option (BodyRes RetVal)
  | .list [.atom "ret", .atom "none"] => some (.ret .none)
  | .list [.atom "ret", .atom "same"] => some (.ret .same)
  | .list [.atom "ret", v] => do pure (.ret (.value (← v.nat?)))
  | .list (.atom "raise" :: .atom e :: frs) => do pure (.raise (← excOf e) (← frs.mapM frameOf))
  | _ => none

def behBoolOf : Sexp → Option (BodyRes Bool)
  | .list [.atom "ret", b] => do pure (.ret (← b.bool?))
  | .list (.atom "raise" :: .atom e :: frs) => do pure (.raise (← excOf e) (← frs.mapM frameOf))
  | _ => none

def mkCallable {β} [Inhabited (BodyRes β)] (acc : List Nat) (behs : List (BodyRes β)) : Callable Unit β :=
  ⟨fun k => acc.contains k, fun s k => (behs.getD k default, s)⟩

def evSexp : Ev → Sexp
  | .probe k => .list [.atom "p", ofNat k]
  | .run k => .list [.atom "r", ofNat k]

def toksSexp : Toks → Sexp
  | .matched => .atom "matched"
  | .replaced v => .list [.atom "replaced", ofNat v]

def elemSexp : ElemOut → Sexp
  | .ok t => .list [.atom "ok", toksSexp t]
  | .parseFail => .atom "parse-fail"
  | .fatal => .atom "fatal"
  | .escapes e => .list [.atom "escapes", .atom (excStr e)]
  | .escapesWrapped => .atom "escapes-wrapped-index"

def topSexp : TopOut → Sexp
  | .returns t => .list [.atom "returns", toksSexp t]
  | .raises e => .list [.atom "raises", .atom (excStr e)]

def invParts : Sexp → Option (List Nat × List Sexp)
  | .list [.list ks, .list bs] => do pure ((← ks.mapM Sexp.nat?), bs)
  | _ => none

def trimRun (mode : String) (cfg : Cfg) (n : Nat) : WState → List Sexp → Option (List Sexp)
  | _, [] => some []
  | st, inv :: rest => do
      let (acc, bs) ← invParts inv
      let (evs, st', el) ←
        if mode == "act" then do
          let behs ← bs.mapM behOf
          let r := wrapper cfg (mkCallable acc behs) st () n
          pure (r.evs, r.st, actionStep .matched r.out)
        else do
          let behs ← bs.mapM behBoolOf
          let r := wrapper cfg (mkCallable acc behs) st () n
          pure (r.evs, r.st, conditionStep .matched (mode == "condfatal") r.out)
      let item := Sexp.list [.list (evs.map evSexp), elemSexp el, topSexp (parseStringOut el),
                             ofBool st'.found, ofNat st'.limit]
      let more ← trimRun mode cfg n st' rest
      pure (item :: more)

def trimArityHandle : List Sexp → Option Sexp
  | .atom "trim" :: .atom mode :: .list [sf, sl, cf, cl, ml] :: n :: .list [fd, lim] :: invs => do
      let cfg : Cfg := ⟨((← sf.nat?), (← sl.nat?)), ((← cf.nat?), (← cl.nat?)), (← ml.nat?)⟩
      if mode != "act" && mode != "cond" && mode != "condfatal" then none
      let items ← trimRun mode cfg (← n.nat?) ⟨(← fd.bool?), (← lim.nat?)⟩ invs
      pure (.list items)
  | _ => none

/-!
`nest cfg <n> (found limit) (ifound ilimit) <inv>*`      nested wrappers (`PP.TrimArity.Nest`), outer mode `act`

  inv   ::= ((oacc*) (bf bl) ((gf gl)*) (ia_0 … ia_m) <early-exc> <after> (iacc*) (ibeh_0 … ibeh_m))
  ia_k  ::= <nat> | none            arguments passed to the inner wrapper when the outer body got k
  after ::= pass | (ret none|<nat>) | (raise <exc>) | cond | condfatal
  ibeh  ::= as `beh` of `trim`, plus (ret T) = value 1, (ret F) = value 0

Both wrappers keep their state across the `inv`s.  Output per invocation:
`((outer ev*) ((inner ev*)*) <elem> <top> found limit ifound ilimit)`.
-/

def ibehOf : Sexp → Option (BodyRes RetVal)
  | .list [.atom "ret", .atom "T"] => some (.ret (.value 1))
  | .list [.atom "ret", .atom "F"] => some (.ret (.value 0))
  | x => behOf x

def afterOf : Sexp → Option (RetVal → RetVal ⊕ Exc)
  | .atom "pass" => some (fun v => .inl v)
  | .atom "cond" => some (fun v => if v == .value 0 then .inr .parseExc else .inl .none)
  | .atom "condfatal" => some (fun v => if v == .value 0 then .inr .parseFatal else .inl .none)
  | .list [.atom "ret", .atom "none"] => some (fun _ => .inl .none)
  | .list [.atom "ret", v] => do let k ← v.nat?; pure (fun _ => .inl (.value k))
  | .list [.atom "raise", .atom e] => do let x ← excOf e; pure (fun _ => .inr x)
  | _ => none

def optNatOf : Sexp → Option (Option Nat)
  | .atom "none" => some none
  | x => x.nat?.map some

def nestOf : Sexp → Option (Nest Unit RetVal RetVal)
  | .list [.list oacc, bf, .list glue, .list ias, .atom early, after, .list iacc, .list ibehs] => do
      let oacc ← oacc.mapM Sexp.nat?
      let iacc ← iacc.mapM Sexp.nat?
      let ias ← ias.mapM optNatOf
      let behs ← ibehs.mapM ibehOf
      let ex ← excOf early
      pure ⟨fun k => oacc.contains k, (← frameOf bf), (← glue.mapM frameOf), mkCallable iacc behs,
            fun k => (ias.getD k none), fun _ => ex, (← afterOf after)⟩
  | _ => none

def nestRun (cfg : Cfg) (n : Nat) : WState → WState → List Sexp → Option (List Sexp)
  | _, _, [] => some []
  | st, ist, inv :: rest => do
      let N ← nestOf inv
      let r := wrapper cfg (N.toCallable cfg) st (ist, (), []) n
      let el := actionStep .matched r.out
      let item := Sexp.list [.list (r.evs.map evSexp), .list (r.cs.2.2.map fun l => .list (l.map evSexp)),
                             elemSexp el, topSexp (parseStringOut el), ofBool r.st.found, ofNat r.st.limit,
                             ofBool r.cs.1.found, ofNat r.cs.1.limit]
      let more ← nestRun cfg n r.st r.cs.1 rest
      pure (item :: more)

def nestHandle : List Sexp → Option Sexp
  | .atom "nest" :: .list [sf, sl, cf, cl, ml] :: n :: .list [fd, lim] :: .list [ifd, ilim] :: invs => do
      let cfg : Cfg := ⟨((← sf.nat?), (← sl.nat?)), ((← cf.nat?), (← cl.nat?)), (← ml.nat?)⟩
      let items ← nestRun cfg (← n.nat?) ⟨(← fd.bool?), (← lim.nat?)⟩ ⟨(← ifd.bool?), (← ilim.nat?)⟩ invs
      pure (.list items)
  | _ => none

end PP.Driver.TrimArityD

namespace PP.Driver
def trimArityHandle (xs : List Sexp) : Option Sexp :=
  match TrimArityD.trimArityHandle xs with
  | some r => some r
  | none => TrimArityD.nestHandle xs
end PP.Driver
