import PPModel.Base.Sexp
import PPModel.Mod.TrimArity
namespace PP.Driver.TrimArityD
open PP PP.Sexp PP.TrimArity

/-!
`trim <mode> (sf sl cf cl maxLimit) <n> (found limit) <inv>*`

  mode  ::= act | cond | condfatal
  inv   ::= ((k*) (beh_0 … beh_m))        accepted argument counts; behaviour of a body run with k arguments
  beh   ::= (ret none|same|<nat>|T|F) | (raise <exc> (f l)*)      frames below the wrapper, outermost first
  exc   ::= T | I | P | F | O<nat>

One wrapper (one `_trim_arity` closure) is invoked once per `inv`, state threaded through.
Output: one item per invocation: `((ev*) <elem> <top> found limit)`.
-/

def excOf (s : String) : Option Exc :=
  match s.toList with
  | ['T'] => some .typeError
  | ['I'] => some .indexError
  | ['P'] => some .parseExc
  | ['F'] => some .parseFatal
  | 'O' :: ds => (String.ofList ds).toNat?.map .other
  | _ => none

def excStr : Exc → String
  | .typeError => "T" | .indexError => "I" | .parseExc => "P" | .parseFatal => "F"
  | .other t => "O" ++ toString t

def frameOf : Sexp → Option Frame
  | .list [a, b] => do pure ((← a.nat?), (← b.nat?))
  | _ => none

def behOf : Sexp → Option (BodyRes RetVal)
  | .list [.atom "ret", .atom "none"] => some (.ret .none)
  | .list [.atom "ret", .atom "same"] => some (.ret .same)
  | .list [.atom "ret", v] => do pure (.ret (.value (← v.nat?)))
  | .list (.atom "raise" :: .atom e :: frs) => do pure (.raise (← excOf e) (← frs.mapM frameOf))
  | _ => none

def behBoolOf : Sexp → Option (BodyRes Bool)
  | .list [.atom "ret", b] => do pure (.ret (← b.bool?))
  | .list (.atom "raise" :: .atom e :: frs) => do pure (.raise (← excOf e) (← frs.mapM frameOf))
  | _ => none

def mkCallable {β} [Inhabited (BodyRes β)] (acc : List Nat) (behs : List (BodyRes β)) : Callable Unit β :=
  ⟨fun k => acc.contains k, fun s k => (behs.getD k default, s)⟩

def evSexp : Ev → Sexp
  | .probe k => .list [.atom "p", ofNat k]
  | .run k => .list [.atom "r", ofNat k]

def toksSexp : Toks → Sexp
  | .matched => .atom "matched"
  | .replaced v => .list [.atom "replaced", ofNat v]

def elemSexp : ElemOut → Sexp
  | .ok t => .list [.atom "ok", toksSexp t]
  | .parseFail => .atom "parse-fail"
  | .fatal => .atom "fatal"
  | .escapes e => .list [.atom "escapes", .atom (excStr e)]
  | .escapesWrapped => .atom "escapes-wrapped-index"

def topSexp : TopOut → Sexp
  | .returns t => .list [.atom "returns", toksSexp t]
  | .raises e => .list [.atom "raises", .atom (excStr e)]

def invParts : Sexp → Option (List Nat × List Sexp)
  | .list [.list ks, .list bs] => do pure ((← ks.mapM Sexp.nat?), bs)
  | _ => none

def trimRun (mode : String) (cfg : Cfg) (n : Nat) : WState → List Sexp → Option (List Sexp)
  | _, [] => some []
  | st, inv :: rest => do
      let (acc, bs) ← invParts inv
      let (evs, st', el) ←
        if mode == "act" then do
          let behs ← bs.mapM behOf
          let r := wrapper cfg (mkCallable acc behs) st () n
          pure (r.evs, r.st, actionStep .matched r.out)
        else do
          let behs ← bs.mapM behBoolOf
          let r := wrapper cfg (mkCallable acc behs) st () n
          pure (r.evs, r.st, conditionStep .matched (mode == "condfatal") r.out)
      let item := Sexp.list [.list (evs.map evSexp), elemSexp el, topSexp (parseStringOut el),
                             ofBool st'.found, ofNat st'.limit]
      let more ← trimRun mode cfg n st' rest
      pure (item :: more)

def trimArityHandle : List Sexp → Option Sexp
  | .atom "trim" :: .atom mode :: .list [sf, sl, cf, cl, ml] :: n :: .list [fd, lim] :: invs => do
      let cfg : Cfg := ⟨((← sf.nat?), (← sl.nat?)), ((← cf.nat?), (← cl.nat?)), (← ml.nat?)⟩
      if mode != "act" && mode != "cond" && mode != "condfatal" then none
      let items ← trimRun mode cfg (← n.nat?) ⟨(← fd.bool?), (← lim.nat?)⟩ invs
      pure (.list items)
  | _ => none

end PP.Driver.TrimArityD

namespace PP.Driver
def trimArityHandle := TrimArityD.trimArityHandle
end PP.Driver
