import PPModel.Base.Sexp
import PPModel.Mod.Entry
import PPModel.Mod.LeftRec
import PPModel.Mod.PlainFrag
import PPModel.Mod.TermCheck
/-
  Driver handlers for the shared parse model.

  line:  pp (<mode>) <entry> <fuel> <root> "<default white>" "<input>" <keepTabs> (<opts>...) (<node>*)
    entry ∈ parse | parseAll | scan | search | transform | split | plain | termcheck
    node  = (<kind> <skipWs> "<white>" <callPre> <mayIdx> (<ignore ids>) (<acts>) <callDuringTry> <nameLen> <hasName>)
-/
namespace PP.Driver.PD
open PP PP.Sexp PP.Parse

def chars? : Sexp → Option (List Char)
  | .str s => some s.toList
  | _ => none

def optNat? : Sexp → Option (Option Nat)
  | .atom "None" => some none
  | x => x.nat?.map some

def optChars? : Sexp → Option (Option (List Char))
  | .atom "None" => some none
  | x => (chars? x).map some

def nats? (xs : List Sexp) : Option (List Nat) := xs.mapM nat?

def act? : Sexp → Option Act
  | .list [.atom "none"] => some .none
  | .list [.atom "const", v] => do pure (.const (← chars? v))
  | .list [.atom "drop"] => some .drop
  | .list [.atom "rev"] => some .rev
  | .list [.atom "dup"] => some .dup
  | .list [.atom "app", v] => do pure (.app (← chars? v))
  | .list [.atom "failP"] => some .failP
  | .list [.atom "failF"] => some .failF
  | .list [.atom "condFalse", b] => do pure (.condFalse (← b.bool?))
  | .list [.atom "condTrue"] => some .condTrue
  | .list [.atom "name", n, m, al] => do pure (.name (← chars? n) (← m.bool?) (← al.bool?))
  | .list [.atom "nameL", n, m, al] => do pure (.nameL (← chars? n) (← m.bool?) (← al.bool?))
  | _ => none

def kind? : Sexp → Option Kind
  | .list [.atom "lit", m] => do pure (.lit (← chars? m))
  | .list [.atom "lit1", m] => do
      match (← chars? m) with
      | [c] => pure (.lit1 c)
      | _ => none
  | .list [.atom "empty"] => some .empty
  | .list [.atom "errorStop"] => some .errorStop
  | .list [.atom "noMatch"] => some .noMatch
  | .list [.atom "caselessLit", m, r] => do pure (.caselessLit (← chars? m) (← chars? r))
  | .list [.atom "keyword", m, i, c] => do pure (.keyword (← chars? m) (← chars? i) (← c.bool?))
  | .list [.atom "word", i, b, mn, mx, ms, kw, re] => do
      pure (.word (← chars? i) (← chars? b) (← mn.nat?) (← optNat? mx) (← ms.bool?) (← kw.bool?) (← re.bool?))
  | .list [.atom "charsNotIn", c, mn, mx] => do pure (.charsNotIn (← chars? c) (← mn.nat?) (← optNat? mx))
  | .list [.atom "stringStart"] => some .stringStart
  | .list [.atom "stringEnd"] => some .stringEnd
  | .list [.atom "lineStart", w, nl] => do pure (.lineStart (← chars? w) (← nl.bool?))
  | .list [.atom "lineEnd"] => some .lineEnd
  | .list [.atom "wordStart", c] => do pure (.wordStart (← chars? c))
  | .list [.atom "wordEnd", c] => do pure (.wordEnd (← chars? c))
  | .list (.atom "and" :: es) => do pure (.and (← nats? es))
  | .list (.atom "matchFirst" :: es) => do pure (.matchFirst (← nats? es))
  | .list (.atom "or" :: es) => do pure (.or (← nats? es))
  | .list [.atom "opt", e, d] => do pure (.opt (← e.nat?) (← optChars? d))
  | .list [.atom "many", e, ne, one] => do pure (.many (← e.nat?) (← optNat? ne) (← one.bool?))
  | .list [.atom "notAny", e] => do pure (.notAny (← e.nat?))
  | .list [.atom "followedBy", e] => do pure (.followedBy (← e.nat?))
  | .list [.atom "located", e] => do pure (.located (← e.nat?))
  | .list [.atom "group", e] => do pure (.group (← e.nat?))
  | .list [.atom "suppress", e] => do pure (.suppress (← e.nat?))
  | .list [.atom "combine", e, j] => do pure (.combine (← e.nat?) (← chars? j))
  | .list [.atom "skipTo", e, i, f, g] => do pure (.skipTo (← e.nat?) (← i.bool?) (← optNat? f) (← optNat? g))
  | .list [.atom "forward", e] => do pure (.forward (← optNat? e))
  | .list [.atom "enhance", e] => do pure (.enhance (← e.nat?))
  | _ => none

def node? : Sexp → Option Node
  | .list [k, sw, wh, cp, mi, .list ign, .list acts, cdt, nl, hn] => do
      pure { kind := ← kind? k, skipWs := ← sw.bool?, white := ← chars? wh, callPre := ← cp.bool?,
             mayIdx := ← mi.bool?, ignore := ← nats? ign, acts := ← acts.mapM act?,
             callDuringTry := ← cdt.bool?, nameLen := ← nl.nat?, hasName := ← hn.bool? }
  | _ => none

mutual
def tokSexp : Parse.Tok → Sexp
  | .s v => ofChars v
  | .n v => ofNat v
  | .g ts => .list (toksSexp ts)
  | .nm n m al ts => .list [.atom "nm", ofChars n, ofBool m, ofBool al, .list (toksSexp ts)]
  | .hid ts => .list [.atom "hid", .list (toksSexp ts)]
def toksSexp : List Parse.Tok → List Sexp
  | [] => []
  | t :: ts => tokSexp t :: toksSexp ts
end

def excName : Exc → String
  | .parse => "parse"
  | .fatal => "fatal"
  | .syntax => "syntax"

def outSexp : Out → Sexp
  | .ok e ts => .list [.atom "ok", ofNat e, .list (toksSexp (flatL ts))]
  | .fail c l => .list [.atom "fail", .atom (excName c), ofNat l]
  | .idx => .atom "idx"
  | .hang => .atom "hang"

/-- parse_string does not reveal the end location -/
def outSexpNoEnd : Out → Sexp
  | .ok _ ts => .list [.atom "ok", .list (toksSexp (flatL ts))]
  | o => outSexp o

def matchSexp (m : Match) : Sexp := .list [.list (toksSexp (flatL m.toks)), ofNat m.start, ofNat m.stop]

/-- with the results-name annotations (C05) -/
def outSexpNames : Out → Sexp
  | .ok _ ts => .list [.atom "ok", .list (toksSexp ts)]
  | o => outSexp o

def scanSexp (r : ScanR) : Sexp :=
  .list [.atom "scan", .list (r.ms.map matchSexp), match r.exc with
    | none => .atom "done"
    | some o => outSexp o]

/-- which parse function the entry points run on -/
def mkP (mode : List Sexp) (g : Grammar) (s : List Char) (fuel : Nat) : Option P :=
  match mode with
  | [.atom "none"] => some (parse g s fuel)
  -- packrat with any cache size: by `packrat_transparent` (Props/C02) the model's outcome under ANY cache content is
  -- the uncached outcome, so the prediction for the real packrat run is `parse` itself
  | [.atom "packrat", _] => some (parse g s fuel)
  -- left-recursion mode: the seed-growing model (the memo capacity does not occur in it: retained entries of finished
  -- Forwards are re-evaluations)
  | [.atom "lr", _] => some (parseLR g s fuel [])
  | _ => none

def parseHandle : List Sexp → Option Sexp
  | [.atom "pp", .list mode, .atom entry, fuel, root, dw, inp, keepTabs, .list opts, .list nodes] => do
      let fuel ← fuel.nat?
      let root ← root.nat?
      let dw ← chars? dw
      let s ← chars? inp
      let keepTabs ← keepTabs.bool?
      -- parse_string / scan_string parse the tab-expanded copy unless keepTabs (1209-1210, 1274-1275);
      -- transform_string forces keepTabs (1350)
      let s := if keepTabs || entry == "transform" then s else LineCol.expandTabs s
      let g ← nodes.mapM node?
      let p ← mkP mode g s fuel
      match entry, opts with
      | "plain", [] => pure (ofBool (plainTable g))
      -- C06: do the executable hypotheses of the termination theorem hold of this table (depth / analysis bound = its size)?
      | "termcheck", [] => pure (.list [ofBool (depthOk g g.length root), ofBool (advOk g g.length),
                                        ofBool (recTableOk g g.length g.length), ofNat g.length])
      | "parse", [] => pure (outSexpNoEnd (parseString p g root dw s false))
      | "parseNames", [] => pure (outSexpNames (parseString p g root dw s false))
      | "parseAll", [] => pure (outSexpNoEnd (parseString p g root dw s true))
      | "scan", [mm, sk, ov] => do
          pure (scanSexp (scanString p g root s (← mm.nat?) (← sk.bool?) (← ov.bool?)))
      | "transform", [] =>
          match transformString s (scanString p g root s (s.length + 2) true false) with
          | .inl o => pure (outSexp o)
          | .inr t => pure (ofChars t)
      | "split", [mm] => do
          let r := scanString p g root s (← mm.nat?) true false
          match r.exc with
          | some o => pure (.list [.atom "split", .list ((splitPieces s r.ms 0).dropLast.map ofChars), outSexp o])
          | none => pure (.list [.atom "split", .list ((splitPieces s r.ms 0).map ofChars), .atom "done"])
      | _, _ => none
  | _ => none

end PP.Driver.PD

namespace PP.Driver
def parseHandle := PD.parseHandle
end PP.Driver
