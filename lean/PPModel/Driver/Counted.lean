import PPModel.Base.Sexp
import PPModel.Mod.Counted
namespace PP.Driver
open PP PP.Sexp

/-- `counted <base> "<digits>" "<item chars>" "<text>"` ↦ `fail` | `(("<item>" …) <end>)` -/
def countedHandle : List Sexp → Option Sexp
  | [.atom "counted", base, .str digits, .str items, .str text] => do
      let base ← base.nat?
      let cs := text.toList
      match Counted.run base digits.toList items.toList cs with
      | none => pure (.atom "fail")
      | some (xs, r) => pure (.list [.list (xs.map ofChars), ofNat (cs.length - r.length)])
  | _ => none

end PP.Driver
