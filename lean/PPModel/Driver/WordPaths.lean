import PPModel.Base.Sexp
import PPModel.Mod.CompressedRe
namespace PP.Driver.WordPathsD
open PP PP.Sexp PP.ReLite PP.Ranges PP.WordPaths PP.OneOf PP.CompressedRe

private def outS (o : Option Nat) : Sexp :=
  match o with
  | some e => ofNat e
  | none => .atom "-1"

private def locs (s : List Char) : List Nat := List.range (s.length + 1)

/-- does the pattern text parse back to the AST it was rendered from? -/
private def roundTrip (r : Re) : Bool := decide (parse (render r) = some r)

private def wordArgs? : List Sexp → Option WordArgs
  | [.str i, .str b, mn, mx, ex, kw, .str x] => do
      pure { init := i.toList, body := b.toList, min := ← mn.nat?, max := ← mx.nat?, exact := ← ex.nat?,
             asKeyword := ← kw.bool?, excl := x.toList }
  | _ => none

private def symList? (xs : List Sexp) : Option (List (List Char)) :=
  xs.mapM (fun x => (x.str?).map String.toList)

private def pairS (o : OneOf.Out) : Sexp :=
  match o with
  | some (e, y) => .list [ofNat e, ofChars y]
  | none => .atom "-1"

/--
  `wordre <args>`            ↦ `valueerror` | `(slow "<init>" "<body>")` | `(re "<reString>" <roundtrip> "<init>" "<body>")`
  `wordat <args> "<s>"`      ↦ `valueerror` | `((installed slow) ...)` for loc = 0..len (end or -1)
  `rematch <ci> "<pat>" "<s>"` ↦ `bad` | `((e0 e1 ...) <fullmatch>)`
  `collapse "<cs>"`, `collapseraw "<cs>"`, `escrange "<s>"`, `reescape "<s>"` ↦ `"<text>"`
  `srange "<s>"`             ↦ `"<chars>"` | `unsupported`
  `oneof <ci> <useRegex> (<sym>...) "<s>"` ↦ `((<ordered>...) "<pattern>" (<out>...))`
  `mcr <maxLevel> (<word>...)` ↦ `valueerror` | `("<pattern>" <roundtrip>)`
  `literal "<m>" "<s>"`      ↦ `(e0 e1 ...)`
-/
def wordPathsHandle : List Sexp → Option Sexp
  | .atom "wordre" :: args => do
      let a ← wordArgs? args
      match mkWord a with
      | none => pure (.atom "valueerror")
      | some w =>
        match w.re with
        | none => pure (.list [.atom "slow", ofChars w.initSet, ofChars w.bodySet])
        | some r => pure (.list [.atom "re", ofChars (render r), ofBool (roundTrip r),
                                 ofChars w.initSet, ofChars w.bodySet])
  | [.atom "wordat", i, b, mn, mx, ex, kw, x, .str s] => do
      let a ← wordArgs? [i, b, mn, mx, ex, kw, x]
      let cs := s.toList
      match mkWord a with
      | none => pure (.atom "valueerror")
      | some w => pure (.list ((locs cs).map (fun loc =>
          .list [outS (parseWord w cs loc), outS (slowPath w cs loc)])))
  | [.atom "rematch", ci, .str p, .str s] => do
      let ci ← ci.bool?
      let cs := s.toList
      match parse p.toList with
      | none => pure (.atom "bad")
      | some r => pure (.list [.list ((locs cs).map (fun loc => outS (matchAt ci r cs loc))),
                               ofBool (fullMatch ci r cs)])
  | [.atom "collapse", .str s] => pure (ofChars (collapse s.toList))
  | [.atom "collapseraw", .str s] => pure (ofChars (collapseRaw s.toList))
  | [.atom "escrange", .str s] => pure (ofChars (escapeRangeChars s.toList))
  | [.atom "reescape", .str s] => pure (ofChars (reEscape s.toList))
  | [.atom "srange", .str s] =>
      match srange s.toList with
      | some r => pure (ofChars r)
      | none => pure (.atom "unsupported")
  | [.atom "oneof", ci, ur, .list syms, .str s] => do
      let ci ← ci.bool?
      let ur ← ur.bool?
      let syms ← symList? syms
      let cs := s.toList
      match reorder ci syms with
      | none => pure (.atom "nofuel")
      | some ordered =>
        pure (.list [.list (ordered.map ofChars), ofChars (render (oneOfRe ordered)),
                     .list ((locs cs).map (fun loc => pairS (oneOf ci ur syms cs loc)))])
  | [.atom "mcr", ml, .list ws] => do
      let ml ← ml.nat?
      let ws ← symList? ws
      match makeCompressedRe ws ml with
      | none => pure (.atom "valueerror")
      | some r => pure (.list [ofChars (render r), ofBool (roundTrip r)])
  | [.atom "literal", .str m, .str s] =>
      let cs := s.toList
      pure (.list ((locs cs).map (fun loc => outS (literal m.toList cs loc))))
  | _ => none

end PP.Driver.WordPathsD

namespace PP.Driver
def wordPathsHandle := WordPathsD.wordPathsHandle
end PP.Driver
