import PPModel.Base.Sexp
import PPModel.Mod.Sugar
import PPModel.Driver.Parse
/-
  Driver handlers for C12 (node tables extracted from the live objects by harness/gram.py):
    c12sim (<nodes1>) (<nodes2>) ((i j) ...)      ↦ (sim <simCheck> <closed1> <closed2>)
    c12stream <root> (<pre nodes>) (<post nodes>) ↦ (stream <streamCheck> <flattens?> <flag hypotheses hold>)
    c12flat (<nodes>) (<pre ids>) <n> (<post ids>) ↦ (flat <flattenHyp>)
-/
namespace PP.Driver.SugarD
open PP PP.Sexp PP.Parse

def pair? : Sexp → Option (Nat × Nat)
  | .list [a, b] => do pure (← a.nat?, ← b.nat?)
  | _ => none

def sugarHandle : List Sexp → Option Sexp
  | [.atom "c12sim", .list n1, .list n2, .list ps] => do
      let g1 ← n1.mapM PD.node?
      let g2 ← n2.mapM PD.node?
      let pairs ← ps.mapM pair?
      pure (.list [.atom "sim", ofBool (simCheck g1 g2 pairs), ofBool (closedCheck g1), ofBool (closedCheck g2)])
  | [.atom "c12stream", root, .list n1, .list n2] => do
      let root ← root.nat?
      let pre ← n1.mapM PD.node?
      let post ← n2.mapM PD.node?
      match pre[root]? with
      | none => none
      | some O =>
        pure (.list [.atom "stream", ofBool (streamCheck pre post root), ofBool (streamlineAndActs pre O),
                     ofBool (streamlineAndHyp pre O)])
  | [.atom "c12flat", .list ns, .list pre, n, .list post] => do
      let g ← ns.mapM PD.node?
      pure (.list [.atom "flat", ofBool (flattenHyp g (← pre.mapM nat?) (← n.nat?) (← post.mapM nat?))])
  | _ => none

end PP.Driver.SugarD

namespace PP.Driver
def sugarHandle := SugarD.sugarHandle
end PP.Driver
