import PPModel.Base.Sexp
import PPModel.Mod.LineCol
namespace PP.Driver
open PP PP.Sexp

/-- `linecol <loc> "<s>"` ↦ `(<col> <lineno> "<line>")`; `expandtabs "<s>"` ↦ `"<expanded>"` -/
def lineColHandle : List Sexp → Option Sexp
  | [.atom "linecol", loc, .str s] => do
      let loc ← loc.nat?
      let cs := s.toList
      pure (.list [ofNat (LineCol.col loc cs), ofNat (LineCol.lineno loc cs),
                   ofChars (LineCol.line loc cs)])
  | [.atom "expandtabs", .str s] => pure (ofChars (LineCol.expandTabs s.toList))
  | _ => none

end PP.Driver
