import PPModel.Base.Sexp
import PPModel.Base.PyStr
namespace PP.Driver
open PP PP.Sexp

/-- an optional int bound: the atom `N` is Python's `None` -/
def optInt? : Sexp → Option (Option Int)
  | .atom "N" => some none
  | x => (x.int?).map some

def char1? (s : String) : Option Char :=
  match s.toList with
  | [c] => some c
  | _ => none

/-- `pystr find|rfind|count "<s>" "<c>" lo hi` ↦ int;  `pystr slice "<s>" lo hi` ↦ str;
    `pystr item "<s>" i` ↦ str | `IndexError`;  `pystr len "<s>"` ↦ int  (validation of PyStr against CPython) -/
def pyStrHandle : List Sexp → Option Sexp
  | [.atom "pystr", .atom op, .str s, .str c, lo, hi] => do
      let c ← char1? c
      let lo ← optInt? lo
      let hi ← optInt? hi
      match op with
      | "find" => pure (ofInt (Py.findC s.toList c lo hi))
      | "rfind" => pure (ofInt (Py.rfindC s.toList c lo hi))
      | "count" => pure (ofInt (Py.countC s.toList c lo hi))
      | _ => none
  | [.atom "pystr", .atom "slice", .str s, lo, hi] => do
      let lo ← optInt? lo
      let hi ← optInt? hi
      pure (ofChars (Py.slice s.toList lo hi))
  | [.atom "pystr", .atom "item", .str s, i] => do
      let i ← i.int?
      match Py.item s.toList i with
      | some cs => pure (ofChars cs)
      | none => pure (.atom "IndexError")
  | [.atom "pystr", .atom "startswith", .str s, .str pfx, lo] => do
      let lo ← optInt? lo
      pure (ofBool (Py.startswith s.toList pfx.toList lo))
  | [.atom "pystr", .atom "in", .str x, .str cs] => pure (ofBool (Py.inChars x.toList cs.toList))
  | [.atom "pystr", .atom "scan", .str s, .str cs, .atom neg, loc, b] => do
      let loc ← loc.int?
      let b ← b.int?
      match Py.scanWhile s.toList cs.toList (neg == "T") loc b with
      | some l => pure (ofInt l)
      | none => pure (.atom "IndexError")
  | [.atom "pystr", .atom "min", a, b] => do
      let a ← a.int?
      let b ← b.int?
      pure (ofInt (min a b))
  | [.atom "pystr", .atom "len", .str s] => pure (ofInt (Py.len s.toList))
  | _ => none

end PP.Driver
