import PPModel.Base.Sexp
import PPModel.Mod.Infix
import PPModel.Driver.Parse
/-
  Driver handlers for C16.

    infixg <table>                       ↦ (<root> (<fb ids>) (<node>*))          the node table of `infixGrammar`
    infixp <table> <fuel> <parseAll> "<input>" ↦ outcome of parse_string on `infixGrammar` with `parseX`
    infixnest <table> <ex>               ↦ ("<render>" <nest>)
    ppx (<fb ids>) <entry> <fuel> <root> "<dflt white>" "<input>" (<node>*)   parse_string with `parseX` on an
                                                                              extracted table (entry parse|parseAll)
  <table> = ("<white>" <base node> "<lpar>" "<rpar>" <lsup> <rsup> ((<arity> <right> "<op1>" "<op2>" (<acts>))*))
  <ex>    = (atom "ws" "w") | (paren "wl" <ex> "wr") | (pre k "wo" <ex>) | (post k <ex> "wo")
          | (bin k <ex> "wo" <ex>) | (tern k <ex> "w1" <ex> "w2" <ex>)
-/
namespace PP.Driver.IX
open PP PP.Sexp PP.Parse PP.Infix PP.Driver.PD

def optNatSexp : Option Nat → Sexp
  | none => .atom "None"
  | some n => ofNat n

def optCharsSexp : Option (List Char) → Sexp
  | none => .atom "None"
  | some v => ofChars v

def actSexp : Act → Sexp
  | .none => .list [.atom "none"]
  | .const v => .list [.atom "const", ofChars v]
  | .drop => .list [.atom "drop"]
  | .rev => .list [.atom "rev"]
  | .dup => .list [.atom "dup"]
  | .app v => .list [.atom "app", ofChars v]
  | .failP => .list [.atom "failP"]
  | .failF => .list [.atom "failF"]
  | .condFalse b => .list [.atom "condFalse", ofBool b]
  | .condTrue => .list [.atom "condTrue"]
  | .name n m al => .list [.atom "name", ofChars n, ofBool m, ofBool al]
  | .nameL n m al => .list [.atom "nameL", ofChars n, ofBool m, ofBool al]

def kindSexp : Kind → Sexp
  | .lit m => .list [.atom "lit", ofChars m]
  | .lit1 c => .list [.atom "lit1", ofChars [c]]
  | .empty => .list [.atom "empty"]
  | .errorStop => .list [.atom "errorStop"]
  | .noMatch => .list [.atom "noMatch"]
  | .caselessLit m r => .list [.atom "caselessLit", ofChars m, ofChars r]
  | .keyword m i c => .list [.atom "keyword", ofChars m, ofChars i, ofBool c]
  | .word i b mn mx ms kw re =>
      .list [.atom "word", ofChars i, ofChars b, ofNat mn, optNatSexp mx, ofBool ms, ofBool kw, ofBool re]
  | .charsNotIn c mn mx => .list [.atom "charsNotIn", ofChars c, ofNat mn, optNatSexp mx]
  | .stringStart => .list [.atom "stringStart"]
  | .stringEnd => .list [.atom "stringEnd"]
  | .lineStart w nl => .list [.atom "lineStart", ofChars w, ofBool nl]
  | .lineEnd => .list [.atom "lineEnd"]
  | .wordStart c => .list [.atom "wordStart", ofChars c]
  | .wordEnd c => .list [.atom "wordEnd", ofChars c]
  | .and es => .list (.atom "and" :: es.map ofNat)
  | .matchFirst es => .list (.atom "matchFirst" :: es.map ofNat)
  | .or es => .list (.atom "or" :: es.map ofNat)
  | .opt e d => .list [.atom "opt", ofNat e, optCharsSexp d]
  | .many e ne one => .list [.atom "many", ofNat e, optNatSexp ne, ofBool one]
  | .notAny e => .list [.atom "notAny", ofNat e]
  | .followedBy e => .list [.atom "followedBy", ofNat e]
  | .located e => .list [.atom "located", ofNat e]
  | .group e => .list [.atom "group", ofNat e]
  | .suppress e => .list [.atom "suppress", ofNat e]
  | .combine e j => .list [.atom "combine", ofNat e, ofChars j]
  | .skipTo e i f g => .list [.atom "skipTo", ofNat e, ofBool i, optNatSexp f, optNatSexp g]
  | .forward e => .list [.atom "forward", optNatSexp e]
  | .enhance e => .list [.atom "enhance", ofNat e]

def nodeSexp (n : Node) : Sexp :=
  .list [kindSexp n.kind, ofBool n.skipWs, ofChars n.white, ofBool n.callPre, ofBool n.mayIdx,
         .list (n.ignore.map ofNat), .list (n.acts.map actSexp), ofBool n.callDuringTry, ofNat n.nameLen,
         ofBool n.hasName]

def level? : Sexp → Option Level
  | .list [ar, r, o1, o2, .list acts] => do
      pure { arity := ← ar.nat?, right := ← r.bool?, op1 := ← chars? o1, op2 := ← chars? o2,
             acts := ← acts.mapM act? }
  | _ => none

def table? : Sexp → Option Table
  | .list [w, b, lp, rp, ls, rs, .list lvs] => do
      pure { white := ← chars? w, base := ← node? b, lpar := ← chars? lp, rpar := ← chars? rp,
             lsup := ← ls.bool?, rsup := ← rs.bool?, levels := ← lvs.mapM level? }
  | _ => none

def ex? : Nat → Sexp → Option Ex
  | 0, _ => none
  | _+1, .list [.atom "atom", ws, w] => do pure (.atom (← chars? ws) (← chars? w))
  | f+1, .list [.atom "paren", wl, e, wr] => do pure (.paren (← chars? wl) (← ex? f e) (← chars? wr))
  | f+1, .list [.atom "pre", k, wo, e] => do pure (.pre (← k.nat?) (← chars? wo) (← ex? f e))
  | f+1, .list [.atom "post", k, e, wo] => do pure (.post (← k.nat?) (← ex? f e) (← chars? wo))
  | f+1, .list [.atom "bin", k, a, wo, b] => do pure (.bin (← k.nat?) (← ex? f a) (← chars? wo) (← ex? f b))
  | f+1, .list [.atom "tern", k, a, w1, b, w2, c] => do
      pure (.tern (← k.nat?) (← ex? f a) (← chars? w1) (← ex? f b) (← chars? w2) (← ex? f c))
  | _, _ => none

def infixHandle : List Sexp → Option Sexp
  | [.atom "infixg", t] => do
      let t ← table? t
      pure (.list [ofNat rootId, .list ((fbIds t).map ofNat), .list ((infixGrammar t).map nodeSexp)])
  | [.atom "infixp", t, fuel, pa, inp] => do
      let t ← table? t
      let s := LineCol.expandTabs (← chars? inp)
      let g := infixGrammar t
      pure (outSexpNoEnd (parseString (parseX (fbIds t) g s (← fuel.nat?)) g rootId t.white s (← pa.bool?)))
  | [.atom "infixnest", t, e] => do
      let t ← table? t
      let e ← ex? 100000 e
      pure (.list [ofChars (render t e), tokSexp (nest t e)])
  | [.atom "ppx", .list fb, .atom entry, fuel, root, dw, inp, .list nodes] => do
      let fb ← nats? fb
      let s := LineCol.expandTabs (← chars? inp)
      let g ← nodes.mapM node?
      let dw ← chars? dw
      let p := parseX fb g s (← fuel.nat?)
      let root ← root.nat?
      match entry with
      | "parse" => pure (outSexpNoEnd (parseString p g root dw s false))
      | "parseAll" => pure (outSexpNoEnd (parseString p g root dw s true))
      | _ => none
  | _ => none

end PP.Driver.IX

namespace PP.Driver
def infixHandle := IX.infixHandle
end PP.Driver
