import PPModel.Base.Sexp
import PPModel.Driver.Parse
import PPModel.Mod.Names
/-
  Driver handler for C05.

  line:  ppnames (<mode>) <parse|parseAll> <fuel> <root> "<default white>" "<input>" <keepTabs> () (<node>*)
         — the arguments of `pp … parseNames` (PPModel/Driver/Parse.lean)
  out:   (ok <view> <as_dict>)  |  (fail …) | idx | hang
    <view>    = (view (<item>*) ((<key> <value>)*))      keys sorted; item/value = "str" | nat | <view>
    <as_dict> = (dict (<key> <v>)*) keys sorted; v = "str" | nat | (list v*) | (dict …)
  Everything is computed by `Names.resultOf` and the lookups of PPModel/Mod/Names.lean.
-/
namespace PP.Driver.NamesD
open PP PP.Sexp PP.Parse PP.Names PP.Driver.PD

def insKey (x : String × Sexp) : List (String × Sexp) → List (String × Sexp)
  | [] => [x]
  | y :: ys => if x.1 < y.1 then x :: y :: ys else y :: insKey x ys

def sortKeys : List (String × Sexp) → List (String × Sexp)
  | [] => []
  | x :: xs => insKey x (sortKeys xs)

mutual
def valSexp : Val → Sexp
  | .s v => ofChars v
  | .n v => ofNat v
  | .list xs => .list (.atom "list" :: valsSexp xs)
  | .dict kvs => .list (.atom "dict" :: (sortKeys (kvsSexp kvs)).map (fun kv => .list [.str kv.1, kv.2]))
  | .view items names =>
      .list [.atom "view", .list (valsSexp items), .list ((sortKeys (kvsSexp names)).map (fun kv => .list [.str kv.1, kv.2]))]
  | .bad => .atom "bad"
def valsSexp : List Val → List Sexp
  | [] => []
  | v :: vs => valSexp v :: valsSexp vs
def kvsSexp : List (String × Val) → List (String × Sexp)
  | [] => []
  | (k, v) :: kvs => (k, valSexp v) :: kvsSexp kvs
end

def namesOut : Out → Sexp
  | .ok _ ts =>
      let f := fuelFor ts + 1
      .list [.atom "ok", valSexp (viewItemF f (.g ts)), valSexp (.dict (asDictF f ts))]
  | o => outSexp o

def namesHandle : List Sexp → Option Sexp
  | [.atom "ppnames", .list mode, .atom entry, fuel, root, dw, inp, keepTabs, .list [], .list nodes] => do
      let fuel ← fuel.nat?
      let root ← root.nat?
      let dw ← chars? dw
      let s ← chars? inp
      let keepTabs ← keepTabs.bool?
      let s := if keepTabs then s else LineCol.expandTabs s
      let g ← nodes.mapM node?
      let p ← mkP mode g s fuel
      match entry with
      | "parse" => pure (namesOut (parseString p g root dw s false))
      | "parseAll" => pure (namesOut (parseString p g root dw s true))
      | _ => none
  | _ => none

end PP.Driver.NamesD

namespace PP.Driver
def namesHandle := NamesD.namesHandle
end PP.Driver
