import PPModel.Base.Sexp
import PPModel.Base.Regex
import PPModel.Mod.Quoted
namespace PP.Driver.QuotedD
open PP PP.Sexp PP.Quoted

/-- `("<quote>" "<endq>" <"c"|None> "<esc_quote>" <multiline> <unquote_results> <convert_whitespace_escapes>)` -/
def opts? : Sexp → Option Opts
  | .list [.str q, .str e, x, .str eq, ml, uq, cw] => do
      let ml ← ml.bool?
      let uq ← uq.bool?
      let cw ← cw.bool?
      let x ← (match x with
        | .atom "None" => some none
        | .str s => (match s.toList with | [c] => some (some c) | _ => none)
        | _ => none)
      pure ⟨q.toList, e.toList, x, eq.toList, ml, uq, cw⟩
  | _ => none

def enc? : Sexp → Option Enc
  | .atom "raw" => some .raw
  | .atom "esc" => some .esc
  | .atom "ws" => some .ws
  | .atom "hex" => some .hex
  | .atom "uni" => some .uni
  | .atom "oct" => some .oct
  | _ => none

def item? : Sexp → Option (Enc × Char)
  | .list [e, .str s] => do
      let e ← enc? e
      match s.toList with
      | [c] => pure (e, c)
      | _ => none
  | _ => none

/-- `qsscan <opts> "<inner>"` ↦ `"<unquote inner>"`
    `qsparse <opts> <ci> <ml> <dotall> "<live pattern>" "<text>"` ↦ `fail` | `bad-pattern` | `(<end> "<token>")`:
        the span is the match of the live pattern at 0 (regex-engine model), the token is `Quoted.result`
    `qsquote <opts> <defensive> "<body>"` ↦ `(<EscQuoteOk> "<inner>")`
    `qsencode <opts> ((<enc> "<c>") …)` ↦ `(<Valid> "<inner>" "<what unquote gives for it>")`
    `qspattern <opts>` ↦ `("<pattern>" <dotall>)` -/
def quotedHandle : List Sexp → Option Sexp
  | [.atom "qsscan", o, .str inner] => do
      let o ← opts? o
      pure (ofChars (unquote o inner.toList))
  | [.atom "qsparse", o, ci, ml, da, .str p, .str text] => do
      let o ← opts? o
      let ci ← ci.bool?
      let ml ← ml.bool?
      let da ← da.bool?
      match Regex.parseL ⟨ci, ml, da⟩ p.toList with
      | none => pure (.atom "bad-pattern")
      | some pr =>
        let cs := text.toList
        match Regex.runMatch pr cs 0 with
        | none => pure (.atom "fail")
        | some (e, _) => pure (.list [ofNat e, ofChars (result o (cs.take e))])
  | [.atom "qsquote", o, d, .str body] => do
      let o ← opts? o
      let d ← d.bool?
      pure (.list [ofBool (EscQuoteOk o body.toList), ofChars (quote o d body.toList)])
  | [.atom "qsencode", o, .list items] => do
      let o ← opts? o
      let items ← items.mapM item?
      let inner := encodeAll o items
      pure (.list [ofBool (Valid o items), ofChars inner, ofChars (unquote o inner)])
  | [.atom "qspattern", o] => do
      let o ← opts? o
      pure (.list [ofChars (pattern o), ofBool (scanDotall o)])
  | _ => none

end PP.Driver.QuotedD

namespace PP.Driver
def quotedHandle := QuotedD.quotedHandle
end PP.Driver
