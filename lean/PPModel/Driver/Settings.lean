import PPModel.Base.Sexp
import PPModel.Mod.Settings
namespace PP.Driver.SettingsD
open PP PP.Sexp PP.Settings

/-!
  `settings-run <cfg> <state> (<cmd> ...)` ↦ `((<state> <err> <depth> <ctxErr>) ...)`, one entry per command.

  cfg    ::= ((diagAll...) (diagFixed...) (diagWarn...) (compatAll...) (compatFixed...))      (strings)
  state  ::= (ws kw lit verbose packrat (cacheId cacheKind) parseSel lr (memoId memoKind)
              ((name v)...) ((name v)...) ((ws copyDef fwdEmpty skip)...) ((ws copyDef fwdEmpty skip)...) gen
              ((class attr)...))
  cacheKind ::= null | unbounded | (fifo n)        memoKind ::= dict | unbounded | (lru n)
  parseSel  ::= nocache | cache
  cmd    ::= enter | reenter | exit | exitcopy | restorelast | (setws s) | (setkw s) | (lit n) | (verbose b) | (packrat size force)
           | (lr cap force) | (disable) | (reset) | (diag name b) | (allwarn) | (compat name b)
           | (compatassign name b) | (new)      -- setws/setkw/lit/packrat/lr/disable/reset take an optional
                                                   -- trailing route number (default 0) | (copy i) | (exprws i s b) | (wrap i) | (newfwd) | (fwdassign i j)
           | (leavews i) | (ignorews i) | (newalt i)          size/cap ::= None | int
  err    ::= ok | RuntimeError | NotImplementedError | ValueError | AttributeError

  `settings-canon "<chars>"` ↦ `"<canonical set(chars)>"`
-/

def strs? (x : Sexp) : Option (List String) := do
  let xs ← x.list?
  xs.mapM Sexp.str?

def optInt? : Sexp → Option (Option Int)
  | .atom "None" => some none
  | x => (x.int?).map some

def cfg? : Sexp → Option Cfg
  | .list [a, b, c, d, e] => do
    pure { diagAll := ← strs? a, diagFixed := ← strs? b, diagWarn := ← strs? c,
           compatAll := ← strs? d, compatFixed := ← strs? e }
  | _ => none

def cacheKind? : Sexp → Option CacheKind
  | .atom "null" => some .null
  | .atom "unbounded" => some .unbounded
  | .list [.atom "fifo", n] => n.int?.map .fifo
  | _ => none

def memoKind? : Sexp → Option MemoKind
  | .atom "dict" => some .dict
  | .atom "unbounded" => some .unbounded
  | .list [.atom "lru", n] => n.int?.map .lru
  | _ => none

def parseSel? : Sexp → Option ParseSel
  | .atom "nocache" => some .noCache
  | .atom "cache" => some .cache
  | _ => none

def flags? (x : Sexp) : Option Flags := do
  let xs ← x.list?
  xs.mapM fun
    | .list [.str n, v] => do pure (n, ← v.bool?)
    | _ => none

def exprs? (x : Sexp) : Option (List Expr) := do
  let xs ← x.list?
  xs.mapM fun
    | .list [.str w, c, f, k] => do
        pure { ws := w.toList, copyDef := ← c.bool?, fwdEmpty := ← f.bool?, skip := ← k.bool? }
    | _ => none

def pairs? (x : Sexp) : Option (List (String × String)) := do
  let xs ← x.list?
  xs.mapM fun
    | .list [.str a, .str b] => some (a, b)
    | _ => none

def state? : Sexp → Option State
  | .list [.str ws, .str kw, lit, verbose, pk, .list [cid, ck], psel, lr, .list [mid, mk],
           dg, cp, bs, us, gen, sh] => do
    pure { defaultWs := ws, kwChars := kw, litCls := ← lit.nat?, verbose := ← verbose.bool?
           packratEnabled := ← pk.bool?, cache := ⟨← cid.nat?, ← cacheKind? ck⟩
           parseSel := ← parseSel? psel, lrEnabled := ← lr.bool?
           memo := ⟨← mid.nat?, ← memoKind? mk⟩
           diag := ← flags? dg, compat := ← flags? cp
           builtins := ← exprs? bs, users := ← exprs? us, gen := ← gen.nat?
           shadows := ← pairs? sh }
  | _ => none

def cmd? : Sexp → Option Cmd
  | .atom "enter" => some (.enter false)
  | .atom "reenter" => some (.enter true)
  | .atom "exit" => some (.exit false)
  | .atom "exitcopy" => some (.exit true)
  | .atom "restorelast" => some .restoreLast
  | .list [.atom "setws", .str s] => some (.op (.setDefaultWs s 0))
  | .list [.atom "setws", .str s, r] => do pure (.op (.setDefaultWs s (← r.nat?)))
  | .list [.atom "setkw", .str s] => some (.op (.setKwChars s 0))
  | .list [.atom "setkw", .str s, r] => do pure (.op (.setKwChars s (← r.nat?)))
  | .list [.atom "lit", n] => do pure (.op (.inlineLiterals (← n.nat?) 0))
  | .list [.atom "lit", n, r] => do pure (.op (.inlineLiterals (← n.nat?) (← r.nat?)))
  | .list [.atom "verbose", b] => do pure (.op (.setVerbose (← b.bool?)))
  | .list [.atom "packrat", sz, f] => do pure (.op (.enablePackrat (← optInt? sz) (← f.bool?) 0))
  | .list [.atom "packrat", sz, f, r] => do pure (.op (.enablePackrat (← optInt? sz) (← f.bool?) (← r.nat?)))
  | .list [.atom "lr", cap, f] => do pure (.op (.enableLR (← optInt? cap) (← f.bool?) 0))
  | .list [.atom "lr", cap, f, r] => do pure (.op (.enableLR (← optInt? cap) (← f.bool?) (← r.nat?)))
  | .list [.atom "disable"] => some (.op (.disableMemo 0))
  | .list [.atom "disable", r] => do pure (.op (.disableMemo (← r.nat?)))
  | .list [.atom "reset"] => some (.op (.resetCache 0))
  | .list [.atom "reset", r] => do pure (.op (.resetCache (← r.nat?)))
  | .list [.atom "diag", .str n, b] => do pure (.op (.diagSet n (← b.bool?)))
  | .list [.atom "allwarn"] => some (.op .enableAllWarnings)
  | .list [.atom "compat", .str n, b] => do pure (.op (.compatSet n (← b.bool?)))
  | .list [.atom "compatassign", .str n, b] => do pure (.op (.compatAssign n (← b.bool?)))
  | .list [.atom "new"] => some (.op .newExpr)
  | .list [.atom "copy", i] => do pure (.op (.copyExpr (← i.nat?)))
  | .list [.atom "newfwd"] => some (.op .newFwd)
  | .list [.atom "fwdassign", i, j] => do pure (.op (.assignFwd (← i.nat?) (← j.nat?)))
  | .list [.atom "wrap", i] => do pure (.op (.wrapExpr (← i.nat?)))
  | .list [.atom "leavews", i] => do pure (.op (.leaveWs (← i.nat?)))
  | .list [.atom "ignorews", i] => do pure (.op (.ignoreWs (← i.nat?)))
  | .list [.atom "newalt", i] => do pure (.op (.newAlt (← i.nat?)))
  | .list [.atom "exprws", i, .str s, b] => do pure (.op (.exprSetWs (← i.nat?) s (← b.bool?)))
  | _ => none

def ofCacheKind : CacheKind → Sexp
  | .null => .atom "null"
  | .unbounded => .atom "unbounded"
  | .fifo n => .list [.atom "fifo", ofInt n]

def ofMemoKind : MemoKind → Sexp
  | .dict => .atom "dict"
  | .unbounded => .atom "unbounded"
  | .lru n => .list [.atom "lru", ofInt n]

def ofParseSel : ParseSel → Sexp
  | .noCache => .atom "nocache"
  | .cache => .atom "cache"

def ofFlags (fl : Flags) : Sexp := .list (fl.map fun p => .list [.str p.1, ofBool p.2])

def ofExprs (es : List Expr) : Sexp := .list (es.map fun e => .list [ofChars e.ws, ofBool e.copyDef, ofBool e.fwdEmpty, ofBool e.skip])

def ofState (s : State) : Sexp :=
  .list [.str s.defaultWs, .str s.kwChars, ofNat s.litCls, ofBool s.verbose, ofBool s.packratEnabled,
         .list [ofNat s.cache.id, ofCacheKind s.cache.kind], ofParseSel s.parseSel, ofBool s.lrEnabled,
         .list [ofNat s.memo.id, ofMemoKind s.memo.kind], ofFlags s.diag, ofFlags s.compat,
         ofExprs s.builtins, ofExprs s.users, ofNat s.gen,
         .list (s.shadows.map fun p => .list [.str p.1, .str p.2])]

def ofErr : Option Err → Sexp
  | none => .atom "ok"
  | some .runtime => .atom "RuntimeError"
  | some .notImplemented => .atom "NotImplementedError"
  | some .value => .atom "ValueError"
  | some .attribute => .atom "AttributeError"

def settingsHandle : List Sexp → Option Sexp
  | [.atom "settings-run", cfg, st, .list cmds] => do
      let cfg ← cfg? cfg
      let st ← state? st
      let cmds ← cmds.mapM cmd?
      let tr := trace cfg cmds { st := st, stack := [], ctxErr := false, last := none }
      pure (.list (tr.map fun r =>
        .list [ofState r.1.st, ofErr r.2, ofNat r.1.stack.length, ofBool r.1.ctxErr]))
  | [.atom "settings-canon", .str s] => pure (ofChars (pySet s))
  | _ => none

end PP.Driver.SettingsD

namespace PP.Driver
def settingsHandle := SettingsD.settingsHandle
end PP.Driver
