import PPModel.Base.Sexp
import PPModel.Mod.ActionGate
namespace PP.Driver.ActionGateD
open PP PP.Sexp PP.ActionGate

/-!
`gate <expr> "<input>" <do_actions T|F>`  ↦  `(<result> ((id loc) …))`

  expr ::= (lit "c") | (act ((id kind)…) T|F expr) | (hist (op…) expr) | (dbg <mode> expr) | (seq e e) | (alt e e) | (or e…) | (each e…)
         | (skipto e <e|none> T|F) | (many e <e|none>) | (star e <e|none>) | (opt e) | (fb e) | (not e)
  kind ::= keep | fail | fatal | err
  op   ::= (set ((id kind)…) kw) | (add ((id kind)…) kw) | (cond ((id kind)…) kw) | clear | copy      kw ::= none | T | F

`pnc "<s>" "<c>" ((id kind)…) cdt debug failAction mayIndexError loc da cp`  ↦  `(<result> (ev…))`   one `_parseNoCache`
  call of `Literal(c)` (PP.ActionGate.parseNoCache, both branches);  ev ::= (a id loc) | (try loc) | (match start end)
  | (dfail loc) | (fact loc)

`ops (op…)`  ↦  `(((id…) cdt) …)`   the configuration (ids in parseAction, callDuringTry) after every prefix
-/

def akindOf : String → Option AKind
  | "keep" => some .keep | "fail" => some .fail | "fatal" => some .fatal | "err" => some .err
  | _ => none

def actOf : Sexp → Option Act
  | .list [i, .atom k] => do pure ⟨(← i.nat?), (← akindOf k)⟩
  | _ => none

def kwOf : Sexp → Option (Option Bool)
  | .atom "none" => some none
  | x => x.bool?.map some

def opOf : Sexp → Option Op
  | .list [.atom "set", .list as, k] => do pure (.setAct (← as.mapM actOf) (← kwOf k))
  | .list [.atom "add", .list as, k] => do pure (.addAct (← as.mapM actOf) (← kwOf k))
  | .list [.atom "cond", .list as, k] => do pure (.addCond (← as.mapM actOf) (← kwOf k))
  | .atom "clear" => some .clear
  | .atom "copy" => some .copy
  | _ => none

def cfgSexp (c : ACfg) : Sexp := .list [.list (c.acts.map fun a => ofNat a.id), ofBool c.cdt]

/-- configurations after every prefix of the history -/
def opsTrace (c : ACfg) : List Op → List Sexp
  | [] => []
  | o :: os => let c' := applyOp c o; cfgSexp c' :: opsTrace c' os

def exprOf : Nat → Sexp → Option E
  | 0, _ => none
  | f + 1, x =>
    let optOf : Sexp → Option (Option E) := fun y =>
      match y with
      | .atom "none" => some none
      | y => (exprOf f y).map some
    match x with
    | .list [.atom "lit", .str c] => match c.toList with | [ch] => some (.lit ch) | _ => none
    | .list [.atom "act", .list as, cdt, e] => do
        pure (.act (← as.mapM actOf) (← cdt.bool?) (← exprOf f e))
    -- set_debug / set_debug_actions / set_fail_action on the element: the same function up to the debug callbacks
    -- (PP.ActionGate.debug_branch_agrees); the callbacks are not part of the gate trace
    | .list [.atom "dbg", _, e] => exprOf f e
    | .list [.atom "hist", .list ops, e] => do
        pure (E.ofHist (← ops.mapM opOf) (← exprOf f e))
    | .list [.atom "seq", a, b] => do pure (.seq (← exprOf f a) (← exprOf f b))
    | .list [.atom "alt", a, b] => do pure (.alt (← exprOf f a) (← exprOf f b))
    | .list (.atom "or" :: es) => do pure (.or (← es.mapM (exprOf f)))
    | .list (.atom "each" :: es) => do pure (.each (← es.mapM (exprOf f)))
    | .list [.atom "skipto", t, fo, incl] => do pure (.skipTo (← exprOf f t) (← optOf fo) (← incl.bool?))
    | .list [.atom "many", e, st] => do pure (.many (← exprOf f e) (← optOf st))
    | .list [.atom "star", e, st] => do pure (.star (← exprOf f e) (← optOf st))
    | .list [.atom "opt", e] => do pure (.opt (← exprOf f e))
    | .list [.atom "fb", e] => do pure (.followedBy (← exprOf f e))
    | .list [.atom "not", e] => do pure (.notAny (← exprOf f e))
    | _ => none

def rSexp : R → Sexp
  | .ok l => .list [.atom "ok", ofNat l]
  | .fail => .atom "fail"
  | .fatal => .atom "fatal"
  | .err => .atom "err"
  | .hang => .atom "hang"

def actionGateHandle : List Sexp → Option Sexp
  | [.atom "gate", x, .str s, da] => do
      let e ← exprOf 64 x
      let r := parse s.toList 64 e 0 (← da.bool?) true
      pure (.list [rSexp r.1, .list (r.2.map fun ev => .list [ofNat ev.1, ofNat ev.2])])
  | [.atom "pnc", .str s, .str c, .list as, cdt, dbg, fa, mie, loc, da, cp] => do
      let cs := s.toList
      let ch ← match c.toList with | [ch] => some ch | _ => none
      let d ← dbg.bool?
      let x : DElem :=
        { pre := skipWs cs, callPre := true, mayIndexError := (← mie.bool?),
          impl := fun p _ => if cs[p]? == some ch then .ok (p + 1) 0 else .fail,
          acts := (← as.mapM actOf), cdt := (← cdt.bool?), debug := d, dTry := d, dMatch := d, dFail := d,
          failAction := (← fa.bool?) }
      let r := parseNoCache cs.length x (← loc.nat?) (← da.bool?) (← cp.bool?)
      let rs : Sexp := match r.1 with
        | .ok l _ => .list [.atom "ok", ofNat l]
        | .fail => .atom "fail" | .fatal => .atom "fatal" | .err => .atom "err"
      let evs := r.2.map fun ev => match ev with
        | .act i l => Sexp.list [.atom "a", ofNat i, ofNat l]
        | .dbgTry l => .list [.atom "try", ofNat l]
        | .dbgMatch a b => .list [.atom "match", ofNat a, ofNat b]
        | .dbgFail l => .list [.atom "dfail", ofNat l]
        | .failAct l => .list [.atom "fact", ofNat l]
      pure (.list [rs, .list evs])
  | [.atom "ops", .list ops] => do
      pure (.list (opsTrace .init (← ops.mapM opOf)))
  | _ => none

end PP.Driver.ActionGateD

namespace PP.Driver
def actionGateHandle := ActionGateD.actionGateHandle
end PP.Driver
