import PPModel.Base.Sexp
import PPModel.Base.Regex
namespace PP.Driver.RegexD
open PP PP.Sexp PP.Regex

def optChars : Option (List Char) → Sexp
  | none => .atom "None"
  | some t => ofChars t

/-- `rematch <ci> <ml> <dotall> "<pattern>" <pos> "<s>"`
      ↦ `bad-pattern` | `(nomatch <chk>)` | `(<end> (<g1> … <gn>) <chk>)`
    `<chk>` compares the capture-free `Re.ends` with the full matcher `Re.m` on this case:
    `same` (they agree, or the pattern is not `Simple`) or `ends-differs`. -/
def regexHandle : List Sexp → Option Sexp
  | [.atom "rematch", ci, ml, da, .str p, pos, .str s] => do
      let ci ← ci.bool?
      let ml ← ml.bool?
      let da ← da.bool?
      let pos ← pos.nat?
      match parseL ⟨ci, ml, da⟩ p.toList with
      | none => pure (.atom "bad-pattern")
      | some pr =>
        let cs := s.toList
        let res := runMatch pr cs pos
        let e2 := (pr.re.ends (cs.drop pos)).head?.map (fun e => cs.length - e.length)
        let chk : Sexp := .atom (if !pr.re.Simple || e2 == res.map (·.1) then "same" else "ends-differs")
        match res with
        | none => pure (.list [.atom "nomatch", chk])
        | some (e, gs) => pure (.list [ofNat e, .list (gs.map optChars), chk])
  | [.atom "reparse", ci, ml, da, .str p] => do
      let ci ← ci.bool?
      let ml ← ml.bool?
      let da ← da.bool?
      match parseL ⟨ci, ml, da⟩ p.toList with
      | none => pure (.atom "bad-pattern")
      | some pr => pure (.list [ofNat pr.ngroups, .list (pr.names.map (fun (n, i) => .list [.str n, ofNat i])),
                               ofBool pr.re.Simple])
  | [.atom "reast", ci, ml, da, .str p] => do
      let ci ← ci.bool?
      let ml ← ml.bool?
      let da ← da.bool?
      match parseL ⟨ci, ml, da⟩ p.toList with
      | none => pure (.atom "bad-pattern")
      | some pr => pure (.str (toString (repr pr)))
  | _ => none

end PP.Driver.RegexD

namespace PP.Driver
def regexHandle := RegexD.regexHandle
end PP.Driver
