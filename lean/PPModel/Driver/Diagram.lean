import PPModel.Base.Sexp
import PPModel.Mod.Diagram
namespace PP.Driver.DiagramD
open PP PP.Sexp PP.Diagram

/-
  `diagram (<vertical|None> <names> <groups> <hidden>) <fuel> <root>
           ((<cls>*) "<tname>" (<kid>*) <custom> <rname> <modal> <shown> "<dname>" "<term>")*`
  with <custom>/<rname> = `None` or a string,
  ↦ `hang` | `(ok (<name|None> <index> <tree>)*)`
-/

def clsOf : String → Option Cls
  | "And" => some .and_ | "Or" => some .or_ | "MatchFirst" => some .matchFirst
  | "Each" => some .each | "NotAny" => some .notAny | "FollowedBy" => some .followedBy
  | "PrecededBy" => some .precededBy | "Group" => some .group
  | "TokenConverter" => some .tokenConverter | "Opt" => some .opt
  | "OneOrMore" => some .oneOrMore | "ZeroOrMore" => some .zeroOrMore | "Empty" => some .empty
  | "ParseElementEnhance" => some .enhance | "Regex" => some .regex | "Forward" => some .forward
  | "Located" => some .located | "PositionToken" => some .positionToken
  | "_ErrorStop" => some .errorStop
  | _ => none

def optStr? : Sexp → Option (Option String)
  | .atom "None" => some none
  | .str s => some (some s)
  | _ => none

def node? : Sexp → Option Node
  | .list [.list cls, .str tname, .list kids, custom, rname, modal, shown, .str dname, .str term] => do
      let cls ← cls.mapM (fun c => c.atom? >>= clsOf)
      let kids ← kids.mapM nat?
      let custom ← optStr? custom
      let rname ← optStr? rname
      let modal ← modal.bool?
      let shown ← shown.bool?
      pure { cls, tname, kids, custom, rname, modal, shown, dname, term }
  | _ => none

def opts? : Sexp → Option Opts
  | .list [v, a, b, c] => do
      let vertical ← match v with
        | .atom "None" => some none
        | x => (x.nat?).map some
      pure { vertical, showNames := ← a.bool?, showGroups := ← b.bool?, showHidden := ← c.bool? }
  | _ => none

def optStrS : Option String → Sexp
  | none => .atom "None"
  | some s => .str s

partial def treeS : Tree → Sexp
  | .rawNone => .atom "None"
  | .rawEmpty => .str ""
  | .node f label text kids =>
    let ks := kids.map treeS
    match f with
    | .terminal => .list [.atom "Terminal", .str text]
    | .nonTerminal => .list [.atom "NonTerminal", .str text, .str text]
    | .sequence => .list (.atom "Sequence" :: ks)
    | .stack => .list (.atom "Stack" :: ks)
    | .hchoice => .list (.atom "HorizontalChoice" :: ks)
    | .choice => .list (.atom "Choice" :: ofNat 0 :: ks)
    | .each => .list [.atom "EachItem", .str "[ALL]",
        .list [.atom "OneOrMore", .atom "None", list (.atom "Choice" :: ofInt ((ks.length : Int) - 1) :: ks)]]
    | .annotated =>
        let l := label.getD ""
        .list (.atom "AnnotatedItem" :: .str (if l != "" then "[" ++ l ++ "]" else "") :: ks)
    | .group => .list (.atom "Group" :: optStrS label :: ks)
    | .optional => .list (.atom "Optional" :: ks)
    | .oneOrMore => .list (.atom "OneOrMore" :: optStrS label :: ks)
    | .zeroOrMore => .list (.atom "ZeroOrMore" :: ks)
    | .diagram => .list (.atom "Diagram" :: ks)

def diagramHandle : List Sexp → Option Sexp
  | .atom "diagram" :: o :: fuel :: root :: nodes => do
      let o ← opts? o
      let fuel ← fuel.nat?
      let root ← root.nat?
      let g ← nodes.mapM node?
      match toRailroad g o fuel root with
      | none => pure (.atom "hang")
      | some ds =>
        pure (.list (.atom "ok" :: ds.map (fun d => .list [optStrS d.name, ofNat d.index, treeS d.tree])))
  | .atom "diagram-ranked" :: .list ranks :: nodes => do
      -- `diagram-ranked (<rank of element i>*) <node>*` ↦ `(<rankedB> <fuelBound>)`
      let rs ← ranks.mapM nat?
      let g ← nodes.mapM node?
      let R := rs.foldl max 0
      pure (.list [ofBool (rankedB g (fun u => rs.getD u 0)), ofNat (fuelBound g R)])
  | _ => none

end PP.Driver.DiagramD

namespace PP.Driver
def diagramHandle := DiagramD.diagramHandle
end PP.Driver
