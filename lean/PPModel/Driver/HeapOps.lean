import PPModel.Base.Sexp
import PPModel.Mod.HeapOps
import PPModel.Driver.Parse
/-
  Driver handlers for the heap operations of C12 (heaps extracted from the live objects by harness/props/c12_hist.py):
    heap = ((<node>*) (<cell id per node>) (<copyDefaultWhiteChars per node>) (<adjacent per node>) ((<ids>)* cells))
    c12inv <heap>                                         ↦ (inv <invCheck>)
    c12ignore <fuel> <x> <s> <before> <after>             ↦ (heapop T|F|none <invCheck after>)
    c12ws <v> <fuel> <x> "<default white>" <before> <after>
    c12copy <fuel> <i> "<default white>" <before> <after> <j>
  `before` is the heap before the real call, `after` the heap after it (old objects keep their ids); the model's
  operation is run on `before` and its result compared with `after` (heapMatch).
-/
namespace PP.Driver.HeapD
open PP PP.Sexp PP.Parse PP.Heap

def zip4 : List Node → List Nat → List Bool → List Bool → Option (List Obj)
  | [], [], [], [] => some []
  | n :: ns, c :: cs, d :: ds, a :: as => do
      pure ({ node := { n with ignore := [] }, cell := c, copyDflt := d, adjacent := a } :: (← zip4 ns cs ds as))
  | _, _, _, _ => none

def heap? : Sexp → Option Heap
  | .list [.list ns, .list cs, .list ds, .list as, .list cells] => do
      let nodes ← ns.mapM PD.node?
      let objs ← zip4 nodes (← cs.mapM nat?) (← ds.mapM bool?) (← as.mapM bool?)
      let cells ← cells.mapM (fun c => match c with
        | .list xs => xs.mapM nat?
        | _ => none)
      pure { objs := objs, cells := cells }
  | _ => none

def verdict (m : Option Heap) (after : Heap) (n : Nat) (changed : List Nat) (seeds : List (Nat × Nat)) : Sexp :=
  .list [.atom "heapop",
         match m with
         | none => .atom "none"
         | some m => ofBool (heapMatch m after n changed seeds),
         ofBool (invCheck after)]

def heapHandle : List Sexp → Option Sexp
  | [.atom "c12inv", h] => do
      let h ← heap? h
      pure (.list [.atom "inv", ofBool (invCheck h)])
  | [.atom "c12ignore", fuel, x, s, b, a] => do
      let b ← heap? b
      let a ← heap? a
      pure (verdict (b.ignore (← fuel.nat?) (← x.nat?) (← s.nat?)) a b.objs.length [] [])
  | [.atom "c12ws", v, fuel, x, dw, b, a] => do
      let b ← heap? b
      let a ← heap? a
      let x ← x.nat?
      pure (verdict (wsOp (← PD.chars? dw) (← v.bool?) (← fuel.nat?) b x) a b.objs.length [x] [])
  | [.atom "c12copy", fuel, i, dw, b, a, j] => do
      let b ← heap? b
      let a ← heap? a
      match copyOp (← PD.chars? dw) (← fuel.nat?) b (← i.nat?) with
      | none => pure (verdict none a b.objs.length [] [])
      | some (m, jm) => pure (verdict (some m) a b.objs.length [] [(jm, ← j.nat?)])
  | _ => none

end PP.Driver.HeapD

namespace PP.Driver
def heapHandle := HeapD.heapHandle
end PP.Driver
