import PPModel.Base.Sexp
import PPModel.Mod.Threads
namespace PP.Driver.ThreadsD
open PP PP.Sexp PP.Threads

namespace Thr

def key? : Sexp → Option Key
  | .list [a, b, c, d] => do pure ⟨← a.nat?, ← b.nat?, ← c.nat?, ← d.nat?⟩
  | _ => none

def mkey? : Sexp → Option MKey
  | .list [a, b, c] => do pure ⟨← a.nat?, ← b.nat?, ← c.bool?⟩
  | _ => none

def optVal? : Sexp → Option (Option Val)
  | .atom "none" => some none
  | x => x.nat?.map some

def ofKey (k : Key) : Sexp := .list [ofNat k.e, ofNat k.inp, ofNat k.loc, ofNat k.flags]
def ofMKey (k : MKey) : Sexp := .list [ofNat k.loc, ofNat k.fwd, ofBool k.acts]
def ofOptVal : Option Val → Sexp
  | none => .atom "none"
  | some v => ofNat v

def ev? : Sexp → Option Ev
  | .atom "acqP" => some .acqP | .atom "relP" => some .relP
  | .atom "acqR" => some .acqR | .atom "relR" => some .relR
  | .atom "cclear" => some .cclear | .atom "mclear" => some .mclear
  | .atom "crash" => some .crash
  | .list [.atom "cget", k, r] => do pure (.cget (← key? k) (← optVal? r))
  | .list [.atom "cput", k, v] => do pure (.cput (← key? k) (← v.nat?))
  | .list [.atom "cpop", k] => do pure (.cpop (← key? k))
  | .list [.atom "mget", k, r] => do pure (.mget (← mkey? k) (← optVal? r))
  | .list [.atom "mset", k, v] => do pure (.mset (← mkey? k) (← v.nat?))
  | .list [.atom "mdel", k] => do pure (.mdel (← mkey? k))
  | _ => none

def ofEv : Ev → Sexp
  | .acqP => .atom "acqP" | .relP => .atom "relP" | .acqR => .atom "acqR" | .relR => .atom "relR"
  | .cclear => .atom "cclear" | .mclear => .atom "mclear" | .crash => .atom "crash"
  | .cget k r => .list [.atom "cget", ofKey k, ofOptVal r]
  | .cput k v => .list [.atom "cput", ofKey k, ofNat v]
  | .cpop k => .list [.atom "cpop", ofKey k]
  | .mget k r => .list [.atom "mget", ofMKey k, ofOptVal r]
  | .mset k v => .list [.atom "mset", ofMKey k, ofNat v]
  | .mdel k => .list [.atom "mdel", ofMKey k]

def tev? : Sexp → Option (Tid × Ev)
  | .list [t, e] => do pure (← t.nat?, ← ev? e)
  | _ => none

def ofTrace (tr : List (Tid × Ev)) : Sexp := .list (tr.map fun p => .list [ofNat p.1, ofEv p.2])

def size? : Sexp → Option (Option Nat)
  | .list [.atom "size", x] => optVal? x
  | _ => none

structure Row where
  k : Key
  cached : Bool
  /-- `(true, k)`: a nested entry-point call made by the element's parse action (`Act.entry`) -/
  children : List (Bool × Key)
  ret : Val

def child? : Sexp → Option (Bool × Key)
  | .list [.atom "entry", k] => do pure (true, ← key? k)
  | k => do pure (false, ← key? k)

def row? : Sexp → Option Row
  | .list [k, c, .list ch, r] => do pure ⟨← key? k, ← c.bool?, ← ch.mapM child?, ← r.nat?⟩
  | _ => none

/-- unknown keys return the sentinel 999999 so that a gap in the table shows up as a difference -/
def grammarOf (rows : List Row) : Grammar where
  body k rs :=
    match rows.find? (fun r => r.k = k) with
    | none => .ret 999999
    | some r =>
      match r.children[rs.length]? with
      | some (false, k') => .call k'
      | some (true, k') => .entry k'
      | none => .ret r.ret
  cached k :=
    match rows.find? (fun r => r.k = k) with
    | none => false
    | some r => r.cached

def gran? : Sexp → Option Gran
  | .list [.atom "gran", .atom "region"] => some .region
  | .list [.atom "gran", .atom "event"] => some .event
  | .list [.atom "gran", .atom "lock"] => some .lock
  | _ => none

def initState (size : Option Nat) (roots : List Key) : State :=
  ⟨{ size := size }, fun t => Thread.init (roots.getD t default)⟩

def ofResults (s : State) (n : Nat) : Sexp :=
  .list ((List.range n).map fun t =>
    match (s.thr t).pc with
    | .done v => .list [.atom "done", ofNat v]
    | .crash => .atom "crash"
    | _ => .atom "unfinished")

def fuel : Nat := 100000

def setup (sz tbl roots gr : Sexp) : Option (Cfg × State) := do
  let size ← size? sz
  let rows ← match tbl with
    | .list (.atom "table" :: rs) => rs.mapM row?
    | _ => none
  let rts ← match roots with
    | .list (.atom "roots" :: ks) => ks.mapM key?
    | _ => none
  let gran ← gran? gr
  pure (⟨grammarOf rows, gran, rts.length⟩, initState size rts)

/-- `acqP` / `relP` / `acqR` / `relR` / `acqF<i>` / `relF<i>` (a lock stored on an element instance) / `tau` -/
def lop? : Sexp → Option Locks.Op
  | .atom "acqP" => some (.acq Locks.P) | .atom "relP" => some (.rel Locks.P)
  | .atom "acqR" => some (.acq Locks.R) | .atom "relR" => some (.rel Locks.R)
  | .atom "tau" => some .tau
  | .atom a =>
      if a.startsWith "acqF" then (a.drop 4).toNat?.map fun i => .acq (Locks.F i)
      else if a.startsWith "relF" then (a.drop 4).toNat?.map fun i => .rel (Locks.F i)
      else none
  | _ => none

def lprog? : Sexp → Option (List Locks.Op)
  | .list (.atom "prog" :: ops) => ops.mapM lop?
  | _ => none

def lockOf : Locks.Op → Nat
  | .acq l => l | .rel l => l | .tau => 0

/-- number of locks: the two class-wide ones and every instance lock mentioned -/
def nLocks (ps : List (List Locks.Op)) : Nat :=
  ps.foldl (fun n p => p.foldl (fun n o => max n (lockOf o + 1)) n) 2

/-- first thread whose program breaks the lock discipline for `codeRank`, with the index of the operation -/
def firstBad (n : Nat) : Nat → List (List Locks.Op) → Option (Nat × Nat)
  | _, [] => none
  | t, p :: r =>
      match Locks.firstViolation n Locks.codeRank Locks.Held.zero 0 p with
      | some i => some (t, i)
      | none => firstBad n (t + 1) r

end Thr

open Thr in
def threadsHandle : List Sexp → Option Sexp
  | [.atom "threads-validate", sz, .list [.atom "memo", .atom mk], .list (.atom "trace" :: evs)] => do
      let size ← size? sz
      let tr ← evs.mapM tev?
      let sh : Shared := { size := size, memoRetains := mk == "unbounded" }
      match accepts sh 0 tr with
      | none => pure (.atom "ok")
      | some i => pure (.list [.atom "reject", ofNat i])
  | [.atom "threads-run", sz, tbl, roots, gr, .list (.atom "sched" :: ts)] => do
      let (c, s0) ← setup sz tbl roots gr
      let sched ← ts.mapM Sexp.nat?
      let (s1, tr1) := startAll c fuel s0
      match runSched c fuel fuel s1 sched tr1 with
      | none => pure (.atom "bad-sched")
      | some (s, tr) => pure (.list [.atom "ok", ofTrace tr.reverse, ofResults s c.n])
  | [.atom "threads-explore", sz, tbl, roots, gr, .list [.atom "limit", lim]] => do
      let (c, s0) ← setup sz tbl roots gr
      let limit ← lim.nat?
      let (s1, _) := startAll c fuel s0
      let all := explore c fuel 10000 s1 [] [] limit
      pure (.list (all.reverse.map fun sc => .list (sc.map ofNat)))
  | .atom "locks-check" :: progs => do
      let ps ← progs.mapM lprog?
      match firstBad (nLocks ps) 0 ps with
      | none => pure (.atom "ok")
      | some (t, i) => pure (.list [.atom "violation", ofNat t, ofNat i])
  | [.atom "lr-run", .list (.atom "inputs" :: is), .list (.atom "sched" :: ts)] => do
      let inputs ← is.mapM Sexp.nat?
      let sched ← ts.mapM Sexp.nat?
      match LR.lrun (LR.linit inputs) sched [] with
      | none => pure (.atom "bad-sched")
      | some (s, tr) =>
        pure (.list [.atom "ok", ofTrace tr,
          .list (s.thr.map fun th =>
            if th.keyError then .atom "keyerror"
            else match th.result with
              | some v => .list [.atom "done", ofNat v]
              | none => .atom "unfinished")])
  | _ => none

end PP.Driver.ThreadsD

namespace PP.Driver
def threadsHandle := ThreadsD.threadsHandle
end PP.Driver
