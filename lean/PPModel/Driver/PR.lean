import PPModel.Base.Sexp
import PPModel.Mod.PR
import PPModel.Mod.PRHeap
import PPModel.Mod.PRHeapDeep
import PPModel.Mod.PRHeapDeepC
import PPModel.Mod.PRFromDict
namespace PP.Driver.PRD
open PP PP.Sexp PP.PR PP.PyList

/-! Driver for the `ParseResults` model; values are opaque S-expressions (`α := Sexp`).

  `prhist <start> (<op> ...)`  ↦  `(<step> ...)`  or `(ctor-err <Exc>)`
     start ::= (state (v ...) (("k" ((v pos) ...)) ...) ("n" ...))
             | (ctor <arg> <name> <asList> <modal>)        arg ::= None | (list v ...) | (scalar v <isStr>)
             | (reinit <start> <name> <asList> <modal>)    name ::= None | "n"
     step  ::= (<out> (tok ...) ("key" ...) (("key" view) ...) <bool> <len>)
-/

def optInt? : Sexp → Option (Option Int)
  | .atom "None" => some none
  | x => x.int?.map some

def optStr? : Sexp → Option (Option String)
  | .atom "None" => some none
  | .str s => some (some s)
  | _ => none

def slice? (a b c : Sexp) : Option Slice := do
  pure ⟨← optInt? a, ← optInt? b, ← optInt? c⟩

def occ? : Sexp → Option (Sexp × Int)
  | .list [v, p] => do pure (v, ← p.int?)
  | _ => none

def entry? : Sexp → Option (String × List (Sexp × Int))
  | .list [.str k, .list occs] => do pure (k, ← occs.mapM occ?)
  | _ => none

def state? : Sexp → Option (PR Sexp)
  | .list [.atom "state", .list toks, .list ents, .list alls] => do
      let d ← ents.mapM entry?
      let a ← alls.mapM Sexp.str?
      pure { toks := toks, dict := d, all := a }
  | _ => none

/-- `ParseResults(v)` as a value: a ParseResults is returned as is, a list is copied, anything else is wrapped -/
def wrapVal : Sexp → Sexp
  | .list (.atom "pr" :: rest) => .list (.atom "pr" :: rest)
  | .list (.atom "l" :: xs) => .list [.atom "pr", .list xs, .list []]
  | .atom "None" => .list [.atom "pr", .list [], .list []]
  | v => .list [.atom "pr", .list [v], .list []]

def mkVal (toks : List Sexp) : Sexp := .list [.atom "pr", .list toks, .list []]

def ctorArg? : Sexp → Option (CtorArg Sexp)
  | .atom "None" => some .none
  | .list (.atom "list" :: vs) => some (.list vs)
  | .list [.atom "scalar", v, b] => do pure (.scalar v (← b.bool?))
  | _ => none

/-- fuel-bounded because `reinit` nests -/
def start? : Nat → Sexp → Option (Except Err (PR Sexp))
  | 0, _ => none
  | f+1, x =>
    match x with
    | .list [.atom "ctor", arg, nm, al, mo] => do
        pure (ctor wrapVal (← ctorArg? arg) (← optStr? nm) (← al.bool?) (← mo.bool?))
    | .list [.atom "reinit", st, nm, al, mo] => do
        match ← start? f st with
        | .error e => pure (.error e)
        | .ok s => pure (.ok (reinit mkVal s (← optStr? nm) (← al.bool?) (← mo.bool?)))
    | other => (state? other).map .ok

def optVal? : List Sexp → Option (Option Sexp)
  | [] => some none
  | [v] => some (some v)
  | _ => none

def op? : Sexp → Option (Op Sexp (PR Sexp))
  | .list (.atom name :: args) =>
    match name, args with
    | "getint", [i] => do pure (.getInt (← i.int?))
    | "getslice", [a, b, c] => do pure (.getSlice (← slice? a b c))
    | "getname", [.str n] => some (.getName n)
    | "getattr", [.str n] => some (.getAttr n)
    | "get", .str n :: d => do pure (.get n (← optVal? d))
    | "setint", [i, v] => do pure (.setInt (← i.int?) v)
    | "setslice", [a, b, c, .list vs] => do pure (.setSlice (← slice? a b c) vs)
    | "setname", [.str n, v] => some (.setName n v)
    | "delint", [i] => do pure (.delInt (← i.int?))
    | "delslice", [a, b, c] => do pure (.delSlice (← slice? a b c))
    | "delname", [.str n] => some (.delName n)
    | "pop", [] => some .pop0
    | "popint", i :: d => do pure (.popInt (← i.int?) (← optVal? d))
    | "popname", .str n :: d => do pure (.popName n (← optVal? d))
    | "popbadkw", [] => some .popBadKw
    | "setslicescalar", [a, b, c] => do pure (.setSliceScalar (← slice? a b c))
    | "insert", [i, v] => do pure (.insert (← i.int?) v)
    | "append", [v] => some (.append v)
    | "extendlist", [.list vs] => some (.extendList vs)
    | "extendpr", [o] => do pure (.extendPR (← state? o))
    | "iadd", [o] => do pure (.iadd (← state? o))
    | "clear", [] => some .clear
    | "contains", [.str n] => some (.contains n)
    | "len", [] => some .len
    | "bool", [] => some .bool
    | "iter", [] => some .iter
    | "reversed", [] => some .reversed
    | "keys", [] => some .keys
    | "values", [] => some .values
    | "items", [] => some .items
    | "haskeys", [] => some .haskeys
    | _, _ => none
  | _ => none

def errName : Err → String
  | .index => "IndexError" | .key => "KeyError" | .type => "TypeError"
  | .value => "ValueError" | .attribute => "AttributeError"

def viewSexp : View Sexp → Sexp
  | .one v => v
  | .many vs => mkVal vs

def outSexp : Out Sexp → Sexp
  | .none => .atom "None"
  | .val v => .list [.atom "val", v]
  | .list vs => .list (.atom "list" :: vs)
  | .view w => .list [.atom "val", viewSexp w]
  | .empty => .list [.atom "val", .str ""]
  | .bool b => ofBool b
  | .nat n => ofNat n
  | .strs ks => .list (.atom "list" :: ks.map .str)
  | .views ws => .list (.atom "list" :: ws.map viewSexp)
  | .items kws => .list (.atom "list" :: kws.map (fun kw => .list [.str kw.1, viewSexp kw.2]))
  | .err e => .list [.atom "err", .atom (errName e)]

def stateViews (s : PR Sexp) : List Sexp :=
  let items := match (step s .items).2 with
    | .items kws => .list (kws.map (fun kw => .list [.str kw.1, viewSexp kw.2]))
    | o => outSexp o
  [.list s.toks, .list ((PyDict.dkeys s.dict).map .str), items, ofBool s.truthy, ofNat s.toks.length]

def runHist (s : PR Sexp) : List (Op Sexp (PR Sexp)) → List Sexp
  | [] => []
  | op :: ops =>
    let r := step s op
    .list (outSexp r.2 :: stateViews r.1) :: runHist r.1 ops

/-! `fromdict <j>` ↦ canonical form of `ParseResults.from_dict(d)`;  j ::= (atom v) | (l j ...) | (d ("k" j) ...) -/
open PP.FromDict in
def j? : Nat → Sexp → Option (J Sexp)
  | 0, _ => none
  | f+1, x =>
    match x with
    | .list [.atom "atom", v] => some (.atom v)
    | .list (.atom "l" :: xs) => (xs.mapM (j? f)).map J.list
    | .list (.atom "d" :: kvs) =>
      (kvs.mapM (fun kv => match kv with
        | Sexp.list [.str k, v] => (j? f v).map (fun j => (k, j))
        | _ => none)).map J.dict
    | _ => none

open PP.FromDict in
def jSexp : Nat → J Sexp → Sexp
  | 0, _ => .atom "deep"
  | _+1, .atom v => v
  | f+1, .list xs => .list (.atom "l" :: xs.map (jSexp f))
  | f+1, .dict kvs => .list (.atom "dct" :: kvs.map (fun kv => .list [.str kv.1, jSexp f kv.2]))

open PP.FromDict in
def rSexp : Nat → R Sexp → Sexp
  | 0, _ => .atom "deep"
  | f+1, .obj j => jSexp f j
  | f+1, .pr toks names =>
    .list [.atom "pr", .list (toks.map (rSexp f)), .list (names.map (fun kr => .list [.str kr.1, rSexp f kr.2]))]

def shape? : Nat → Sexp → Option PRHeap.Shape
  | 0, _ => none
  | _ + 1, .str a => some (.s a)
  | f + 1, .list (.atom "g" :: .str name :: kids) => do
      let ks ← kids.mapM (shape? f)
      pure (.g name ks)
  | _, _ => none

def prHandle : List Sexp → Option Sexp
  | [.atom "fromdict", j] =>
    match j? 64 j with
    | some (.dict kvs) =>
      some (.list [rSexp 64 (FromDict.fromDict kvs), jSexp 64 (.dict (FromDict.asDict (FromDict.fromDict kvs)))])
    | _ => none
  | [.atom "prshare", .str kind, .str probe] => (PRHeap.sharing kind probe).map ofBool
  | [.atom "prtreeshare", .str kind, sh] => do
      let t ← shape? 16 sh
      let r ← PRHeap.treeShare kind t
      pure (.list [.list (r.1.map ofBool), .list (r.2.map (fun n => .atom (toString n)))])
  | [.atom "prcontshare"] => some (.list (PRHeap.contShare.map ofBool))
  | [.atom "prdeepshare", .str kind, d] => do
      let n ← d.int?
      if n < 1 ∨ n > 12 then none else (PRHeap.deepShare kind n.toNat).map (fun bs => .list (bs.map ofBool))
  | [.atom "prhist", st, .list ops] => do
      let ops ← ops.mapM op?
      match ← start? 64 st with
      | .error e => pure (.list [.atom "ctor-err", .atom (errName e)])
      | .ok s => pure (.list (.list (.atom "start" :: stateViews s) :: runHist s ops))
  | _ => none

end PP.Driver.PRD

namespace PP.Driver
def prHandle := PRD.prHandle
end PP.Driver
