/-
  Model of `QuotedString` (pyparsing/core.py:3254-3487): the unquoting scanner of `parseImpl` and a quoting
  convention for it.

  What is transcribed (core.py line numbers of the pinned tree):
  * `unquote_scan_re` (3390-3404) — the alternation
        convert_whitespace_escapes:  (\\t|\\n|\\f|\\r) | (\\[0-7]{3}|\\0|\\x[0-9a-fA-F]{2}|\\u[0-9a-fA-F]{4})
                                     | ({esc_char}.) | (\n|.)
        otherwise:                   ({esc_char}.) | (\n|.)
    compiled with `flags=self.re_flags` (MULTILINE|DOTALL iff `multiline`), and the `finditer` loop of `parseImpl`
    (3451-3481) that joins one output per match: `step` is one match at the head of the remaining text (the
    alternatives in the order the regex tries them), `scanAux`/`scan` the loop.  Every alternative consumes at least
    one character and the last one matches any character, so `finditer` never skips text: the loop is a left-to-right
    walk.  `pattern`/`scanDotall` are the pattern text and the DOTALL flag this transcription assumes; the check
    compares them with the live object's `unquote_scan_re.pattern` / `.flags` (generated facts).
  * `convert_escaped_numerics` (3441-3449) — `convStep`.
  * `ret.replace(self.esc_quote, self.end_quote_char)` (3484-3485), applied to the *scanned* text — `replaceAll`
    (CPython `str.replace`: leftmost, non-overlapping), `unquote`.
  * `ret[self.quote_char_len : -self.end_quote_char_len]` (3453) and `unquote_results=False` (the matched text is
    returned as it is) — `result`.
  Not transcribed: the matching regex `self.re` (3348-3388, 3408).  The driver runs the live `pattern` through the
  regex-engine model (`PPModel/Base/Regex.lean`) to find the span; the theorems are about `unquote`.

  `esc_char` is modelled as an optional single character (the documented use); `\uD800`-`\uDFFF` escapes have no
  `Char` in Lean (`Char.ofNat` gives NUL) — the generators keep out of that range.
-/
namespace PP.Quoted

structure Opts where
  quote : List Char          -- quote_char (after .strip())
  endq : List Char           -- end_quote_char (quote_char when None)
  esc : Option Char          -- esc_char
  escQuote : List Char       -- esc_quote or ""
  multiline : Bool
  unquote : Bool             -- unquote_results
  convWs : Bool              -- convert_whitespace_escapes
  deriving Repr, DecidableEq, Inhabited

/-! ## the scanner -/

def isOct (c : Char) : Bool := '0' ≤ c && c ≤ '7'
def isHex (c : Char) : Bool := ('0' ≤ c && c ≤ '9') || ('a' ≤ c && c ≤ 'f') || ('A' ≤ c && c ≤ 'F')

def hexVal (c : Char) : Nat :=
  if '0' ≤ c ∧ c ≤ '9' then c.toNat - 48
  else if 'a' ≤ c ∧ c ≤ 'f' then c.toNat - 87
  else c.toNat - 55

/-- `QuotedString.ws_map` (core.py:3294), keyed by the letter after the backslash -/
def wsMap (c : Char) : Option Char :=
  if c = 't' then some '\t' else if c = 'n' then some '\n' else if c = 'f' then some (Char.ofNat 12)
  else if c = 'r' then some '\r' else none

/-- `.` of the scanner regex: any character, except a line feed unless DOTALL -/
def dot (dotall : Bool) (c : Char) : Bool := dotall || c != '\n'

/-- Groups 1 and 2 after a backslash (only tried when convert_whitespace_escapes): the text *after* the backslash ↦
    (output, number of characters consumed after the backslash).
    group 1 `\\t|\\n|\\f|\\r` → ws_map; group 2 in the order `\\[0-7]{3}`, `\\0`, `\\x[0-9a-fA-F]{2}`,
    `\\u[0-9a-fA-F]{4}` → convert_escaped_numerics -/
def convStep : List Char → Option (Char × Nat)
  | [] => none
  | c :: cs =>
    match wsMap c with
    | some w => some (w, 1)
    | none =>
      match c, cs with
      | a, b :: d :: _ =>
        if isOct a && isOct b && isOct d then
          some (Char.ofNat (64 * (a.toNat - 48) + 8 * (b.toNat - 48) + (d.toNat - 48)), 3)
        else if a = '0' then some (Char.ofNat 0, 1)
        else if a = 'x' && isHex b && isHex d then some (Char.ofNat (16 * hexVal b + hexVal d), 3)
        else if a = 'u' then
          match cs with
          | h1 :: h2 :: h3 :: h4 :: _ =>
            if isHex h1 && isHex h2 && isHex h3 && isHex h4 then
              some (Char.ofNat (4096 * hexVal h1 + 256 * hexVal h2 + 16 * hexVal h3 + hexVal h4), 5)
            else none
          | _ => none
        else none
      | a, _ => if a = '0' then some (Char.ofNat 0, 1) else none

/-- One `finditer` match at the head `c :: cs` of the remaining text: (the joined output, how many characters after
    `c` the match consumed). -/
def step (o : Opts) (dotall : Bool) (c : Char) (cs : List Char) : Char × Nat :=
  match (if o.convWs && c == '\\' then convStep cs else none) with
  | some r => r
  | none =>
    -- group 3 `({esc_char}.)` → the last character of the match; with no esc_char the group is `(.)`
    -- last group `(\n|.)` → the character itself
    match o.esc, cs with
    | some e, d :: _ => if c == e && dot dotall d then (d, 1) else (c, 0)
    | _, _ => (c, 0)

/-- the `finditer` loop; the first argument counts characters already consumed by the previous match -/
def scanAux (o : Opts) (dotall : Bool) : Nat → List Char → List Char
  | _, [] => []
  | k + 1, _ :: cs => scanAux o dotall k cs
  | 0, c :: cs => (step o dotall c cs).1 :: scanAux o dotall (step o dotall c cs).2 cs

/-- the DOTALL flag the scanner is compiled with: `flags=self.re_flags`, and `re_flags` has DOTALL iff multiline -/
def scanDotall (o : Opts) : Bool := o.multiline

def scan (o : Opts) (inner : List Char) : List Char := scanAux o (scanDotall o) 0 inner

/-- CPython `str.replace(old, new)` for a non-empty `old`: leftmost, non-overlapping -/
def replAux (old new : List Char) : Nat → List Char → List Char
  | _, [] => []
  | k + 1, _ :: cs => replAux old new k cs
  | 0, c :: cs =>
    if old.isPrefixOf (c :: cs) then new ++ replAux old new (old.length - 1) cs
    else c :: replAux old new 0 cs

def replaceAll (old new s : List Char) : List Char :=
  if old.isEmpty then s else replAux old new 0 s

/-- the unquoting of the text between the quotes (core.py:3455-3485) -/
def unquote (o : Opts) (inner : List Char) : List Char :=
  replaceAll o.escQuote o.endq (scan o inner)

/-- `ret[quote_char_len : -end_quote_char_len]` -/
def strip (o : Opts) (matched : List Char) : List Char :=
  (matched.take (matched.length - o.endq.length)).drop o.quote.length

/-- the token `parseImpl` returns for the text matched by `self.re` -/
def result (o : Opts) (matched : List Char) : List Char :=
  if o.unquote then unquote o (strip o matched) else matched

/-! ## the pattern text the transcription above was made from -/

/-- `re.escape` of one character (CPython re/__init__.py `_special_chars_map`) -/
def reEscape (c : Char) : List Char :=
  if "()[]{}?*+-|^$\\.&~# \t\n\r\x0b\x0c".toList.contains c then ['\\', c] else [c]

def convAlts : List Char :=
  "(\\\\t|\\\\n|\\\\f|\\\\r)|(\\\\[0-7]{3}|\\\\0|\\\\x[0-9a-fA-F]{2}|\\\\u[0-9a-fA-F]{4})|".toList

/-- `unquote_scan_re.pattern` as `__init__` builds it (core.py:3390-3404) -/
def pattern (o : Opts) : List Char :=
  (if o.convWs then convAlts else []) ++ "(".toList
    ++ (match o.esc with | some e => reEscape e | none => []) ++ ".)|(\\n|.)".toList

/-! ## a quoting convention -/

/-- how one character of the content is written -/
inductive Enc where
  | raw      -- the character itself
  | esc      -- esc_char + the character
  | ws       -- \t \n \f \r
  | hex      -- \xHH
  | uni      -- \uHHHH
  | oct      -- \OOO
  deriving Repr, DecidableEq, Inhabited

def hexDigit (n : Nat) : Char := if n < 10 then Char.ofNat (48 + n) else Char.ofNat (87 + n)

def wsLetter (c : Char) : Char :=
  if c = '\t' then 't' else if c = '\n' then 'n' else if c = Char.ofNat 12 then 'f' else 'r'

def encode (o : Opts) : Enc → Char → List Char
  | .raw, c => [c]
  | .esc, c => match o.esc with | some e => [e, c] | none => [c]
  | .ws, c => ['\\', wsLetter c]
  | .hex, c => ['\\', 'x', hexDigit (c.toNat / 16 % 16), hexDigit (c.toNat % 16)]
  | .uni, c => ['\\', 'u', hexDigit (c.toNat / 4096 % 16), hexDigit (c.toNat / 256 % 16),
                hexDigit (c.toNat / 16 % 16), hexDigit (c.toNat % 16)]
  | .oct, c => ['\\', Char.ofNat (48 + c.toNat / 64 % 8), Char.ofNat (48 + c.toNat / 8 % 8),
                Char.ofNat (48 + c.toNat % 8)]

def encodeAll (o : Opts) : List (Enc × Char) → List Char
  | [] => []
  | (e, c) :: is => encode o e c ++ encodeAll o is

/-- The writing `enc` of `c` is read back as `c` when the text `rest` follows it.
    raw: not the esc_char; a backslash (when escapes are converted) only where no escape sequence starts.
    esc: an esc_char exists, `.` accepts the character (a line feed needs DOTALL, i.e. multiline), and when the
         esc_char is the backslash and escapes are converted the pair must not read as an escape sequence.
    ws / hex / uni / oct: escapes are converted and the character is in range. -/
def ItemOk (o : Opts) (enc : Enc) (c : Char) (rest : List Char) : Bool :=
  match enc with
  | .raw => o.esc != some c && (!(o.convWs && c == '\\') || (convStep rest).isNone)
  | .esc => o.esc.isSome && dot (scanDotall o) c &&
            (!(o.convWs && o.esc == some '\\') || (convStep (c :: rest)).isNone)
  | .ws => o.convWs && (c == '\t' || c == '\n' || c == Char.ofNat 12 || c == '\r')
  | .hex => o.convWs && c.toNat < 256
  | .uni => o.convWs && c.toNat < 65536
  | .oct => o.convWs && c.toNat < 512

def Valid (o : Opts) : List (Enc × Char) → Bool
  | [] => true
  | (e, c) :: is => ItemOk o e c (encodeAll o is) && Valid o is

/-- letters and digits after which a backslash starts (or may start) an escape sequence -/
def isEscLetter (c : Char) : Bool := (wsMap c).isSome || isOct c || c == 'x' || c == 'u'

/-- The minimal writing: the esc_char is doubled, a backslash that would start an escape is written `\x5c`, the
    first character of the end quote is escaped when there is an esc_char, a line break in a single-line string is
    written `\n` / `\r` when escapes are converted; `defensive` additionally escapes every line break, tab, blank
    and quote character when there is an esc_char.  (The last three choices are for the matching regex; the scanner
    reads the character back either way.) -/
def pick (o : Opts) (defensive : Bool) (c : Char) : Enc :=
  if o.esc = some c then .esc
  else if o.convWs && c == '\\' then .hex
  else if o.esc.isSome && (o.endq.head? == some c ||
      (defensive && (c == '\n' || c == '\r' || c == '\t' || c == ' ' || c == '"' || c == '\''
                     || o.endq.contains c || o.quote.contains c))) then
    (if !dot (scanDotall o) c then (if o.convWs then .ws else .raw)
     else if o.convWs && o.esc == some '\\' && isEscLetter c then .hex
     else .esc)
  else if (c == '\n' || c == '\r') && !o.multiline && o.convWs then .ws
  else .raw

/-- every end quote of the content written as esc_quote (when there is one) -/
def toEscQuote (o : Opts) (body : List Char) : List Char :=
  if o.escQuote.isEmpty then body else replaceAll o.endq o.escQuote body

/-- the text written between the quotes for the content `body` -/
def quote (o : Opts) (defensive : Bool) (body : List Char) : List Char :=
  encodeAll o ((toEscQuote o body).map (fun c => (pick o defensive c, c)))

/-- what the esc_quote convention requires of the content: writing every end quote as esc_quote and reading every
    esc_quote as an end quote gives the content back (CPython's `content.replace(E, EQ).replace(EQ, E) == content`) -/
def EscQuoteOk (o : Opts) (body : List Char) : Bool :=
  replaceAll o.escQuote o.endq (toEscQuote o body) == body

end PP.Quoted
