import PPModel.Mod.Ranges
/-
  Model of pyparsing/core.py `Word.__init__` (2842-2954: character sets, min/max/exact, `reString`
  construction, choice of `parseImpl` vs `parseImpl_regex`), `Word.parseImpl` (2984-3010, the character
  loop with the strict-max and as_keyword tests) and `Word.parseImpl_regex` (3012-3019), and of
  `Literal.__new__` / `Literal.parseImpl` / `_SingleCharLiteral.parseImpl` (2451-2509).
-/
namespace PP.WordPaths
open PP.ReLite PP.Ranges

structure WordArgs where
  init : List Char
  body : List Char := []        -- `None` and `""` are both falsy
  min : Nat := 1
  max : Nat := 0
  exact : Nat := 0
  asKeyword : Bool := false
  excl : List Char := []        -- `None` and `""` are both falsy
  deriving Repr

structure Word where
  initSet : List Char           -- `self.initChars` as `sorted(...)`
  bodySet : List Char           -- `self.bodyChars`
  minLen : Nat
  maxLen : Option Nat           -- `none` = `_MAX_INT`
  maxSpecified : Bool
  asKeyword : Bool
  re : Option Re                -- `some r`: `parseImpl` was swapped for `parseImpl_regex` with `r`
  deriving Repr

def removeAll (s excl : List Char) : List Char := s.filter (fun c => !excl.contains c)

/-- `[ _collapse_string_to_ranges(set) ]` -/
def clsOf (set : List Char) : Re := .cls (collapseItems set)

/-- `re_leading_fragment` (core.py:2910-2913) -/
def leadRe (initSet : List Char) : Re :=
  match initSet with
  | [c] => .chr c                       -- re.escape(self.initCharsOrig)
  | _ => clsOf initSet

/-- core.py:2909-2944, the text of `self.reString` before the `\b` wrapping.
    `min`/`max` are the *local* variables (overwritten by `exact`), `minLen`/`maxLen` the attributes. -/
def wordReCore (initSet bodySet : List Char) (min max minLen : Nat) (maxLen : Option Nat) : Re :=
  let lead : Re := leadRe initSet
  if bodySet == initSet then
    if max == 0 && minLen == 1 then .plus lead
    else if max == 1 then lead
    else if some minLen != maxLen then .repMN lead minLen maxLen
    else .repN lead minLen
  else
    if max == 1 then lead
    else
      let body := clsOf bodySet
      if max == 0 && minLen == 1 then .cat lead (.star body)
      else if max == 2 then (if min ≤ 1 then .cat lead (.opt body) else .cat lead body)
      else if min != max then
        .cat lead (.repMN body (min - 1) (if max > 0 then some (max - 1) else none))
      else .cat lead (.repN body (min - 1))

def wordRe (initSet bodySet : List Char) (min max minLen : Nat) (maxLen : Option Nat)
    (asKeyword : Bool) : Re :=
  let core := wordReCore initSet bodySet min max minLen maxLen
  if asKeyword then .cat .wb (catApp core .wb) else core

/-- `self.initChars` (core.py:2857-2864): `set(initChars) - set(excludeChars)` -/
def initSetOf (a : WordArgs) : List Char :=
  sortU (if a.excl.isEmpty then a.init else removeAll a.init a.excl)

/-- `bodyChars` after `bodyChars = "".join(set(bodyChars) - excludeChars_set)`, done only
    `if excludeChars:` and `if bodyChars:` (core.py:2858-2862) -/
def bodyArg (a : WordArgs) : List Char :=
  if !a.excl.isEmpty && !a.body.isEmpty then removeAll a.body a.excl else a.body

/-- `self.bodyChars` (core.py:2866-2871): `if bodyChars:` is tested again, so an emptied body falls back
    to the initial characters -/
def bodySetOf (a : WordArgs) : List Char :=
  if (bodyArg a).isEmpty then initSetOf a else sortU (bodyArg a)

/-- the local `min` / `max` after `if exact > 0: min = max = exact` (core.py:2893-2896) -/
def effMin (a : WordArgs) : Nat := if a.exact > 0 then a.exact else a.min
def effMax (a : WordArgs) : Nat := if a.exact > 0 then a.exact else a.max

/-- `self.maxLen` (`none` = `_MAX_INT`) -/
def maxLenOf (a : WordArgs) : Option Nat := if effMax a > 0 then some (effMax a) else none

/-- core.py:2908-2954: the regex is built iff no blank is in the sets and `re.compile` succeeds.
    `re.compile` raises only for the empty leading class `[]` directly followed by the quantifier
    (same set); `[][bc]*` compiles (to a different language: known finding word_empty_init_regex;
    the harness keeps away from an empty initSet with a different body) -/
def reOf (a : WordArgs) : Option Re :=
  if (initSetOf a).contains ' ' || (bodySetOf a).contains ' ' then none
  else if (initSetOf a).isEmpty then none
  else some (wordRe (initSetOf a) (bodySetOf a) (effMin a) (effMax a) (effMin a) (maxLenOf a) a.asKeyword)

/-- `Word.__init__`; `none` = `ValueError`. -/
def mkWord (a : WordArgs) : Option Word :=
  if a.init.isEmpty then none
  else if a.min < 1 then none
  else if a.max > 0 && a.min > a.max then none
  else some { initSet := initSetOf a, bodySet := bodySetOf a, minLen := effMin a, maxLen := maxLenOf a,
              maxSpecified := a.max > 0, asKeyword := a.asKeyword, re := reOf a }

/-- outcome of a `parseImpl`: end location or failure (ParseException; `instring[loc]` IndexError at
    the end of the text is converted to ParseException by `_parseNoCache`) -/
abbrev Out := Option Nat

/-- number of leading characters of `s` satisfying `p`, at most `cap` -/
def runLen (p : Char → Bool) : Nat → List Char → Nat
  | 0, _ => 0
  | _, [] => 0
  | cap+1, c :: cs => if p c then runLen p cap cs + 1 else 0

def charIn (set : List Char) (s : List Char) (i : Nat) : Bool :=
  match s[i]? with
  | some c => set.contains c
  | none => false

/-- the `while loc < maxloc and instring[loc] in body_chars: loc += 1` loop (core.py:2994-2995);
    fuel = `maxloc - loc` -/
def bodyLoop (body : List Char) (s : List Char) (maxloc : Nat) : Nat → Nat → Nat
  | 0, loc => loc
  | f+1, loc => if loc < maxloc && charIn body s loc then bodyLoop body s maxloc f (loc + 1) else loc

/-- `Word.parseImpl` (core.py:2984-3010) -/
def slowPath (w : Word) (s : List Char) (loc : Nat) : Out :=
  if !charIn w.initSet s loc then none
  else
    let start := loc
    let loc := loc + 1
    let instrlen := s.length
    let maxloc := match w.maxLen with
      | some m => Nat.min (start + m) instrlen
      | none => instrlen
    let loc := bodyLoop w.bodySet s maxloc (maxloc - loc) loc
    if loc - start < w.minLen then none
    else if w.maxSpecified && loc < instrlen && charIn w.bodySet s loc then none
    else if w.asKeyword &&
        ((start > 0 && charIn w.bodySet s (start - 1)) || (loc < instrlen && charIn w.bodySet s loc))
      then none
    else some loc

/-- `Word.parseImpl_regex` -/
def rePath (r : Re) (s : List Char) (loc : Nat) : Out := matchAt false r s loc

/-- what the constructed object does: whichever `parseImpl` was installed -/
def parseWord (w : Word) (s : List Char) (loc : Nat) : Out :=
  match w.re with
  | some r => rePath r s loc
  | none => slowPath w s loc

/-! ## Literal -/

/-- `Literal.parseImpl` for `len(match) > 1` (core.py:2486-2491): first-character test, then
    `startswith` -/
def isPrefixAt (m s : List Char) (loc : Nat) : Bool := (s.drop loc).take m.length == m

def literalLong (m : List Char) (s : List Char) (loc : Nat) : Out :=
  if loc < s.length && s[loc]? == m.head? && isPrefixAt m s loc then some (loc + m.length) else none

/-- `_SingleCharLiteral.parseImpl` (core.py:2505-2509) -/
def literalSingle (c : Char) (s : List Char) (loc : Nat) : Out :=
  if s[loc]? == some c then some (loc + 1) else none

/-- `Literal(m)`: `__new__` picks `Empty` / `_SingleCharLiteral` / `Literal` -/
def literal (m : List Char) (s : List Char) (loc : Nat) : Out :=
  match m with
  | [] => some loc            -- Empty.parseImpl (never raises, also at the end of the text)
  | [c] => literalSingle c s loc
  | _ => literalLong m s loc

end PP.WordPaths
