/-
  C19 — model of pyparsing's process-wide settings and of `pyparsing.testing.reset_pyparsing_context`.

  Transcribed from (line numbers of /repo at the time of writing):
    pyparsing/util.py:15-37        __config_flags._set / enable / disable
    pyparsing/core.py:80-122       __compat__ / __diag__ (+ enable_all_warnings)
    pyparsing/core.py:392-437      DEFAULT_WHITE_CHARS, verbose_stacktrace, _literalStringClass,
                                   set_default_whitespace_chars, inline_literals_using
    pyparsing/core.py:456-465      ParserElement.__init__ (whiteChars, copyDefaultWhiteChars)
    pyparsing/core.py:548-553      ParserElement.copy
    pyparsing/core.py:1781-1800    ignore_whitespace / leave_whitespace (ParserElement; the overrides at :3940-3962
                                   ParseExpression, :4732-4748 ParseElementEnhance, :5765-5771 Forward set the
                                   same flag on the element itself and replace *children* by copies)
    pyparsing/core.py:1802-1811    set_whitespace_chars
    pyparsing/core.py:800-812      preParse (whitespace part)
    pyparsing/core.py:1028-1155    _parse, reset_cache, disable_memoization, enable_left_recursion,
                                   enable_packrat
    pyparsing/core.py:2620-2624    Keyword.set_default_keyword_chars
    pyparsing/testing.py:47-127    reset_pyparsing_context.save / restore / __enter__ / __exit__

  Every setting is ONE class attribute of the base class (`ParserElement.X`, `Keyword.DEFAULT_KEYWORD_CHARS`): the
  setters are staticmethods that name the base class in the assignment, so the class or instance through which a
  setter is called (the `route` parameter of the operations) does not enter; `State.shadows` lists the subclasses
  that have an *own* entry for a setting attribute (none after import; no modelled setter creates one).

  Object identity of `packrat_cache` / `recursion_memos` is modelled by an allocation number
  (`id`, taken from the counter `gen`).  Cache *contents* are not modelled (they are not settings).
  Core Lean only (linked into the driver).
-/
namespace PP.Settings

/-- exceptions the modelled code can raise -/
inductive Err where
  | runtime          -- RuntimeError("Packrat and Bounded Recursion are not compatible")
  | notImplemented   -- NotImplementedError("Memo size of ...")
  | value            -- ValueError("no such diagnostic/compatibility ...")
  | attribute        -- AttributeError (NullCache has no `.size`)
  deriving DecidableEq, Repr, Inhabited

/-- `ParserElement.packrat_cache`: NullCache() | _FifoCache(size) | _UnboundedCache() -/
inductive CacheKind where
  | null
  | fifo (size : Int)
  | unbounded
  deriving DecidableEq, Repr, Inhabited

structure Cache where
  id : Nat
  kind : CacheKind
  deriving DecidableEq, Repr, Inhabited

/-- `ParserElement.recursion_memos`: `{}` | _UnboundedMemo() | _LRUMemo(capacity) -/
inductive MemoKind where
  | dict
  | unbounded
  | lru (cap : Int)
  deriving DecidableEq, Repr, Inhabited

structure Memo where
  id : Nat
  kind : MemoKind
  deriving DecidableEq, Repr, Inhabited

/-- which function `ParserElement._parse` is bound to -/
inductive ParseSel where
  | noCache   -- _parseNoCache
  | cache     -- _parseCache
  deriving DecidableEq, Repr, Inhabited

/-- the attributes of a parser element that default-whitespace handling reads/writes.
    `ws` is `whiteChars` (a Python set) in canonical form: sorted by code point, no duplicates. -/
structure Expr where
  ws : List Char
  copyDef : Bool
  fwdEmpty : Bool := false   -- a `Forward` that has not been assigned an expression yet (`expr is None`)
  skip : Bool := true        -- `skipWhitespace`
  deriving DecidableEq, Repr, Inhabited

/-- static class data of `__diag__` / `__compat__` (generated from the live package) -/
structure Cfg where
  diagAll : List String      -- __diag__._all_names
  diagFixed : List String    -- __diag__._fixed_names
  diagWarn : List String     -- __diag__._warning_names
  compatAll : List String    -- __compat__._all_names
  compatFixed : List String  -- __compat__._fixed_names
  deriving DecidableEq, Repr, Inhabited

abbrev Flags := List (String × Bool)

structure State where
  defaultWs : String            -- ParserElement.DEFAULT_WHITE_CHARS
  kwChars : String              -- Keyword.DEFAULT_KEYWORD_CHARS
  litCls : Nat                  -- ParserElement._literalStringClass (class identity as a number)
  verbose : Bool                -- ParserElement.verbose_stacktrace
  packratEnabled : Bool         -- ParserElement._packratEnabled
  cache : Cache                 -- ParserElement.packrat_cache
  parseSel : ParseSel           -- ParserElement._parse
  lrEnabled : Bool              -- ParserElement._left_recursion_enabled
  memo : Memo                   -- ParserElement.recursion_memos
  diag : Flags                  -- attributes of __diag__ named in _all_names
  compat : Flags                -- attributes of __compat__ named in _all_names
  builtins : List Expr          -- core._builtin_exprs
  users : List Expr             -- user-created expressions (in creation order)
  gen : Nat                     -- allocation counter for cache / memo objects
  shadows : List (String × String) := []
                                -- (class, attribute): strict subclasses of ParserElement (of Keyword for
                                -- DEFAULT_KEYWORD_CHARS) with an own `__dict__` entry for a setting attribute;
                                -- such an entry would hide the base class's cell from that class and below
  deriving DecidableEq, Repr, Inhabited

/-! ### Python `set(chars)` in canonical form -/

def insertSorted (c : Char) : List Char → List Char
  | [] => [c]
  | d :: ds => if c.toNat < d.toNat then c :: d :: ds
               else if c.toNat = d.toNat then d :: ds
               else d :: insertSorted c ds

/-- `set(chars)`, canonical: sorted by code point, duplicates removed -/
def canonSet (cs : List Char) : List Char := cs.foldr insertSorted []

def pySet (s : String) : List Char := canonSet s.toList

/-! ### `__config_flags` (util.py:15-37) -/

def getFlag (name : String) (fl : Flags) : Option Bool :=
  (fl.find? (fun p => p.1 == name)).map (·.2)

/-- `setattr(cls, name, v)` -/
def setFlag (name : String) (v : Bool) (fl : Flags) : Flags :=
  fl.map (fun p => if p.1 == name then (p.1, v) else p)

/-- `cls._set(dname, value)`: fixed names are left alone (a warning is issued), unknown names raise
    ValueError (util.py:22-34) -/
def cfgSet (fixed all : List String) (name : String) (v : Bool) (fl : Flags) : Flags × Option Err :=
  if fixed.contains name then (fl, none)
  else if all.contains name then (setFlag name v fl, none)
  else (fl, some .value)

/-! ### setters -/

/-- core.py:396-415 -/
def setDefaultWs (chars : String) (s : State) : State :=
  { s with
    defaultWs := chars
    builtins := s.builtins.map (fun e => if e.copyDef then { e with ws := pySet chars } else e) }

/-- core.py:2620-2624 -/
def setKwChars (chars : String) (s : State) : State := { s with kwChars := chars }

/-- core.py:417-437 -/
def inlineLiterals (cls : Nat) (s : State) : State := { s with litCls := cls }

/-- core.py:1028-1035 `reset_cache`: clears contents only; no setting changes -/
def resetCache (s : State) : State := s

/-- core.py:1041-1054 -/
def disableMemo (s : State) : State :=
  let s := resetCache s
  let s := { s with lrEnabled := false }
  let s := { s with packratEnabled := false }
  { s with parseSel := .noCache }

/-- the part of `enable_left_recursion` after the force / compatibility test (core.py:1098-1105) -/
def enableLRTail (cap : Option Int) (s : State) : State × Option Err :=
  match cap with
  | none => ({ s with memo := ⟨s.gen, .unbounded⟩, gen := s.gen + 1, lrEnabled := true }, none)
  | some n =>
    if n > 0 then ({ s with memo := ⟨s.gen, .lru n⟩, gen := s.gen + 1, lrEnabled := true }, none)
    else (s, some .notImplemented)

/-- core.py:1056-1105 -/
def enableLR (cap : Option Int) (force : Bool) (s : State) : State × Option Err :=
  if force then enableLRTail cap (disableMemo s)
  else if s.packratEnabled then (s, some .runtime)
  else enableLRTail cap s

/-- the part of `enable_packrat` after the force / compatibility test (core.py:1147-1155) -/
def enablePackratTail (size : Option Int) (s : State) : State :=
  if s.packratEnabled then s
  else
    let s := { s with packratEnabled := true }
    let s := match size with
      | none => { s with cache := ⟨s.gen, .unbounded⟩, gen := s.gen + 1 }
      | some n => { s with cache := ⟨s.gen, .fifo n⟩, gen := s.gen + 1 }
    { s with parseSel := .cache }

/-- core.py:1107-1155 -/
def enablePackrat (size : Option Int) (force : Bool) (s : State) : State × Option Err :=
  if force then (enablePackratTail size (disableMemo s), none)
  else if s.lrEnabled then (s, some .runtime)
  else (enablePackratTail size s, none)

/-- `__diag__.enable_all_warnings()` (core.py:113-116): `for name in _warning_names: cls.enable(name)`;
    stops at the first exception -/
def enableAllWarnings (cfg : Cfg) : List String → Flags → Flags × Option Err
  | [], fl => (fl, none)
  | n :: ns, fl =>
    match cfgSet cfg.diagFixed cfg.diagAll n true fl with
    | (fl', none) => enableAllWarnings cfg ns fl'
    | (fl', some e) => (fl', some e)

/-- `ParserElement.__init__` (core.py:470-471); also what `MatchFirst`/`Or`/`Each` over existing
    expressions get (their `__init__` does not take over any child's whitespace) -/
def newExpr (s : State) : Expr := { ws := pySet s.defaultWs, copyDef := true }

/-- `MatchFirst([e, ...])` / `Or([e, ...])` over an existing expression `e` and fresh literals
    (core.py:4258-4266, :4416-4424): `whiteChars`/`copyDefaultWhiteChars` as for any new element, but
    `self.skipWhitespace = all(x.skipWhitespace for x in self.exprs)` -/
def newAlt (s : State) (e : Expr) : Expr := { ws := pySet s.defaultWs, copyDef := true, skip := e.skip }

/-- `Forward()` (core.py `Forward.__init__(None)` → `ParseElementEnhance.__init__(None)`): no expression yet -/
def newFwd (s : State) : Expr := { ws := pySet s.defaultWs, copyDef := true, fwdEmpty := true }

/-- a composite built over an existing expression (`And.__init__`, `ParseElementEnhance.__init__`) and
    `Forward.__lshift__` (`fwd <<= e`): `self.set_whitespace_chars(e.whiteChars,
    copy_defaults=e.copyDefaultWhiteChars)` — the child's set *and flag* are taken over, not the current default -/
def wrapExpr (e : Expr) : Expr := { ws := e.ws, copyDef := e.copyDef, skip := e.skip }

/-- `copy()`: `ParserElement.copy` (core.py:532-559) re-reads the default iff `copyDefaultWhiteChars`
    — whatever `skipWhitespace` is; every other attribute (incl. `skipWhitespace`) is copied;
    `Forward.copy` (core.py:5811-5817) of an *unassigned* Forward is `ret = Forward(); ret <<= self` -/
def copyExpr (s : State) (e : Expr) : Expr :=
  if e.fwdEmpty then wrapExpr e
  else if e.copyDef then { e with ws := pySet s.defaultWs } else e

/-- `set_whitespace_chars(chars, copy_defaults)` (core.py:1802-1811): also `self.skipWhitespace = True` -/
def exprSetWs (chars : String) (copyDefaults : Bool) (e : Expr) : Expr :=
  { e with ws := pySet chars, copyDef := copyDefaults, skip := true }

/-- `leave_whitespace()` (core.py:1791-1800): `self.skipWhitespace = False`; `whiteChars` and
    `copyDefaultWhiteChars` stay. The overrides for composites do the same to the element itself and
    replace its children by copies (the user's other expressions are not touched); `Forward`'s only
    sets the flag. -/
def exprLeaveWs (e : Expr) : Expr := { e with skip := false }

/-- `ignore_whitespace()` (core.py:1781-1789): `self.skipWhitespace = True`; nothing else -/
def exprIgnoreWs (e : Expr) : Expr := { e with skip := true }

/-- the whitespace part of `preParse` (core.py:800-812), on the rest of the input:
    `if self.skipWhitespace: while loc < instrlen and instring[loc] in white_chars: loc += 1` -/
def preParseWs (e : Expr) (inp : List Char) : List Char :=
  if e.skip then inp.dropWhile (fun ch => e.ws.contains ch) else inp

def modifyNth {α} (f : α → α) : Nat → List α → List α
  | _, [] => []
  | 0, x :: xs => f x :: xs
  | n + 1, x :: xs => x :: modifyNth f n xs

/-- every public way of changing a setting (plus the three expression operations that interact
    with the default whitespace setting) -/
inductive Op where
  -- `route`: through which class / instance / synonym the (static) setter is called, e.g.
  -- `CaselessKeyword.set_default_keyword_chars`, `Word("x").set_default_whitespace_chars`; index into the
  -- harness's route tables. The transcribed setters do not mention it.
  | setDefaultWs (chars : String) (route : Nat)       -- ParserElement.set_default_whitespace_chars
  | setKwChars (chars : String) (route : Nat)         -- Keyword.set_default_keyword_chars
  | inlineLiterals (cls : Nat) (route : Nat)          -- ParserElement.inline_literals_using / inlineLiteralsUsing
  | setVerbose (b : Bool)                             -- ParserElement.verbose_stacktrace = b
  | enablePackrat (size : Option Int) (force : Bool) (route : Nat)  -- ParserElement.enable_packrat
  | enableLR (cap : Option Int) (force : Bool) (route : Nat)        -- ParserElement.enable_left_recursion
  | disableMemo (route : Nat)                         -- ParserElement.disable_memoization
  | resetCache (route : Nat)                          -- ParserElement.reset_cache
  | diagSet (name : String) (v : Bool)                -- __diag__.enable/disable, enable_diag/disable_diag
  | enableAllWarnings                                 -- enable_all_warnings()
  | compatSet (name : String) (v : Bool)              -- __compat__.enable/disable
  | compatAssign (name : String) (v : Bool)           -- setattr(__compat__, name, v) for a name in _all_names
  | newExpr                                           -- build a fresh expression
  | copyExpr (i : Nat)                                -- users[i].copy()
  | exprSetWs (i : Nat) (chars : String) (copyDefaults : Bool)  -- users[i].set_whitespace_chars(...)
  | wrapExpr (i : Nat)                                -- Group(users[i]) / users[i] + ... (new composite)
  | newFwd                                            -- Forward()
  | assignFwd (i j : Nat)                             -- users[i] <<= users[j]   (users[i] a Forward)
  | leaveWs (i : Nat)                                 -- users[i].leave_whitespace()
  | ignoreWs (i : Nat)                                -- users[i].ignore_whitespace()
  | newAlt (i : Nat)                                  -- MatchFirst([users[i], Literal]) / Or([users[i], Literal])
  deriving DecidableEq, Repr, Inhabited

/-- the same call through another route -/
def Op.withRoute (r : Nat) : Op → Op
  | .setDefaultWs c _ => .setDefaultWs c r
  | .setKwChars c _ => .setKwChars c r
  | .inlineLiterals c _ => .inlineLiterals c r
  | .enablePackrat sz f _ => .enablePackrat sz f r
  | .enableLR cap f _ => .enableLR cap f r
  | .disableMemo _ => .disableMemo r
  | .resetCache _ => .resetCache r
  | o => o

def stepOp (cfg : Cfg) (o : Op) (s : State) : State × Option Err :=
  match o with
  | .setDefaultWs c _ => (setDefaultWs c s, none)
  | .setKwChars c _ => (setKwChars c s, none)
  | .inlineLiterals c _ => (inlineLiterals c s, none)
  | .setVerbose b => ({ s with verbose := b }, none)
  | .enablePackrat sz f _ => enablePackrat sz f s
  | .enableLR cap f _ => enableLR cap f s
  | .disableMemo _ => (disableMemo s, none)
  | .resetCache _ => (resetCache s, none)
  | .diagSet n v =>
    let r := cfgSet cfg.diagFixed cfg.diagAll n v s.diag
    ({ s with diag := r.1 }, r.2)
  | .enableAllWarnings =>
    let r := enableAllWarnings cfg cfg.diagWarn s.diag
    ({ s with diag := r.1 }, r.2)
  | .compatSet n v =>
    let r := cfgSet cfg.compatFixed cfg.compatAll n v s.compat
    ({ s with compat := r.1 }, r.2)
  | .compatAssign n v => ({ s with compat := setFlag n v s.compat }, none)
  | .newExpr => ({ s with users := s.users ++ [newExpr s] }, none)
  | .copyExpr i =>
    match s.users[i]? with
    | some e => ({ s with users := s.users ++ [copyExpr s e] }, none)
    | none => (s, none)
  | .exprSetWs i c cd => ({ s with users := modifyNth (exprSetWs c cd) i s.users }, none)
  | .wrapExpr i =>
    match s.users[i]? with
    | some e => ({ s with users := s.users ++ [wrapExpr e] }, none)
    | none => (s, none)
  | .newFwd => ({ s with users := s.users ++ [newFwd s] }, none)
  | .assignFwd i j =>
    match s.users[j]? with
    | some e => ({ s with users := modifyNth (fun _ => wrapExpr e) i s.users }, none)
    | none => (s, none)
  | .leaveWs i => ({ s with users := modifyNth exprLeaveWs i s.users }, none)
  | .ignoreWs i => ({ s with users := modifyNth exprIgnoreWs i s.users }, none)
  | .newAlt i =>
    match s.users[i]? with
    | some e => ({ s with users := s.users ++ [newAlt s e] }, none)
    | none => (s, none)

/-! ### `reset_pyparsing_context` (testing.py:47-127) -/

/-- `self._save_context` -/
structure Saved where
  defaultWs : String
  builtinWs : List (List Char) -- [(expr, set(expr.whiteChars)) for expr in _builtin_exprs] (objects by position)
  kwChars : String
  litCls : Nat
  verbose : Bool
  packratEnabled : Bool
  packratSize : Option Int     -- `packrat_cache.size` if enabled else None
  parseSel : ParseSel
  lrEnabled : Bool
  memo : Memo                  -- the recursion_memos *object*
  diag : Flags                 -- {name: getattr(__diag__, name) for name in __diag__._all_names}
  compat : Flags               -- {"collect_all_And_tokens": __compat__.collect_all_And_tokens}
  deriving DecidableEq, Repr, Inhabited

/-- `cache.size`: `_FifoCache.size` is the bound, `_UnboundedCache.size` is None, `NullCache` has no
    such attribute (AttributeError, see `saveRaises`) -/
def Cache.sizeAttr (c : Cache) : Option Int :=
  match c.kind with
  | .fifo n => some n
  | _ => none

/-- `save()` raises (AttributeError) exactly when packrat is flagged enabled while the cache is still
    the NullCache; unreachable through the public setters (`WF`) -/
def saveRaises (s : State) : Bool := s.packratEnabled && s.cache.kind == .null

/-- the names `save()` records for `__compat__` (testing.py:77-79) -/
def compatSavedNames : List String := ["collect_all_And_tokens"]

/-- testing.py:50-84 -/
def save (cfg : Cfg) (s : State) : Saved :=
  { defaultWs := s.defaultWs
    builtinWs := s.builtins.map (·.ws)
    kwChars := s.kwChars
    litCls := s.litCls
    verbose := s.verbose
    packratEnabled := s.packratEnabled
    packratSize := if s.packratEnabled then s.cache.sizeAttr else none
    parseSel := s.parseSel
    lrEnabled := s.lrEnabled
    memo := s.memo
    diag := cfg.diagAll.map (fun n => (n, (getFlag n s.diag).getD false))
    compat := compatSavedNames.map (fun n => (n, (getFlag n s.compat).getD false)) }

/-- testing.py:99-100 `for name, value in saved["__diag__"].items(): (enable if value else disable)(name)` -/
def restoreDiag (cfg : Cfg) : Flags → Flags → Flags × Option Err
  | [], fl => (fl, none)
  | (n, v) :: rest, fl =>
    match cfgSet cfg.diagFixed cfg.diagAll n v fl with
    | (fl', none) => restoreDiag cfg rest fl'
    | (fl', some e) => (fl', some e)

/-- testing.py:115-116 `for name, value in saved["__compat__"].items(): setattr(__compat__, name, value)` -/
def restoreCompat : Flags → Flags → Flags
  | [], fl => fl
  | (n, v) :: rest, fl => restoreCompat rest (setFlag n v fl)

/-- `for expr, white_chars in saved["builtin_whitespace"]: expr.whiteChars = white_chars`
    (the saved pairs hold the built-in *objects*; the list of built-ins never changes, so by position) -/
def assignWs : List Expr → List (List Char) → List Expr
  | e :: es, w :: ws => { e with ws := w } :: assignWs es ws
  | es, _ => es

/-- testing.py:88-97: undo a changed default, then put every built-in's own set back -/
def restoreWs (sv : Saved) (t : State) : State :=
  let t := if t.defaultWs != sv.defaultWs then setDefaultWs sv.defaultWs t else t
  { t with builtins := assignWs t.builtins sv.builtinWs }

/-- testing.py:86-124, statement by statement; on an exception the partially restored state and
    the exception are returned -/
def restore (cfg : Cfg) (sv : Saved) (t : State) : State × Option Err :=
  -- :88-97
  let t := restoreWs sv t
  -- :93
  let t := { t with verbose := sv.verbose }
  -- :95
  let t := { t with kwChars := sv.kwChars }
  -- :96-98
  let t := inlineLiterals sv.litCls t
  -- :100-101
  match restoreDiag cfg sv.diag t.diag with
  | (d, some e) => ({ t with diag := d }, some e)
  | (d, none) =>
    let t := { t with diag := d }
    -- :103-104
    let t := { t with packratEnabled := false }
    let t := { t with lrEnabled := false }
    -- :105-108
    let r := if sv.packratEnabled then enablePackrat sv.packratSize false t
             else ({ t with parseSel := sv.parseSel }, none)
    match r with
    | (t, some e) => (t, some e)
    | (t, none) =>
      -- :109-111
      let t := { t with lrEnabled := sv.lrEnabled }
      -- :113
      let t := { t with memo := sv.memo }
      -- :115-116
      let t := { t with compat := restoreCompat sv.compat t.compat }
      (t, none)

/-! ### nested contexts: a machine with a stack of saved contexts -/

inductive Cmd where
  | op (o : Op)
  | enter (reuse : Bool)   -- `ctx.__enter__()` on a new `reset_pyparsing_context()`; `reuse`: on the most
                           -- recently exited context *object* instead (its saved context is overwritten)
  | exit (viaCopy : Bool)  -- innermost open context: `ctx.__exit__()`; `viaCopy`: `ctx.copy().restore()`
  | restoreLast            -- `.restore()` once more on the most recently exited context object
  deriving DecidableEq, Repr, Inhabited

structure Mach where
  st : State
  stack : List Saved
  ctxErr : Bool      -- did any `__enter__` / `__exit__` raise so far
  last : Option Saved  -- `_save_context` of the most recently exited context object (if not re-entered since)
  deriving DecidableEq, Repr, Inhabited

/-- one command; second component: the exception it raised, if any -/
def stepCmd (cfg : Cfg) (c : Cmd) (m : Mach) : Mach × Option Err :=
  match c with
  | .op o =>
    let r := stepOp cfg o m.st
    ({ m with st := r.1 }, r.2)
  | .enter reuse =>
    -- `save()` assigns every key of `_save_context`, so a re-used object behaves like a new one
    if saveRaises m.st then ({ m with ctxErr := true }, some .attribute)
    else ({ m with stack := save cfg m.st :: m.stack, last := if reuse then none else m.last }, none)
  | .exit _ =>
    -- `copy()` (testing.py:126-129) copies `_save_context`, so restoring through the copy is the same
    match m.stack with
    | [] => (m, none)
    | sv :: rest =>
      let r := restore cfg sv m.st
      ({ st := r.1, stack := rest, ctxErr := m.ctxErr || r.2.isSome, last := some sv }, r.2)
  | .restoreLast =>
    match m.last with
    | none => (m, none)
    | some sv =>
      let r := restore cfg sv m.st
      ({ m with st := r.1, ctxErr := m.ctxErr || r.2.isSome }, r.2)

def run (cfg : Cfg) : List Cmd → Mach → Mach
  | [], m => m
  | c :: cs, m => run cfg cs (stepCmd cfg c m).1

/-- the machine after every command, with the exception raised by that command -/
def trace (cfg : Cfg) : List Cmd → Mach → List (Mach × Option Err)
  | [], _ => []
  | c :: cs, m =>
    let r := stepCmd cfg c m
    r :: trace cfg cs r.1

/-! ### what the property speaks about -/

/-- the process-wide settings of the C19 statement. A cache's kind/size is a setting only while its
    mode is enabled (a disabled mode never reads its table). -/
structure Obs where
  defaultWs : String
  kwChars : String
  litCls : Nat
  verbose : Bool
  packrat : Option CacheKind
  parseSel : ParseSel
  lr : Option MemoKind
  diag : Flags
  compat : Flags
  deriving DecidableEq, Repr, Inhabited

def obs (s : State) : Obs :=
  { defaultWs := s.defaultWs
    kwChars := s.kwChars
    litCls := s.litCls
    verbose := s.verbose
    packrat := if s.packratEnabled then some s.cache.kind else none
    parseSel := s.parseSel
    lr := if s.lrEnabled then some s.memo.kind else none
    diag := s.diag
    compat := s.compat }

/-- the settings as read through class `cls` (`getattr(cls, attr)` for each setting attribute): the one cell of
    the base class — unless `cls` has an own entry for some setting attribute (then what it sees is not
    determined by the settings: `none`) -/
def classView (cls : String) (s : State) : Option Obs :=
  if s.shadows.any (fun p => p.1 == cls) then none else some (obs s)

/-- the pristine state right after `import pyparsing`, for given class data and built-ins -/
def initState (cfg : Cfg) (ws kw : String) (builtins : List Expr) (shadows : List (String × String) := []) : State :=
  { defaultWs := ws, kwChars := kw, litCls := 0, verbose := false
    packratEnabled := false, cache := ⟨0, .null⟩, parseSel := .noCache
    lrEnabled := false, memo := ⟨1, .dict⟩
    diag := cfg.diagAll.map (fun n => (n, false))
    compat := cfg.compatAll.map (fun n => (n, true))
    builtins := builtins, users := [], gen := 2, shadows := shadows }

end PP.Settings
