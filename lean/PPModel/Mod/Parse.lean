import PPModel.Mod.ParseTypes
import PPModel.Mod.LineCol
/-
  Shared parse model — the algorithm.  Transcription of pyparsing/core.py:
    ParserElement._parseNoCache (813-912), preParse/_skipIgnorables (773-804), try_parse / can_parse_next,
    and `parseImpl` of every modelled class (file:line cited at each helper).
  Recursion is structural on `fuel`; list/loop helpers receive the recursive call as a closure `p : P`.
-/
namespace PP.Parse

/-! ### string primitives (CPython `str` as used by the code) -/

def startsWithAt (s m : List Char) (loc : Nat) : Bool := (s.drop loc).take m.length == m

def slice (s : List Char) (a b : Nat) : List Char := (s.take b).drop a

def mem (c : Char) (cs : List Char) : Bool := cs.elem c

/-- `str.upper()` restricted to the harness alphabet (ASCII letters, U+00E0..U+00FE except ÷). -/
def upperC (c : Char) : Char :=
  if 'a' ≤ c ∧ c ≤ 'z' then Char.ofNat (c.toNat - 32)
  else if 0xE0 ≤ c.toNat ∧ c.toNat ≤ 0xFE ∧ c.toNat ≠ 0xF7 then Char.ofNat (c.toNat - 32)
  else c

def upper (s : List Char) : List Char := s.map upperC

/-- `\w` of Python `re` on the harness alphabet: ASCII alphanumerics, `_`, and the non-ASCII letters used. -/
def isWordC (c : Char) : Bool :=
  ('a' ≤ c && c ≤ 'z') || ('A' ≤ c && c ≤ 'Z') || ('0' ≤ c && c ≤ '9') || c == '_' ||
  (0xC0 ≤ c.toNat && c.toNat ≠ 0xD7 && c.toNat ≠ 0xF7)

/-- `while loc < len and instring[loc] in white: loc += 1` (core.py:798-802) -/
def skipWhite (white s : List Char) (loc : Nat) : Nat :=
  loc + ((s.drop loc).takeWhile (mem · white)).length

/-- longest run of characters satisfying `ok`, starting at `loc`, of at most `cap` characters -/
def runLen (ok : Char → Bool) (s : List Char) (loc cap : Nat) : Nat :=
  (((s.drop loc).take cap).takeWhile ok).length

/-! ### leaves -/

/-- Literal.parseImpl (2480-2486) -/
def litImpl (m s : List Char) (loc : Nat) : Out :=
  match s[loc]? with
  | none => .idx
  | some c => if some c == m.head? && startsWithAt s m loc then .ok (loc + m.length) [.s m] else .fail .parse loc

/-- _SingleCharLiteral.parseImpl (2506-2509) -/
def lit1Impl (ch : Char) (s : List Char) (loc : Nat) : Out :=
  match s[loc]? with
  | none => .idx
  | some c => if c == ch then .ok (loc + 1) [.s [ch]] else .fail .parse loc

/-- CaselessLiteral.parseImpl (2653-2656) -/
def caselessLitImpl (mU ret s : List Char) (loc : Nat) : Out :=
  if upper (slice s loc (loc + mU.length)) == mU then .ok (loc + mU.length) [.s ret] else .fail .parse loc

/-- Keyword.parseImpl: the test for a following identifier character (2581-2590 / 2602-2611) -/
def kwAfter (m ident : List Char) (up : Char → Char) (s : List Char) (loc : Nat) : Out :=
  -- `loc >= len(instring) - matchLen or instring[loc+matchLen] not in identChars`
  if loc + m.length ≥ s.length then .ok (loc + m.length) [.s m]
  else match s[loc + m.length]? with
    | none => .idx
    | some c => if !mem (up c) ident then .ok (loc + m.length) [.s m] else .fail .parse (loc + m.length)

/-- Keyword.parseImpl: the test for a preceding identifier character -/
def kwTail (m ident : List Char) (up : Char → Char) (s : List Char) (loc : Nat) : Out :=
  -- `if loc == 0 or instring[loc-1] not in identChars`
  if loc == 0 then kwAfter m ident up s loc
  else match s[loc - 1]? with
    | none => .idx
    | some c => if mem (up c) ident then .fail .parse (loc - 1) else kwAfter m ident up s loc

/-- Keyword.parseImpl (2575-2616) -/
def keywordImpl (m ident : List Char) (caseless : Bool) (s : List Char) (loc : Nat) : Out :=
  if caseless then
    if upper (slice s loc (loc + m.length)) == upper m then kwTail m ident upperC s loc else .fail .parse loc
  else
    match s[loc]? with
    | none => .idx
    | some c =>
      if (some c == m.head? && m.length == 1) || startsWithAt s m loc then kwTail m ident id s loc
      else .fail .parse loc

/-- Word.parseImpl, the character loop (2984-3011) -/
def wordSlowImpl (init body : List Char) (minLen : Nat) (maxLen : Option Nat) (maxSpec asKw : Bool)
    (s : List Char) (loc : Nat) : Out :=
  match s[loc]? with
  | none => .idx
  | some c =>
    if !mem c init then .fail .parse loc else
    let start := loc
    let cap := match maxLen with
      | some k => k - 1
      | none => s.length
    let e := loc + 1 + runLen (mem · body) s (loc + 1) cap
    let nextInBody := match s[e]? with
      | some d => mem d body
      | none => false
    let prevInBody := start > 0 && (match s[start - 1]? with
      | some d => mem d body
      | none => false)
    if e - start < minLen then .fail .parse e
    else if maxSpec && nextInBody then .fail .parse e
    else if asKw && (prevInBody || nextInBody) then .fail .parse e
    else .ok e [.s (slice s start e)]

/-- `\b` at position `i` of `s` -/
def wordBoundary (s : List Char) (i : Nat) : Bool :=
  let before := i > 0 && (match s[i - 1]? with
    | some c => isWordC c
    | none => false)
  let after := match s[i]? with
    | some c => isWordC c
    | none => false
  before != after

/-- first `k` in `hi, hi-1, …, lo` with `\b` at `start+1+k` (regex backtracking over the greedy body) -/
def backtrackB (s : List Char) (start lo : Nat) : Nat → Option Nat
  | 0 => if lo == 0 && wordBoundary s (start + 1) then some 0 else none
  | k+1 => if k + 1 < lo then none
           else if wordBoundary s (start + 1 + (k + 1)) then some (k + 1) else backtrackB s start lo k

/-- Word.parseImpl_regex (3013-3019) for the `reString` built at 2909-2954:
    `[init][body]{min-1,max-1}` greedy, optionally wrapped in `\b … \b`. -/
def wordReImpl (init body : List Char) (minLen : Nat) (maxLen : Option Nat) (asKw : Bool)
    (s : List Char) (loc : Nat) : Out :=
  match s[loc]? with
  | none => .fail .parse loc
  | some c =>
    if !mem c init then .fail .parse loc else
    let cap := match maxLen with
      | some k => k - 1
      | none => s.length
    let k := runLen (mem · body) s (loc + 1) cap
    if k + 1 < minLen then .fail .parse loc
    else if !asKw then .ok (loc + 1 + k) [.s (slice s loc (loc + 1 + k))]
    else if !wordBoundary s loc then .fail .parse loc
    else match backtrackB s loc (minLen - 1) k with
      | some j => .ok (loc + 1 + j) [.s (slice s loc (loc + 1 + j))]
      | none => .fail .parse loc

/-- CharsNotIn.parseImpl (3541-3555) -/
def charsNotInImpl (notc : List Char) (minLen : Nat) (maxLen : Option Nat) (s : List Char) (loc : Nat) : Out :=
  match s[loc]? with
  | none => .idx
  | some c =>
    if mem c notc then .fail .parse loc else
    let cap := match maxLen with
      | some k => k - 1
      | none => s.length
    let e := loc + 1 + runLen (fun d => !mem d notc) s (loc + 1) cap
    if e - loc < minLen then .fail .parse e else .ok e [.s (slice s loc e)]

/-- StringEnd.parseImpl (3776-3784) -/
def stringEndImpl (s : List Char) (loc : Nat) : Out :=
  if loc < s.length then .fail .parse loc
  else if loc == s.length then .ok (loc + 1) []
  else .ok loc []

/-- LineEnd.parseImpl (3738-3747) -/
def lineEndImpl (s : List Char) (loc : Nat) : Out :=
  if loc < s.length then
    (if s[loc]? == some '\n' then .ok (loc + 1) [.s ['\n']] else .fail .parse loc)
  else if loc == s.length then .ok (loc + 1) []
  else .fail .parse loc

/-- WordStart.parseImpl (3805-3812) -/
def wordStartImpl (cs s : List Char) (loc : Nat) : Out :=
  if loc == 0 then .ok loc [] else
  match s[loc - 1]? with
  | none => .idx
  | some a =>
    if mem a cs then .fail .parse loc else
    match s[loc]? with
    | none => .idx
    | some b => if !mem b cs then .fail .parse loc else .ok loc []

/-- WordEnd.parseImpl (3833-3841); `instring[loc-1]` at `loc = 0` wraps to the last character -/
def wordEndImpl (cs s : List Char) (loc : Nat) : Out :=
  if s.length > 0 && loc < s.length then
    match s[loc]? with
    | none => .idx
    | some a =>
      if mem a cs then .fail .parse loc else
      let prev := if loc == 0 then s[s.length - 1]? else s[loc - 1]?
      match prev with
      | none => .idx
      | some b => if !mem b cs then .fail .parse loc else .ok loc []
  else .ok loc []

/-- LineStart.preParse (3708-3719) -/
def lineStartPre (skipW : List Char) (origNl : Bool) (s : List Char) (loc : Nat) : Nat :=
  if loc == 0 then 0 else
  let ret := skipWhite skipW s loc
  if origNl then
    -- `while instring[ret:ret+1] == "\n": ret = skipper.preParse(instring, ret+1)`
    let rec go : Nat → Nat → Nat
      | 0, r => r
      | k+1, r => if s[r]? == some '\n' then go k (skipWhite skipW s (r + 1)) else r
    go (s.length + 1) ret
  else ret

/-! ### pre-parsing -/

inductive PreR where
  | at (loc : Nat)
  | abort (o : Out)

/-- inner `while 1: loc, dummy = ignore_fn(instring, loc)` of _skipIgnorables (785-789):
    returns the location reached and whether anything matched. A zero-width match loops for ever. -/
def ignoreOne (p : P) (e : Nat) : Nat → Nat → Bool → (PreR × Bool)
  | 0, _, _ => (.abort .hang, false)
  | k+1, loc, found =>
    match p e loc true true with
    | .ok l _ => if l ≤ loc then (.abort .hang, found) else ignoreOne p e k l true
    | .fail .parse _ => (.at loc, found)
    | .fail c l => (.abort (.fail c l), found)
    | .idx => (.abort .idx, found)
    | .hang => (.abort .hang, found)

/-- one `for ignore_fn in ignore_expr_fns` pass -/
def ignorePass (p : P) (slen : Nat) : List Nat → Nat → Bool → (PreR × Bool)
  | [], loc, found => (.at loc, found)
  | e :: es, loc, found =>
    match ignoreOne p e (slen + 2) loc found with
    | (.at l, f) => ignorePass p slen es l f
    | r => r

/-- _skipIgnorables (773-793) -/
def skipIgnorables (p : P) (slen : Nat) (ign : List Nat) : Nat → Nat → PreR
  | 0, _ => .abort .hang
  | k+1, loc =>
    match ignorePass p slen ign loc false with
    | (.at l, found) => if l == loc || !found then .at l else skipIgnorables p slen ign k l
    | (r, _) => r

/-- ParserElement.preParse (795-804) -/
def preParse (p : P) (nd : Node) (s : List Char) (loc : Nat) : PreR :=
  match nd.kind with
  | .lineStart skipW origNl => .at (lineStartPre skipW origNl s loc)
  | _ =>
    let r := if nd.ignore.isEmpty then PreR.at loc else skipIgnorables p s.length nd.ignore (s.length + 2) loc
    match r with
    | .at l => .at (if nd.skipWs then skipWhite nd.white s l else l)
    | r => r

/-! ### try_parse / can_parse_next (914-935) -/

def tryParse (p : P) (e loc : Nat) (raiseFatal doActions : Bool) : Out :=
  match p e loc doActions true with
  | .fail c l => if c.isFatal && !raiseFatal then .fail .parse loc else .fail c l
  | o => o

/-- `some true/false`, or `none` when the underlying parse hangs -/
def canParseNext (p : P) (e loc : Nat) (doActions : Bool) : Option Bool :=
  match tryParse p e loc false doActions with
  | .ok _ _ => some true
  | .fail _ _ => some false
  | .idx => some false
  | .hang => none

/-! ### combinators -/

/-- And.parseImpl loop over `self.exprs[1:]` (4183-4204) -/
def andRest (p : P) (isStop : Nat → Bool) (acts : Bool) (slen : Nat) :
    List Nat → Bool → Nat → List Tok → Out
  | [], _, loc, acc => .ok loc acc
  | e :: es, stop, loc, acc =>
    if isStop e then andRest p isStop acts slen es true loc acc else
    match p e loc acts true with
    | .ok l ts => andRest p isStop acts slen es stop l (acc ++ ts)
    | .fail c l => if stop then .fail .syntax l else .fail c l
    | .idx => if stop then .fail .syntax slen else .idx
    | .hang => .hang

/-- And.parseImpl (4177-4204) -/
def andImpl (p : P) (isStop : Nat → Bool) (acts : Bool) (slen : Nat) (es : List Nat) (loc : Nat) : Out :=
  match es with
  | [] => .idx
  | e0 :: rest =>
    match p e0 loc acts false with
    | .ok l ts => andRest p isStop acts slen rest false l ts
    | o => o

/-- MatchFirst.parseImpl (4430-4461): `mx` is (maxExcLoc, exists) -/
def mfGo (p : P) (acts : Bool) (slen loc : Nat) : List Nat → Option Nat → Out
  | [], none => .fail .parse loc
  | [], some l => .fail .parse l
  | e :: es, mx =>
    match p e loc acts true with
    | .ok l ts => .ok l ts
    | .fail .parse l =>
      mfGo p acts slen loc es (match mx with
        | none => some l
        | some m => if l > m then some l else some m)
    | .fail c l => .fail c l
    | .idx =>
      mfGo p acts slen loc es (match mx with
        | none => some slen
        | some m => if slen > m then some slen else some m)
    | .hang => .hang

structure Fatal where
  c : Exc
  loc : Nat
  nameLen : Nat

/-- choice among collected fatals (Or 4334-4340, Each 4622-4628) -/
def pickFatal : List Fatal → Option Fatal
  | [] => none
  | f :: fs =>
    match pickFatal fs with
    | none => some f
    | some b => if b.loc > f.loc || (b.loc == f.loc && b.nameLen > f.nameLen) then some b else some f

/-- insert `x` (which precedes every element of the list in source order) into a list sorted by end
    **descending**: before the first entry whose end is ≤ its own, so that equal ends keep source order
    (`matches.sort(key=itemgetter(0), reverse=True)` is stable) -/
def insDesc (x : Nat × Nat) : List (Nat × Nat) → List (Nat × Nat)
  | [] => [x]
  | y :: ys => if y.1 > x.1 then y :: insDesc x ys else x :: y :: ys

def sortDesc : List (Nat × Nat) → List (Nat × Nat)
  | [] => []
  | x :: xs => insDesc x (sortDesc xs)

structure OrAcc where
  cands : List (Nat × Nat) := []     -- (end, alt) in source order
  fatals : List Fatal := []
  mx : Option Nat := none

/-- Or.parseImpl first pass (4276-4300) -/
def orPass1 (p : P) (nameLen : Nat → Nat) (slen loc : Nat) : List Nat → OrAcc → Option OrAcc
  | [], a => some a
  | e :: es, a =>
    match tryParse p e loc true false with
    | .ok l _ => orPass1 p nameLen slen loc es { a with cands := a.cands ++ [(l, e)] }
    | .fail c l =>
      if c.isFatal then
        orPass1 p nameLen slen loc es { a with fatals := a.fatals ++ [⟨c, l, nameLen e⟩], mx := none }
      else if !a.fatals.isEmpty then orPass1 p nameLen slen loc es a
      else orPass1 p nameLen slen loc es { a with mx := (match a.mx with
        | none => some l
        | some m => if l > m then some l else some m) }
    | .idx =>
      orPass1 p nameLen slen loc es { a with mx := (match a.mx with
        | none => some slen
        | some m => if slen > m then some slen else some m) }
    | .hang => none

/-- Or.parseImpl second pass with actions (4313-4331); `longest` = best shorter re-parse so far.
    Returns `inl out` when decided, `inr (longest, mx)` when the loop ran out. -/
def orPass2 (p : P) (loc : Nat) : List (Nat × Nat) → Option (Nat × List Tok) → Option Nat →
    Sum Out (Option (Nat × List Tok) × Option Nat)
  | [], longest, mx => .inr (longest, mx)
  | (loc1, e) :: rest, longest, mx =>
    match longest with
    | some (ll, lt) =>
      if loc1 ≤ ll then .inl (.ok ll lt) else orStep p loc loc1 e rest longest mx
    | none => orStep p loc loc1 e rest longest mx
where
  orStep (p : P) (loc loc1 e : Nat) (rest : List (Nat × Nat)) (longest : Option (Nat × List Tok))
      (mx : Option Nat) : Sum Out (Option (Nat × List Tok) × Option Nat) :=
    match p e loc true true with
    | .ok l2 ts =>
      if l2 ≥ loc1 then .inl (.ok l2 ts)
      else
        let better : Bool := match longest with
          | some (ll, _) => l2 > ll
          | none => true
        orPass2 p loc rest (if better then some (l2, ts) else longest) mx
    | .fail .parse l =>
      orPass2 p loc rest longest (match mx with
        | none => some l
        | some m => if l > m then some l else some m)
    | o => .inl o

/-- end of Or.parseImpl (4333-4350): raise the chosen fatal, else the farthest ParseException -/
def orAfter (fatals : List Fatal) (mx : Option Nat) (loc : Nat) : Out :=
  match pickFatal fatals with
  | some f => .fail f.c f.loc
  | none => match mx with
    | some l => .fail .parse l
    | none => .fail .parse loc

/-- Or.parseImpl after its optional pre-parse (4276-4350) -/
def orAt (p : P) (nameLen : Nat → Nat) (slen : Nat) (acts : Bool) (es : List Nat) (loc : Nat) : Out :=
  match orPass1 p nameLen slen loc es {} with
  | none => .hang
  | some a =>
    if a.cands.isEmpty then orAfter a.fatals a.mx loc
    else if !acts then
      match sortDesc a.cands with
      | (_, e) :: _ => p e loc acts true
      | [] => .hang
    else
      match orPass2 p loc (sortDesc a.cands) none a.mx with
      | .inl o => o
      | .inr (some (ll, lt), _) => .ok ll lt
      | .inr (none, mx) => orAfter a.fatals mx loc

def callPreOf (g : Grammar) (i : Nat) : Bool :=
  match g[i]? with
  | some n => n.callPre
  | none => true

def nameLenOf (g : Grammar) (i : Nat) : Nat :=
  match g[i]? with
  | some n => n.nameLen
  | none => 0

/-- Or.parseImpl (4268-4350) -/
def orImpl (p : P) (g : Grammar) (nd : Node) (s : List Char) (acts : Bool) (es : List Nat) (loc : Nat) : Out :=
  match (if es.all (callPreOf g) then preParse p nd s loc else PreR.at loc) with
  | .abort o => o
  | .at loc => orAt p (nameLenOf g) s.length acts es loc

/-- `try_not_ender(instring, loc)` of _MultipleMatch (5135-5149): `some true` = the stop_on sentinel is next -/
def stopCheck (p : P) (notEnder : Option Nat) (loc : Nat) : Option Bool :=
  match notEnder with
  | none => some false
  | some ne => match tryParse p ne loc false false with
    | .ok _ _ => some false
    | .fail _ _ => some true
    | .idx => some true
    | .hang => none

/-- `self._skipIgnorables(instring, loc)` inside the repetition loop (5150-5153) -/
def manyPre (p : P) (nd : Node) (slen loc : Nat) : PreR :=
  if nd.ignore.isEmpty then PreR.at loc else skipIgnorables p slen nd.ignore (slen + 2) loc

/-- the `while 1` loop of _MultipleMatch.parseImpl (5146-5156) -/
def manyLoop (p : P) (nd : Node) (acts : Bool) (slen : Nat) (e : Nat) (notEnder : Option Nat) :
    Nat → Nat → List Tok → Out
  | 0, _, _ => .hang
  | k+1, loc, acc =>
    match stopCheck p notEnder loc with
    | none => .hang
    | some true => .ok loc acc
    | some false =>
      match manyPre p nd slen loc with
      | .abort (.fail .parse _) => .ok loc acc
      | .abort .idx => .ok loc acc
      | .abort o => o
      | .at preloc =>
        match p e preloc acts true with
        | .ok l ts => if l ≤ loc then .hang else manyLoop p nd acts slen e notEnder k l (acc ++ ts)
        | .fail .parse _ => .ok loc acc
        | .idx => .ok loc acc
        | o => o

/-- _MultipleMatch.parseImpl (5124-5158) -/
def manyImpl (p : P) (nd : Node) (acts : Bool) (slen : Nat) (e : Nat) (notEnder : Option Nat) (loc : Nat) : Out :=
  let first : Out := match notEnder with
    | none => .ok loc []
    | some ne => tryParse p ne loc false false
  match first with
  | .ok _ _ =>
    (match p e loc acts true with
     | .ok l ts => manyLoop p nd acts slen e notEnder (slen + 2) l ts
     | o => o)
  | o => o

/-- `while 1: tmploc = ignorer_try_parse(instring, tmploc)` of SkipTo (5515-5524) -/
def ignLoop (p : P) (i : Nat) : Nat → Nat → Sum Out Nat
  | 0, _ => .inl .hang
  | k+1, t =>
    match tryParse p i t false false with
    | .ok l _ => if l == t then .inr l else ignLoop p i k l
    | .fail _ _ => .inr t
    | .idx => .inl .idx
    | .hang => .inl .hang

/-- `self_failOn_canParseNext(instring, tmploc)` (5507-5510) -/
def failOnCheck (p : P) (failOn : Option Nat) (tmploc : Nat) : Option Bool :=
  match failOn with
  | none => some false
  | some f => canParseNext p f tmploc false

def ignStep (p : P) (slen : Nat) (ignorer : Option Nat) (tmploc : Nat) : Sum Out Nat :=
  match ignorer with
  | none => .inr tmploc
  | some i => ignLoop p i (slen + 2) tmploc

/-- SkipTo.parseImpl scanning loop (5505-5536) : returns the location of the target, or an outcome -/
def skipScan (p : P) (slen : Nat) (e : Nat) (failOn ignorer : Option Nat) (loc0 : Nat) :
    Nat → Nat → Sum Out Nat
  | 0, _ => .inl (.fail .parse loc0)
  | k+1, tmploc =>
    if tmploc > slen then .inl (.fail .parse loc0) else
    match failOnCheck p failOn tmploc with
    | none => .inl .hang
    | some true => .inl (.fail .parse loc0)
    | some false =>
      match ignStep p slen ignorer tmploc with
      | .inl o => .inl o
      | .inr t =>
        match p e t false false with
        | .ok _ _ => .inr t
        | .fail .parse _ => skipScan p slen e failOn ignorer loc0 k (t + 1)
        | .idx => skipScan p slen e failOn ignorer loc0 k (t + 1)
        | o => .inl o

/-- SkipTo.parseImpl (5495-5546) -/
def skipToImpl (p : P) (s : List Char) (acts : Bool) (e : Nat) (incl : Bool) (failOn ignorer : Option Nat)
    (loc : Nat) : Out :=
  match skipScan p s.length e failOn ignorer loc (s.length + 2) loc with
  | .inl o => o
  | .inr t =>
    let skipped : List Tok := [.s (slice s loc t)]
    if incl then
      match p e t acts false with
      | .ok l ts => .ok l (skipped ++ ts)
      | o => o
    else .ok t skipped

/-! `ParseResults._asStringList()` (results.py:499-508), nested levels use no separator -/
mutual
def Tok.strs : Tok → List Char
  | .s v => v
  | .n v => (toString v).toList
  | .g xs => strsL xs
  | .nm _ _ _ xs => strsL xs
  | .hid _ => []
def strsL : List Tok → List Char
  | [] => []
  | t :: ts => t.strs ++ strsL ts
end

/-! the list view (`as_list()`): results-name annotations are transparent -/
mutual
def Tok.flat : Tok → List Tok
  | .s v => [.s v]
  | .n v => [.n v]
  | .g xs => [.g (flatL xs)]
  | .nm _ _ _ xs => flatL xs
  | .hid _ => []
def flatL : List Tok → List Tok
  | [] => []
  | t :: ts => t.flat ++ flatL ts
end

/-! the items of a result handed to an action (`list(t)`): top-level names are gone, nested groups keep theirs -/
mutual
def Tok.stripTop : Tok → List Tok
  | .nm _ _ _ xs => stripTopL xs
  | .hid _ => []
  | t => [t]
def stripTopL : List Tok → List Tok
  | [] => []
  | t :: ts => t.stripTop ++ stripTopL ts
end

mutual
/-- how many strings `_asStringList()` yields for an item (a nested result contributes one per leaf, maybe none) -/
def Tok.cnt : Tok → Nat
  | .s _ => 1
  | .n _ => 1
  | .g xs => cntL xs
  | .nm _ _ _ xs => cntL xs
  | .hid _ => 0
def cntL : List Tok → Nat
  | [] => 0
  | t :: ts => t.cnt + cntL ts
end

/-- the loop of `_asStringList(sep)` (results.py:501-510): `if out and sep: out.append(sep)` — the separator goes in
    front of an item only when something was emitted before (an empty nested result at the front emits nothing) -/
def combineGo (join : List Char) : Bool → List Tok → List Char
  | _, [] => []
  | started, t :: ts => (if started then join else []) ++ t.strs ++ combineGo join (started || t.cnt > 0) ts

/-- `"".join(tokenlist._asStringList(joinString))` (Combine.postParse 5872-5877) -/
def combineStr (join : List Char) (ts : List Tok) : List Char := combineGo join false ts

/-! ### parse actions (library shared with harness/actions.py) -/

/-- the model's stand-in for a plain Python `[]` where a ParseResults could stand as well (the no-match branch of a named
    list-`Opt`): an annotation with the EMPTY name, which `ParseResults.__init__` ignores (results.py:182) — invisible in
    every view -/
def plainNil : Tok := .nm [] true false []

def Tok.isGroup : Tok → Bool
  | .g _ => true
  | _ => false

/-- `ParseResults(tokens, name, asList, modal)` (core.py:867-869) for tokens that are a ParseResults: the same object,
    re-initialised (`[.nm …]` around its annotated tokens) — except that the plain `[]` of `Opt` is a null value
    (results.py:193: only `_name` / `_all_names` are set, nothing is bound) -/
def nameBind (n : List Char) (m al : Bool) : List Tok → List Tok
  | [.nm [] _ _ []] => [.nm n m false []]
  | ts => [.nm n m al ts]

/-- the same for a plain list `ts` of items (results.py:193-211): `[]` is a null value; with asList the name is bound to
    `ParseResults(toklist[0])` — the first element itself when it is a nested result, else a one-element result of it —
    otherwise to `toklist[0]` -/
def bindPlain (n : List Char) (m al : Bool) : List Tok → List Tok
  | [] => [.nm n m false []]
  | t :: rest => if al then .nm n m (!t.isGroup) [t] :: rest else [.nm n m false (t :: rest)]

/-- the action loop of _parseNoCache (864-904); `start` = tokens_start -/
def runActs : List Act → Nat → Nat → List Tok → Out
  | [], _, e, ts => .ok e ts
  | a :: as, start, e, ts =>
    match a with
    | .none => runActs as start e ts
    | .condTrue => runActs as start e ts
    | .const v => runActs as start e [.s v]
    | .drop => runActs as start e []
    | .rev => runActs as start e (stripTopL ts).reverse
    | .dup => runActs as start e (stripTopL ts ++ stripTopL ts)
    | .name n m al => runActs as start e (nameBind n m al ts)
    | .nameL n m al => runActs as start e (bindPlain n m al ts)
    | .app v => runActs as start e (ts ++ [.s v])
    | .failP => .fail .parse start
    | .failF => .fail .fatal start
    | .condFalse fatal => .fail (if fatal then .fatal else .parse) start

/-- does the token list carry annotations at this level (results names / hidden parts)? -/
def annotatedL (ts : List Tok) : Bool :=
  ts.any (fun t => match t with
    | .nm _ _ _ _ => true
    | .hid _ => true
    | _ => false)

mutual
/-- `haskeys()` of the result of `ts`: some results name got a value at this level (asList binds even an empty
    result, otherwise the first item is needed: results.py:199-213) -/
def hasKeysT : Tok → Bool
  | .nm n _ al ts => (!n.isEmpty && (al || !(stripTopL ts).isEmpty)) || hasKeysL ts
  | .hid ts => hasKeysL ts
  | _ => false
def hasKeysL : List Tok → Bool
  | [] => false
  | t :: ts => hasKeysT t || hasKeysL ts
end

/-- Combine.postParse (5897-5908) on a result that carries names: `retToks = tokenlist.copy(); del retToks[:];
    retToks += ParseResults([joined])` keeps the names on the joined token (`_asStringList(sep)` joins the ITEMS);
    `if self.resultsName and retToks.haskeys(): return [retToks]` — a nested result when the Combine itself is named -/
def combineKeep (nd : Node) (join : List Char) (ts : List Tok) : List Tok :=
  let r : List Tok := [.hid ts, .s (combineStr join (stripTopL ts))]
  if nd.hasName && hasKeysL ts then [.g r] else r

/-- postParse of the token converters (Group 5911, Suppress 6057, Combine 5872) -/
def postParse (nd : Node) (ts : List Tok) : List Tok :=
  match nd.kind with
  | .group _ => [.g ts]
  | .suppress _ => []
  | .combine _ join => if annotatedL ts then combineKeep nd join ts else [.s (combineStr join ts)]
  | _ => ts

/-- ParseElementEnhance.parseImpl (4703-4718): `pbe.loc = pbe.loc or loc` -/
def enhanceImpl (p : P) (acts : Bool) (e : Option Nat) (loc : Nat) : Out :=
  match e with
  | none => .fail .parse loc
  | some e =>
    match p e loc acts false with
    | .fail .syntax l => .fail .syntax l
    | .fail c l => .fail c (if l == 0 then loc else l)
    | o => o

/-- what a non-matching `Opt` returns (5394-5402): nothing, or the default value — bound to the results name of the
    optional *expression* when that has one (`tokens[self_expr.resultsName] = default_value`: one plain entry, the
    name's list-all flag is not consulted) -/
def optDefault (g : Grammar) (e : Nat) (dflt : Option (List Char)) : List Tok :=
  match dflt with
  | none => []
  | some v =>
    match g[e]? with
    | some n => (match n.acts with
      | .name nm _ _ :: _ => [.nm nm true false [.s v]]
      | .nameL nm _ _ :: _ => [.nm nm true false [.s v]]
      | _ => [.s v])
    | none => [.s v]

/-- the three results names `Located` binds (5066-5068) -/
def nmLocnStart : List Char := ['l', 'o', 'c', 'n', '_', 's', 't', 'a', 'r', 't']
def nmValue : List Char := ['v', 'a', 'l', 'u', 'e']
def nmLocnEnd : List Char := ['l', 'o', 'c', 'n', '_', 'e', 'n', 'd']

/-- the no-match branch of `Opt.parseImpl` returns a plain list (5394-5402): when that is `[]` and the Opt itself carries a
    list-valued results name, the difference to an empty ParseResults is observable (nothing is bound) — marked by `plainNil` -/
def optNoMatch (nd : Node) (ts : List Tok) : List Tok :=
  match ts, nd.acts with
  | [], .name _ _ true :: _ => [plainNil]
  | ts, _ => ts

/-- `parseImpl` dispatch -/
def parseImpl (g : Grammar) (p : P) (nd : Node) (s : List Char) (loc : Nat) (acts : Bool) : Out :=
  match nd.kind with
  | .lit m => litImpl m s loc
  | .lit1 c => lit1Impl c s loc
  | .empty => .ok loc []
  | .errorStop => .ok loc []
  | .noMatch => .fail .parse loc
  | .caselessLit mU ret => caselessLitImpl mU ret s loc
  | .keyword m ident cl => keywordImpl m ident cl s loc
  | .word init body mn mx maxSpec asKw viaRe =>
      if viaRe then wordReImpl init body mn mx asKw s loc else wordSlowImpl init body mn mx maxSpec asKw s loc
  | .charsNotIn notc mn mx => charsNotInImpl notc mn mx s loc
  | .stringStart =>
      -- StringStart.parseImpl (3759-3764)
      if loc == 0 then .ok loc [] else
      (match preParse p nd s 0 with
       | .at l => if loc != l then .fail .parse loc else .ok loc []
       | .abort o => o)
  | .stringEnd => stringEndImpl s loc
  | .lineStart _ _ => if LineCol.col loc s == 1 then .ok loc [] else .fail .parse loc   -- 3721-3724
  | .lineEnd => lineEndImpl s loc
  | .wordStart cs => wordStartImpl cs s loc
  | .wordEnd cs => wordEndImpl cs s loc
  | .and es =>
      andImpl p (fun i => match g[i]? with
        | some n => (match n.kind with
          | .errorStop => true
          | _ => false)
        | none => false) acts s.length es loc
  | .matchFirst es => mfGo p acts s.length loc es none
  | .or es => orImpl p g nd s acts es loc
  | .opt e dflt =>
      -- Opt.parseImpl (5368-5384)
      (match p e loc acts false with
       | .fail .parse _ => .ok loc (optNoMatch nd (optDefault g e dflt))
       | .idx => .ok loc (optNoMatch nd (optDefault g e dflt))
       | o => o)
  | .many e ne one =>
      if one then manyImpl p nd acts s.length e ne loc
      else
        -- ZeroOrMore.parseImpl (5235-5239)
        (match manyImpl p nd acts s.length e ne loc with
         | .fail .parse _ => .ok loc []
         | .idx => .ok loc []
         | o => o)
  | .notAny e =>
      -- NotAny.parseImpl (5093-5096)
      (match canParseNext p e loc acts with
       | none => .hang
       | some true => .fail .parse loc
       | some false => .ok loc [])
  | .followedBy e =>
      -- FollowedBy.parseImpl (4927-4933)
      -- `_, ret = self.expr._parse(..); del ret[:]`: no tokens, but the names bound by the lookahead stay
      (match p e loc acts true with
       | .ok _ ts => .ok loc (if annotatedL ts then [.hid ts] else [])
       | o => o)
  | .located e =>
      -- Located.parseImpl (5045-5056)
      (match p e loc acts false with
       | .ok l ts =>
          -- `ret_tokens["locn_start"] = start; ret_tokens["value"] = tokens; ret_tokens["locn_end"] = loc` (5066-5068);
          -- `value` is the inner result object itself (it keeps its own names)
          let r : List Tok := [.nm nmLocnStart true false [.n loc], .nm nmValue true false [.g ts],
                               .nm nmLocnEnd true false [.n l]]
          .ok l (if nd.hasName then [.g r] else r)
       | o => o)
  | .group e => enhanceImpl p acts (some e) loc
  | .suppress e => enhanceImpl p acts (some e) loc
  | .combine e _ => enhanceImpl p acts (some e) loc
  | .enhance e => enhanceImpl p acts (some e) loc
  | .forward e => enhanceImpl p acts e loc
  | .skipTo e incl failOn ignorer => skipToImpl p s acts e incl failOn ignorer loc

/-- ParserElement._parseNoCache (813-912), with the nested `_parse` calls going through `p` -/
def parseStep (g : Grammar) (s : List Char) (p : P) : P := fun id loc acts callPre =>
  match g[id]? with
  | none => .hang
  | some nd =>
    match (if callPre && nd.callPre then preParse p nd s loc else PreR.at loc) with
    | .abort o => o
    | .at pre =>
      let r := parseImpl g p nd s pre acts
      let r := match r with
        | .idx => if nd.mayIdx || pre ≥ s.length then Out.fail .parse s.length else .idx
        | r => r
      match r with
      | .ok e ts =>
        let ts := postParse nd ts
        if !nd.acts.isEmpty && (acts || nd.callDuringTry) then runActs nd.acts pre e ts else .ok e ts
      | o => o

/-- `expr._parse` with memoization off: `_parseNoCache` all the way down -/
def parse (g : Grammar) (s : List Char) : Nat → P
  | 0 => fun _ _ _ _ => .hang
  | f+1 => parseStep g s (parse g s f)

end PP.Parse
