import PPModel.Mod.Sugar
/-
  C12 — the object graph as a HEAP, and the in-place / copying methods of pyparsing as heap operations.

  The node table of the shared parse model (`Grammar = List Node`) is a table of VALUES: the `ignoreExprs` list of a
  node is part of the node.  In the real library `ignoreExprs` is a mutable list OBJECT that `ignore()` appends to in
  place (core.py 1840-1845), so whether two elements hold the same list object matters.  A `Heap` therefore keeps the
  lists in separate cells: `objs[i].cell` is the identity of the list object of element `i`, `cells[c]` its content;
  `Heap.resolve` reads the heap back as a node table (what the parser sees).

  Transcribed operations (statement by statement; the Python source is quoted):
    copyOp      ParserElement.copy 554-560, ParseExpression.copy 4031-4035, Forward.copy 5811-5817
    wsOp v      leave_whitespace (v=false) / ignore_whitespace (v=true): ParserElement 1780-1799,
                ParseExpression 3939-3962, ParseElementEnhance 4731-4747, Forward 5764-5770
    ignorePush  ignore(<a Suppress>): ParserElement.ignore 1836-1845, ParseExpression.ignore 3964-3974,
                ParseElementEnhance.ignore 4749-4755, Combine.ignore 5890-5895
  Not modelled (the operations return `none`): SkipTo.ignore (private `ignorer` object), copy of an unassigned Forward,
  Each.  The allocation `Suppress(other.copy())` at the top of `ignore(<not a Suppress>)` is a constructor
  (constructor-time flag propagation is read off the live objects, never re-modelled): the harness hands the model the
  heap that already contains that new Suppress object and the model pushes it along the graph.
-/
namespace PP.Heap
open PP.Parse

structure Obj where
  /-- attribute vector; `node.ignore` is NOT used, the list lives in `cells[cell]` -/
  node : Node
  /-- identity of the `ignoreExprs` list object -/
  cell : Nat
  /-- `copyDefaultWhiteChars` -/
  copyDflt : Bool
  /-- `Combine.adjacent` (false for every other class) -/
  adjacent : Bool
  deriving Repr, Inhabited, DecidableEq

structure Heap where
  objs : List Obj
  cells : List (List Nat)
  deriving Repr, Inhabited, DecidableEq

def ignoreOf (cells : List (List Nat)) (o : Obj) : List Nat := (cells[o.cell]?).getD []

/-- what the parser sees: every element with the current content of its list object -/
def resolveWith (cells : List (List Nat)) (objs : List Obj) : Grammar :=
  objs.map (fun o => { o.node with ignore := ignoreOf cells o })

def Heap.resolve (h : Heap) : Grammar := resolveWith h.cells h.objs

/-! ### classes, as far as the methods dispatch on them -/

inductive Cls where
  | token | expr | enhance | forward | combine | skipTo
  deriving Repr, DecidableEq

def clsOf : Kind → Cls
  | .and _ => .expr
  | .matchFirst _ => .expr
  | .or _ => .expr
  | .opt _ _ => .enhance
  | .many _ _ _ => .enhance
  | .notAny _ => .enhance
  | .followedBy _ => .enhance
  | .located _ => .enhance
  | .group _ => .enhance
  | .suppress _ => .enhance
  | .enhance _ => .enhance
  | .combine _ _ => .combine
  | .skipTo _ _ _ _ => .skipTo
  | .forward _ => .forward
  | _ => .token

/-- `recurse()`: `self.exprs` of a ParseExpression, `[self.expr]` of a ParseElementEnhance -/
def sub : Kind → List Nat
  | .and es => es
  | .matchFirst es => es
  | .or es => es
  | .opt e _ => [e]
  | .many e _ _ => [e]
  | .notAny e => [e]
  | .followedBy e => [e]
  | .located e => [e]
  | .group e => [e]
  | .suppress e => [e]
  | .enhance e => [e]
  | .combine e _ => [e]
  | .skipTo e _ _ _ => [e]
  | .forward e => e.toList
  | _ => []

/-- assignment to `self.exprs` / `self.expr` -/
def withSub : Kind → List Nat → Kind
  | .and _, ks => .and ks
  | .matchFirst _, ks => .matchFirst ks
  | .or _, ks => .or ks
  | .opt _ d, [k] => .opt k d
  | .many _ ne one, [k] => .many k ne one
  | .notAny _, [k] => .notAny k
  | .followedBy _, [k] => .followedBy k
  | .located _, [k] => .located k
  | .group _, [k] => .group k
  | .suppress _, [k] => .suppress k
  | .enhance _, [k] => .enhance k
  | .combine _ j, [k] => .combine k j
  | .skipTo _ i fo ig, [k] => .skipTo k i fo ig
  | .forward _, [k] => .forward (some k)
  | k, _ => k

/-! ### copy -/

/-- `ParserElement.copy` (554-560):
      cpy = copy.copy(self); cpy.parseAction = self.parseAction[:]; cpy.ignoreExprs = self.ignoreExprs[:]
      if self.copyDefaultWhiteChars: cpy.whiteChars = set(ParserElement.DEFAULT_WHITE_CHARS)
    the copy gets a NEW list object (cell) with the same content; `kind'` is the kind of the copy (its children) -/
def copyElem (dw : List Char) (h : Heap) (o : Obj) (kind' : Kind) : Heap × Nat :=
  let o' : Obj := { o with node := { o.node with kind := kind', white := if o.copyDflt then dw else o.node.white },
                           cell := h.cells.length }
  ({ objs := h.objs ++ [o'], cells := h.cells ++ [ignoreOf h.cells o] }, h.objs.length)

/-- `[e.copy() for e in exprs]` threading the heap -/
def copyList (rec : Heap → Nat → Option (Heap × Nat)) : Heap → List Nat → Option (Heap × List Nat)
  | h, [] => some (h, [])
  | h, e :: es =>
    match rec h e with
    | none => none
    | some (h1, k) =>
      match copyList rec h1 es with
      | none => none
      | some (h2, ks) => some (h2, k :: ks)

/-- `expr.copy()`.  ParseExpression.copy (4031-4035): `ret = super().copy(); ret.exprs = [e.copy() for e in self.exprs]`;
    every other class: `ParserElement.copy` (a SHALLOW copy: a copied Group/Opt/Forward/… shares its contained
    expression with the original); a Forward without expression (5811-5817) is outside the model. -/
def copyOp (dw : List Char) : Nat → Heap → Nat → Option (Heap × Nat)
  | 0, _, _ => none
  | f + 1, h, i =>
    match h.objs[i]? with
    | none => none
    | some o =>
      match clsOf o.node.kind with
      | .expr =>
        match copyList (copyOp dw f) h (sub o.node.kind) with
        | none => none
        | some (h1, ks) => some (copyElem dw h1 o (withSub o.node.kind ks))
      | .forward =>
        match o.node.kind with
        | .forward none => none
        | _ => some (copyElem dw h o o.node.kind)
      | _ => some (copyElem dw h o o.node.kind)

/-! ### leave_whitespace / ignore_whitespace -/

def setSkip (v : Bool) (o : Obj) : Obj := { o with node := { o.node with skipWs := v } }
def setSub (ks : List Nat) (o : Obj) : Obj := { o with node := { o.node with kind := withSub o.node.kind ks } }

/-- `for e in self.exprs: e.leave_whitespace(recursive)` -/
def wsList (rec : Heap → Nat → Option Heap) : Heap → List Nat → Option Heap
  | h, [] => some h
  | h, k :: ks =>
    match rec h k with
    | none => none
    | some h1 => wsList rec h1 ks

/-- `x.leave_whitespace()` (v = false) / `x.ignore_whitespace()` (v = true), recursive=True.
    ParserElement (1780-1799): `self.skipWhitespace = v`.  Forward (5764-5770): the same, nothing else.
    ParseExpression (3939-3962): `super()…; self.exprs = [e.copy() for e in self.exprs]; for e in self.exprs: e.…(recursive)`
    ParseElementEnhance (4731-4747): `super()…; self.expr = self.expr.copy(); self.expr.…(recursive)` -/
def wsOp (dw : List Char) (v : Bool) : Nat → Heap → Nat → Option Heap
  | 0, _, _ => none
  | f + 1, h, x =>
    match h.objs[x]? with
    | none => none
    | some o =>
      let h0 : Heap := { h with objs := h.objs.modify x (setSkip v) }
      match clsOf o.node.kind with
      | .token => some h0
      | .forward => some h0
      | _ =>
        match copyList (copyOp dw f) h0 (sub o.node.kind) with
        | none => none
        | some (h1, ks) =>
          wsList (wsOp dw v f) { h1 with objs := h1.objs.modify x (setSub ks) } ks

/-! ### ignore -/

/-- `self.ignoreExprs.append(other)`: in place, on the list OBJECT -/
def appendCell (cells : List (List Nat)) (c s : Nat) : List (List Nat) := cells.modify c (fun l => l ++ [s])

/-- `for e in self.exprs: e.ignore(self.ignoreExprs[-1])` -/
def pushList (rec : List (List Nat) → Nat → Option (List (List Nat))) :
    List (List Nat) → List Nat → Option (List (List Nat))
  | cells, [] => some cells
  | cells, k :: ks =>
    match rec cells k with
    | none => none
    | some c1 => pushList rec c1 ks

/-- `x.ignore(s)` for a Suppress object `s`; only list objects change, so the operation is a function on `cells`.
    ParserElement.ignore (1840-1843): `if other not in self.ignoreExprs: self.ignoreExprs.append(other)`
    ParseExpression.ignore (3965-3969): `if other not in self.ignoreExprs: super().ignore(other); for e in self.exprs: e.ignore(self.ignoreExprs[-1])`
    ParseElementEnhance.ignore (4750-4753): the same with `self.expr`;  Combine.ignore (5890-5895): ParserElement.ignore
    when `adjacent`.  (`in` is modelled by identity; the harness only ties histories in which no two distinct
    ignorables compare equal.) -/
def ignorePush (objs : List Obj) : Nat → List (List Nat) → Nat → Nat → Option (List (List Nat))
  | 0, _, _, _ => none
  | f + 1, cells, x, s =>
    match objs[x]? with
    | none => none
    | some o =>
      if (ignoreOf cells o).elem s then some cells
      else
        match clsOf o.node.kind with
        | .skipTo => none
        | .token => some (appendCell cells o.cell s)
        | .combine =>
          if o.adjacent then some (appendCell cells o.cell s)
          else pushList (fun c k => ignorePush objs f c k s) (appendCell cells o.cell s) (sub o.node.kind)
        | _ => pushList (fun c k => ignorePush objs f c k s) (appendCell cells o.cell s) (sub o.node.kind)

def Heap.ignore (h : Heap) (fuel x s : Nat) : Option Heap :=
  match ignorePush h.objs fuel h.cells x s with
  | none => none
  | some c => some { h with cells := c }

/-! ### the invariant: every element has its own list object -/

/-- every `cell` is allocated, and no two elements hold the same list object -/
def invCheck (h : Heap) : Bool :=
  h.objs.all (fun o => decide (o.cell < h.cells.length)) && decide ((h.objs.map (·.cell)).Nodup)

/-! ### comparing the model's result with the heap extracted from the live objects -/

/-- candidate renaming of the ids of `g1` onto ids of `g2`: old ids (`< n`) are fixed, new ones are paired by walking
    both graphs in parallel from the given pairs (unverified: `simCheck` decides) -/
def pairUp (g1 g2 : Grammar) (n : Nat) : Nat → List (Nat × Nat) → List (Nat × Nat) → List (Nat × Nat)
  | 0, _, acc => acc
  | _ + 1, [], acc => acc
  | f + 1, (i, j) :: todo, acc =>
    if i < n || (acc.lookup i).isSome then pairUp g1 g2 n f todo acc
    else
      match g1[i]?, g2[j]? with
      | some n1, some n2 => pairUp g1 g2 n f (n1.children.zip n2.children ++ todo) ((i, j) :: acc)
      | _, _ => pairUp g1 g2 n f todo ((i, j) :: acc)

/-- the old objects (ids `< n`) other than `changed` are identical (up to `str()` length): attributes, identity and
    content of the list object -/
def sameOld (a b : Heap) (n : Nat) (changed : List Nat) : Bool :=
  (List.range n).all (fun i =>
    match a.objs[i]?, b.objs[i]? with
    | some x, some y =>
      decide (x.cell = y.cell) && decide (x.copyDflt = y.copyDflt) && decide (x.adjacent = y.adjacent) &&
      decide (ignoreOf a.cells x = ignoreOf b.cells y) &&
      (changed.elem i || decide (x.node.eraseNL = y.node.eraseNL))
    | _, _ => false)

/-- model heap `m` vs the heap `r` extracted from the live objects after the real call; both extend a heap with `n`
    objects.  Old objects other than `changed` must be identical; the objects in `changed` and everything new must be
    similar (`simCheck`, new ids renamed by the pairing found from `changed`'s children and `seeds`).
    (The model keeps the intermediate copies that the real code drops - `e.copy()` of a child that is then copied
    again by its own `leave_whitespace` - as unreachable objects; the extraction only sees reachable ones.) -/
def heapMatch (m r : Heap) (n : Nat) (changed : List Nat) (seeds : List (Nat × Nat)) : Bool :=
  let gm := m.resolve
  let gr := r.resolve
  let seeds' := seeds ++ changed.flatMap (fun x =>
    match gm[x]?, gr[x]? with
    | some a, some b => a.children.zip b.children
    | _, _ => [])
  let newPairs := pairUp gm gr n (4 * (gm.length + gr.length) + 8) seeds' []
  let pairs := newPairs ++ (List.range n).map (fun i => (i, i))
  -- what the model allocates is allocated by the real call too: new elements correspond to NEW, distinct elements
  sameOld m r n changed && newPairs.all (fun (p : Nat × Nat) => decide (n ≤ p.2)) && decide ((newPairs.map (fun (p : Nat × Nat) => p.2)).Nodup) &&
  simCheck gm gr pairs

end PP.Heap
