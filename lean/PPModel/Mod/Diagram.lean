/-
  Model of pyparsing/diagram/__init__.py: `to_railroad`, `_to_diagram_element`, `ConverterState`,
  `ElementState.mark_for_extraction`, `ConverterState.extract_into_diagram`, `resolve_partial`.

  * A grammar is a node table (`List Node`, index = element identity, standing for Python `id(element)`);
    a node carries exactly the facts the converter reads from an element: the classes of interest in its
    MRO (for the `isinstance` chain), `type(element).__name__`, `recurse()` (child ids), `customName`,
    `resultsName`/`modalResults`, `show_in_diagram`, `defaultName`, the Terminal text.
  * The converter builds a *mutable* tree of `EditablePartial`s and patches parents in place
    (`position.parent.kwargs["items"][position.parent_index] = ret`), so the partials live in a heap
    (`List PNode`, a reference is an index) and `resolve` turns the heap into trees at the end.
  * `_make_bookmark(name)` is injective in `name` (a fresh counter value is appended for every new
    name), so a link target / bookmark is represented by the diagram name itself.
  * NOT modelled: the `OneOrMore/ZeroOrMore(..., stop_on=...)` rewriting (diagram/__init__.py:642-673,
    it builds fresh pyparsing elements during conversion) - such grammars are never sent to the model;
    the rendering by the railroad package and the jinja2 template.
  Recursion is on `fuel`; `none` = the fuel ran out = the real code exceeds any recursion limit.
-/
namespace PP.Diagram

/-- classes the converter tests with `isinstance` -/
inductive Cls where
  | and_ | or_ | matchFirst | each | notAny | followedBy | precededBy | group | tokenConverter
  | opt | oneOrMore | zeroOrMore | empty | enhance | regex | forward | located | positionToken
  | errorStop
  deriving DecidableEq, Repr, Inhabited

structure Node where
  cls : List Cls            -- classes of interest in `type(element).__mro__`
  tname : String            -- `type(element).__name__`
  kids : List Nat           -- `element.recurse()`
  custom : Option String    -- `element.customName`
  rname : Option String     -- `element.resultsName`
  modal : Bool              -- `element.modalResults`
  shown : Bool              -- `element.show_in_diagram`
  dname : String            -- `element.defaultName`
  term : String             -- Terminal text (collapsed pattern for a Regex, else defaultName)
  deriving Repr, Inhabited

abbrev Grammar := List Node

structure Opts where
  vertical : Option Nat     -- `vertical` (None = never vertical)
  showNames : Bool
  showGroups : Bool
  showHidden : Bool
  deriving Repr, Inhabited

/-- Python truthiness of an optional string (`None` and `""` are falsy) -/
def truthy : Option String → Bool
  | some s => s != ""
  | none => false

/-- `a or b` on optional strings -/
def orS (a b : Option String) : Option String := if truthy a then a else b

def Node.isA (n : Node) (c : Cls) : Bool := n.cls.contains c

def kidsOf (g : Grammar) (el : Nat) : List Nat :=
  match g[el]? with
  | some n => n.kids
  | none => []

/-- `_worth_extracting`: `any(child.recurse() for child in element.recurse())` (:435-441) -/
def worth (g : Grammar) (el : Nat) : Bool :=
  (kidsOf g el).any (fun c => !(kidsOf g c).isEmpty)

/-! ### the heap of EditablePartials -/

inductive Func where
  | sequence | stack | choice | hchoice | each | annotated | group | optional | oneOrMore
  | zeroOrMore | terminal | nonTerminal | diagram
  deriving DecidableEq, Repr, Inhabited

/-- the value in an item position: `None`, `""`, or a reference to another partial -/
inductive Slot where
  | none | empty | ref (r : Nat)
  deriving DecidableEq, Repr, Inhabited

/-- which of the keyword arguments `item` / `items` the partial has -/
inductive Kw where
  | leaf | item (s : Slot) | items (l : List Slot)
  deriving Repr, Inhabited

structure PNode where
  func : Func
  label : Option String := none   -- Group/AnnotatedItem label, OneOrMore repeat
  text : String := ""             -- Terminal / NonTerminal text (NonTerminal: also the link target)
  kw : Kw := .leaf
  deriving Repr, Inhabited

structure EState where
  converted : Nat
  parent : Option Nat
  parentIndex : Nat
  number : Nat
  name : Option String := none
  extract : Bool := false
  complete : Bool := false
  deriving Repr, Inhabited

structure DEntry where
  name : Option String
  content : Slot
  index : Nat
  deriving Repr, Inhabited

structure St where
  heap : List PNode := []
  lookup : List (Nat × EState) := []     -- `_element_diagram_states`
  diagrams : List (Nat × DEntry) := []   -- `diagrams` (dict: insertion order, overwrite in place)
  index : Nat := 0
  deriving Repr, Inhabited

def aget {α} (l : List (Nat × α)) (k : Nat) : Option α :=
  match l with
  | [] => none
  | (k', v) :: rest => if k' = k then some v else aget rest k

/-- dict assignment: overwrite in place, else append -/
def aset {α} (l : List (Nat × α)) (k : Nat) (v : α) : List (Nat × α) :=
  match l with
  | [] => [(k, v)]
  | (k', v') :: rest => if k' = k then (k, v) :: rest else (k', v') :: aset rest k v

def adel {α} (l : List (Nat × α)) (k : Nat) : List (Nat × α) :=
  match l with
  | [] => []
  | (k', v) :: rest => if k' = k then adel rest k else (k', v) :: adel rest k

def St.alloc (s : St) (n : PNode) : Nat × St :=
  (s.heap.length, { s with heap := s.heap ++ [n] })

def St.node (s : St) (r : Nat) : PNode := s.heap.getD r { func := .terminal }

def St.setKw (s : St) (r : Nat) (kw : Kw) : St :=
  { s with heap := s.heap.modify r (fun n => { n with kw := kw }) }

/-- `parent.kwargs["item"] = v` / `parent.kwargs["items"][i] = v` (:412-415, :724-728) -/
def St.putChild (s : St) (parent i : Nat) (v : Slot) : St :=
  match (s.node parent).kw with
  | .item _ => s.setKw parent (.item v)
  | .items l => s.setKw parent (.items (l.set i v))
  | .leaf => s

def insertAt (l : List Slot) (i : Nat) (v : Slot) : List Slot := l.take i ++ v :: l.drop i

def newNT (s : St) (text : String) : Nat × St :=
  s.alloc { func := .nonTerminal, text := text }

/-- `ConverterState.extract_into_diagram` (:400-432) -/
def extractIntoDiagram (s : St) (el : Nat) : St :=
  match aget s.lookup el with
  | none => s
  | some pos =>
    let nm := pos.name.getD ""
    let s1 := match pos.parent with
      | some p =>
        let (r, s') := newNT s nm
        s'.putChild p pos.parentIndex (.ref r)
      | none => s
    let conv := s1.node pos.converted
    let content : Slot :=
      if conv.func = .group then
        match conv.kw with
        | .item v => v
        | _ => .ref pos.converted
      else .ref pos.converted
    { s1 with
      diagrams := aset s1.diagrams el { name := pos.name, content := content, index := pos.number }
      lookup := adel s1.lookup el }

/-- `ElementState.mark_for_extraction` (:320-347) -/
def markForExtraction (g : Grammar) (s : St) (el : Nat) (name : Option String) (force : Bool) : St :=
  match aget s.lookup el with
  | none => s
  | some st =>
    let custom := (g[el]?).bind (·.custom)
    let nm : Option String :=
      if truthy st.name then st.name
      else if truthy name then name
      else if truthy custom then custom
      else some ""
    let st' := { st with extract := true, name := nm }
    let s1 := { s with lookup := aset s.lookup el st' }
    if force || (st'.complete && worth g el) then extractIntoDiagram s1 el else s1

/-- `len(_visible_exprs(exprs))` (:491-501) -/
def visibleCount (g : Grammar) (kids : List Nat) : Nat :=
  (kids.filter (fun k =>
    match g[k]? with
    | some n => !(n.isA .enhance || n.isA .positionToken || n.isA .errorStop)
    | none => true)).length

def shouldVertical (g : Grammar) (o : Opts) (kids : List Nat) : Bool :=
  match o.vertical with
  | none => false
  | some v => decide (visibleCount g kids ≥ v)

/-- `e.name` = customName if not None else default name -/
def Node.name (n : Node) : String := n.custom.getD n.dname

/-- `len(set((e.name, e.resultsName) for e in exprs)) == 1` -/
def allSame (g : Grammar) (kids : List Nat) : Bool :=
  match kids with
  | [] => false
  | k :: rest =>
    let key (i : Nat) : String × Option String :=
      match g[i]? with
      | some n => (n.name, n.rname)
      | none => ("", none)
    rest.all (fun j => key j == key k)

def lower (s : String) : String := s.map Char.toLower

/-- the `isinstance` chain (:596-689): the partial created for the element, or none (`ret = None`) -/
def dispatch (g : Grammar) (o : Opts) (n : Node) (name : String) : Option PNode :=
  if n.isA .and_ then
    if n.kids.isEmpty then none
    else if allSame g n.kids && n.kids.length > 2 then
      some { func := .oneOrMore, kw := .item .empty, label := some (toString n.kids.length) }
    else if shouldVertical g o n.kids then some { func := .stack, kw := .items [] }
    else some { func := .sequence, kw := .items [] }
  else if n.isA .or_ || n.isA .matchFirst then
    if n.kids.isEmpty then none
    else if shouldVertical g o n.kids then some { func := .choice, kw := .items [] }
    else some { func := .hchoice, kw := .items [] }
  else if n.isA .each then
    if n.kids.isEmpty then none else some { func := .each, kw := .items [] }
  else if n.isA .notAny then some { func := .annotated, label := some "NOT", kw := .item .empty }
  else if n.isA .followedBy then some { func := .annotated, label := some "LOOKAHEAD", kw := .item .empty }
  else if n.isA .precededBy then some { func := .annotated, label := some "LOOKBEHIND", kw := .item .empty }
  else if n.isA .group then
    if o.showGroups then some { func := .annotated, label := some "", kw := .item .empty }
    else some { func := .group, label := n.rname, kw := .item .none }
  else if n.isA .tokenConverter then
    let label := lower n.tname
    if label == "tokenconverter" then some { func := .sequence, kw := .items [] }
    else some { func := .annotated, label := some label, kw := .item .empty }
  else if n.isA .opt then some { func := .optional, kw := .item .empty }
  else if n.isA .oneOrMore then some { func := .oneOrMore, kw := .item .none }
  else if n.isA .zeroOrMore then some { func := .zeroOrMore, kw := .item .empty }
  else if n.isA .empty && !truthy n.custom then none
  else if n.isA .enhance then some { func := .sequence, kw := .items [] }
  else if !n.kids.isEmpty && !truthy n.rname then
    some { func := .group, label := some name, kw := .item .empty }
  else if n.isA .regex then some { func := .terminal, text := n.term }
  else if !n.kids.isEmpty then some { func := .sequence, kw := .items [] }
  else some { func := .terminal, text := n.dname }

/-- result of the non-recursive first part of `_to_diagram_element` -/
inductive Pre where
  | ret (r : Option Nat) (s : St)            -- return without visiting children
  | pass (child : Nat) (hint : Option String) -- unnamed Forward/Located: convert `element.expr` instead
  | loop (ret : Nat) (s : St)                -- registered; children are visited next

/-- `name = name_hint or element.customName or type(element).__name__` (:531) -/
def nameOf (n : Node) (hint : Option String) : String :=
  ((orS hint (orS n.custom (some n.tname))).getD n.tname)

/-- outcome of the repeat detection (:568-585) -/
inductive Seen where
  | named (st : EState)      -- `looked_up and looked_up.name is not None`
  | inDiagram (d : DEntry)   -- `el_id in lookup.diagrams`
  | fresh

def seenOf (g : Grammar) (s : St) (el : Nat) : Seen :=
  if worth g el then
    match aget s.lookup el with
    | some st =>
      if st.name.isSome then .named st
      else (match aget s.diagrams el with
        | some d => .inDiagram d
        | none => .fresh)
    | none =>
      match aget s.diagrams el with
      | some d => .inDiagram d
      | none => .fresh
  else .fresh

/-- :695-703 create the ElementState; named elements are marked for extraction at once -/
def register (g : Grammar) (s : St) (el : Nat) (n : Node) (parent : Option Nat) (index : Nat)
    (pn : PNode) : Nat × St :=
  let (r, s1) := s.alloc pn
  let num := s1.index + 1
  let es : EState := { converted := r, parent := parent, parentIndex := index, number := num }
  let s2 := { s1 with index := num, lookup := aset s1.lookup el es }
  (r, if truthy n.custom then markForExtraction g s2 el n.custom false else s2)

/-- :587-703 first sighting (or an unnamed element seen again) -/
def preFresh (g : Grammar) (o : Opts) (el : Nat) (n : Node) (parent : Option Nat) (index : Nat)
    (hint : Option String) (s : St) : Pre :=
  -- :593 hidden elements
  if !n.shown && !o.showHidden then .ret none s
  else
    match dispatch g o n (nameOf n hint) with
    | none => .ret none s
    | some pn =>
      let (r, s') := register g s el n parent index pn
      .loop r s'

/-- is the element bypassed (:539-565 unnamed Forward / Located with an expression) -/
def isPass (n : Node) : Bool :=
  !truthy n.custom && (n.isA .forward || n.isA .located) && !n.kids.isEmpty

/-- `_to_diagram_element` up to the loop over the children (:530-703) -/
def pre (g : Grammar) (o : Opts) (el : Nat) (n : Node) (parent : Option Nat) (index : Nat)
    (hint : Option String) (s : St) : Pre :=
  if isPass n then
    let c := n.kids.headD 0
    let childCustom := (g[c]?).bind (·.custom)
    .pass c (if !truthy childCustom then some (nameOf n hint) else none)
  else
    match seenOf g s el with
    | .named st =>
      let s1 := markForExtraction g s el hint false
      -- `looked_up.name` is read after the call (the ElementState object is the same one)
      let nm := if truthy st.name then st.name.getD "" else
            (if truthy hint then hint.getD "" else if truthy n.custom then n.custom.getD "" else "")
      let (r, s2) := newNT s1 nm
      .ret (some r) s2
    | .inDiagram d =>
      let (r, s2) := newNT s (d.name.getD "")
      .ret (some r) s2
    | .fresh => preFresh g o el n parent index hint s

/-- :707-709 `ret.kwargs["items"].insert(i, None)` -/
def addPlaceholder (s : St) (ret i : Nat) : St :=
  match (s.node ret).kw with
  | .items l => s.setKw ret (.items (insertAt l i .none))
  | _ => s

/-- one iteration of the loop over `exprs` (:706-732), given the converter for a child -/
def stepKid (rec : Nat → Option Nat → Nat → Option String → St → Option (Option Nat × St))
    (ret : Nat) (c : Nat) (i : Nat) (s : St) : Option (Nat × St) :=
  match rec c (some ret) i none (addPlaceholder s ret i) with
  | none => none
  | some (item, s2) =>
    match item, (s2.node ret).kw with
    | some r, .item _ => some (i, s2.setKw ret (.item (.ref r)))
    | some r, .items l => some (i + 1, s2.setKw ret (.items (l.set i (.ref r))))
    | some _, .leaf => some (i, s2)
    | none, .items l => some (i, s2.setKw ret (.items (l.eraseIdx i)))
    | none, _ => some (i, s2)

def loopKids (rec : Nat → Option Nat → Nat → Option String → St → Option (Option Nat × St))
    (ret : Nat) : List Nat → Nat → St → Option St
  | [], _, s => some s
  | c :: cs, i, s =>
    match stepKid rec ret c i s with
    | none => none
    | some (i', s') => loopKids rec ret cs i' s'

/-- :735-738 are all the children of this item none? -/
def unfilled (s : St) (ret : Nat) : Bool :=
  match (s.node ret).kw with
  | .items l => l.isEmpty
  | .item .none => true
  | _ => false

/-- :734-739 an item without children becomes `Terminal(name)` -/
def post1 (n : Node) (hint : Option String) (ret : Nat) (s : St) : Nat × St :=
  if unfilled s ret then s.alloc { func := .terminal, text := nameOf n hint } else (ret, s)

/-- :742-743 -/
def setComplete (s : St) (el : Nat) : St :=
  match aget s.lookup el with
  | some st => { s with lookup := aset s.lookup el { st with complete := true } }
  | none => s

/-- after the loop (:734-754) -/
def post (el : Nat) (n : Node) (hint : Option String) (ret : Nat) (s : St) : Option Nat × St :=
  let p1 := post1 n hint ret s
  let s2 := setComplete p1.2 el
  match aget s2.lookup el with
  | some st =>
    if st.extract && st.complete then
      let s3 := extractIntoDiagram s2 el
      let text := match aget s3.diagrams el with
        | some d => d.name.getD ""
        | none => ""
      let (r, s4) := newNT s3 text
      (some r, s4)
    else (some p1.1, s2)
  | none => (some p1.1, s2)

/-- the decorator `_apply_diagram_item_enhancements` (:444-488) -/
def annotate (o : Opts) (n : Node) (r : Option Nat) (s : St) : Option Nat × St :=
  match r with
  | none => (none, s)
  | some ref =>
    if o.showNames && truthy n.rname then
      let label := "'" ++ n.rname.getD "" ++ "'" ++ (if n.modal then "" else "*")
      let (r', s') := s.alloc { func := .group, kw := .item (.ref ref), label := some label }
      (some r', s')
    else (some ref, s)

/-- body of `_to_diagram_element` for an existing element, given the converter for the recursive calls -/
def convBody (g : Grammar) (o : Opts)
    (rec : Nat → Option Nat → Nat → Option String → St → Option (Option Nat × St))
    (el : Nat) (n : Node) (parent : Option Nat) (index : Nat) (hint : Option String) (s : St) :
    Option (Option Nat × St) :=
  match pre g o el n parent index hint s with
  | .ret r s' => some (r, s')
  | .pass c h => rec c parent index h s
  | .loop ret s' =>
    match loopKids rec ret n.kids 0 s' with
    | none => none
    | some s'' => some (post el n hint ret s'')

/-- `_to_diagram_element` (:504-754) with its decorator; `none` = out of fuel -/
def conv (g : Grammar) (o : Opts) : Nat → Nat → Option Nat → Nat → Option String → St →
    Option (Option Nat × St)
  | 0, _, _, _, _, _ => none
  | f + 1, el, parent, index, hint, s =>
    match g[el]? with
    | none => some (none, s)
    | some n =>
      match convBody g o (conv g o f) el n parent index hint s with
      | none => none
      | some (r, s') => some (annotate o n r s')

/-! ### resolve_partial and to_railroad -/

/-- a resolved railroad item (what the stand-in package records) -/
inductive Tree where
  | rawNone | rawEmpty
  | node (func : Func) (label : Option String) (text : String) (kids : List Tree)
  deriving Repr, Inhabited

def resolve (heap : List PNode) : Nat → Slot → Tree
  | _, .none => .rawNone
  | _, .empty => .rawEmpty
  | 0, .ref _ => .rawNone
  | f + 1, .ref r =>
    match heap[r]? with
    | none => .rawNone
    | some n =>
      match n.kw with
      | .leaf => .node n.func n.label n.text []
      | .item v => .node n.func n.label n.text [resolve heap f v]
      | .items l => .node n.func n.label n.text (l.map (resolve heap f))

structure Named where
  name : Option String
  index : Nat
  tree : Tree
  deriving Repr, Inhabited

/-- de-duplication loop of `to_railroad` (:267-277) -/
def dedupe : List DEntry → List (Option String) → List DEntry
  | [], _ => []
  | d :: ds, seen =>
    if d.name == some "..." then dedupe ds seen
    else if d.name.isSome && !seen.contains d.name then d :: dedupe ds (d.name :: seen)
    else dedupe ds seen

def insertByIndex (d : Named) : List Named → List Named
  | [] => [d]
  | x :: xs => if d.index < x.index then d :: x :: xs else x :: insertByIndex d xs

/-- `sorted(resolved, key=index)` (stable) -/
def sortByIndex : List Named → List Named
  | [] => []
  | d :: ds => insertByIndex d (sortByIndex ds)

/-- state after the conversion and the forced extraction of the root (:246-262) -/
def convertRoot (g : Grammar) (o : Opts) (fuel root : Nat) : Option St :=
  match conv g o fuel root none 0 none {} with
  | none => none
  | some (_, s) =>
    match aget s.lookup root with
    | some st =>
      let custom := (g[root]?).bind (·.custom)
      let s1 := if !truthy custom then { s with lookup := aset s.lookup root { st with name := some "" } } else s
      some (markForExtraction g s1 root none true)
    | none => some s

/-- the diagram entries that `to_railroad` keeps (:265-281) -/
def selected (s : St) : List DEntry :=
  let diags := s.diagrams.map (·.2)
  if diags.length > 1 then dedupe diags [] else diags

/-- the tree of a kept entry: `Diagram(content)` -/
def entryTree (s : St) (d : DEntry) : Named :=
  { name := d.name, index := d.index,
    tree := .node .diagram none "" [resolve s.heap (s.heap.length + 1) d.content] }

/-- `to_railroad` (:223-282); `none` = RecursionError (out of fuel for every fuel) -/
def toRailroad (g : Grammar) (o : Opts) (fuel root : Nat) : Option (List Named) :=
  match convertRoot g o fuel root with
  | none => none
  | some s => some (sortByIndex ((selected s).map (entryTree s)))

/-! ### the hypothesis of the termination theorem, executable -/

def customOf (g : Grammar) (u : Nat) : Option String := (g[u]?).bind (·.custom)

/-- an element at which a second visit stops: custom-named and worth extracting -/
def cut (g : Grammar) (u : Nat) : Bool := truthy (customOf g u) && worth g u

/-- every edge into an element that is not a cut decreases `rank` -/
def rankedB (g : Grammar) (rank : Nat → Nat) : Bool :=
  (List.range g.length).all (fun u => (kidsOf g u).all (fun c => cut g c || decide (rank c < rank u)))

/-- recursion depth that `terminates_partial` proves sufficient -/
def fuelBound (g : Grammar) (R : Nat) : Nat := g.length * (R + 3) + R + 2

/-! ### observables of the output (what the statement of C20 speaks about) -/

mutual
/-- does the tree contain a `None` / `""` where an item should be -/
def Tree.hasRaw : Tree → Bool
  | .rawNone => true
  | .rawEmpty => true
  | .node _ _ _ ks => Tree.hasRawL ks
def Tree.hasRawL : List Tree → Bool
  | [] => false
  | t :: ts => t.hasRaw || Tree.hasRawL ts
end

mutual
/-- link targets (NonTerminal hrefs, represented by the name they are the bookmark of) -/
def Tree.links : Tree → List String
  | .rawNone => []
  | .rawEmpty => []
  | .node f _ text ks => (if f = .nonTerminal then [text] else []) ++ Tree.linksL ks
def Tree.linksL : List Tree → List String
  | [] => []
  | t :: ts => t.links ++ Tree.linksL ts
end

mutual
/-- Terminal texts -/
def Tree.terminals : Tree → List String
  | .rawNone => []
  | .rawEmpty => []
  | .node f _ text ks => (if f = .terminal then [text] else []) ++ Tree.terminalsL ks
def Tree.terminalsL : List Tree → List String
  | [] => []
  | t :: ts => t.terminals ++ Tree.terminalsL ts
end

def names (ds : List Named) : List (Option String) := ds.map (·.name)

/-- every link of every diagram points to the bookmark of a diagram of the same output -/
def linksResolve (ds : List Named) : Bool :=
  ds.all (fun d => d.tree.links.all (fun t => (names ds).contains (some t)))

def noEmptyPlaceholder (ds : List Named) : Bool := ds.all (fun d => !d.tree.hasRaw)

end PP.Diagram
