import PPModel.Mod.Parse
import PPModel.Mod.PR
import PPModel.Mod.PRSpec
/-
  C05 — results names.

  The shared parse model (PPModel/Mod/Parse.lean) returns an *annotated token tree*: `Tok.nm name modal asList ts` says
  "the tokens `ts` were produced by an element carrying results name `name`", `Tok.g ts` is the sub-result of a Group,
  `Tok.hid ts` are tokens deleted from the list whose names stay (FollowedBy, the parts of a Combine).
  This file gives that tree its meaning, twice:

  (i)  `resultOf` — the OPERATIONAL reading: replay what the real code does to build the `ParseResults` object, with the
       value model of the container from PPModel/Mod/PR.lean (`PR.iadd` = `ParseResults.__iadd__`, results.py:454-476:
       offsets, `addoffset`, the `if not other` early return, `_all_names |=`; `PR.reinit` = `ParseResults(existing, name,
       asList, modal)`, results.py:153-213: `__new__` returns the same object, `__init__` re-binds on it).
       A nested result (Group item, or the fresh `ParseResults(toklist._toklist)` that an asList binding stores) is
       represented by the token `Tok.g ts'` of its own annotated tokens: its names are read off by `resultOf ts'` when a
       lookup descends into it — exactly the names that object carries in the real code.
  (ii) the lookups of results.py on that object: `getItem` (`__getitem__` 215-222), `get` (367-370), `getAttr` (441-447),
       `keys` (278), `asDict` (546-573), and the canonical nested view the harness compares.
  (iii) `specLookup` / `specKeys` / `specDict` — the DECLARATIVE reading, which mentions neither offsets nor merging:
       the bindings of a name at one group level in binding order, last-vs-all.

  PPProofs/Props/C05.lean proves (i)+(ii) = (iii) for all annotated trees.
-/
namespace PP.Names
open PP.Parse PP.PR PP.PyDict

/-- the `ParseResults` value: items and named values are tokens (`.s`, `.n`, or `.g ts` = a nested result) -/
abbrev NPR := PR Tok

/-- a results name as dictionary key -/
def key (n : List Char) : String := String.ofList n

/-- `ParseResults([item])` / what a leaf's tokens look like as a result: one item, no names -/
def single (t : Tok) : NPR := { toks := [t], dict := [], all := [] }

/-! ### (i) the operational reading -/

/-- `del ret[:]` (results.py:239-261 with `i = slice(None)`: every item removed, the positions in the name table fixed
    up, the name table and `_all_names` kept) — FollowedBy.parseImpl, Combine.postParse -/
def hide (r : NPR) : NPR :=
  { r with toks := [], dict := fixDel ((PyList.rangeList 0 r.toks.length 1).reverse) r.dict }

mutual
/-- the result object contributed by one element of the annotated list -/
def tokRes : Tok → NPR
  | .s v => single (.s v)
  | .n v => single (.n v)
  -- Group.postParse (core.py:5911-5919) `[tokenlist]`: ONE item, the sub-result; its names stay inside
  | .g ts => single (.g ts)
  -- `ParseResults(tokens, self.resultsName, asList=self.saveAsList, modal=self.modalResults)` (core.py:867-869) on the
  -- result object of `ts` itself (results.py:154-155), then `__init__` 176-213:
  --   190-191 `if not modal: self._all_names.add(name)`
  --   199-201 asList: `self[name] = _ParseResultsWithOffset(ParseResults(toklist._toklist), 0)` — a fresh result of the
  --           item list, WITHOUT the names of this level (nested results are shared, they keep theirs)
  --   207-213 else `self[name] = toklist[0]`; on IndexError (`toklist is self`, empty) nothing is bound
  | .nm n m al ts => reinit Tok.g (resGo emptyPR ts) (some (key n)) al m
  -- the result of `ts` with its items deleted: the names stay (Combine additionally works on `tokenlist.copy()`, which
  -- is the same value, results.py:575-587)
  | .hid ts => hide (resGo emptyPR ts)
/-- `acc += r₁; acc += r₂; …` (And.parseImpl core.py:4190-4215 `resultlist += exprtokens`, _MultipleMatch 5160
    `tokens += tmptokens`) -/
def resGo (acc : NPR) : List Tok → NPR
  | [] => acc
  | t :: ts => resGo (iadd acc (tokRes t)) ts
end

/-- the `ParseResults` object the real code builds for the annotated token list `ts` -/
def resultOf (ts : List Tok) : NPR := resGo emptyPR ts

/-! ### (ii) the lookups -/

/-- `r[name]` (results.py:215-222) -/
def getItem (r : NPR) (k : String) : Except Err (View Tok) := getName r k

/-- `r.get(name)` (results.py:367-370) -/
def get (r : NPR) (k : String) : Out Tok := (step r (.get k none)).2

/-- `r.name` (results.py:441-447) -/
def getAttr (r : NPR) (k : String) : Out Tok := (step r (.getAttr k)).2

/-- `list(r.keys())` (results.py:278-279) -/
def keys (r : NPR) : List String := dkeys r.dict

/-- rendered values: what `as_dict()` / the canonical view are made of -/
inductive Val where
  | s (v : List Char)
  | n (v : Nat)
  | list (xs : List Val)
  | dict (kvs : List (String × Val))
  /-- canonical view of a result: its items, and for every key what `r[key]` is -/
  | view (items : List Val) (names : List (String × Val))
  /-- recursion budget exhausted / a lookup of an existing key failed (never produced for well-formed input) -/
  | bad
  deriving Repr, Inhabited

mutual
/-- size of an annotated tree: an upper bound for the nesting depth of every result reachable from it -/
def tokSizeT : Tok → Nat
  | .s _ => 1
  | .n _ => 1
  | .g xs => 1 + tokSizeL xs
  | .nm _ _ _ xs => 1 + tokSizeL xs
  | .hid xs => 1 + tokSizeL xs
def tokSizeL : List Tok → Nat
  | [] => 0
  | t :: ts => tokSizeT t + tokSizeL ts
end

/-- `to_item(obj)` of `as_dict` (results.py:567-571) on a token standing for a value; `as_dict()` itself is the `.dict`
    branch: `dict((k, to_item(v)) for k, v in self.items())` with `items()` = `(k, self[k])` (284-285), and `self[k]` of a
    list-all name is `ParseResults([v, …])` — no keys, hence a list. -/
def toItemF : Nat → Tok → Val
  | _, .s v => .s v
  | _, .n v => .n v
  | 0, _ => .bad
  | f+1, .g ts =>
    let r := resultOf ts
    if r.dict.isEmpty then .list (r.toks.map (toItemF f))           -- `[to_item(v) for v in obj]`
    else .dict ((keys r).map (fun k => (k, match getItem r k with   -- `obj.as_dict()`
      | .ok (.one v) => toItemF f v
      | .ok (.many vs) => .list (vs.map (toItemF f))
      | .error _ => .bad)))
  | _, .nm _ _ _ _ => .bad      -- never an item: `resultOf` stores items with the annotations stripped
  | _, .hid _ => .bad

/-- `r.as_dict()` for the result of `ts` (results.py:546-573) -/
def asDictF (f : Nat) (ts : List Tok) : List (String × Val) :=
  let r := resultOf ts
  (keys r).map (fun k => (k, match getItem r k with
    | .ok (.one v) => toItemF f v
    | .ok (.many vs) => .list (vs.map (toItemF f))
    | .error _ => .bad))

/-- the canonical nested view of an item/value: strings and ints as they are, a nested result as
    `view(items, [(key, view of r[key])])` -/
def viewItemF : Nat → Tok → Val
  | _, .s v => .s v
  | _, .n v => .n v
  | 0, _ => .bad
  | f+1, .g ts =>
    let r := resultOf ts
    .view (r.toks.map (viewItemF f)) ((keys r).map (fun k => (k, match getItem r k with
      | .ok (.one v) => viewItemF f v
      | .ok (.many vs) => .view (vs.map (viewItemF f)) []     -- `ParseResults([v, …])`: items, no names
      | .error _ => .bad)))
  | _, .nm _ _ _ _ => .bad
  | _, .hid _ => .bad

/-- enough budget for every nesting level of `ts` -/
def fuelFor (ts : List Tok) : Nat := tokSizeL ts + 2

/-! ### (iii) the declarative reading -/

/-- one binding event: an element named `name` matched and produced the (annotated) tokens `ts` -/
structure Bind where
  name : String
  modal : Bool
  asList : Bool
  ts : List Tok

mutual
/-- the bindings at THIS group level in binding order: an inner binding happens before the enclosing one (the inner
    element returns first); names inside a Group belong to the group's own result — no descent into `.g` -/
def bindsT : Tok → List Bind
  | .s _ => []
  | .n _ => []
  | .g _ => []
  | .nm n m al ts => bindsL ts ++ [⟨key n, m, al, ts⟩]
  -- hidden tokens (FollowedBy, the parts of a Combine): gone from the list, their bindings count at this level
  | .hid ts => bindsL ts
def bindsL : List Tok → List Bind
  | [] => []
  | t :: ts => bindsT t ++ bindsL ts
end

/-- what a binding reports: the flattened item list as a nested result for list-valued elements (sequence, repetition,
    …), else the first item — nothing when the element produced no items -/
def Bind.value (b : Bind) : Option Tok :=
  if b.asList then some (.g (stripTopL b.ts)) else (stripTopL b.ts).head?

/-- does the binding concern key `k`?  (the empty name is no name, results.py:182) -/
def Bind.is (k : String) (b : Bind) : Bool := b.name == k && b.name != ""

/-- all values bound to `k` at this level, in binding order -/
def occs (k : String) (ts : List Tok) : List Tok :=
  (bindsL ts).filterMap (fun b => if b.is k then b.value else none)

/-- is `k` a list-all name at this level: some element carrying it was declared `name*` / list_all_matches
    (whether or not that element produced a value) -/
def listAll (k : String) (ts : List Tok) : Bool := (bindsL ts).any (fun b => b.is k && !b.modal)

/-- first occurrences, in order -/
def dedup : List String → List String
  | [] => []
  | x :: xs => x :: (dedup xs).filter (· != x)

/-- the names of the bindings that produced a value, in binding order (with repetitions) -/
def boundNames (ts : List Tok) : List String :=
  (bindsL ts).filterMap (fun b => if b.name != "" && b.value.isSome then some b.name else none)

/-- the names that have a value at this level, in order of first binding -/
def specKeys (ts : List Tok) : List String := dedup (boundNames ts)

/-- `r[k]`: KeyError without value; all values in order for a list-all name; else the last value -/
def specLookup (ts : List Tok) (k : String) : Except Err (View Tok) :=
  if k ∈ specKeys ts then
    if listAll k ts then .ok (.many (occs k ts))
    else match (occs k ts).getLast? with
      | some v => .ok (.one v)
      | none => .error .key
  else .error .key

/-- the items of the result: the tokens with this level's annotations removed -/
def specItems (ts : List Tok) : List Tok := stripTopL ts

/-- the whole level as an abstract result (PRSpec.lean): items, names in order, values per name, list-all flags -/
def specAbs (ts : List Tok) : Abs Tok :=
  { toks := specItems ts, order := specKeys ts, vals := fun k => occs k ts, la := fun k => listAll k ts }

/-- `as_dict` read off the tree: recursive through groups / nested results -/
def specItemF : Nat → Tok → Val
  | _, .s v => .s v
  | _, .n v => .n v
  | 0, _ => .bad
  | f+1, .g ts =>
    if (specKeys ts).isEmpty then .list ((specItems ts).map (specItemF f))
    else .dict ((specKeys ts).map (fun k => (k, match specLookup ts k with
      | .ok (.one v) => specItemF f v
      | .ok (.many vs) => .list (vs.map (specItemF f))
      | .error _ => .bad)))
  | _, .nm _ _ _ _ => .bad
  | _, .hid _ => .bad

def specDictF (f : Nat) (ts : List Tok) : List (String × Val) :=
  (specKeys ts).map (fun k => (k, match specLookup ts k with
    | .ok (.one v) => specItemF f v
    | .ok (.many vs) => .list (vs.map (specItemF f))
    | .error _ => .bad))

def specViewF : Nat → Tok → Val
  | _, .s v => .s v
  | _, .n v => .n v
  | 0, _ => .bad
  | f+1, .g ts =>
    .view ((specItems ts).map (specViewF f)) ((specKeys ts).map (fun k => (k, match specLookup ts k with
      | .ok (.one v) => specViewF f v
      | .ok (.many vs) => .view (vs.map (specViewF f)) []
      | .error _ => .bad)))
  | _, .nm _ _ _ _ => .bad
  | _, .hid _ => .bad

end PP.Names
