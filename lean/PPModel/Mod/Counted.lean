/-
  Model of `counted_array(Word(item_chars), int_expr=Word(digits) -> int(t[0], base))` (pyparsing/helpers.py:22-79).

  `intExpr + array_expr` (helpers.py:79): the count expression is parsed first; its action `count_field_parse_action`
  (helpers.py:66-71) binds `array_expr <<= (expr * n) if n else Empty()` and deletes the count token (`del t[:]`); then
  `array_expr` is parsed: `expr * n` is `And([expr] * n)` (core.py `__mul__`), i.e. `n` items one after the other, each
  `Word` skipping leading blanks (DEFAULT_WHITE_CHARS) and taking the maximal non-empty run of its characters.
-/
namespace PP.Counted

def isWs (c : Char) : Bool := c == ' ' || c == '\t' || c == '\n' || c == '\r'

/-- `Word(chars)`: skip blanks, then the maximal non-empty run of characters satisfying `ok` -/
def word (ok : Char → Bool) (s : List Char) : Option (List Char × List Char) :=
  let s' := s.dropWhile isWs
  let w := s'.takeWhile ok
  if w.isEmpty then none else some (w, s'.dropWhile ok)

/-- `expr * n` = `And([expr] * n)` (`Empty()` for 0): n matches in sequence -/
def rep {α : Type} (p : List Char → Option (α × List Char)) : Nat → List Char → Option (List α × List Char)
  | 0, s => some ([], s)
  | n + 1, s =>
    match p s with
    | none => none
    | some (a, r) =>
      match rep p n r with
      | none => none
      | some (as, r') => some (a :: as, r')

/-- `intExpr + array_expr`: the count, then exactly that many items; the count token is dropped -/
def countedArray {α : Type} (cnt : List Char → Option (Nat × List Char)) (p : List Char → Option (α × List Char))
    (s : List Char) : Option (List α × List Char) :=
  match cnt s with
  | none => none
  | some (n, r) => rep p n r

def digitVal (c : Char) : Nat :=
  if '0' ≤ c ∧ c ≤ '9' then c.toNat - 48 else if 'a' ≤ c ∧ c ≤ 'f' then c.toNat - 87 else c.toNat - 55

/-- `Word(digits).set_parse_action(lambda t: int(t[0], base))` -/
def count (base : Nat) (digits : List Char) (s : List Char) : Option (Nat × List Char) :=
  match word (fun c => digits.contains c) s with
  | none => none
  | some (w, r) => some (w.foldl (fun acc c => acc * base + digitVal c) 0, r)

def run (base : Nat) (digits items : List Char) (s : List Char) : Option (List (List Char) × List Char) :=
  countedArray (count base digits) (word (fun c => items.contains c)) s

end PP.Counted
