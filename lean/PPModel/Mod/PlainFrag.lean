import PPModel.Mod.Parse
/-
  The *plain fragment* of the node table: the hypothesis of the closed PEG-reading theorem
  (PPProofs/Props/C01Sem.lean).  Executable, so that the driver can tell the harness which of the grammars compared
  with the real code fall under that theorem (entry `plain` of the `pp` command).
-/
namespace PP.Parse

/-- the character-level terminals whose matching the combinator reading takes as given (their conformance to their
    reference definitions is the subject of C17 / C18): the transcribed `parseImpl` of the terminal -/
def termImpl (k : Kind) (s : List Char) (loc : Nat) : Option Out :=
  match k with
  | .caselessLit mU ret => some (caselessLitImpl mU ret s loc)
  | .keyword m ident cl => some (keywordImpl m ident cl s loc)
  | .word init body mn mx maxSpec asKw viaRe =>
      some (if viaRe then wordReImpl init body mn mx asKw s loc else wordSlowImpl init body mn mx maxSpec asKw s loc)
  | .charsNotIn notc mn mx => some (charsNotInImpl notc mn mx s loc)
  | .lineEnd => some (lineEndImpl s loc)
  | .wordStart cs => some (wordStartImpl cs s loc)
  | .wordEnd cs => some (wordEndImpl cs s loc)
  | _ => none

/-- what a plain node's kind may be -/
def plainKind : Kind → Bool
  | .lit m => !m.isEmpty
  | .lit1 _ => true
  | .empty => true
  | .noMatch => true
  | .stringEnd => true
  | .caselessLit _ _ => true
  | .keyword _ _ _ => true
  | .word _ _ _ _ _ _ _ => true
  | .charsNotIn _ _ _ => true
  | .lineEnd => true
  | .wordStart _ => true
  | .wordEnd _ => true
  | .and es => !es.isEmpty
  | .matchFirst _ => true
  | .or _ => true
  | .opt _ _ => true
  | .many _ none _ => true
  | .notAny _ => true
  | .followedBy _ => true
  | .group _ => true
  | .suppress _ => true
  | .combine _ _ => true
  | .enhance _ => true
  | .forward (some _) => true
  | _ => false

def plainNode (nd : Node) : Bool := plainKind nd.kind && nd.acts.isEmpty && nd.ignore.isEmpty

/-- the whole table is plain (`plainTable g = true ↔ Plain g`, Props/C01Sem.lean) -/
def plainTable (g : Grammar) : Bool := g.all plainNode

end PP.Parse
