import PPModel.Mod.Parse
/-
  The *plain fragment* of the node table: the hypothesis of the closed PEG-reading theorem
  (PPProofs/Props/C01Sem.lean).  Executable, so that the driver can tell the harness which of the grammars compared
  with the real code fall under that theorem (entry `plain` of the `pp` command).
-/
namespace PP.Parse

/-- what a plain node's kind may be -/
def plainKind : Kind → Bool
  | .lit m => !m.isEmpty
  | .lit1 _ => true
  | .empty => true
  | .noMatch => true
  | .stringEnd => true
  | .and es => !es.isEmpty
  | .matchFirst _ => true
  | .opt _ none => true
  | .many _ none _ => true
  | .notAny _ => true
  | .followedBy _ => true
  | .group _ => true
  | .suppress _ => true
  | .enhance _ => true
  | .forward (some _) => true
  | _ => false

def plainNode (nd : Node) : Bool := plainKind nd.kind && nd.acts.isEmpty && nd.ignore.isEmpty

/-- the whole table is plain (`plainTable g = true ↔ Plain g`, Props/C01Sem.lean) -/
def plainTable (g : Grammar) : Bool := g.all plainNode

end PP.Parse
