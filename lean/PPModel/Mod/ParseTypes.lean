/-
  Shared parse model — types.

  A grammar is a *node table*: `Grammar = List Node`, children are referred to by index (this mirrors
  Python object identity: packrat/LR caches are keyed by object, sub-expressions are shared, Forwards
  make cycles).  The table is **extracted from the live pyparsing objects** by the harness
  (harness/extract.py): every attribute below is the value the real object has after `streamline()`,
  so the constructor-time flag propagation (`skipWhitespace`, `whiteChars`, `callPreparse`,
  `mayIndexError`, `ignoreExprs` copied upward at construction) is taken from the code itself, not
  re-modelled.  What *is* modelled by hand is the parsing algorithm (`PPModel/Mod/Parse.lean`).
-/
namespace PP.Parse

/-- tokens: `as_list()` shape. strings are `List Char`. -/
inductive Tok where
  | s (v : List Char)
  | n (v : Nat)
  | g (ts : List Tok)
  /-- annotation, invisible in `as_list()`: the tokens `ts` were produced by an element carrying results name `name`
      (`ParseResults(tokens, name, asList, modal)`, core.py:861-863) -/
  | nm (name : List Char) (modal asList : Bool) (ts : List Tok)
  /-- hidden: the tokens `ts` were removed from the list (`del ret[:]` in FollowedBy.parseImpl core.py:4927-4933 and
      Combine.postParse core.py:5897-5903) — invisible in `as_list()`, but the results names bound inside stay on the result -/
  | hid (ts : List Tok)
  deriving Repr, Inhabited

/-- exception classes (pyparsing/exceptions.py): `ParseException`, `ParseFatalException`,
    `ParseSyntaxException ⊑ ParseFatalException`; `ParseFatalException ⋢ ParseException`. -/
inductive Exc where
  | parse | fatal | syntax
  deriving Repr, DecidableEq, Inhabited

def Exc.isFatal : Exc → Bool
  | .parse => false
  | _ => true

/-- outcome of `expr._parse(instring, loc, ...)`.
    `idx`  = a raw `IndexError` propagating;
    `hang` = fuel exhausted / the real code would loop for ever (zero-width repetition body). -/
inductive Out where
  | ok (e : Nat) (ts : List Tok)
  | fail (c : Exc) (loc : Nat)
  | idx
  | hang
  deriving Repr, Inhabited

/-- the library of *pure* parse actions shared with the harness (harness/actions.py). -/
inductive Act where
  | none                       -- returns None: tokens kept
  | const (v : List Char)      -- returns [v]
  | drop                       -- returns []
  | rev                        -- returns the top-level token list reversed
  | dup                        -- returns tokens ++ tokens
  | app (v : List Char)        -- t.append(v) in place, returns None
  | failP                      -- raises ParseException(s, loc, ..)
  | failF                      -- raises ParseFatalException(s, loc, ..)
  | condFalse (fatal : Bool)   -- add_condition(lambda: False, fatal=..)
  | condTrue
  /-- not a user action: the results-name binding of `_parseNoCache` (`ret_tokens = ParseResults(tokens, self.resultsName,
      asList=self.saveAsList, modal=self.modalResults)`), emitted by the extraction in front of the element's actions
      and again after every action that replaces the tokens (core.py:874-904) -/
  | name (n : List Char) (modal asList : Bool)
  /-- the same binding when the tokens handed to `ParseResults(tokens, name, …)` are a *plain Python list* (or str), not a
      ParseResults: what a leaf / Group / Suppress / NotAny returns (core.py:865-869) and what a token-replacing parse
      action returns (core.py:903-910).  `__init__` then takes the other branches: a plain `[]` is a null value (nothing
      bound, results.py:193); with asList the value is `ParseResults(toklist[0])` — the FIRST element only
      (results.py:203) -/
  | nameL (n : List Char) (modal asList : Bool)
  deriving Repr, Inhabited

inductive Kind where
  | lit (m : List Char)                       -- Literal, len ≥ 2
  | lit1 (c : Char)                           -- _SingleCharLiteral
  | empty                                     -- Empty / _ErrorStop-like always-match
  | errorStop                                 -- And._ErrorStop
  | noMatch
  | caselessLit (mUpper : List Char) (ret : List Char)
  | keyword (m : List Char) (ident : List Char) (caseless : Bool)
  | word (init body : List Char) (minLen : Nat) (maxLen : Option Nat) (maxSpec asKw viaRe : Bool)
  | charsNotIn (notc : List Char) (minLen : Nat) (maxLen : Option Nat)
  | stringStart | stringEnd
  | lineStart (skipWhite : List Char) (origNl : Bool)
  | lineEnd
  | wordStart (cs : List Char) | wordEnd (cs : List Char)
  | and (es : List Nat)
  | matchFirst (es : List Nat)
  | or (es : List Nat)
  | opt (e : Nat) (dflt : Option (List Char))
  | many (e : Nat) (notEnder : Option Nat) (atLeastOne : Bool)   -- OneOrMore / ZeroOrMore
  | notAny (e : Nat)
  | followedBy (e : Nat)
  | located (e : Nat)
  | group (e : Nat)
  | suppress (e : Nat)
  | combine (e : Nat) (join : List Char)
  | skipTo (e : Nat) (incl : Bool) (failOn : Option Nat) (ignorer : Option Nat)
  | forward (e : Option Nat)
  | enhance (e : Nat)                         -- plain ParseElementEnhance.parseImpl (DelimitedList, …)
  deriving Repr, Inhabited

structure Node where
  kind : Kind
  skipWs : Bool            -- self.skipWhitespace
  white : List Char        -- self.whiteChars
  callPre : Bool           -- self.callPreparse
  mayIdx : Bool            -- self.mayIndexError
  ignore : List Nat        -- self.ignoreExprs
  acts : List Act          -- self.parseAction (library tags)
  callDuringTry : Bool
  nameLen : Nat            -- len(str(self)): Or/Each fatal tie-break
  hasName : Bool := false  -- resultsName set (affects Located / Combine token shape)
  deriving Repr, Inhabited

abbrev Grammar := List Node

/-- the recursive call, as seen by the per-class helpers: `p id loc doActions callPreParse` -/
abbrev P := Nat → Nat → Bool → Bool → Out

end PP.Parse
