import PPModel.Mod.WordPaths
/-
  Model of pyparsing/helpers.py `one_of` (153-283): the symbol re-ordering loop (226-238), the regex
  built from the re-ordered symbols (240-266) and the `MatchFirst` fallback (268-283), for
  `as_keyword=False`.  Caseless comparison (`str.upper`, `re.IGNORECASE`, `str.lower` in the symbol map)
  is modelled for ASCII letters.
-/
namespace PP.OneOf
open PP.ReLite PP.Ranges PP.WordPaths

abbrev Sym := List Char

/-- `a.upper()` if caseless else `a` -/
def key (ci : Bool) (a : Sym) : Sym := if ci then a.map asciiUpper else a

/-- `is_equal(a, b)` -/
def isEqual (ci : Bool) (a b : Sym) : Bool := key ci a == key ci b

/-- `masks(a, b)`: `b.startswith(a)` (on upper-cased copies if caseless) -/
def masks (ci : Bool) (a b : Sym) : Bool := (key ci a).isPrefixOf (key ci b)

inductive Scan where
  | dup (j : Nat)                    -- `is_equal(other, cur)` at offset j: delete it
  | longer (j : Nat) (other : Sym)   -- a longer symbol masked by cur at offset j: move it in front
  | none                             -- the `for ... else` branch
  deriving Repr, DecidableEq

/-- the `for j, other in enumerate(symbols[i+1:])` scan (helpers.py:229-236) -/
def scan (ci : Bool) (cur : Sym) : List Sym → Nat → Scan
  | [], _ => .none
  | other :: rest, j =>
      if isEqual ci other cur then .dup j
      else if other.length > cur.length && masks ci cur other then .longer j other
      else scan ci cur rest (j + 1)

/-- total length of the symbols (termination measure) -/
def lenSum : List Sym → Nat
  | [] => 0
  | s :: ss => s.length + lenSum ss

/-- the `while i < len(symbols) - 1` loop. State: `done = symbols[:i]` (reversed), `cur = symbols[i]`,
    `rest = symbols[i+1:]`. `none` = out of fuel (proved impossible for `reorder`'s fuel). -/
def reorderGo (ci : Bool) : Nat → List Sym → Sym → List Sym → Option (List Sym)
  | 0, _, _, _ => none
  | f+1, done, cur, rest =>
      match rest with
      | [] => some (done.reverse ++ [cur])                     -- `i < len(symbols) - 1` is false
      | r :: rs =>
        match scan ci cur (r :: rs) 0 with
        | .dup j => reorderGo ci f done cur ((r :: rs).eraseIdx j)
        | .longer j other => reorderGo ci f done other (cur :: (r :: rs).eraseIdx j)
        | .none => reorderGo ci f (cur :: done) r rs           -- `i += 1`

/-- enough fuel: every step decreases `rest.length + lenSum rest` -/
def reorderFuel (rest : List Sym) : Nat := rest.length + lenSum rest + 1

def reorder (ci : Bool) (syms : List Sym) : Option (List Sym) :=
  match syms with
  | [] => some []
  | c :: rest => reorderGo ci (reorderFuel rest) [] c rest

/-- `re.escape(sym)` as an AST -/
def litRe (sym : Sym) : Re := catL (sym.map .chr)

/-- helpers.py:244-248 -/
def oneOfRe (syms : List Sym) : Re :=
  if syms.all (fun s => s.length == 1) then
    .cls (syms.map (fun s => escItem (s.headD ' ')))
  else altL (syms.map litRe)

/-- outcome of the built expression at `loc`: end location and the token text returned -/
abbrev Out := Option (Nat × Sym)

def slice (s : List Char) (a b : Nat) : List Char := (s.drop a).take (b - a)

/-- the `Regex` built by one_of, with the caseless parse action `symbol_map[t[0].lower()]`
    (`symbol_map` is a dict filled in symbol order: the last symbol with that lower-case wins) -/
def regexPath (ci : Bool) (syms : List Sym) (s : List Char) (loc : Nat) : Out :=
  match matchAt ci (oneOfRe syms) s loc with
  | none => none
  | some e =>
    let t := slice s loc e
    if ci then
      match syms.reverse.find? (fun y => y.map asciiLower == t.map asciiLower) with
      | some y => some (e, y)
      | none => none        -- KeyError (cannot happen)
    else some (e, t)

/-- `Literal(sym)` / `CaselessLiteral(sym)` at `loc` -/
def litMatch (ci : Bool) (sym : Sym) (s : List Char) (loc : Nat) : Bool :=
  if ci then (slice s loc (loc + sym.length)).map asciiUpper == sym.map asciiUpper
  else (literal sym s loc).isSome

/-- `MatchFirst(Literal(sym) for sym in symbols)`: first symbol (in order) that matches -/
def matchFirstPath (ci : Bool) (syms : List Sym) (s : List Char) (loc : Nat) : Out :=
  match syms.find? (fun y => litMatch ci y s loc) with
  | some y => some (loc + y.length, y)
  | none => none

/-- `one_of(syms, caseless=ci, use_regex=useRegex)` applied at `loc` (no symbols: `NoMatch`) -/
def oneOf (ci useRegex : Bool) (syms : List Sym) (s : List Char) (loc : Nat) : Out :=
  match reorder ci syms with
  | none => none
  | some [] => none
  | some ordered =>
    if useRegex then regexPath ci ordered s loc else matchFirstPath ci ordered s loc

end PP.OneOf
