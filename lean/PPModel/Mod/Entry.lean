import PPModel.Mod.Parse
/-
  Entry points of ParserElement (core.py:1157-1452): parse_string, scan_string, search_string,
  transform_string, split — generic in the parse function `p : P` (so the same definitions serve the
  uncached, packrat and left-recursion models), over the *already tab-expanded* string.
-/
namespace PP.Parse

/-- `Empty() + StringEnd()` applied at `loc` (parse_string 1213-1215): And pre-parses with the default
    whitespace, Empty matches, StringEnd pre-parses again and tests for end of text. -/
def stringEndCheck (dfltWhite s : List Char) (loc : Nat) : Out :=
  let l := skipWhite dfltWhite s (skipWhite dfltWhite s loc)
  stringEndImpl s l

/-- parse_string (1204-1226): result of `self._parse(instring, 0)` followed by the parse_all check -/
def parseString (p : P) (g : Grammar) (root : Nat) (dfltWhite s : List Char) (parseAll : Bool) : Out :=
  match p root 0 true true with
  | .ok l ts =>
    if parseAll then
      match g[root]? with
      | none => .hang
      | some nd =>
        match preParse p nd s l with
        | .abort o => o
        | .at l1 =>
          match stringEndCheck dfltWhite s l1 with
          | .ok _ _ => .ok l ts
          | o => o
    else .ok l ts
  | o => o

structure Match where
  toks : List Tok
  start : Nat
  stop : Nat
  deriving Repr

/-- result of draining the scan_string generator: the matches yielded so far and, if the generator
    raised, the escaping outcome (a `fail` with a fatal class, `idx` or `hang`) -/
structure ScanR where
  ms : List Match
  exc : Option Out

/-- the pre-parser of scan_string (1278-1284): `Empty()` carrying self's ignoreExprs and whiteChars
    when `always_skip_whitespace`, else `self.preParse` -/
def scanPre (p : P) (nd : Node) (alwaysSkip : Bool) (s : List Char) (loc : Nat) : PreR :=
  if alwaysSkip then preParse p { nd with kind := .empty, skipWs := true } s loc
  else preParse p nd s loc

/-- scan_string driver loop (1288-1318) -/
def scanLoop (p : P) (nd : Node) (root : Nat) (s : List Char) (alwaysSkip overlap : Bool) :
    Nat → Nat → Nat → List Match → ScanR
  | 0, _, _, acc => ⟨acc, some .hang⟩
  | k+1, loc, left, acc =>
    if loc > s.length || left == 0 then ⟨acc, none⟩ else
    match scanPre p nd alwaysSkip s loc with
    | .abort (.fail .parse _) => ⟨acc, some .hang⟩   -- unreachable: preParse swallows ParseException
    | .abort o => ⟨acc, some o⟩
    | .at preloc =>
      match p root preloc true false with
      | .fail .parse _ => scanLoop p nd root s alwaysSkip overlap k (preloc + 1) left acc
      | .ok nextLoc ts =>
        if nextLoc > loc then
          let acc := acc ++ [⟨ts, preloc, nextLoc⟩]
          if overlap then
            match scanPre p nd alwaysSkip s loc with
            | .at nl => scanLoop p nd root s alwaysSkip overlap k (if nl > loc then nextLoc else loc + 1) (left - 1) acc
            | .abort o => ⟨acc, some o⟩
          else scanLoop p nd root s alwaysSkip overlap k nextLoc (left - 1) acc
        else scanLoop p nd root s alwaysSkip overlap k (preloc + 1) left acc
      | o => ⟨acc, some o⟩

def scanString (p : P) (g : Grammar) (root : Nat) (s : List Char) (maxMatches : Nat)
    (alwaysSkip overlap : Bool) : ScanR :=
  match g[root]? with
  | none => ⟨[], some .hang⟩
  | some nd => scanLoop p nd root s alwaysSkip overlap (2 * s.length + 4) 0 maxMatches []

/-- `_flatten` + `str` of the token list as transform_string uses it (1363-1373) -/
def Tok.truthy : Tok → Bool
  | .s v => !v.isEmpty
  | .n v => v != 0
  | .g ts => !ts.isEmpty
  | .nm _ _ _ ts => !ts.isEmpty
  | .hid _ => false

/-- `out = [o for o in out if o]` drops falsy top-level items (empty strings/lists, the integer 0) -/
def transformPieces (s : List Char) : List Match → Nat → List Char
  | [], lastE => s.drop lastE
  | m :: ms, lastE =>
    (if m.start > lastE then slice s lastE m.start else []) ++ strsL ((flatL m.toks).filter Tok.truthy)
      ++ transformPieces s ms m.stop

/-- transform_string (1345-1380) on a completed scan -/
def transformString (s : List Char) (r : ScanR) : Sum Out (List Char) :=
  match r.exc with
  | some o => .inl o
  | none => .inr (transformPieces s r.ms 0)

/-- split (1443-1450) with include_separators=False -/
def splitPieces (s : List Char) : List Match → Nat → List (List Char)
  | [], last => [s.drop last]
  | m :: ms, last => slice s last m.start :: splitPieces s ms m.stop

end PP.Parse
