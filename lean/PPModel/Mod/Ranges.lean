import PPModel.Mod.ReLite
import PPModel.Mod.LineCol
/-
  Model of pyparsing/util.py `_escape_regex_range_chars` (176-182), `_collapse_string_to_ranges`
  (210-291, incl. `_GroupConsecutive`), and pyparsing/core.py `srange` (6118-6177, i.e. what
  `_reBracketExpr.parse_string(s)` does, with the default whitespace skipping of every sub-expression).
-/
namespace PP.Ranges
open PP.ReLite

/-! ## `_escape_regex_range_chars` -/

/-- `s.replace(c, r)` for a one-character `c` -/
def replChar (c : Char) (r : List Char) (s : List Char) : List Char :=
  s.flatMap (fun d => if d == c then r else [d])

/-- util.py:176-182, statement by statement:
    `for c in r"\^-[]": s = s.replace(c, "\\" + c)`; `s.replace("\n", r"\n")`; `s.replace("\t", r"\t")` -/
def escapeRangeChars (s : List Char) : List Char :=
  let s := replChar '\\' ['\\', '\\'] s
  let s := replChar '^' ['\\', '^'] s
  let s := replChar '-' ['\\', '-'] s
  let s := replChar '[' ['\\', '['] s
  let s := replChar ']' ['\\', ']'] s
  let s := replChar '\n' ['\\', 'n'] s
  let s := replChar '\t' ['\\', 't'] s
  s

/-- the class item that `_escape_regex_range_chars(c)` writes for the single character `c` -/
def escItem (c : Char) : CItem :=
  if c == '\n' then .nl else if c == '\t' then .tab else .one c

/-! ## `_collapse_string_to_ranges` -/

/-- insert into a strictly increasing list, dropping duplicates -/
def insertU (c : Char) : List Char → List Char
  | [] => [c]
  | d :: ds =>
      if c.toNat < d.toNat then c :: d :: ds
      else if c == d then d :: ds
      else d :: insertU c ds

/-- `sorted(set(s))` -/
def sortU (s : List Char) : List Char := s.foldr insertU []

/-- `itertools.groupby(s_chars, key=_GroupConsecutive())` reduced to (first, last) of each group:
    a new group starts when `ord(c) - ord(prev) > 1` -/
def groupGo (first last : Char) : List Char → List (Char × Char)
  | [] => [(first, last)]
  | d :: ds =>
      if d.toNat - last.toNat > 1 then (first, last) :: groupGo d d ds
      else groupGo first d ds

def groupRuns : List Char → List (Char × Char)
  | [] => []
  | c :: cs => groupGo c c cs

/-- the three shapes a group is written in (util.py:263-280) -/
def groupItems (g : Char × Char) : List CItem :=
  if g.1 == g.2 then [.one g.1]
  else if g.2.toNat == g.1.toNat + 1 then [.one g.1, .one g.2]
  else [.range g.1 g.2]

/-- class items of `_collapse_string_to_ranges(s)` (re_escape=True) -/
def collapseItems (s : List Char) : List CItem :=
  let cs := sortU s
  if cs.length > 2 then (groupRuns cs).flatMap groupItems
  else cs.map .one

/-- the text `_collapse_string_to_ranges(s)` returns -/
def collapse (s : List Char) : List Char := (collapseItems s).flatMap renderItem

/-- re_escape=False variant (used for default names only) -/
def rawItem : CItem → List Char
  | .one c => [c]
  | .nl => ['\n']
  | .tab => ['\t']
  | .range lo hi => [lo, '-', hi]

def collapseRaw (s : List Char) : List Char := (collapseItems s).flatMap rawItem

/-! ## `srange` -/

def isWs (c : Char) : Bool := c == ' ' || c == '\n' || c == '\t' || c == '\r'

def skipWs : List Char → List Char
  | [] => []
  | c :: cs => if isWs c then skipWs cs else c :: cs

/-- characters accepted after a backslash by `_escapedPunc` (core.py:6101) -/
def escapedPunc : List Char :=
  ['\\', '[', ']', '/', '-', '*', '.', '$', '+', '^', '?', '(', ')', '~', ' ']

inductive SC where
  | ok (c : Char) (rest : List Char)
  | fail
  | unsupported       -- `\x..`, `\0..` escapes: outside this model

/-- `_singleChar = _escapedPunc | _escapedHexChar | _escapedOctChar | CharsNotIn(r"\]", exact=1)`.
    The `MatchFirst` itself does not skip whitespace (`CharsNotIn.skipWhitespace` is False), but each
    `Regex` alternative skips it in its own `preParse`. -/
def singleChar (txt : List Char) : SC :=
  match skipWs txt with
  | '\\' :: c :: rest =>
      if c ∈ escapedPunc then .ok c rest
      else if c == 'x' || c == 'X' || c == '0' then .unsupported
      else
        (match txt with
         | d :: rest' => if d == '\\' || d == ']' then .fail else .ok d rest'
         | [] => .fail)
  | _ =>
      match txt with
      | d :: rest' => if d == '\\' || d == ']' then .fail else .ok d rest'   -- CharsNotIn, no skipping
      | [] => .fail

/-- `chr(c) for c in range(ord(lo), ord(hi)+1)` -/
def expandRange (lo hi : Char) : List Char :=
  (List.range (hi.toNat + 1 - lo.toNat)).map (fun k => Char.ofNat (lo.toNat + k))

/-- `OneOrMore(_charRange | _singleChar)`; returns the expanded characters and the rest.
    `_charRange = Group(_singleChar + Suppress("-") + _singleChar)`: `Suppress("-")` skips whitespace.
    `none` = unsupported escape met. fuel = length of the text. -/
def bodyGo : Nat → List Char → List Char → Option (List Char × List Char)
  | 0, txt, acc => some (acc, txt)
  | f+1, txt, acc =>
      match singleChar txt with
      | .unsupported => none
      | .fail => some (acc, txt)
      | .ok a r1 =>
        match skipWs r1 with
        | '-' :: r2 =>
          (match singleChar r2 with
           | .unsupported => none
           | .ok b r3 => bodyGo f r3 (acc ++ expandRange a b)
           | .fail => bodyGo f r1 (acc ++ [a]))
        | _ => bodyGo f r1 (acc ++ [a])

/-- `srange(s)`; `none` only for the unsupported escapes. Parse failure gives `""` (core.py:6176).
    `parse_string` first expands tabs; `Literal("[")`, `Opt("^")` and `Literal("]")` skip whitespace
    in their `preParse` (the whitespace in front of a missing `^` stays consumed). -/
def srange (s : List Char) : Option (List Char) :=
  match skipWs (PP.LineCol.expandTabs s) with
  | '[' :: r0 =>
    let r0' := skipWs r0
    let r1 := match r0' with
      | '^' :: r => r          -- Opt("^"): consumed, and ignored by srange
      | _ => r0'
    match bodyGo (r1.length + 1) r1 [] with
    | none => none
    | some (acc, rest) =>
      -- nothing matched (ParseException -> "") and "matched only empty ranges" both give ""
      if acc.isEmpty then some []
      else
        match skipWs rest with
        | ']' :: _ => some acc
        | _ => some []
  | _ => some []

end PP.Ranges
