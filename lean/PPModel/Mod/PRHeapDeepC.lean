import PPModel.Mod.PRHeapDeep
/-
  `ParseResults.deepcopy()` with CONTAINER tokens (results.py:598-605).  A parse action may return a tuple / list /
  dict whose elements are `ParseResults`; such a token sits in `_toklist` as it is.  `deepcopy()` rebuilds it:

      elif isinstance(obj, MutableMapping):                       -- 598
          ret._toklist[i] = dest = type(obj)()                    -- 599
          for k, v in obj.items():                                -- 600
              dest[k] = v.deepcopy() if isinstance(v, ParseResults) else v        -- 601
      elif isinstance(obj, Iterable):                             -- 602
          ret._toklist[i] = type(obj)(                            -- 603
              v.deepcopy() if isinstance(v, ParseResults) else v for v in obj)    -- 604

  i.e. a NEW container of the same type whose `ParseResults` elements are deep copies and whose other elements —
  nested containers included — are the same objects.  The heap of `PRHeap.lean` is generic in the scalar type; here
  the scalars are `CV α`: a plain scalar, or a container value with its elements in order (for a mapping: its values;
  keys are scalars and stay).  An element is a scalar (`HVal.atom`; a nested container counts as an opaque scalar: it is
  shared, results.py:601/604 do not descend) or a reference to a `ParseResults`.  Containers are values here: that
  the rebuilt container is a new Python object is built in; the theorems are about the GROUPS inside.
-/
namespace PP.PRHeap

variable {α : Type}

inductive CV (α : Type) where
  | sc (a : α)
  | cont (kind : Nat) (items : List (HVal α))
  deriving DecidableEq

/-- results.py:600-601 / 604: the elements of one container, left to right -/
def goItems (rec : Heap (CV α) → Nat → Heap (CV α) × Nat) : Heap (CV α) → List (HVal α) → Heap (CV α) × List (HVal α)
  | h, [] => (h, [])
  | h, .atom a :: ts => ((goItems rec h ts).1, .atom a :: (goItems rec h ts).2)
  | h, .ref n :: ts => ((goItems rec (rec h n).1 ts).1, .ref (rec h n).2 :: (goItems rec (rec h n).1 ts).2)

/-- the loop of results.py:593-605 with container tokens -/
def goToksC (rec : Heap (CV α) → Nat → Heap (CV α) × Nat) :
    Heap (CV α) → List (HVal (CV α)) → Heap (CV α) × List (HVal (CV α))
  | h, [] => (h, [])
  | h, .atom (.sc a) :: ts => ((goToksC rec h ts).1, .atom (.sc a) :: (goToksC rec h ts).2)
  | h, .atom (.cont k items) :: ts =>
    ((goToksC rec (goItems rec h items).1 ts).1,
     .atom (.cont k (goItems rec h items).2) :: (goToksC rec (goItems rec h items).1 ts).2)
  | h, .ref n :: ts => ((goToksC rec (rec h n).1 ts).1, .ref (rec h n).2 :: (goToksC rec (rec h n).1 ts).2)

/-- `ParseResults.deepcopy()` (results.py:587-606) with container tokens, recursion depth bounded by `fuel` -/
def deepcopyC : Nat → Heap (CV α) → Nat → Heap (CV α) × Nat
  | 0, h, o => copy h o
  | f + 1, h, o =>
    let g := goToksC (deepcopyC f) (copy h o).1 (h.lists (h.objs o).lst)
    ({ g.1 with lists := upd g.1.lists h.next g.2 }, (copy h o).2)

/-- the nested list an object shows, containers expanded (a container: a marker, its elements, a closing bracket) -/
def asListC : Nat → Heap (CV α) → Nat → List (Tk (CV α))
  | 0, _, _ => [.lb, .rb]
  | k + 1, h, o =>
    .lb :: ((h.lists (h.objs o).lst).flatMap (fun v => match v with
      | .atom (.sc a) => [Tk.a (.sc a)]
      | .atom (.cont kd items) => Tk.a (.cont kd []) :: (items.flatMap (fun w => match w with
          | .atom a => [Tk.a (CV.sc a)]
          | .ref n => asListC k h n)) ++ [Tk.rb]
      | .ref n => asListC k h n)) ++ [.rb]

/-- object 2 = group `['a']`, object 5 = group `['b']`; object 8 = `[(<2>, 'x', <5>), <2>]`: a tuple token holding both
    groups, then the first group again as an ordinary token -/
def contHeap : Heap (CV String) :=
  { lists := fun i => if i = 0 then [.atom (.sc "a")] else if i = 3 then [.atom (.sc "b")]
      else if i = 6 then [.atom (.cont 1 [.ref 2, .atom "x", .ref 5]), .ref 2] else [],
    dicts := fun _ => [],
    occs := fun _ => [],
    objs := fun i => ⟨i - 2, i - 1, []⟩,
    next := 9 }

/-- the sharing pattern of `r.deepcopy()` on `contHeap` (executable; compared with `is`-identity probes on the real
    class by harness/props/c11.py, stream `container-sharing`): is the first / second group inside the copy's tuple the
    original's; is the copy's token 1 the original's group / the copy's own first tuple element (no memo: no); does
    appending to the first group inside the copy's tuple change what the original shows; does the copy show what the
    original shows -/
def contShare : List Bool :=
  let r := deepcopyC 1 contHeap 8
  match r.1.lists (r.1.objs r.2).lst with
  | [.atom (.cont _ [.ref a, _, .ref b]), .ref c] =>
    [decide (a = 2), decide (b = 5), decide (c = 2), decide (c = a),
     decide (asListC 3 (mutate r.1 a (.append (.atom (.sc "z")))) 8 ≠ asListC 3 contHeap 8),
     decide (asListC 3 r.1 r.2 = asListC 3 contHeap 8)]
  | _ => []

end PP.PRHeap
