import PPModel.Mod.Entry
/-
  C12 — grammar objects as a node table: renaming of ids, simulation check between two tables,
  the flattening step of `ParseExpression.streamline` (core.py 3979-4018) as a table transformation,
  and the decidable flag conditions under which flattening a nested `And` does not change parsing.

  Everything here is executable (used by the driver, `PPModel/Driver/Sugar.lean`) and is what the theorems of
  `PPProofs/Props/C12.lean` talk about.
-/
namespace PP.Parse

deriving instance DecidableEq for Act
deriving instance DecidableEq for Kind
deriving instance DecidableEq for Node

/-! ### ids occurring in a node, renaming -/

def Kind.children : Kind → List Nat
  | .and es => es
  | .matchFirst es => es
  | .or es => es
  | .opt e _ => [e]
  | .many e ne _ => e :: ne.toList
  | .notAny e => [e]
  | .followedBy e => [e]
  | .located e => [e]
  | .group e => [e]
  | .suppress e => [e]
  | .combine e _ => [e]
  | .skipTo e _ fo ig => e :: (fo.toList ++ ig.toList)
  | .forward e => e.toList
  | .enhance e => [e]
  | _ => []

/-- every id a node refers to: its sub-expressions and its ignorables -/
def Node.children (nd : Node) : List Nat := nd.kind.children ++ nd.ignore

def Kind.mapIds (ρ : Nat → Nat) : Kind → Kind
  | .and es => .and (es.map ρ)
  | .matchFirst es => .matchFirst (es.map ρ)
  | .or es => .or (es.map ρ)
  | .opt e d => .opt (ρ e) d
  | .many e ne one => .many (ρ e) (ne.map ρ) one
  | .notAny e => .notAny (ρ e)
  | .followedBy e => .followedBy (ρ e)
  | .located e => .located (ρ e)
  | .group e => .group (ρ e)
  | .suppress e => .suppress (ρ e)
  | .combine e j => .combine (ρ e) j
  | .skipTo e incl fo ig => .skipTo (ρ e) incl (fo.map ρ) (ig.map ρ)
  | .forward e => .forward (e.map ρ)
  | .enhance e => .enhance (ρ e)
  | k => k

def Node.mapIds (ρ : Nat → Nat) (nd : Node) : Node :=
  { nd with kind := nd.kind.mapIds ρ, ignore := nd.ignore.map ρ }

/-- `nameLen` (= `len(str(self))`) is read by the parser only through `nameLenOf g e` for the alternatives `e` of an
    `Or` (fatal tie-break, core.py 4334-4340); everywhere else it is irrelevant -/
def Node.eraseNL (nd : Node) : Node := { nd with nameLen := 0 }

/-- `ρ` maps the part `D` of table `g1` into table `g2` preserving every attribute the parser reads:
    the image of a node is the node with its ids renamed (nameLen only compared for alternatives of an `Or`),
    and `D` is closed under "refers to". -/
structure Sim (g1 g2 : Grammar) (ρ : Nat → Nat) (D : Nat → Prop) : Prop where
  node : ∀ i, D i → ∃ n1 n2, g1[i]? = some n1 ∧ g2[ρ i]? = some n2 ∧ n2.eraseNL = (n1.mapIds ρ).eraseNL
  closed : ∀ i n1, D i → g1[i]? = some n1 → ∀ c ∈ n1.children, D c
  orKids : ∀ i n1 es, D i → g1[i]? = some n1 → n1.kind = .or es → ∀ e ∈ es, nameLenOf g1 e = nameLenOf g2 (ρ e)

/-! ### executable simulation check (the harness supplies the candidate pairing computed from the live objects) -/

def rhoOf (pairs : List (Nat × Nat)) (i : Nat) : Nat := (pairs.lookup i).getD 0

def orKidsOk (g1 g2 : Grammar) (ρ : Nat → Nat) (n1 : Node) : Bool :=
  match n1.kind with
  | .or es => es.all (fun e => nameLenOf g1 e == nameLenOf g2 (ρ e))
  | _ => true

def simCheckOne (g1 g2 : Grammar) (pairs : List (Nat × Nat)) (ij : Nat × Nat) : Bool :=
  rhoOf pairs ij.1 == ij.2 &&
  match g1[ij.1]?, g2[ij.2]? with
  | some n1, some n2 =>
    decide (n2.eraseNL = (n1.mapIds (rhoOf pairs)).eraseNL) &&
    n1.children.all (fun c => (pairs.map Prod.fst).elem c) &&
    orKidsOk g1 g2 (rhoOf pairs) n1
  | _, _ => false

def simCheck (g1 g2 : Grammar) (pairs : List (Nat × Nat)) : Bool := pairs.all (simCheckOne g1 g2 pairs)

/-! ### append-only construction -/

/-- every node refers only to ids of the table (what the constructors guarantee: operands exist before the result) -/
def Closed (g : Grammar) : Prop := ∀ (i : Nat) (nd : Node), g[i]? = some nd → ∀ c ∈ nd.children, c < g.length

def closedCheck (g : Grammar) : Bool := g.all (fun (nd : Node) => nd.children.all (fun c => decide (c < g.length)))

/-! ### the flattening step of ParseExpression.streamline -/

def isStopOf (g : Grammar) (i : Nat) : Bool :=
  match g[i]? with
  | some n => (match n.kind with
    | .errorStop => true
    | _ => false)
  | none => false

/-- core.py 3993-3998: same class, no parse actions, no results name (debug is never set in extracted tables) -/
def flattenable (nd : Node) : Bool := nd.acts.isEmpty && !nd.hasName

def andList? (g : Grammar) (i : Nat) : Option (Node × List Nat) :=
  match g[i]? with
  | some X => (match X.kind with
    | .and xs => if flattenable X then some (X, xs) else none
    | _ => none)
  | none => none

/-- `And.streamline` → `ParseExpression.streamline` 3991-4014 applied to node `O` whose children are streamlined:
    the new `exprs` and `mayIndexError` (every other attribute the parser reads is unchanged; `str(self)` changes) -/
def streamlineAnd (g : Grammar) (O : Node) : Node :=
  match O.kind with
  | .and [x, y] =>
    -- other = self.exprs[0]
    let O1 : Node := match andList? g x with
      | some (X, xs) => { O with kind := .and (xs ++ [y]), mayIdx := O.mayIdx || X.mayIdx }
      | none => O
    -- other = self.exprs[-1]
    match O1.kind with
    | .and es1 =>
      (match es1.getLast? with
       | some z => (match andList? g z with
          | some (Z, zs) => { O1 with kind := .and (es1.dropLast ++ zs), mayIdx := O1.mayIdx || Z.mayIdx }
          | none => O1)
       | none => O1)
    | _ => O1
  | _ => O

/-- the same step for MatchFirst (the generic code of ParseExpression.streamline) -/
def mfList? (g : Grammar) (i : Nat) : Option (Node × List Nat) :=
  match g[i]? with
  | some X => (match X.kind with
    | .matchFirst xs => if flattenable X then some (X, xs) else none
    | _ => none)
  | none => none

def skipWsOf (g : Grammar) (i : Nat) : Bool :=
  match g[i]? with
  | some n => n.skipWs
  | none => true

/-- MatchFirst.streamline (4425-4439): the generic flattening, then `skipWhitespace = all(e.skipWhitespace ...)`
    recomputed over the (new) alternatives -/
def streamlineMF (g : Grammar) (O : Node) : Node :=
  let O2 : Node := match O.kind with
    | .matchFirst [x, y] =>
      let O1 : Node := match mfList? g x with
        | some (X, xs) => { O with kind := .matchFirst (xs ++ [y]), mayIdx := O.mayIdx || X.mayIdx }
        | none => O
      (match O1.kind with
       | .matchFirst es1 =>
         (match es1.getLast? with
          | some z => (match mfList? g z with
             | some (Z, zs) => { O1 with kind := .matchFirst (es1.dropLast ++ zs), mayIdx := O1.mayIdx || Z.mayIdx }
             | none => O1)
          | none => O1)
       | _ => O1)
    | _ => O
  match O2.kind with
  | .matchFirst es => if es.isEmpty then O2 else { O2 with skipWs := es.all (skipWsOf g) }
  | _ => O2

/-! ### when is a nested And equal to the flat one?

`And[pre…, N, post…]` with `N = And[b, ns…]` versus `And[pre…, b, ns…, post…]`.

* head position (`pre = []`): the outer And pre-parses with ITS flags and calls `N` with `callPreParse=False`;
  `N` calls `b` with `callPreParse=False`.  Flat: the outer And calls `b` with `callPreParse=False`.  Nothing to ask
  of the flags.
* inner position (`pre ≠ []`): `N` is called with pre-parsing, i.e. `N.preParse` (N's whitespace flags and
  ignorables, copied from `b` when `N` was constructed) and then `b` without; flat: `b` is called with pre-parsing,
  i.e. `b.preParse` **if `b.callPreparse`**.  Equal iff `b.callPreparse`, `b` does not override `preParse`
  (LineStart does) and `N`'s (skipWhitespace, whiteChars, ignoreExprs) are `b`'s.
* an `_ErrorStop` inside `N` only guards the rest of `N`; after flattening it also guards `post`.
  So: no `_ErrorStop` among `ns` unless `post = []`, and `b` is not one.
-/
def headFlagsOk (N B : Node) : Bool :=
  B.callPre && N.skipWs == B.skipWs && N.white == B.white && N.ignore == B.ignore &&
  (match B.kind with
   | .lineStart _ _ => false
   | _ => true)

/-- hypothesis of `and_flatten`: outer list `pre ++ [n] ++ post`, nested `N = g[n] = And (b :: ns)` -/
def flattenHyp (g : Grammar) (pre : List Nat) (n : Nat) (post : List Nat) : Bool :=
  match g[n]? with
  | some N =>
    (match N.kind with
     | .and (b :: ns) =>
       N.acts.isEmpty && (post.isEmpty || ns.all (fun e => !isStopOf g e)) &&
       (pre.isEmpty ||
        (N.callPre && !isStopOf g b && (match g[b]? with
          | some B => headFlagsOk N B
          | none => false)))
     | _ => false)
  | none => false

/-- the flat list -/
def flatList (g : Grammar) (pre : List Nat) (n : Nat) (post : List Nat) : List Nat :=
  match g[n]? with
  | some N => (match N.kind with
    | .and xs => pre ++ xs ++ post
    | _ => pre ++ [n] ++ post)
  | none => pre ++ [n] ++ post

/-- the flag hypotheses of `and_flatten` for every flattening `streamlineAnd` performs on `O` -/
def streamlineAndHyp (g : Grammar) (O : Node) : Bool :=
  match O.kind with
  | .and [x, y] =>
    let h1 := match andList? g x with
      | some _ => flattenHyp g [] x [y]
      | none => true
    let es1 := match andList? g x with
      | some (_, xs) => xs ++ [y]
      | none => [x, y]
    let h2 := match andList? g y with
      | some _ => flattenHyp g es1.dropLast y []
      | none => true
    h1 && h2
  | _ => true

/-- does `streamlineAnd` flatten anything on `O`? -/
def streamlineAndActs (g : Grammar) (O : Node) : Bool :=
  match O.kind with
  | .and [x, y] => (andList? g x).isSome || (andList? g y).isSome
  | _ => false

/-- tables `pre`/`post` (same id space): `post` is `pre` with node `root` replaced by the model's streamline step -/
def streamCheck (pre post : Grammar) (root : Nat) : Bool :=
  pre.length == post.length &&
  (List.range pre.length).all (fun i =>
    match pre[i]?, post[i]? with
    | some a, some b =>
      if i == root then
        decide (b.eraseNL = (streamlineMF pre (streamlineAnd pre a)).eraseNL)
      else decide (b.eraseNL = a.eraseNL)
    | _, _ => false)

end PP.Parse
