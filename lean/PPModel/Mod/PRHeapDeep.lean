import PPModel.Mod.PRHeap
/-
  Heap model of `ParseResults.deepcopy()` for nesting at EVERY depth (extends `PRHeap.lean`, which only has the
  one-level `deepcopy1`).  The heap of `PRHeap.lean` already has nested objects: a token `HVal.ref n` refers to the
  `ParseResults` object `n`.

  Transcribed from pyparsing/results.py:587-606 (`deepcopy`):

      ret = self.copy()                                       -- 591   `copy` of PRHeap.lean (results.py:573-585)
      for i, obj in enumerate(self._toklist):                 -- 593
          if isinstance(obj, ParseResults):                   -- 594
              ret._toklist[i] = obj.deepcopy()                -- 595   recursive call, left to right
          elif isinstance(obj, (str, bytes)): pass            -- 596-597   (`HVal.atom`: left as it is)
          elif MutableMapping / Iterable: rebuilt             -- 598-605   NOT modelled: `HVal` has no container tokens
      return ret                                              -- 606

  `ret._tokdict` is what `copy()` made (`self._tokdict.copy()`, results.py:581): the occurrence lists — and hence the
  *named* values — are never visited by the loop.  That is the registered finding `deepcopy_named_group_aliased`.

  The loop stores `ret._toklist[i]` after each recursive call; the model threads the heap through the calls in the
  same order (so every allocation gets the same id) and stores the rebuilt token list once, after the loop.  The two
  agree because the recursive calls only allocate (they write to no existing cell, see `deepcopyN_ext` in
  PPProofs/Lemmas/PRHeapDeep.lean) and never read `ret._toklist`.

  Termination: Python recurses until the token tree ends (a cyclic token structure gives RecursionError).  The model
  takes `fuel`; `fuel = 0` is `copy()` (exact for an object without nested results).  The theorems are stated for
  objects whose token tree has depth ≤ fuel (`TIn … fuel o`), for every fuel.
-/
namespace PP.PRHeap

variable {α : Type}

/-- the loop of results.py:593-605 over the *original's* token list: heap threaded left to right, the rebuilt list
    returned.  `rec` is the recursive `deepcopy` call. -/
def goToks (rec : Heap α → Nat → Heap α × Nat) : Heap α → List (HVal α) → Heap α × List (HVal α)
  | h, [] => (h, [])
  | h, .atom a :: ts => ((goToks rec h ts).1, .atom a :: (goToks rec h ts).2)
  | h, .ref n :: ts =>
    ((goToks rec (rec h n).1 ts).1, .ref (rec h n).2 :: (goToks rec (rec h n).1 ts).2)

/-- `ParseResults.deepcopy()` (results.py:587-606) with recursion depth bounded by `fuel`.
    `h.next` is the list cell `copy()` allocates for `ret._toklist`. -/
def deepcopyN : Nat → Heap α → Nat → Heap α × Nat
  | 0, h, o => copy h o
  | f + 1, h, o =>
    let g := goToks (deepcopyN f) (copy h o).1 (h.lists (h.objs o).lst)
    ({ g.1 with lists := upd g.1.lists h.next g.2 }, (copy h o).2)

/-- serialisation of `as_list()` (results.py:541-544): brackets and scalars -/
inductive Tk (α : Type) where
  | lb
  | rb
  | a (x : α)
  deriving DecidableEq

/-- `as_list()` to observation depth `k` (results.py:541-544: `[res.as_list() if isinstance(res, ParseResults) else
    res for res in self._toklist]`), as a bracketed token string.  For a token tree of depth < k this is the whole
    nested list. -/
def asListN : Nat → Heap α → Nat → List (Tk α)
  | 0, _, _ => [.lb, .rb]
  | k + 1, h, o =>
    .lb :: ((h.lists (h.objs o).lst).flatMap (fun v => match v with
      | .atom a => [Tk.a a]
      | .ref n => asListN k h n)) ++ [.rb]

/-- the chain used for the any-depth witness of the finding: object `3j+2` (list cell `3j`, dict cell `3j+1`),
    `j = 0 … d`.  Object 2 is the flat group `['a']`; object `3j+2` (`j ≥ 1`) has the single token `<object 3j-1>`.
    Object 5 (the parent of the innermost group) binds the name `g` to the innermost group (occurrence cell `3d+3`):
    what `Group(Group(…Group(Group(Word('a'))('g'))…))` returns. -/
def chainHeap (d : Nat) : Heap String :=
  { lists := fun i => if i = 0 then [.atom "a"] else if i % 3 = 0 ∧ i < 3 * d + 3 then [.ref (i - 1)] else [],
    dicts := fun i => if i = 4 then [("g", 3 * d + 3)] else [],
    occs := fun i => if i = 3 * d + 3 then [(.ref 2, 0)] else [],
    objs := fun i => ⟨i - 2, i - 1, []⟩,
    next := 3 * d + 4 }

/-- the objects met by following token 0, `k` times, from `o` (with `o` itself first) -/
def tokPath (h : Heap α) : Nat → Nat → List Nat
  | 0, o => [o]
  | k + 1, o => o :: (match h.lists (h.objs o).lst with
      | .ref n :: _ => tokPath h k n
      | _ => [])

/-- the sharing pattern of `r.deepcopy()` on the chain of depth `d` (executable; compared with `is`-identity probes
    on the real class by harness/props/c11.py, stream `deep-sharing`):
    for every level `0..d` along token 0: is the copy's group the original's group? (expected: never);
    then: is `g` of the copy's level `d-1` group the ORIGINAL's innermost group / the COPY's innermost group;
    then: does `as_list()` of the original change when `'z'` is appended to the copy's innermost group reached through
    the tokens / reached through the name `g`. -/
def deepShare (d : Nat) : List Bool :=
  let h := chainHeap d
  let o := 3 * d + 2
  let r := deepcopyN d h o
  let po := tokPath h d o
  let pc := tokPath r.1 d r.2
  let same := List.zipWith (fun a b => decide (a = b)) po pc
  let x' := pc.getD (d - 1) 0
  let gv : Option Nat := match (view r.1 x').2.1 with
    | (_, .ref n :: _) :: _ => some n
    | _ => none
  let before := asListN (d + 2) r.1 o
  let viaTok := match pc.getLast? with
    | some n => decide (asListN (d + 2) (mutate r.1 n (.append (.atom "z"))) o ≠ before)
    | none => false
  let viaName := match gv with
    | some n => decide (asListN (d + 2) (mutate r.1 n (.append (.atom "z"))) o ≠ before)
    | none => false
  same ++ [decide (gv = po.getLast? ∧ gv.isSome), decide (gv = pc.getLast? ∧ gv.isSome), viaTok, viaName]

end PP.PRHeap
