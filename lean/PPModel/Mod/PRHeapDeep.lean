import PPModel.Mod.PRHeap
/-
  Heap model of `ParseResults.deepcopy()` for nesting at EVERY depth (extends `PRHeap.lean`, which only has the
  one-level `deepcopy1`).  The heap of `PRHeap.lean` already has nested objects: a token `HVal.ref n` refers to the
  `ParseResults` object `n`.

  Transcribed from pyparsing/results.py:587-606 (`deepcopy`):

      ret = self.copy()                                       -- 591   `copy` of PRHeap.lean (results.py:573-585)
      for i, obj in enumerate(self._toklist):                 -- 593
          if isinstance(obj, ParseResults):                   -- 594
              ret._toklist[i] = obj.deepcopy()                -- 595   recursive call, left to right
          elif isinstance(obj, (str, bytes)): pass            -- 596-597   (`HVal.atom`: left as it is)
          elif MutableMapping / Iterable: rebuilt             -- 598-605   NOT modelled: `HVal` has no container tokens
      return ret                                              -- 606

  `ret._tokdict` is what `copy()` made (`self._tokdict.copy()`, results.py:581): the occurrence lists — and hence the
  *named* values — are never visited by the loop.  That is the registered finding `deepcopy_named_group_aliased`.

  The loop stores `ret._toklist[i]` after each recursive call: that is `deepcopyLoop` below.  `deepcopyN` threads the
  heap through the calls in the same order (so every allocation gets the same id) and stores the rebuilt token list
  once, after the loop; the two are proved equal on every well-formed token tree (`deepcopyLoop_eq`,
  PPProofs/Props/C11Deep.lean), because a recursive call neither reads nor writes `ret._toklist`.

  Termination: Python recurses until the token tree ends (a cyclic token structure gives RecursionError).  The model
  takes `fuel`; `fuel = 0` is `copy()` (exact for an object without nested results).  The theorems are stated for
  objects whose token tree has depth ≤ fuel (`TIn … fuel o`), for every fuel.
-/
namespace PP.PRHeap
open PP.PyDict

variable {α : Type}

/-- the loop of results.py:593-605 over the *original's* token list: heap threaded left to right, the rebuilt list
    returned.  `rec` is the recursive `deepcopy` call. -/
def goToks (rec : Heap α → Nat → Heap α × Nat) : Heap α → List (HVal α) → Heap α × List (HVal α)
  | h, [] => (h, [])
  | h, .atom a :: ts => ((goToks rec h ts).1, .atom a :: (goToks rec h ts).2)
  | h, .ref n :: ts =>
    ((goToks rec (rec h n).1 ts).1, .ref (rec h n).2 :: (goToks rec (rec h n).1 ts).2)

/-- `ParseResults.deepcopy()` (results.py:587-606) with recursion depth bounded by `fuel`.
    `h.next` is the list cell `copy()` allocates for `ret._toklist`. -/
def deepcopyN : Nat → Heap α → Nat → Heap α × Nat
  | 0, h, o => copy h o
  | f + 1, h, o =>
    let g := goToks (deepcopyN f) (copy h o).1 (h.lists (h.objs o).lst)
    ({ g.1 with lists := upd g.1.lists h.next g.2 }, (copy h o).2)

/-- the loop of results.py:593-595 exactly as written: `ret._toklist[i] = obj.deepcopy()` is stored into the copy's
    list cell `L` right after each recursive call -/
def loopToks (rec : Heap α → Nat → Heap α × Nat) (L : Nat) : Heap α → Nat → List (HVal α) → Heap α
  | h, _, [] => h
  | h, i, .atom _ :: ts => loopToks rec L h (i + 1) ts
  | h, i, .ref n :: ts =>
    loopToks rec L { (rec h n).1 with lists := upd (rec h n).1.lists L (((rec h n).1.lists L).set i (.ref (rec h n).2)) }
      (i + 1) ts

/-- `ParseResults.deepcopy()` statement by statement (store after every recursive call).  Proved equal to
    `deepcopyN` on every well-formed token tree: `deepcopyLoop_eq` in PPProofs/Props/C11Deep.lean. -/
def deepcopyLoop : Nat → Heap α → Nat → Heap α × Nat
  | 0, h, o => copy h o
  | f + 1, h, o => (loopToks (deepcopyLoop f) h.next (copy h o).1 0 (h.lists (h.objs o).lst), (copy h o).2)

/-- serialisation of `as_list()` (results.py:541-544): brackets and scalars -/
inductive Tk (α : Type) where
  | lb
  | rb
  | a (x : α)
  deriving DecidableEq

/-- `as_list()` to observation depth `k` (results.py:541-544: `[res.as_list() if isinstance(res, ParseResults) else
    res for res in self._toklist]`), as a bracketed token string.  For a token tree of depth < k this is the whole
    nested list. -/
def asListN : Nat → Heap α → Nat → List (Tk α)
  | 0, _, _ => [.lb, .rb]
  | k + 1, h, o =>
    .lb :: ((h.lists (h.objs o).lst).flatMap (fun v => match v with
      | .atom a => [Tk.a a]
      | .ref n => asListN k h n)) ++ [.rb]

/-- the chain used for the any-depth witness of the finding: object `3j+2` (list cell `3j`, dict cell `3j+1`),
    `j = 0 … d`.  Object 2 is the flat group `['a']`; object `3j+2` (`j ≥ 1`) has the single token `<object 3j-1>`.
    Object 5 (the parent of the innermost group) binds the name `g` to the innermost group (occurrence cell `3d+3`):
    what `Group(Group(…Group(Group(Word('a'))('g'))…))` returns. -/
def chainHeap (d : Nat) : Heap String :=
  { lists := fun i => if i = 0 then [.atom "a"] else if i % 3 = 0 ∧ i < 3 * d + 3 then [.ref (i - 1)] else [],
    dicts := fun i => if i = 4 then [("g", 3 * d + 3)] else [],
    occs := fun i => if i = 3 * d + 3 then [(.ref 2, 0)] else [],
    objs := fun i => ⟨i - 2, i - 1, []⟩,
    next := 3 * d + 4 }

/-! ### `copy.deepcopy(r)` / `pickle.loads(pickle.dumps(r))` of nested results

  What the standard library does with the class's protocol (CPython `copy._reconstruct`, `copy._deepcopy_list`,
  `copy._deepcopy_dict`, `copyreg.__newobj__`; pickle's save_reduce/NEWOBJ/BUILD have the same order and the same
  memo discipline), for `x` a `ParseResults` not yet in the memo:

      args  = deepcopy(x.__getnewargs__(), memo)     -- results.py:774 `(self._toklist, self._name)`: every nested
                                                      --   ParseResults in the token list is copied (recursively, whole)
      y     = ParseResults.__new__(cls, *args)       -- results.py:161-180: `list(toklist)`, `dict()`
      memo[id(x)] = y
      state = deepcopy(x.__getstate__(), memo)       -- results.py:759-768: `self._toklist[:]` (all memo hits now) and
                                                      --   `self._tokdict.copy()`: every occurrence list is copied
                                                      --   (memoised by identity), and with it every NAMED value
      y.__setstate__(state)                          -- results.py:770-772: installs the state's list and dict

  The model keeps two memo tables (objects; occurrence-list cells).  The temporary lists/dicts that only the memo can
  reach (`deepcopy` of `x._toklist` itself, `self._toklist[:]`, `self._tokdict.copy()`) are not allocated; the list
  and dict made by `__new__` are (they become garbage at `__setstate__`, as in `copyModule`).  `_ParseResultsWithOffset`
  records (results.py:22-36) are immutable pairs here.  Out of fuel the model returns the object itself (never
  reached under the depth hypothesis `FD` of the theorem). -/

structure DS (α : Type) where
  h : Heap α
  mo : List (Nat × Nat)      -- memo: original object ↦ its copy
  mc : List (Nat × Nat)      -- memo: original occurrence-list cell ↦ its copy

def mget : List (Nat × Nat) → Nat → Option Nat
  | [], _ => none
  | (k, v) :: m, i => if k = i then some v else mget m i

/-- deep copy of a list of values (`copy._deepcopy_list`), left to right -/
def dvals (rec : DS α → Nat → DS α × Nat) : DS α → List (HVal α) → DS α × List (HVal α)
  | s, [] => (s, [])
  | s, .atom a :: ts => ((dvals rec s ts).1, .atom a :: (dvals rec s ts).2)
  | s, .ref n :: ts => ((dvals rec (rec s n).1 ts).1, .ref (rec s n).2 :: (dvals rec (rec s n).1 ts).2)

/-- deep copy of the records of an occurrence list -/
def doccs (rec : DS α → Nat → DS α × Nat) : DS α → List (HVal α × Int) → DS α × List (HVal α × Int)
  | s, [] => (s, [])
  | s, (.atom a, p) :: ts => ((doccs rec s ts).1, (.atom a, p) :: (doccs rec s ts).2)
  | s, (.ref n, p) :: ts => ((doccs rec (rec s n).1 ts).1, (.ref (rec s n).2, p) :: (doccs rec (rec s n).1 ts).2)

/-- deep copy of one occurrence list (a Python list: memoised by identity) -/
def deepOcc (rec : DS α → Nat → DS α × Nat) (s : DS α) (cell : Nat) : DS α × Nat :=
  match mget s.mc cell with
  | some c => (s, c)
  | none =>
    let r := doccs rec s (s.h.occs cell)
    ({ h := { r.1.h with occs := upd r.1.h.occs r.1.h.next r.2, next := r.1.h.next + 1 },
       mo := r.1.mo, mc := (cell, r.1.h.next) :: r.1.mc }, r.1.h.next)

/-- deep copy of a name table (`copy._deepcopy_dict`) -/
def ddict (rec : DS α → Nat → DS α × Nat) : DS α → PP.PyDict.Dict Nat → DS α × PP.PyDict.Dict Nat
  | s, [] => (s, [])
  | s, (k, cell) :: es =>
    ((ddict rec (deepOcc rec s cell).1 es).1, (k, (deepOcc rec s cell).2) :: (ddict rec (deepOcc rec s cell).1 es).2)

/-- `y = ParseResults.__new__(cls, toklist, name)` (results.py:161-180: `list(toklist)`, `dict()`), then
    `memo[id(x)] = y` -/
def newObj (s : DS α) (o : Nat) (toks : List (HVal α)) (all : List String) : DS α × Nat :=
  ({ h := { s.h with lists := upd s.h.lists s.h.next toks, dicts := upd s.h.dicts (s.h.next + 1) [],
                     objs := upd s.h.objs (s.h.next + 2) ⟨s.h.next, s.h.next + 1, all⟩, next := s.h.next + 3 },
     mo := (o, s.h.next + 2) :: s.mo, mc := s.mc }, s.h.next + 2)

/-- `y.__setstate__(state)` (results.py:770-772) with the deep-copied state's list and dict (two new cells) -/
def setState (s : DS α) (c : Nat) (toks : List (HVal α)) (dict : Dict Nat) (all : List String) : DS α :=
  { h := { s.h with lists := upd s.h.lists s.h.next toks, dicts := upd s.h.dicts (s.h.next + 1) dict,
                    objs := upd s.h.objs c ⟨s.h.next, s.h.next + 1, all⟩, next := s.h.next + 2 },
    mo := s.mo, mc := s.mc }

/-- `copy.deepcopy` of object `o` with memo (see the section comment) -/
def deepObjN : Nat → DS α → Nat → DS α × Nat
  | 0, s, o => (s, o)
  | f + 1, s, o =>
    match mget s.mo o with
    | some c => (s, c)
    | none =>
      -- args = deepcopy((self._toklist, self._name))
      let a := dvals (deepObjN f) s (s.h.lists (s.h.objs o).lst)
      -- y = __new__(cls, *args); memo[id(x)] = y
      let y := newObj a.1 o a.2 (s.h.objs o).all
      -- state = deepcopy(x.__getstate__())
      let t := dvals (deepObjN f) y.1 (y.1.h.lists (s.h.objs o).lst)
      let d := ddict (deepObjN f) t.1 (t.1.h.dicts (s.h.objs o).dct)
      -- y.__setstate__(state)
      (setState d.1 y.2 t.2 d.2 (s.h.objs o).all, y.2)

/-- `copy.deepcopy(o)` / pickle round trip of `o` with a fresh memo -/
def copyModuleDeep (f : Nat) (h : Heap α) (o : Nat) : Heap α × Nat :=
  ((deepObjN f ⟨h, [], []⟩ o).1.h, (deepObjN f ⟨h, [], []⟩ o).2)

/-- serialisation of BOTH views, nested: brackets, scalars, names, positions -/
inductive Dk (α : Type) where
  | lb
  | rb
  | a (x : α)
  | key (s : String)
  | pos (p : Int)
  deriving DecidableEq

/-- everything an object shows, to observation depth `k`: its tokens (nested results expanded), then its name table in
    order — every name with all its occurrences (position, value; nested results expanded) — then its list-all
    names.  `as_list`, `as_dict`, `dump`, `keys`, `len`, `[name]` are functions of this. -/
def dumpN : Nat → Heap α → Nat → List (Dk α)
  | 0, _, _ => [.lb, .rb]
  | k + 1, h, o =>
    .lb :: (((h.lists (h.objs o).lst).flatMap (fun v => match v with
      | .atom a => [Dk.a a]
      | .ref n => dumpN k h n)) ++
    ((h.dicts (h.objs o).dct).flatMap (fun e => Dk.key e.1 :: (h.occs e.2).flatMap (fun vp => Dk.pos vp.2 ::
      (match vp.1 with
        | .atom a => [Dk.a a]
        | .ref n => dumpN k h n)))) ++
    ((h.objs o).all.map Dk.key ++ [.rb]))

/-- the objects met by following token 0, `k` times, from `o` (with `o` itself first) -/
def tokPath (h : Heap α) : Nat → Nat → List Nat
  | 0, o => [o]
  | k + 1, o => o :: (match h.lists (h.objs o).lst with
      | .ref n :: _ => tokPath h k n
      | _ => [])

/-- the sharing pattern of `r.deepcopy()` on the chain of depth `d` (executable; compared with `is`-identity probes
    on the real class by harness/props/c11.py, stream `deep-sharing`):
    for every level `0..d` along token 0: is the copy's group the original's group? (expected: never);
    then: is `g` of the copy's level `d-1` group the ORIGINAL's innermost group / the COPY's innermost group;
    then: does `as_list()` of the original change when `'z'` is appended to the copy's innermost group reached through
    the tokens / reached through the name `g`. -/
def deepShareOf (d : Nat) (r : Heap String × Nat) : List Bool :=
  let h := chainHeap d
  let o := 3 * d + 2
  let po := tokPath h d o
  let pc := tokPath r.1 d r.2
  let same := List.zipWith (fun a b => decide (a = b)) po pc
  let x' := pc.getD (d - 1) 0
  let gv : Option Nat := match (view r.1 x').2.1 with
    | (_, .ref n :: _) :: _ => some n
    | _ => none
  let before := asListN (d + 2) r.1 o
  let viaTok := match pc.getLast? with
    | some n => decide (asListN (d + 2) (mutate r.1 n (.append (.atom "z"))) o ≠ before)
    | none => false
  let viaName := match gv with
    | some n => decide (asListN (d + 2) (mutate r.1 n (.append (.atom "z"))) o ≠ before)
    | none => false
  same ++ [decide (gv = po.getLast? ∧ gv.isSome), decide (gv = pc.getLast? ∧ gv.isSome), viaTok, viaName,
           decide (asListN (d + 2) r.1 r.2 = before)]

/-- `kind` = "deepcopy" (`ParseResults.deepcopy()`, `deepcopyN`) or "copy.deepcopy" / "pickle" (`copyModuleDeep`);
    the last entry: the copy's `as_list()` is the original's -/
def deepShare (kind : String) (d : Nat) : Option (List Bool) :=
  if kind = "deepcopy" then some (deepShareOf d (deepcopyN d (chainHeap d) (3 * d + 2)))
  else if kind = "copy.deepcopy" ∨ kind = "pickle" then
    some (deepShareOf d (copyModuleDeep (d + 2) (chainHeap d) (3 * d + 2)))
  else none

/-! ### sharing pattern on arbitrary nested shapes (executable; stream `tree-sharing` of harness/props/c11.py)

  A shape is built into a heap the way the harness builds it on the real class: `r = ParseResults([kid, …])`, then
  `r[name] = kid` for every named kid group (results.py:224-261: a new occurrence list with position 0). -/

/-- a shape: a scalar, or a group with an optional name (in its parent) and kids -/
inductive Shape where
  | s (a : String)
  | g (name : String) (kids : List Shape)

def allocKids (rec : Heap String → Shape → Heap String × HVal String × String) :
    Heap String → List Shape → Heap String × List (HVal String × String)
  | h, [] => (h, [])
  | h, k :: ks => ((allocKids rec (rec h k).1 ks).1, (rec h k).2 :: (allocKids rec (rec h k).1 ks).2)

def allocNames : Heap String → List (HVal String × String) → Heap String × Dict Nat
  | h, [] => (h, [])
  | h, (v, nm) :: ks =>
    if nm = "" then allocNames h ks
    else
      let h1 : Heap String := { h with occs := upd h.occs h.next [(v, 0)], next := h.next + 1 }
      ((allocNames h1 ks).1, PP.PyDict.dset (allocNames h1 ks).2 nm h.next)

/-- returns the heap, the value (scalar or reference to the new object) and the name the parent binds it to -/
def allocShape : Nat → Heap String → Shape → Heap String × HVal String × String
  | 0, h, _ => (h, .atom "?", "")
  | _ + 1, h, .s a => (h, .atom a, "")
  | f + 1, h, .g name kids =>
    let ks := allocKids (allocShape f) h kids
    let ns := allocNames ks.1 ks.2.reverse
    let l := ns.1.next
    ({ ns.1 with lists := upd ns.1.lists l (ks.2.map (·.1)), dicts := upd ns.1.dicts (l + 1) ns.2,
                 objs := upd ns.1.objs (l + 2) ⟨l, l + 1, []⟩, next := l + 3 }, .ref (l + 2), name)

def pathsToks (rec : Nat → String → List (String × Nat)) (p : String) : Nat → List (HVal String) → List (String × Nat)
  | _, [] => []
  | i, .atom _ :: ts => pathsToks rec p (i + 1) ts
  | i, .ref n :: ts => rec n (p ++ "/" ++ toString i) ++ pathsToks rec p (i + 1) ts

def pathsNames (rec : Nat → String → List (String × Nat)) (h : Heap String) (p : String) :
    Dict Nat → List (String × Nat)
  | [] => []
  | (nm, cell) :: es =>
    (match (h.occs cell).getLast? with
      | some (.ref n, _) => rec n (p ++ "/" ++ nm)
      | _ => []) ++ pathsNames rec h p es

/-- every access path (token index / name steps) to a nested group, depth first, tokens before names -/
def paths : Nat → Heap String → Nat → String → List (String × Nat)
  | 0, _, o, p => [(p, o)]
  | f + 1, h, o, p =>
    (p, o) :: (pathsToks (paths f h) p 0 (h.lists (h.objs o).lst) ++
               pathsNames (paths f h) h p (h.dicts (h.objs o).dct))

def firstIdx (ids : List Nat) (x : Nat) : Nat := (ids.findIdx? (· == x)).getD 0

/-- for every access path of the copy: is the object the original's object at the same path; and the index of the
    first path that leads to the same object of the copy (the identity classes among the copy's paths) -/
def treeShare (kind : String) (sh : Shape) : Option (List Bool × List Nat) :=
  let h0 : Heap String := { lists := fun _ => [], dicts := fun _ => [], occs := fun _ => [],
                            objs := fun _ => ⟨0, 0, []⟩, next := 0 }
  match allocShape 12 h0 sh with
  | (h, .ref o, _) =>
    let mk : Option (Heap String × Nat) :=
      if kind = "deepcopy" then some (deepcopyN 12 h o)
      else if kind = "copy.deepcopy" ∨ kind = "pickle" then some (copyModuleDeep 14 h o)
      else none
    mk.map (fun r =>
      let po := (paths 12 h o "").map (·.2)
      let pc := (paths 12 r.1 r.2 "").map (·.2)
      (List.zipWith (fun a b => decide (a = b)) po pc, pc.map (firstIdx pc)))
  | _ => none

end PP.PRHeap
