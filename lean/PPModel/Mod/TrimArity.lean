/-
  Model of pyparsing/core.py `_trim_arity` (core.py:257-324), of the action loop of
  `ParserElement._parseNoCache` (core.py:870-910), of `condition_as_parse_action` (core.py:327-352)
  and of the exception handling at the end of `parse_string` (core.py:1219-1233).

  The user's callable is abstract:
    * `accepts k`  : do `k` positional arguments bind to its signature?  If not, CPython raises a
                     `TypeError` *at the call line*, before any frame of the callable exists.
    * `body s k`   : what a run of the body with `k` arguments does, from callable-state `s`:
                     return a value, or raise an exception of some kind, together with the traceback
                     entries *below* the wrapper's own frame (outermost first).  For a Python-level
                     callable that list starts with the frame of the body; for a C-level callable
                     (no Python frame) raising by itself it is empty.

  CPython traceback mechanics are an assumption of this model (trusted base, checked differentially).
-/
namespace PP.TrimArity

/-- a traceback entry projected on `frame_summary[:2]` = (filename, lineno); files are numbered -/
abbrev Frame := Nat × Nat

/-- exception classes the code distinguishes -/
inductive Exc where
  | typeError
  | indexError
  | parseExc        -- ParseException
  | parseFatal      -- ParseFatalException (and ParseSyntaxException)
  | other (tag : Nat)  -- ValueError, KeyError, ...: nothing in the code names them
  deriving DecidableEq, Repr, Inhabited

/-- the result of one run of the callable's body -/
inductive BodyRes (β : Type) where
  | ret (v : β)
  | raise (e : Exc) (frames : List Frame)
  deriving Repr, Inhabited

structure Callable (σ β : Type) where
  accepts : Nat → Bool
  body : σ → Nat → BodyRes β × σ

/-- what happened at the call `func(*args[limit:])` -/
inductive Ev where
  | probe (k : Nat)   -- `k` arguments did not bind; body not entered
  | run (k : Nat)     -- body executed with `k` arguments
  deriving DecidableEq, Repr, Inhabited

/-- `func(*a)` with `len(a) = k`.  A binding failure *is* a TypeError with no frame below the caller. -/
def callFn {σ β} (f : Callable σ β) (s : σ) (k : Nat) : BodyRes β × σ × Ev :=
  if f.accepts k then
    let r := f.body s k
    (r.1, r.2, .run k)
  else (.raise .typeError [], s, .probe k)

/-- facts of the live source the wrapper depends on -/
structure Cfg where
  synth : Frame      -- `pa_call_line_synth` = (file, line of extract_stack + LINE_DIFF)   core.py:274-275
  callSite : Frame   -- (file, line) of `ret = func(*args[limit:])` inside `wrapper`       core.py:289
  maxLimit : Nat     -- `max_limit=3`                                                      core.py:257
  deriving Repr

/-- the closure variables `found_arity`, `limit` (core.py:264-265) -/
structure WState where
  found : Bool
  limit : Nat
  deriving DecidableEq, Repr, Inhabited

def WState.fresh : WState := ⟨false, 0⟩

/-- what leaves `wrapper(*args)` -/
inductive WOut (β : Type) where
  | ret (v : β)
  | raise (e : Exc)      -- the callable's exception object itself, re-raised / passing through
  | wrappedIndex         -- `_ParseActionIndexError(msg, ie)`                                core.py:311-315
  deriving Repr, Inhabited

/-- core.py:297-302
    `frames = traceback.extract_tb(tb, limit=2); frame_summary = frames[-1];`
    `trim_arity_type_error = [frame_summary[:2]][-1][:2] == pa_call_line_synth`.
    The traceback of an exception caught in `wrapper` starts with `wrapper`'s own frame, positioned
    at the call line. -/
def isArityError (cfg : Cfg) (frames : List Frame) : Bool :=
  match ((cfg.callSite :: frames).take 2).getLast? with
  | some fr => fr == cfg.synth
  | none => false

structure WRes (σ β : Type) where
  out : WOut β
  st : WState
  cs : σ
  evs : List Ev
  /-- traceback entries *below* `wrapper`'s own frame on the exception that leaves it: those of the failing call
      for a re-raised exception (`raise` keeps the traceback, `wrapper`'s own entry stays at the call line);
      none for a returned value and for `_ParseActionIndexError` (created here, `.with_traceback(None)`) -/
  fr : List Frame

/-- the `while 1:` loop of `wrapper` (core.py:287-315), entered with `found_arity == False`.
    `n` = number of arguments `wrapper` was called with; `args[limit:]` has `n - limit` elements
    (Python slicing: empty when `limit > n`). -/
def probeLoop {σ β} (cfg : Cfg) (f : Callable σ β) (n : Nat) (limit : Nat) (s : σ) (evs : List Ev) :
    WRes σ β :=
  match callFn f s (n - limit) with
  | (.ret v, s', ev) =>
      -- ret = func(*args[limit:]); found_arity = True; return ret           core.py:289-291
      ⟨.ret v, ⟨true, limit⟩, s', evs ++ [ev], []⟩
  | (.raise .typeError fr, s', ev) =>
      -- except TypeError: (found_arity is False here)                          core.py:292-310
      if isArityError cfg fr && decide (limit < cfg.maxLimit) then
        probeLoop cfg f n (limit + 1) s' (evs ++ [ev])
      else ⟨.raise .typeError, ⟨false, limit⟩, s', evs ++ [ev], fr⟩
  | (.raise .indexError _, s', ev) =>
      -- except IndexError as ie: raise _ParseActionIndexError(...)            core.py:311-315
      ⟨.wrappedIndex, ⟨false, limit⟩, s', evs ++ [ev], []⟩
  | (.raise e fr, s', ev) => ⟨.raise e, ⟨false, limit⟩, s', evs ++ [ev], fr⟩
termination_by cfg.maxLimit - limit
decreasing_by simp_all; omega

/-- one invocation `wrapper(*args)` with `len(args) = n` (core.py:277-315) -/
def wrapper {σ β} (cfg : Cfg) (f : Callable σ β) (st : WState) (s : σ) (n : Nat) : WRes σ β :=
  if st.found then
    -- if found_arity: try: return func(*args[limit:])
    --                 except IndexError as ie: raise _ParseActionIndexError(...)        core.py:279-287
    match callFn f s (n - st.limit) with
    | (.ret v, s', ev) => ⟨.ret v, st, s', [ev], []⟩
    | (.raise .indexError _, s', ev) => ⟨.wrappedIndex, st, s', [ev], []⟩
    | (.raise e fr, s', ev) => ⟨.raise e, st, s', [ev], fr⟩
  else probeLoop cfg f n st.limit s []

/-! ### the caller: action loop of `_parseNoCache`, conditions, `parse_string` -/

/-- return value of a parse action as the action loop looks at it -/
inductive RetVal where
  | none               -- `None`
  | same               -- the very `ret_tokens` object it was given
  | value (v : Nat)    -- anything else (identified by a number)
  deriving DecidableEq, Repr, Inhabited

/-- tokens of the element: the matched ones, or replaced by value `v` -/
inductive Toks where
  | matched
  | replaced (v : Nat)
  deriving DecidableEq, Repr, Inhabited

/-- what the element's `_parseNoCache` does after running one action -/
inductive ElemOut where
  | ok (t : Toks)
  | parseFail              -- a ParseException leaves the element: just this element fails
  | fatal                  -- ParseFatalException
  | escapes (e : Exc)      -- any other exception object, unchanged
  | escapesWrapped         -- _ParseActionIndexError in flight
  deriving DecidableEq, Repr, Inhabited

/-- core.py:896-910, one iteration of `for fn in self.parseAction` -/
def actionStep (cur : Toks) : WOut RetVal → ElemOut
  | .ret .none => .ok cur                       -- `tokens is not None` fails: keep
  | .ret .same => .ok cur                       -- `tokens is not ret_tokens` fails: keep
  | .ret (.value v) => .ok (.replaced v)        -- ret_tokens = ParseResults(tokens, ...)
  | .raise .indexError => .parseFail            -- except IndexError: raise ParseException(...) from ...
  | .raise .parseExc => .parseFail
  | .raise .parseFatal => .fatal
  | .raise e => .escapes e
  | .wrappedIndex => .escapesWrapped            -- not an IndexError subclass: passes through

/-- `condition_as_parse_action` (core.py:343-352): `pa` calls the trimmed `fn`; `pa` itself is appended
    to `parseAction` without a second `_trim_arity`.  `truthy` = `bool(fn(s,l,t))`. -/
def conditionStep (cur : Toks) (fatal : Bool) : WOut Bool → ElemOut
  | .ret true => .ok cur                                        -- pa returns None
  | .ret false => if fatal then .fatal else .parseFail          -- raise exc_type(s, l, msg)
  | .raise .indexError => .parseFail                            -- leaves `pa`, caught by the action loop
  | .raise .parseExc => .parseFail
  | .raise .parseFatal => .fatal
  | .raise e => .escapes e
  | .wrappedIndex => .escapesWrapped

/-- what `parse_string` gives its caller for a grammar consisting of that one element -/
inductive TopOut where
  | returns (t : Toks)
  | raises (e : Exc)
  deriving DecidableEq, Repr, Inhabited

/-- core.py:1219-1233 -/
def parseStringOut : ElemOut → TopOut
  | .ok t => .returns t
  | .parseFail => .raises .parseExc          -- except ParseBaseException: raise exc.with_traceback(None)
  | .fatal => .raises .parseFatal
  | .escapes e => .raises e                   -- no handler
  | .escapesWrapped => .raises .indexError    -- except _ParseActionIndexError as pa_exc: raise pa_exc.exc

/-- run the actions of one element in order (core.py:896: `for fn in self.parseAction`), each with its own
    wrapper state; stops at the first exception.  `acts` pairs a callable with its wrapper state. -/
def runActions {σ} (cfg : Cfg) (n : Nat) :
    List (Callable σ RetVal × WState × σ) → Toks → ElemOut × List (WState × σ) × List (List Ev)
  | [], cur => (.ok cur, [], [])
  | (f, st, s) :: rest, cur =>
      let r := wrapper cfg f st s n
      match actionStep cur r.out with
      | .ok t =>
          let (o, sts, evs) := runActions cfg n rest t
          (o, (r.st, r.cs) :: sts, r.evs :: evs)
      | o => (o, (r.st, r.cs) :: rest.map (fun x => (x.2.1, x.2.2)), [r.evs])

/-! ### nested wrappers: an action whose body runs another wrapped action

  * the body calls `inner_expr.parse_string(...)` and `inner_expr` carries a parse action / condition;
  * `trace_parse_action(g)`  (core.py: `z(*paArgs)` calls `f = _trim_arity(g)`);
  * `condition_as_parse_action(g)` given to `set_parse_action` (`pa(s, l, t)` calls `fn = _trim_arity(g)`);
  * `OnlyOnce(g)` (actions.py: `__call__(self, s, l, t)` calls `self.callable = _trim_arity(g)`).

  An exception leaving the *inner* wrapper reaches the outer wrapper with the traceback
  `outer wrapper @ call line, body frame, glue frames …, inner wrapper @ call line, frames below it`.
  When the inner callable does not bind for any argument count the TypeError is raised *at the inner wrapper's
  call line*: the innermost traceback entry then equals `pa_call_line_synth` although the error has nothing to do
  with the outer action's arity — the reason why `isArityError` must look at the second entry only. -/

/-- the outer callable, described by what its body does around the nested call -/
structure Nest (τ γ β : Type) where
  accepts : Nat → Bool               -- the outer callable's own signature
  bodyFrame : Frame                  -- the frame of its body (positioned at the nested call)
  glue : List Frame                  -- frames between the body and the inner wrapper (parse_string, _parseNoCache, helpers)
  inner : Callable τ γ               -- the callable behind the inner `_trim_arity` wrapper
  /-- called with `k` arguments the body calls the inner wrapper with `innerArgs k` arguments; `none`: it raises
      `early k` in its own frame before getting there (`s, l, t = paArgs[-3:]` in `z`) -/
  innerArgs : Nat → Option Nat
  early : Nat → Exc
  /-- what the body does once the nested call has returned `v`: return something or raise in its own frame -/
  after : γ → β ⊕ Exc

/-- state of the outer callable: the inner wrapper's closure variables, the inner callable's state and the log of
    what happened at the inner wrapper (one list per invocation of it) -/
abbrev NState (τ : Type) := WState × τ × List (List Ev)

/-- the outer callable.  A `_ParseActionIndexError` in flight is treated as the `IndexError` it carries (the outer
    wrapper lets it pass, `parse_string` unwraps it: same class at the top either way). -/
def Nest.toCallable {τ γ β} (cfg : Cfg) (N : Nest τ γ β) : Callable (NState τ) β :=
  ⟨N.accepts, fun s k =>
    match N.innerArgs k with
    | none => (.raise (N.early k) [N.bodyFrame], s)
    | some m =>
      let r := wrapper cfg N.inner s.1 s.2.1 m
      let s' : NState τ := (r.st, r.cs, s.2.2 ++ [r.evs])
      match r.out with
      | .ret v =>
          (match N.after v with
           | .inl b => .ret b
           | .inr e => .raise e [N.bodyFrame], s')
      | .raise e => (.raise e (N.bodyFrame :: (N.glue ++ cfg.callSite :: r.fr)), s')
      | .wrappedIndex => (.raise .indexError (N.bodyFrame :: N.glue), s')⟩

end PP.TrimArity
