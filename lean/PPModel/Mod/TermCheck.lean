import PPModel.Mod.Sugar
/-
  C06 termination — the executable hypotheses of `entry_points_terminate_depth` / `acyclic_terminates_checked`
  (PPProofs/Props/C06Term.lean), as core-Lean definitions so that the driver can evaluate them on every node table the
  harness extracts from the live objects (entry `termcheck` of the `pp` command):
    `depthOk g k id`   the sub-table reachable from `id` is acyclic, of height < k, and closed;
    `consumes g k i`   syntactic "cannot match the empty string";
    `advOk g k`        every ignorable and every repetition body `consumes`.
  These are the very definitions the theorems are stated about (the proof files import this module).
-/
namespace PP.Parse

/-- `consumes g k i`: element `i` of the table cannot match the empty string, seen by a syntactic analysis of depth `k`:
    a token leaf (Literal, Word, CharsNotIn, non-empty CaselessLiteral / Keyword); an `And` with such an operand (not an
    `_ErrorStop`); a `MatchFirst` / `Or` all of whose alternatives are such; `OneOrMore` / Group / Suppress / Combine /
    Located / plain enhancement / bound Forward of such.
    (Sufficient, not necessary: `SkipTo`, lookaheads, anchors, `Opt`, `ZeroOrMore` … are answered `false`.) -/
def consumes (g : Grammar) : Nat → Nat → Bool
  | 0, _ => false
  | k+1, i =>
    match g[i]? with
    | none => false
    | some nd =>
      match nd.kind with
      | .lit _ => true
      | .lit1 _ => true
      | .word _ _ _ _ _ _ _ => true
      | .charsNotIn _ _ _ => true
      | .caselessLit mU _ => !mU.isEmpty
      | .keyword m _ _ => !m.isEmpty
      | .and es => es.any (consumes g k)
      | .matchFirst es => es.all (consumes g k)
      | .or es => es.all (consumes g k)
      | .many x _ true => consumes g k x
      | .located e => consumes g k e
      | .group e => consumes g k e
      | .suppress e => consumes g k e
      | .combine e _ => consumes g k e
      | .enhance e => consumes g k e
      | .forward (some e) => consumes g k e
      | _ => false

/-- the same with the rank computed rather than supplied: `depthOk g k id` — the sub-table reachable from `id` is a
    tree-like (acyclic) structure of height `< k` inside the table -/
def depthOk (g : Grammar) : Nat → Nat → Bool
  | 0, _ => false
  | k+1, i =>
    match g[i]? with
    | none => false
    | some nd => nd.children.all (depthOk g k)

/-- **executable form of the side condition**: every ignorable and every repetition body of the table passes the
    syntactic test `consumes` (Lemmas/ParseStrict.lean: token leaves, `And`s containing one, `MatchFirst`s / `Or`s of
    such, and `OneOrMore` / Group / Suppress / Combine / Located / Forward wrappers of such) at analysis depth `k` -/
def advOk (g : Grammar) (k : Nat) : Bool :=
  g.all fun nd =>
    nd.ignore.all (consumes g k) &&
    (match nd.kind with
     | .many x _ _ => consumes g k x
     | _ => true)

/-- `And`'s test for `_ErrorStop` operands, as `parseImpl` passes it -/
def stopFn (g : Grammar) : Nat → Bool := fun i =>
  match g[i]? with
  | some n => (match n.kind with
    | .errorStop => true
    | _ => false)
  | none => false

/-- operands of an `And` (after the first) that are entered without prior consumption -/
def andLeft (g : Grammar) (k : Nat) : List Nat → List Nat
  | [] => []
  | e :: es => if stopFn g e then andLeft g k es else if consumes g k e then [e] else e :: andLeft g k es

/-- the references of a node that can be entered at the node's own location -/
def leftChildren (g : Grammar) (k : Nat) (nd : Node) : List Nat :=
  (match nd.kind with
   | .and (e0 :: rest) => e0 :: (if consumes g k e0 then [] else andLeft g k rest)
   | kd => kd.children) ++ nd.ignore

/-- the left-reference structure below `i` is well-founded of height `< d` (computed rank for recursive tables) -/
def leftDepthOk (g : Grammar) (k : Nat) : Nat → Nat → Bool
  | 0, _ => false
  | d+1, i =>
    match g[i]? with
    | none => false
    | some nd => (leftChildren g k nd).all (leftDepthOk g k d)

/-- **the test for recursive tables**: closed; from every node the left references are well-founded of height `< D`
    (so every cycle passes through an `And` operand that `consumes`); a StringStart carries no ignorables -/
def recTableOk (g : Grammar) (k D : Nat) : Bool :=
  (List.range g.length).all fun i =>
    match g[i]? with
    | none => true
    | some nd =>
      nd.children.all (fun c => decide (c < g.length)) && leftDepthOk g k D i &&
      (match nd.kind with
       | .stringStart => nd.ignore.isEmpty
       | _ => true)

end PP.Parse
