/-
  Mini-model of *when parse actions fire*: the `do_actions` / `callDuringTry` gate of
  `ParserElement._parseNoCache` (core.py:870) and the constructs that match "on trial":

    Or first pass            core.py:4286-4311   e.try_parse(instring, loc, raise_fatal=True)   (do_actions=False)
    Or second pass           core.py:4313-4347
    Each first pass          core.py:4629-4651   e.try_parse(instring, tmpLoc, raise_fatal=True)
    Each final pass          core.py:4675-4678
    SkipTo scan / fail_on    core.py:5519-5543   failOn.canParseNext(...), expr._parse(..., do_actions=False, callPreParse=False)
    stop_on                  core.py:5145-5160   self.not_ender.try_parse(instring, loc)
    NotAny / FollowedBy      core.py:5105, 4941  (pass the caller's do_actions through)
    Opt, ZeroOrMore, And, MatchFirst

  A self-contained expression language; tokens are not modelled, only success/failure, the end location,
  and the trace of fired actions `(action id, loc argument)`.  No packrat, no ignore expressions.
-/
namespace PP.ActionGate

/-- what an action does when it is called -/
inductive AKind where
  | keep    -- returns None
  | fail    -- raises ParseException
  | fatal   -- raises ParseFatalException
  | err     -- raises something that is not a ParseBaseException (propagates out of everything)
  deriving DecidableEq, Repr, Inhabited

structure Act where
  id : Nat
  kind : AKind
  deriving DecidableEq, Repr, Inhabited

inductive E where
  | lit (c : Char)                                        -- Literal(c)
  | act (as : List Act) (cdt : Bool) (e : E)              -- e.add_parse_action(*as, call_during_try=cdt)
  | seq (a b : E)                                         -- And([a, b])
  | alt (a b : E)                                         -- MatchFirst([a, b])
  | or (es : List E)                                      -- Or(es)
  | each (es : List E)                                    -- Each(es), all elements required
  | skipTo (t : E) (failOn : Option E) (incl : Bool)      -- SkipTo(t, include=incl, fail_on=failOn)
  | many (e : E) (stopOn : Option E)                      -- OneOrMore(e, stop_on=stopOn)
  | star (e : E) (stopOn : Option E)                      -- ZeroOrMore(e, stop_on=stopOn)
  | opt (e : E)                                           -- Opt(e)
  | followedBy (e : E)                                    -- FollowedBy(e)
  | notAny (e : E)                                        -- NotAny(e)
  deriving Repr, Inhabited

/-- result of a `_parse` call -/
inductive R where
  | ok (loc : Nat)
  | fail          -- ParseException
  | fatal         -- ParseFatalException
  | err           -- other exception
  | hang          -- the real code would not terminate (zero-width repetition) / fuel exhausted
  deriving DecidableEq, Repr, Inhabited

/-- fired action: (action id, `loc` argument) -/
abbrev Ev := Nat × Nat
abbrev PR := R × List Ev
/-- `expr._parse(instring, loc, do_actions, callPreParse)` -/
abbrev P := E → Nat → Bool → Bool → PR

def isWs (c : Char) : Bool := c == ' ' || c == '\t' || c == '\n' || c == '\r'

/-- core.py:803-808: `while loc < instrlen and instring[loc] in white_chars: loc += 1` -/
def skipWsFrom : List Char → Nat → Nat
  | [], loc => loc
  | c :: cs, loc => if isWs c then skipWsFrom cs (loc + 1) else loc

def skipWs (s : List Char) (loc : Nat) : Nat := skipWsFrom (s.drop loc) loc

mutual
/-- the element's `skipWhitespace` attribute as the constructors compute it -/
def skips : E → Bool
  | .lit _ => true
  | .act _ _ e => skips e
  | .seq a _ => skips a                       -- core.py:4131
  | .alt a b => skips a && skips b            -- core.py:4421
  | .or es => skipsAll es                     -- core.py:4263
  | .each _ => true                           -- core.py:4573
  | .skipTo t _ _ => skips t                  -- core.py:4706 (ParseElementEnhance)
  | .many e _ => skips e
  | .star e _ => skips e
  | .opt e => skips e
  | .followedBy e => skips e
  | .notAny _ => false                        -- core.py:5100
def skipsAll : List E → Bool
  | [] => true
  | e :: es => skips e && skipsAll es
end

/-- the element's `callPreparse` attribute: `False` for ParseExpression (core.py:3929) except And (core.py:4136);
    ParseElementEnhance copies it from its expression (core.py:4708) -/
def callsPre : E → Bool
  | .lit _ => true
  | .act _ _ e => callsPre e
  | .seq _ _ => true
  | .alt _ _ => false
  | .or _ => false
  | .each _ => false
  | .skipTo t _ _ => callsPre t
  | .many e _ => callsPre e
  | .star e _ => callsPre e
  | .opt e => callsPre e
  | .followedBy e => callsPre e
  | .notAny e => callsPre e

/-- `pre_loc` of `_parseNoCache` (core.py:852-855): `if callPreParse and self.callPreparse: self.preParse(...)`,
    and `preParse` skips only when `self.skipWhitespace` (core.py:803) -/
def preLoc (s : List Char) (e : E) (loc : Nat) (cp : Bool) : Nat :=
  if cp && callsPre e && skips e then skipWs s loc else loc

/-- core.py:896-910 with logging actions: each call appends `(id, tokens_start)`; the first exception stops -/
def fireActs (start endLoc : Nat) : List Act → PR
  | [] => (.ok endLoc, [])
  | a :: as =>
      match a.kind with
      | .keep => let r := fireActs start endLoc as; (r.1, (a.id, start) :: r.2)
      | .fail => (.fail, [(a.id, start)])
      | .fatal => (.fatal, [(a.id, start)])
      | .err => (.err, [(a.id, start)])

/-- `e.try_parse(instring, loc, raise_fatal=rf)` (core.py:920-933), always with `do_actions=False` here -/
def tryParse (p : P) (e : E) (loc : Nat) (raiseFatal : Bool) : PR :=
  let r := p e loc false true
  match r.1 with
  | .fatal => if raiseFatal then r else (.fail, r.2)
  | _ => r

/-- `e.can_parse_next(instring, loc, do_actions=da)` (core.py:935-941): `some b` or an escaping exception -/
def canParseNext (p : P) (e : E) (loc : Nat) (da : Bool) : (Option Bool × R) × List Ev :=
  let r := p e loc da true
  match r.1 with
  | .ok _ => ((some true, .fail), r.2)
  | .fail => ((some false, .fail), r.2)
  | .fatal => ((some false, .fail), r.2)          -- try_parse turned it into a ParseException
  | x => ((none, x), r.2)

/-! ### Or -/

/-- stable descending insertion: Python's `matches.sort(key=itemgetter(0), reverse=True)` -/
def insertDesc (x : Nat × E) : List (Nat × E) → List (Nat × E)
  | [] => [x]
  | y :: ys => if y.1 > x.1 then y :: insertDesc x ys else x :: y :: ys

def sortDesc : List (Nat × E) → List (Nat × E)
  | [] => []
  | x :: xs => insertDesc x (sortDesc xs)

structure OrPass where
  ms : List (Nat × E)
  fatals : Bool
  abort : Option R      -- an escaping non-parse exception / hang
  tr : List Ev

/-- first pass, core.py:4286-4311 -/
def orFirst (p : P) (loc : Nat) : List E → OrPass
  | [] => ⟨[], false, none, []⟩
  | e :: es =>
      let r := tryParse p e loc true
      match r.1 with
      | .ok l2 => let q := orFirst p loc es; ⟨(l2, e) :: q.ms, q.fatals, q.abort, r.2 ++ q.tr⟩
      | .fail => let q := orFirst p loc es; ⟨q.ms, q.fatals, q.abort, r.2 ++ q.tr⟩
      | .fatal => let q := orFirst p loc es; ⟨q.ms, true, q.abort, r.2 ++ q.tr⟩
      | x => ⟨[], false, some x, r.2⟩

/-- second pass with `do_actions=True`, core.py:4324-4344; `longest = (-1, None)` is `none` -/
def orSecond (p : P) (loc : Nat) : List (Nat × E) → Option Nat → (Option R) × List Ev
  | [], longest => (longest.map .ok, [])
  | (l1, e1) :: rest, longest =>
      if (match longest with | some l => decide (l1 ≤ l) | none => false) then (longest.map .ok, [])
      else
        let r := p e1 loc true true
        match r.1 with
        | .fail => let q := orSecond p loc rest longest; (q.1, r.2 ++ q.2)
        | .ok l2 =>
            if l2 ≥ l1 then (some (.ok l2), r.2)
            else
              let longest' := match longest with
                | some l => if l2 > l then some l2 else some l
                | none => some l2
              let q := orSecond p loc rest longest'; (q.1, r.2 ++ q.2)
        | x => (some x, r.2)

def orParse (p : P) (es : List E) (loc : Nat) (da : Bool) : PR :=
  let f := orFirst p loc es
  match f.abort with
  | some x => (x, f.tr)
  | none =>
    let ms := sortDesc f.ms
    match ms with
    | (_, best) :: _ =>
        if !da then
          let r := p best loc false true          -- core.py:4318-4322
          (r.1, f.tr ++ r.2)
        else
          match orSecond p loc ms none with
          | (some r, tr) => (r, f.tr ++ tr)
          | (none, tr) => (if f.fatals then .fatal else .fail, f.tr ++ tr)
    | [] => (if f.fatals then .fatal else .fail, f.tr)

/-! ### Each (all required) -/

structure EachPass where
  loc : Nat
  matched : List E       -- in match order
  remaining : List E
  nFailed : Nat
  fatals : Bool
  abort : Option R
  tr : List Ev

/-- one sweep `for e in tmpExprs`, core.py:4635-4651 -/
def eachSweep (p : P) : List E → Nat → EachPass
  | [], loc => ⟨loc, [], [], 0, false, none, []⟩
  | e :: es, loc =>
      let r := tryParse p e loc true
      match r.1 with
      | .ok l2 => let q := eachSweep p es l2
                  ⟨q.loc, e :: q.matched, q.remaining, q.nFailed, q.fatals, q.abort, r.2 ++ q.tr⟩
      | .fail => let q := eachSweep p es loc
                 ⟨q.loc, q.matched, e :: q.remaining, q.nFailed + 1, q.fatals, q.abort, r.2 ++ q.tr⟩
      | .fatal => let q := eachSweep p es loc
                  ⟨q.loc, q.matched, e :: q.remaining, q.nFailed + 1, true, q.abort, r.2 ++ q.tr⟩
      | x => ⟨loc, [], e :: es, 0, false, some x, r.2⟩

/-- `while keepMatching`, core.py:4629-4653; `n` bounds the number of sweeps (each productive sweep removes an
    element, so `remaining.length + 1` sweeps suffice) -/
def eachLoop (p : P) : Nat → List E → Nat → List E → (Option R × List E × List E × Bool) × List Ev
  | 0, rem, _, order => ((some .hang, order, rem, false), [])
  | n + 1, rem, loc, order =>
      let q := eachSweep p rem loc
      match q.abort with
      | some x => ((some x, order, rem, false), q.tr)
      | none =>
        if q.nFailed == rem.length then ((none, order ++ q.matched, q.remaining, q.fatals), q.tr)
        else
          let r := eachLoop p n q.remaining q.loc (order ++ q.matched)
          (r.1, q.tr ++ r.2)

/-- final pass `for e in matchOrder: loc, results = e._parse(instring, loc, do_actions)`, core.py:4675-4678 -/
def seqAll (p : P) (da : Bool) : List E → Nat → PR
  | [], loc => (.ok loc, [])
  | e :: es, loc =>
      let r := p e loc da true
      match r.1 with
      | .ok l2 => let q := seqAll p da es l2; (q.1, r.2 ++ q.2)
      | x => (x, r.2)

def eachParse (p : P) (es : List E) (loc : Nat) (da : Bool) : PR :=
  match eachLoop p (es.length + 1) es loc [] with
  | ((some x, _, _, _), tr) => (x, tr)
  | ((none, order, rem, fatals), tr) =>
      if fatals then (.fatal, tr)                     -- core.py:4656-4662
      else if !rem.isEmpty then (.fail, tr)           -- core.py:4664-4670
      else let r := seqAll p da order loc; (r.1, tr ++ r.2)

/-! ### SkipTo -/

/-- the `while tmploc <= instrlen` scan, core.py:5519-5547; `n` = remaining positions -/
def skipScan (p : P) (t : E) (failOn : Option E) : Nat → Nat → (Option R × Nat) × List Ev
  | 0, tmploc => ((some .fail, tmploc), [])              -- ran off the end: `else: raise ParseException`
  | n + 1, tmploc =>
      let fo : (Option R) × List Ev :=
        match failOn with
        | none => (none, [])
        | some f =>
          match canParseNext p f tmploc false with
          | ((some true, _), tr) => (some .fail, tr)
          | ((some false, _), tr) => (none, tr)
          | ((none, x), tr) => (some x, tr)
      match fo.1 with
      | some x => ((some x, tmploc), fo.2)
      | none =>
        let r := p t tmploc false false      -- self_expr_parse(instring, tmploc, do_actions=False, callPreParse=False)
        match r.1 with
        | .ok _ => ((none, tmploc), fo.2 ++ r.2)
        | .fail => let q := skipScan p t failOn n (tmploc + 1); (q.1, fo.2 ++ r.2 ++ q.2)
        | x => ((some x, tmploc), fo.2 ++ r.2)

def skipToParse (p : P) (slen : Nat) (t : E) (failOn : Option E) (incl : Bool) (loc : Nat) (da : Bool) : PR :=
  match skipScan p t failOn (slen + 1 - loc) loc with
  | ((some x, _), tr) => (x, tr)
  | ((none, tmploc), tr) =>
      if incl then
        let r := p t tmploc da false        -- core.py:5554-5556
        (r.1, tr ++ r.2)
      else (.ok tmploc, tr)

/-! ### OneOrMore / ZeroOrMore with stop_on -/

/-- `try_not_ender(instring, loc)`: `NotAny(ender).try_parse(loc)`; `true` = the sentinel matches here -/
def enderCheck (p : P) (stopOn : Option E) (loc : Nat) : (Option Bool × R) × List Ev :=
  match stopOn with
  | none => ((some false, .fail), [])
  | some en => canParseNext p en loc false

/-- the `while 1:` of `_MultipleMatch.parseImpl`, core.py:5151-5162; `n` bounds the iterations (each must advance) -/
def manyLoop (p : P) (e : E) (stopOn : Option E) (da : Bool) : Nat → Nat → PR
  | 0, _ => (.hang, [])
  | n + 1, loc =>
      match enderCheck p stopOn loc with
      | ((some true, _), tr) => (.ok loc, tr)
      | ((none, x), tr) => (x, tr)
      | ((some false, _), tr) =>
        let r := p e loc da true
        match r.1 with
        | .ok l2 =>
            if l2 ≤ loc then (.hang, tr ++ r.2)      -- zero-width body: the real loop never ends
            else let q := manyLoop p e stopOn da n l2; (q.1, tr ++ r.2 ++ q.2)
        | .fail => (.ok loc, tr ++ r.2)
        | x => (x, tr ++ r.2)

def manyParse (p : P) (slen : Nat) (e : E) (stopOn : Option E) (loc : Nat) (da : Bool) : PR :=
  match enderCheck p stopOn loc with                  -- core.py:5147-5148 (outside the try)
  | ((some true, _), tr) => (.fail, tr)
  | ((none, x), tr) => (x, tr)
  | ((some false, _), tr) =>
    let r := p e loc da true                          -- core.py:5149
    match r.1 with
    | .ok l2 => let q := manyLoop p e stopOn da (slen + 2 - l2) l2; (q.1, tr ++ r.2 ++ q.2)
    | x => (x, tr ++ r.2)

/-! ### `_parseNoCache` -/

def parse (s : List Char) : Nat → P
  | 0, _, _, _, _ => (.hang, [])
  | fuel + 1, e, loc, da, cp =>
    let p := parse s fuel
    let pre := preLoc s e loc cp
    match e with
    | .lit c => if s[pre]? == some c then (.ok (pre + 1), []) else (.fail, [])
    | .act as cdt e' =>
        -- the element is `e'` carrying the actions: `tokens_start = pre_loc` (core.py:856), gate core.py:870
        let r := p e' loc da cp
        match r.1 with
        | .ok l2 =>
            if !as.isEmpty && (da || cdt) then
              let q := fireActs pre l2 as; (q.1, r.2 ++ q.2)
            else r
        | _ => r
    | .seq a b =>
        let r := p a pre da false               -- core.py:4176 callPreParse=False
        match r.1 with
        | .ok l1 => let q := p b l1 da true; (q.1, r.2 ++ q.2)
        | _ => r
    | .alt a b =>
        let r := p a pre da true
        match r.1 with
        | .fail => let q := p b pre da true; (q.1, r.2 ++ q.2)
        | _ => r
    | .or es => orParse p es pre da
    | .each es => eachParse p es pre da
    | .skipTo t fo incl => skipToParse p s.length t fo incl pre da
    | .many e' st => manyParse p s.length e' st pre da
    | .star e' st =>
        let r := manyParse p s.length e' st pre da
        match r.1 with
        | .fail => (.ok pre, r.2)               -- core.py:5250-5251
        | _ => r
    | .opt e' =>
        let r := p e' pre da false              -- core.py:5383-5385
        match r.1 with
        | .fail => (.ok pre, r.2)
        | _ => r
    | .followedBy e' =>
        let r := p e' pre da true               -- core.py:4941
        match r.1 with
        | .ok _ => (.ok pre, r.2)
        | _ => r
    | .notAny e' =>
        match canParseNext p e' pre da with      -- core.py:5106
        | ((some true, _), tr) => (.fail, tr)
        | ((some false, _), tr) => (.ok pre, tr)
        | ((none, x), tr) => (x, tr)

/-! ### the element's action configuration as a state machine

`parseAction` (a list) and `callDuringTry` (a flag) are attributes of the element; the operations that change them
are `set_parse_action` (core.py:700-711), `add_parse_action` (core.py:719-724), `add_condition` (core.py:748-761),
`set_parse_action(None)` (core.py:700-703) and `copy()` / `expr("name")` (core.py:536-547, both keep them).
The gate of `_parseNoCache` (core.py:870) reads the attributes as they are when the element is matched, so an
element built through a history of operations is `E.act` with the configuration the history ends in. -/

/-- `kwargs.get("call_during_try", kwargs.get("callDuringTry", False))`; `none` = keyword not given -/
def kw (k : Option Bool) : Bool := k.getD false

inductive Op where
  | setAct (as : List Act) (k : Option Bool)    -- set_parse_action(*as, call_during_try=k)
  | addAct (as : List Act) (k : Option Bool)    -- add_parse_action(*as, call_during_try=k)
  | addCond (as : List Act) (k : Option Bool)   -- add_condition(*as, call_during_try=k): each wrapped in `pa`
  | clear                                       -- set_parse_action(None)
  | copy                                        -- copy() / expr("name")
  deriving Repr, Inhabited

/-- (`parseAction`, `callDuringTry`) -/
structure ACfg where
  acts : List Act
  cdt : Bool
  deriving Repr, Inhabited, DecidableEq

/-- `ParserElement.__init__` (core.py:474, 487) -/
def ACfg.init : ACfg := ⟨[], false⟩

def applyOp (c : ACfg) : Op → ACfg
  | .setAct as k => ⟨as, kw k⟩                      -- parseAction[:] = …; callDuringTry = kwargs.get(…)
  | .addAct as k => ⟨c.acts ++ as, c.cdt || kw k⟩   -- parseAction += …;  callDuringTry = callDuringTry or kwargs.get(…)
  | .addCond as k => ⟨c.acts ++ as, c.cdt || kw k⟩
  | .clear => ⟨[], false⟩                           -- parseAction.clear(); callDuringTry = False; return self
  | .copy => c

def runOpsFrom (c : ACfg) (ops : List Op) : ACfg := ops.foldl applyOp c
def runOps (ops : List Op) : ACfg := runOpsFrom .init ops

/-- the element `e` after the operations `ops` were applied to it -/
def E.ofHist (ops : List Op) (e : E) : E := .act (runOps ops).acts (runOps ops).cdt e

/-! ### `_parseNoCache` with its two branches (core.py:820-912)

`if debugging or self.failAction:` — the branch with the debug callbacks and the fail action — and the plain `else:`
branch, each transcribed with its own assignment of the locals `pre_loc`, `tokens_start`; then the common tail (action
loop, `debug_match`).  The element is abstract: `pre` = `self.preParse(instring, ·)` (ignorables and whitespace),
`impl` = `self.parseImpl(instring, ·, do_actions)`; tokens are identified by a number.  The debug callbacks and the
fail action are taken to return normally. -/

inductive ImplOut where
  | ok (endLoc toks : Nat)
  | fail | fatal | err
  | indexErr                      -- IndexError out of parseImpl
  deriving DecidableEq, Repr, Inhabited

inductive DRes where
  | ok (loc toks : Nat)
  | fail | fatal | err
  deriving DecidableEq, Repr, Inhabited

inductive DEv where
  | act (id loc : Nat)            -- parse action / condition `id` called with location `loc`
  | dbgTry (loc : Nat)            -- debugActions.debug_try(instring, loc, self, False)
  | dbgMatch (start endLoc : Nat) -- debugActions.debug_match(instring, start, endLoc, self, toks, False)
  | dbgFail (loc : Nat)           -- debugActions.debug_fail(instring, loc, self, err, False)
  | failAct (loc : Nat)           -- self.failAction(instring, loc, self, err)
  deriving DecidableEq, Repr, Inhabited

structure DElem where
  pre : Nat → Nat
  callPre : Bool                  -- self.callPreparse
  mayIndexError : Bool
  impl : Nat → Bool → ImplOut
  acts : List Act
  cdt : Bool
  debug : Bool                    -- self.debug
  dTry : Bool                     -- self.debugActions.debug_try is set (… _match, … _fail)
  dMatch : Bool
  dFail : Bool
  failAction : Bool               -- self.failAction is set

/-- core.py:837-843 / 861-867: `if self.mayIndexError or pre_loc >= len_instring: try … except IndexError: raise
    ParseException` else the bare call -/
def implGuard (len : Nat) (x : DElem) (preLoc : Nat) (da : Bool) : DRes :=
  match x.impl preLoc da with
  | .ok e t => .ok e t
  | .fail => .fail
  | .fatal => .fatal
  | .err => .err
  | .indexErr => if x.mayIndexError || decide (preLoc ≥ len) then .fail else .err

/-- the locals after the first part: `tokens_start`, and `(loc, tokens)` or the exception in flight -/
structure Head where
  tokensStart : Nat
  res : DRes
  evs : List DEv

/-- core.py:826-854, the branch `if debugging or self.failAction:` -/
def headDebug (len : Nat) (x : DElem) (loc : Nat) (da cp : Bool) : Head :=
  let preLoc := if cp && x.callPre then x.pre loc else loc            -- 829-832
  let tokensStart := preLoc                                           -- 833
  let e1 := if x.dTry then [DEv.dbgTry tokensStart] else []           -- 834-835
  match implGuard len x preLoc da with                                -- 836-843
  | .ok e t => ⟨tokensStart, .ok e t, e1⟩
  | r =>                                                              -- except Exception as err: 844-853
      ⟨tokensStart, r, e1 ++ (if x.dFail then [DEv.dbgFail tokensStart] else [])
                          ++ (if x.failAction then [DEv.failAct tokensStart] else [])⟩

/-- core.py:855-867, the plain branch -/
def headPlain (len : Nat) (x : DElem) (loc : Nat) (da cp : Bool) : Head :=
  let preLoc := if cp && x.callPre then x.pre loc else loc            -- 856-859
  let tokensStart := preLoc                                           -- 860
  ⟨tokensStart, implGuard len x preLoc da, []⟩

/-- `for fn in self.parseAction: tokens = fn(instring, tokens_start, ret_tokens)`; the first exception stops -/
def fireD (start endLoc toks : Nat) : List Act → DRes × List DEv
  | [] => (.ok endLoc toks, [])
  | a :: as =>
      match a.kind with
      | .keep => let r := fireD start endLoc toks as; (r.1, DEv.act a.id start :: r.2)
      | .fail => (.fail, [DEv.act a.id start])
      | .fatal => (.fatal, [DEv.act a.id start])
      | .err => (.err, [DEv.act a.id start])

/-- the common tail, core.py:869-921: `postParse`, the action loop and `debug_match` -/
def actionTail (x : DElem) (h : Head) (da : Bool) : DRes × List DEv :=
  match h.res with
  | .ok e t =>
      -- `if self.parseAction and (do_actions or self.callDuringTry):`
      let a : DRes × List DEv :=
        if !x.acts.isEmpty && (da || x.cdt) then
          let q := fireD h.tokensStart e t x.acts
          if x.debug then                                             -- try … except Exception: debug_fail; raise
            match q.1 with
            | .ok _ _ => q
            | r => (r, q.2 ++ (if x.dFail then [DEv.dbgFail h.tokensStart] else []))
          else q
        else (.ok e t, [])
      match a.1 with
      | .ok e' t' =>
          (.ok e' t', h.evs ++ a.2 ++ (if x.debug && x.dMatch then [DEv.dbgMatch h.tokensStart e'] else []))
      | r => (r, h.evs ++ a.2)
  | r => (r, h.evs)

/-- `_parseNoCache(instring, loc, do_actions, callPreParse)`, core.py:820-921 -/
def parseNoCache (len : Nat) (x : DElem) (loc : Nat) (da cp : Bool) : DRes × List DEv :=
  actionTail x (if x.debug || x.failAction then headDebug len x loc da cp else headPlain len x loc da cp) da

/-- the same element without `set_debug` / `set_debug_actions` / `set_fail_action` -/
def DElem.plain (x : DElem) : DElem :=
  { x with debug := false, dTry := false, dMatch := false, dFail := false, failAction := false }

def DEv.isAct : DEv → Bool
  | .act _ _ => true
  | _ => false

end PP.ActionGate
