/-
  ReLite: a tiny regex-fragment model, sufficient for the fragments that pyparsing's `Word.__init__`,
  `one_of`, `make_compressed_re`, `_collapse_string_to_ranges` and `_escape_regex_range_chars` generate:
  literal characters (with `re.escape` escapes), character classes `[...]` (escapes, ranges; no negation),
  groups `(?:...)` / `(...)`, alternation `|`, quantifiers `? * + {m} {m,} {m,n}` (greedy) and `\b`.

  * `Re`       the abstract syntax
  * `render`   AST → pattern text (what the pyparsing builders print)
  * `parse`    pattern text → AST (`none` = not in the fragment; for the empty class `[]` this coincides
               with Python raising `re.error`)
  * `ends`     backtracking matcher: all end positions of matches starting at `pos`, in the priority
               order of Python's `re` (greedy quantifiers, ordered alternation); `matchAt = head?`
               is what `re.compile(p).match(s, pos)` returns.
  Case-insensitive matching (`re.IGNORECASE`) is modelled for ASCII letters only; `\b` uses the ASCII
  word characters `[A-Za-z0-9_]` (the harness keeps `\b`/caseless inputs inside ASCII).
-/
namespace PP.ReLite

/-- item of a character class -/
inductive CItem where
  | one (c : Char)            -- a character, written raw or with a backslash if it is one of `\ ^ - ] [`
  | nl                        -- newline written as the two characters `\n`
  | tab                       -- tab written as the two characters `\t`
  | range (lo hi : Char)      -- `lo-hi` (end points written like `one`)
  deriving DecidableEq, Repr, Inhabited

inductive Re where
  | eps
  | chr (c : Char)
  | cls (items : List CItem)
  | cat (a b : Re)
  | alt (a b : Re)
  | grp (cap : Bool) (r : Re)        -- `(r)` if cap else `(?:r)`
  | opt (r : Re)                     -- r?
  | star (r : Re)                    -- r*
  | plus (r : Re)                    -- r+
  | repN (r : Re) (m : Nat)          -- r{m}
  | repMN (r : Re) (m : Nat) (n : Option Nat)   -- r{m,n} / r{m,}
  | wb                               -- \b
  deriving DecidableEq, Repr, Inhabited

/-- right-nested concatenation, `eps` for the empty list (canonical form produced by `parse`) -/
def catL : List Re → Re
  | [] => .eps
  | [r] => r
  | r :: rs => .cat r (catL rs)

/-- concatenation that keeps the right-nested canonical form -/
def catApp : Re → Re → Re
  | .cat a b, c => .cat a (catApp b c)
  | .eps, c => c
  | a, c => .cat a c

/-- right-nested alternation (never called with `[]` by the builders; `eps` then) -/
def altL : List Re → Re
  | [] => .eps
  | [r] => r
  | r :: rs => .alt r (altL rs)

/-! ## `re.escape` (CPython 3.7+: `_special_chars_map` = ``()[]{}?*+-|^$\.&~# \t\n\r\v\f``) -/

def reSpecial : List Char :=
  ['(', ')', '[', ']', '{', '}', '?', '*', '+', '-', '|', '^', '$', '\\', '.', '&', '~', '#',
   ' ', '\t', '\n', '\r', '\x0b', '\x0c']

def reEscapeChar (c : Char) : List Char := if c ∈ reSpecial then ['\\', c] else [c]

def reEscape (s : List Char) : List Char := s.flatMap reEscapeChar

/-! ## character classes -/

/-- characters escaped inside a class by pyparsing (`\ ^ - ] [`) -/
def clsSpecial : List Char := ['\\', '^', '-', ']', '[']

/-- rendering of one character inside a class as pyparsing writes it: `\` before `\ ^ - [ ]`
    (`escape_re_range_char` in `_collapse_string_to_ranges`, first loop of `_escape_regex_range_chars`) -/
def clsEscChar (c : Char) : List Char :=
  if c ∈ clsSpecial then ['\\', c] else [c]

def renderItem : CItem → List Char
  | .one c => clsEscChar c
  | .nl => ['\\', 'n']
  | .tab => ['\\', 't']
  | .range lo hi => clsEscChar lo ++ ['-'] ++ clsEscChar hi

def CItem.mem (c : Char) : CItem → Bool
  | .one d => c == d
  | .nl => c == '\n'
  | .tab => c == '\t'
  | .range lo hi => lo.toNat ≤ c.toNat && c.toNat ≤ hi.toNat

def clsMem (items : List CItem) (c : Char) : Bool := items.any (CItem.mem c)

/-- one (possibly escaped) class character at the head of the text: the character and the rest.
    `none`: end of class / unsupported escape (`\d`, `\w`, ... letters other than n, t). -/
def clsChar : List Char → Option (CItem × Char × List Char)
  | [] => none
  | '\\' :: c :: rest =>
      if c == 'n' then some (.nl, '\n', rest)
      else if c == 't' then some (.tab, '\t', rest)
      else if c.isAlphanum then none
      else some (.one c, c, rest)
  | ['\\'] => none
  | c :: rest => if c == ']' || c == '[' then none else some (.one c, c, rest)

/-- parse the items of a class body up to (and consuming) the closing `]`.
    fuel = length of the text. A raw `[` or `^`-negation is not in the fragment. -/
def parseClsItems : Nat → List Char → Option (List CItem × List Char)
  | 0, _ => none
  | _+1, ']' :: rest => some ([], rest)
  | f+1, txt =>
      match clsChar txt with
      | none => none
      | some (it, lo, rest) =>
        match rest with
        | '-' :: rest2 =>
          match rest2 with
          | ']' :: rest3 => some ([it, .one '-'], rest3)
          | _ =>
            match clsChar rest2 with
            | none => none
            | some (_, hi, rest3) =>
              if hi.toNat < lo.toNat then none   -- re.error: bad character range
              else
                match parseClsItems f rest3 with
                | none => none
                | some (items, r) => some (.range lo hi :: items, r)
        | _ =>
          match parseClsItems f rest with
          | none => none
          | some (items, r) => some (it :: items, r)

/-- `[` already consumed. Empty class `[]...` and negation `[^...` are rejected. -/
def parseCls (txt : List Char) : Option (List CItem × List Char) :=
  match txt with
  | ']' :: _ => none
  | '^' :: _ => none
  | _ => parseClsItems (txt.length + 1) txt

/-! ## rendering -/

def natDigits (n : Nat) : List Char := (toString n).toList

def render : Re → List Char
  | .eps => []
  | .chr c => reEscapeChar c
  | .cls items => ['['] ++ items.flatMap renderItem ++ [']']
  | .cat a b => render a ++ render b
  | .alt a b => render a ++ ['|'] ++ render b
  | .grp cap r => (if cap then ['('] else ['(', '?', ':']) ++ render r ++ [')']
  | .opt r => render r ++ ['?']
  | .star r => render r ++ ['*']
  | .plus r => render r ++ ['+']
  | .repN r m => render r ++ ['{'] ++ natDigits m ++ ['}']
  | .repMN r m n => render r ++ ['{'] ++ natDigits m ++ [','] ++
      (match n with | some k => natDigits k | none => []) ++ ['}']
  | .wb => ['\\', 'b']

/-! ## parsing pattern text -/

def readNat : List Char → Nat → Option (Nat × List Char)
  | c :: rest, acc => if c.isDigit then
      (match readNat rest (acc * 10 + (c.toNat - '0'.toNat)) with
       | some r => some r
       | none => some (acc * 10 + (c.toNat - '0'.toNat), rest))
      else none
  | [], _ => none

/-- quantifier suffix after an atom -/
def parseQuant (a : Re) (txt : List Char) : Option (Re × List Char) :=
  match txt with
  | '?' :: rest => some (.opt a, rest)
  | '*' :: rest => some (.star a, rest)
  | '+' :: rest => some (.plus a, rest)
  | '{' :: rest =>
      match readNat rest 0 with
      | none => none
      | some (m, rest1) =>
        match rest1 with
        | '}' :: rest2 => some (.repN a m, rest2)
        | ',' :: '}' :: rest2 => some (.repMN a m none, rest2)
        | ',' :: rest2 =>
          match readNat rest2 0 with
          | some (n, '}' :: rest3) => if n < m then none else some (.repMN a m (some n), rest3)
          | _ => none
        | _ => none
  | _ => some (a, txt)

/-- characters that cannot start a literal atom -/
def atomStop (c : Char) : Bool :=
  c == '|' || c == ')' || c == '(' || c == '[' || c == ']' || c == '{' || c == '}' ||
  c == '?' || c == '*' || c == '+' || c == '\\' || c == '^' || c == '$' || c == '.'

mutual
/-- alternation; stops at `)` or end of text -/
def parseAlt : Nat → List Char → Option (Re × List Char)
  | 0, _ => none
  | f+1, txt =>
      match parseCat f txt with
      | none => none
      | some (a, '|' :: rest) =>
        (match parseAlt f rest with
         | none => none
         | some (b, rest2) => some (.alt a b, rest2))
      | some (a, rest) => some (a, rest)
/-- concatenation of quantified atoms; stops at `|`, `)` or end of text -/
def parseCat : Nat → List Char → Option (Re × List Char)
  | 0, _ => none
  | f+1, txt =>
      match txt with
      | [] => some (.eps, [])
      | '|' :: _ => some (.eps, txt)
      | ')' :: _ => some (.eps, txt)
      | _ =>
        match parseAtom f txt with
        | none => none
        | some (a, rest) =>
          match parseQuant a rest with
          | none => none
          | some (p, rest2) =>
            match rest2 with
            | [] => some (p, rest2)
            | '|' :: _ => some (p, rest2)
            | ')' :: _ => some (p, rest2)
            | _ =>
              match parseCat f rest2 with
              | none => none
              | some (q, rest3) => some (.cat p q, rest3)
def parseAtom : Nat → List Char → Option (Re × List Char)
  | 0, _ => none
  | f+1, txt =>
      match txt with
      | '(' :: '?' :: ':' :: rest =>
        (match parseAlt f rest with
         | some (r, ')' :: rest2) => some (.grp false r, rest2)
         | _ => none)
      | '(' :: '?' :: _ => none
      | '(' :: rest =>
        (match parseAlt f rest with
         | some (r, ')' :: rest2) => some (.grp true r, rest2)
         | _ => none)
      | '[' :: rest =>
        (match parseCls rest with
         | some (items, rest2) => some (.cls items, rest2)
         | none => none)
      | '\\' :: 'b' :: rest => some (.wb, rest)
      | '\\' :: c :: rest => if c.isAlphanum then none else some (.chr c, rest)
      | c :: rest => if atomStop c then none else some (.chr c, rest)
      | [] => none
end

def parse (txt : List Char) : Option Re :=
  match parseAlt (2 * txt.length + 4) txt with
  | some (r, []) => some r
  | _ => none

/-! ## matching -/

def asciiLower (c : Char) : Char :=
  if 'A'.toNat ≤ c.toNat ∧ c.toNat ≤ 'Z'.toNat then Char.ofNat (c.toNat + 32) else c

def asciiUpper (c : Char) : Char :=
  if 'a'.toNat ≤ c.toNat ∧ c.toNat ≤ 'z'.toNat then Char.ofNat (c.toNat - 32) else c

def chrEq (ci : Bool) (a b : Char) : Bool :=
  if ci then asciiLower a == asciiLower b else a == b

def clsMemCi (ci : Bool) (items : List CItem) (c : Char) : Bool :=
  if ci then clsMem items c || clsMem items (asciiLower c) || clsMem items (asciiUpper c)
  else clsMem items c

def isWordChar (c : Char) : Bool := c.isAlphanum || c == '_'

def wordAt (s : List Char) (i : Nat) : Bool :=
  match s[i]? with
  | some c => isWordChar c
  | none => false

/-- `\b` at `pos`: exactly one of the characters before / after `pos` is a word character -/
def isBoundary (s : List Char) (pos : Nat) : Bool :=
  (if pos = 0 then false else wordAt s (pos - 1)) != wordAt s pos

/-- greedy bounded repetition of a step relation: at most `n` (unbounded if `none`) and at least `m`
    iterations; every iteration must consume at least one character (the fragments in use never
    repeat a nullable body). fuel ≥ number of characters left + 1. -/
def repGo (step : Nat → List Nat) : Nat → Nat → Option Nat → Nat → List Nat
  | 0, m, _, pos => if m = 0 then [pos] else []
  | f+1, m, n, pos =>
      (if n = some 0 then []
       else ((step pos).filter (fun e => pos < e)).flatMap
              (fun e => repGo step f (m - 1) (n.map (· - 1)) e))
      ++ (if m = 0 then [pos] else [])

/-- all end positions of matches of `r` in `s` starting at `pos`, best first -/
def ends (ci : Bool) (s : List Char) : Re → Nat → List Nat
  | .eps, pos => [pos]
  | .chr c, pos =>
      match s[pos]? with
      | some d => if chrEq ci c d then [pos + 1] else []
      | none => []
  | .cls items, pos =>
      match s[pos]? with
      | some d => if clsMemCi ci items d then [pos + 1] else []
      | none => []
  | .cat a b, pos => (ends ci s a pos).flatMap (ends ci s b)
  | .alt a b, pos => ends ci s a pos ++ ends ci s b pos
  | .grp _ r, pos => ends ci s r pos
  | .opt r, pos => ends ci s r pos ++ [pos]
  | .star r, pos => repGo (ends ci s r) (s.length + 1 - pos) 0 none pos
  | .plus r, pos => repGo (ends ci s r) (s.length + 1 - pos) 1 none pos
  | .repN r m, pos => repGo (ends ci s r) (s.length + 1 - pos) m (some m) pos
  | .repMN r m n, pos => repGo (ends ci s r) (s.length + 1 - pos) m n pos
  | .wb, pos => if isBoundary s pos then [pos] else []

/-- `re.compile(render r, IGNORECASE if ci).match(s, pos)`: end of the match, if any -/
def matchAt (ci : Bool) (r : Re) (s : List Char) (pos : Nat) : Option Nat :=
  (ends ci s r pos).head?

/-- `re.fullmatch` -/
def fullMatch (ci : Bool) (r : Re) (s : List Char) : Bool :=
  (ends ci s r 0).contains s.length

end PP.ReLite
