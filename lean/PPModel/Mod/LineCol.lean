/-
  Model of pyparsing/util.py `col`, `lineno`, `line` (transcribed statement by statement)
  and of `str.expandtabs()` as used by `parse_string` (tabsize 8).
  Text is `List Char`; `loc : Nat` (the callers only pass non-negative locations).
-/
namespace PP.LineCol

/-- `s.rfind("\n", 0, hi)` : index of the last newline strictly before `hi`, or none (-1). -/
def rfindNl : List Char → Nat → Option Nat
  | [], _ => none
  | _, 0 => none
  | c :: cs, hi+1 =>
      match rfindNl cs hi with
      | some i => some (i + 1)
      | none => if c == '\n' then some 0 else none

/-- `s.find("\n", lo)` : index of the first newline at or after `lo`, or none (-1). -/
def findNl : List Char → Nat → Option Nat
  | [], _ => none
  | c :: cs, 0 => if c == '\n' then some 0 else (findNl cs 0).map (· + 1)
  | _ :: cs, lo+1 => (findNl cs lo).map (· + 1)

/-- `s.count("\n", 0, hi)` -/
def countNl : List Char → Nat → Nat
  | [], _ => 0
  | _, 0 => 0
  | c :: cs, hi+1 => (if c == '\n' then 1 else 0) + countNl cs hi

/-- util.col:
    `1 if 0 < loc < len(s) and s[loc-1] == "\n" else loc - s.rfind("\n", 0, loc)` -/
def col (loc : Nat) (s : List Char) : Nat :=
  if 0 < loc ∧ loc < s.length ∧ s[loc - 1]? = some '\n' then 1
  else match rfindNl s loc with
    | some i => loc - i
    | none => loc + 1

/-- util.lineno: `strg.count("\n", 0, loc) + 1` -/
def lineno (loc : Nat) (s : List Char) : Nat := countNl s loc + 1

/-- util.line:
    last_cr = strg.rfind("\n", 0, loc); next_cr = strg.find("\n", loc)
    strg[last_cr+1 : next_cr] if next_cr >= 0 else strg[last_cr+1:] -/
def lineStart (loc : Nat) (s : List Char) : Nat :=
  match rfindNl s loc with
  | some i => i + 1   -- last_cr + 1
  | none => 0         -- -1 + 1

def line (loc : Nat) (s : List Char) : List Char :=
  let start := lineStart loc s
  match findNl s loc with
  | some j => (s.take j).drop start
  | none => s.drop start

/-- `str.expandtabs(8)`: column counter reset by `\n` and `\r`. -/
def expandTabsGo : List Char → Nat → List Char
  | [], _ => []
  | c :: cs, column =>
      if c == '\t' then
        let n := 8 - column % 8
        List.replicate n ' ' ++ expandTabsGo cs (column + n)
      else if c == '\n' || c == '\r' then c :: expandTabsGo cs 0
      else c :: expandTabsGo cs (column + 1)

def expandTabs (s : List Char) : List Char := expandTabsGo s 0

end PP.LineCol
