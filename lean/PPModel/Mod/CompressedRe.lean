import PPModel.Mod.OneOf
/-
  Model of pyparsing/util.py `make_compressed_re` (306-398).  The result is built as a ReLite AST whose
  `render` is the returned text.
-/
namespace PP.CompressedRe
open PP.ReLite PP.Ranges PP.OneOf

abbrev W := List Char

/-- `list({}.fromkeys(word_list))`: first occurrences, in order -/
def dedupe : List W → List W
  | [] => []
  | w :: ws => w :: (dedupe ws).filter (fun x => x != w)

/-- lexicographic comparison of strings by code point: `a < b` -/
def strLt : W → W → Bool
  | [], [] => false
  | [], _ :: _ => true
  | _ :: _, [] => false
  | a :: as, b :: bs => if a.toNat < b.toNat then true else if b.toNat < a.toNat then false else strLt as bs

/-- stable insertion sort (`w` comes from before every element of the list: it stays in front of
    elements that are not strictly smaller): `sorted(ws)` -/
def insertBy (lt : W → W → Bool) (w : W) : List W → List W
  | [] => [w]
  | x :: xs => if lt x w then x :: insertBy lt w xs else w :: x :: xs

def sortBy (lt : W → W → Bool) (ws : List W) : List W := ws.foldr (insertBy lt) []

def sortStr (ws : List W) : List W := sortBy strLt ws

/-- `sorted(ws, key=len, reverse=True)`: stable, longest first -/
def sortLenDesc (ws : List W) : List W := sortBy (fun a b => a.length > b.length) ws

/-- `itertools.groupby(namelist, key=lambda s: s[:1])` followed by `[s[1:] for s in suffixes]`:
    maximal runs of words with the same first character → (first char, tails). Words are non-empty. -/
def groupGo (c : Char) (acc : List W) : List W → List (Char × List W)
  | [] => [(c, acc.reverse)]
  | [] :: ws => groupGo c acc ws            -- (no empty words reach this point)
  | (d :: tl) :: ws =>
      if d == c then groupGo c (tl :: acc) ws
      else (c, acc.reverse) :: groupGo d [tl] ws

def groups : List W → List (Char × List W)
  | [] => []
  | [] :: ws => groups ws
  | (c :: tl) :: ws => groupGo c [tl] ws

/-- `[ ''.join(_escape_regex_range_chars(s) for s in suffixes) ]` for one-character suffixes -/
def clsOfSingles (ws : List W) : Re := .cls (ws.map (fun s => escItem (s.headD ' ')))

/-- one `for initial, suffixes in ...` iteration (util.py:357-397). `rec` is the recursive call
    (`none` when `_level >= max_level`). -/
def groupRe (rec : Option (List W → Re)) (initial : Char) (suffixes0 : List W) : Re :=
  let suffixes1 := sortLenDesc suffixes0               -- sorted(..., key=len, reverse=True)
  let trailing := suffixes1.contains []
  let suffixes := suffixes1.filter (fun s => !s.isEmpty)   -- remove("") (words are de-duplicated)
  let q (r : Re) : Re := if trailing then .opt r else r
  match suffixes with
  | [] => .chr initial
  | [suf] =>
      -- `len(re.escape(suf)) > 1 and trailing`
      if (reEscape suf).length > 1 && trailing then
        .cat (.chr initial) (.opt (.grp false (litRe suf)))
      else
        -- initial + suffix + trailing: a `?` binds to the last (single) character
        (match suf with
         | [c] => .cat (.chr initial) (q (.chr c))
         | _ => catL (.chr initial :: suf.map .chr))
  | _ =>
      if suffixes.all (fun s => s.length == 1) then
        .cat (.chr initial) (q (clsOfSingles suffixes))
      else
        match rec with
        | some f => .cat (.chr initial) (q (.grp false (f (sortStr suffixes))))
        | none => .cat (.chr initial) (q (.grp false (altL ((sortLenDesc suffixes).map litRe))))

/-- the body of make_compressed_re for `max_level ≥ 1`; `rem = max_level - _level` -/
def mcrGo : Nat → List W → Re
  | rem, words =>
    let wl := dedupe words
    if wl.isEmpty then .eps
    else
      let rec? : Option (List W → Re) := match rem with
        | 0 => none
        | r+1 => some (mcrGo r)
      altL ((groups (sortStr wl)).map (fun g => groupRe rec? g.1 g.2))

/-- escaped length used as the sort key at `max_level == 0` (util.py:347-349) -/
def sortEscLenDesc (ws : List W) : List W :=
  sortBy (fun a b => (reEscape a).length > (reEscape b).length) ws

/-- `make_compressed_re(words, max_level)`; `none` = ValueError (no words / empty word) -/
def makeCompressedRe (words : List W) (maxLevel : Nat) : Option Re :=
  if words.isEmpty || words.contains [] then none
  else
    let wl := dedupe words
    if maxLevel == 0 then
      if wl.any (fun w => w.length > 1) then some (altL ((sortEscLenDesc wl).map litRe))
      else some (clsOfSingles wl)
    else some (mcrGo (maxLevel - 1) words)

end PP.CompressedRe
