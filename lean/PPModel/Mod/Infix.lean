import PPModel.Mod.Entry
/-
  C16 — `infix_notation` (pyparsing/helpers.py:718-912).

  * `infixGrammar` : the node table that `infix_notation(base, op_list, lpar, rpar)` builds, **as it is after
    `streamline()`** (nested `And`s of the `a + b + c` operator chains are flattened, and the level-1
    `matchExpr | lastExpr` absorbs the `base | nested` MatchFirst; core.py ParseExpression.streamline).
    The layout is fixed (blocks of 14 nodes: block 0 = header, block k = level k) so that level `k` lives at a computable
    offset; unused slots are unreachable from the root and ignored by the structure comparison.
  * `_FB` (helpers.py:807-810) is *not* `FollowedBy`: its parseImpl is `self.expr.try_parse(instring, loc)`,
    i.e. `_parse(.., do_actions=False)` with a fatal exception turned into a ParseException at `loc`.
    `parseStepX`/`parseX` extend the shared step by that class (nodes listed in `fb`).
  * `Ex`, `render`, `nest`: abstract syntax trees of an operator table, their concrete spelling (with arbitrary
    blanks before every token) and the *documented* nesting of the result.
-/
namespace PP.Infix
open PP.Parse

/-! ### `_FB` and the extended parser -/

/-- `_FB.parseImpl` (helpers.py:808-810): `self.expr.try_parse(instring, loc); return loc, []` -/
def fbImpl (p : P) (e loc : Nat) : Out :=
  match tryParse p e loc false false with
  | .ok _ _ => .ok loc []
  | o => o

/-- `_parseNoCache` for a grammar whose nodes `fb` are `_FB` objects (kind `followedBy e` in the table) -/
def parseStepX (fb : List Nat) (g : Grammar) (s : List Char) (p : P) : P := fun id loc acts callPre =>
  if fb.elem id then
    match g[id]? with
    | none => .hang
    | some nd =>
      match (if callPre && nd.callPre then preParse p nd s loc else PreR.at loc) with
      | .abort o => o
      | .at pre =>
        let r := match nd.kind with
          | .followedBy e => fbImpl p e pre
          | _ => parseImpl g p nd s pre acts
        let r := match r with
          | .idx => if nd.mayIdx || pre ≥ s.length then Out.fail .parse s.length else .idx
          | r => r
        match r with
        | .ok e ts =>
          let ts := postParse nd ts
          if !nd.acts.isEmpty && (acts || nd.callDuringTry) then runActs nd.acts pre e ts else .ok e ts
        | o => o
  else parseStep g s p id loc acts callPre

def parseX (fb : List Nat) (g : Grammar) (s : List Char) : Nat → P
  | 0 => fun _ _ _ _ => .hang
  | f+1 => parseStepX fb g s (parseX fb g s f)

/-! ### the operator table -/

structure Level where
  arity : Nat                 -- 1, 2, 3
  right : Bool                -- OpAssoc.RIGHT
  op1 : List Char
  op2 : List Char := []       -- second operator of a ternary level
  acts : List Act := []       -- `pa`, set on `match_lookahead + matchExpr`
  deriving Repr, Inhabited

structure Table where
  white : List Char           -- ParserElement.DEFAULT_WHITE_CHARS
  base : Node                 -- the operand (a leaf token, default whitespace flags)
  lpar : List Char
  rpar : List Char
  lsup : Bool := true         -- lpar is a Suppress (str argument, or Suppress(...) passed)
  rsup : Bool := true
  levels : List Level
  deriving Repr, Inhabited

def mkNode (white : List Char) (k : Kind) (mayIdx callPre : Bool) (acts : List Act := []) : Node :=
  { kind := k, skipWs := true, white := white, callPre := callPre, mayIdx := mayIdx, ignore := [], acts := acts,
    callDuringTry := false, nameLen := 0, hasName := false }

/-- `Literal.__new__` (core.py:2450-2462): a one-character string gives `_SingleCharLiteral` -/
def litKind : List Char → Kind
  | [c] => .lit1 c
  | m => .lit m

def lvlSize : Nat := 14

/-- node id of `thisExpr` of level `k` (1-based); block 0 is the header and `E 0` is `lastExpr = base | nested` -/
def E (k : Nat) : Nat := lvlSize * k

/-- id of `ret`, the Forward that infix_notation returns -/
def rootId : Nat := 1

/-- id of the element that `nested_expr` contributes to `lastExpr` (helpers.py:823-827) -/
def nestedId (t : Table) : Nat := if t.lsup && t.rsup then 7 else 8

/-- helpers.py:812-827 (block 0; slots 9-13 unused) -/
def header (t : Table) (top : Nat) : List Node :=
  let w := t.white
  let dead := mkNode w .noMatch false true
  [ mkNode w (.matchFirst [2, nestedId t]) true false,                     -- 0  lastExpr = base_expr | nested
    mkNode w (.forward (some top)) true true,                              -- 1  ret
    t.base,                                                                -- 2  base_expr
    mkNode w (litKind t.lpar) false true,                                  -- 3
    mkNode w (.suppress 3) false true,                                     -- 4
    mkNode w (litKind t.rpar) false true,                                  -- 5
    mkNode w (.suppress 5) false true,                                     -- 6
    mkNode w (.and [if t.lsup then 4 else 3, 1, if t.rsup then 6 else 5]) true true,   -- 7  nested_expr
    mkNode w (.group 7) true true,                                         -- 8  Group(nested_expr)
    dead, dead, dead, dead, dead ]

/-- one pass of the `for operDef in op_list` loop (helpers.py:836-906), `b` = first id of the block,
    `last` = id of lastExpr, `tail` = what `| lastExpr` contributes after streamlining -/
def levelNodes (w : List Char) (lv : Level) (b last : Nat) (tail : List Nat) : List Node :=
  let this := b
  let op1 := b + 7
  let op2 := b + 8
  let many := b + 9
  let body := b + 10
  let dead := mkNode w .noMatch false true
  -- a ternary level's operators are still plain strings when the sequences are built (only a non-tuple `opExpr` is
  -- converted at 837-838), so every `+` makes a fresh Literal: the match body has its own two operator objects
  let op1' := b + 11
  let op2' := b + 12
  -- (lookahead body, match body, slot 8, slot 9, slot 10)
  let parts : List Nat × List Nat × Node × Node × Node :=
    match lv.right, lv.arity with
    | false, 1 =>   -- _FB(lastExpr + opExpr); Group(lastExpr + opExpr[1, ...])
      ([last, op1], [last, many], dead, mkNode w (.many op1 none true) false true, dead)
    | false, 2 =>   -- _FB(lastExpr + opExpr + lastExpr); Group(lastExpr + (opExpr + lastExpr)[1, ...])
      ([last, op1, last], [last, many], dead, mkNode w (.many body none true) true true,
        mkNode w (.and [op1, last]) true true)
    | false, _ =>   -- arity 3
      ([last, op1, last, op2, last], [last, many], mkNode w (litKind lv.op2) false true,
        mkNode w (.many body none true) true true, mkNode w (.and [op1', last, op2', last]) true true)
    | true, 1 =>    -- opExpr = Opt(opExpr); _FB(opExpr.expr + thisExpr); Group(opExpr + thisExpr)
      ([op1, this], [op2, this], mkNode w (.opt op1 none) false true, dead, dead)
    | true, 2 =>    -- _FB(lastExpr + opExpr + thisExpr); Group(lastExpr + (opExpr + thisExpr)[1, ...])
      ([last, op1, this], [last, many], dead, mkNode w (.many body none true) true true,
        mkNode w (.and [op1, this]) true true)
    | true, _ =>    -- _FB(lastExpr + opExpr1 + thisExpr + opExpr2 + thisExpr); Group(the same sequence)
      ([last, op1, this, op2, this], [last, op1', this, op2', this], mkNode w (litKind lv.op2) false true, dead, dead)
  [ mkNode w (.forward (some (b + 1))) true true,                          -- +0  thisExpr
    mkNode w (.matchFirst ((b + 2) :: tail)) true false,                   -- +1  matchExpr | lastExpr
    mkNode w (.and [b + 3, b + 4]) true true lv.acts,                      -- +2  match_lookahead + matchExpr (pa)
    mkNode w (.followedBy (b + 5)) true true,                              -- +3  _FB(...)
    mkNode w (.group (b + 6)) true true,                                   -- +4  Group(...)
    mkNode w (.and parts.1) true true,                                     -- +5
    mkNode w (.and parts.2.1) true true,                                   -- +6
    mkNode w (litKind lv.op1) false true,                                  -- +7
    parts.2.2.1,                                                           -- +8
    parts.2.2.2.1,                                                         -- +9
    parts.2.2.2.2,                                                         -- +10
    (if lv.arity ≥ 3 then mkNode w (litKind lv.op1) false true else dead),  -- +11
    (if lv.arity ≥ 3 then mkNode w (litKind lv.op2) false true else dead),  -- +12
    dead ]                                                                 -- +13

/-- the level loop: `k` = 1-based index of the first level in `lvs` -/
def levelsFrom (t : Table) : Nat → List Level → List Node
  | _, [] => []
  | k, lv :: rest =>
    levelNodes t.white lv (E k) (E (k - 1)) (if k = 1 then [2, nestedId t] else [E (k - 1)])
      ++ levelsFrom t (k + 1) rest

def infixGrammar (t : Table) : Grammar :=
  header t (E t.levels.length) ++ levelsFrom t 1 t.levels

/-- ids of the `_FB` nodes of `infixGrammar t` -/
def fbIds (t : Table) : List Nat := (List.range t.levels.length).map (fun i => E (i + 1) + 3)

/-! ### abstract syntax, spelling, documented nesting -/

/-- expression trees; every token carries the blanks written before it. `k` = 1-based level. -/
inductive Ex where
  | atom (ws w : List Char)
  | paren (wl : List Char) (e : Ex) (wr : List Char)
  | pre (k : Nat) (wo : List Char) (e : Ex)                     -- prefix operator (arity 1, RIGHT)
  | post (k : Nat) (e : Ex) (wo : List Char)                    -- postfix operator (arity 1, LEFT); chains nest left
  | bin (k : Nat) (a : Ex) (wo : List Char) (b : Ex)            -- binary, LEFT (a may be a chain of level k) or RIGHT
  | tern (k : Nat) (a : Ex) (w1 : List Char) (b : Ex) (w2 : List Char) (c : Ex)
  deriving Repr, Inhabited

def opOf (t : Table) (k : Nat) : List Char :=
  match t.levels[k - 1]? with
  | some lv => lv.op1
  | none => []

def op2Of (t : Table) (k : Nat) : List Char :=
  match t.levels[k - 1]? with
  | some lv => lv.op2
  | none => []

def rightOf (t : Table) (k : Nat) : Bool :=
  match t.levels[k - 1]? with
  | some lv => lv.right
  | none => false

def Ex.lvl : Ex → Nat
  | .atom .. => 0
  | .paren .. => 0
  | .pre k .. => k
  | .post k .. => k
  | .bin k .. => k
  | .tern k .. => k

def render (t : Table) : Ex → List Char
  | .atom ws w => ws ++ w
  | .paren wl e wr => wl ++ t.lpar ++ render t e ++ wr ++ t.rpar
  | .pre k wo e => wo ++ opOf t k ++ render t e
  | .post k e wo => render t e ++ wo ++ opOf t k
  | .bin k a wo b => render t a ++ wo ++ opOf t k ++ render t b
  | .tern k a w1 b w2 c => render t a ++ w1 ++ opOf t k ++ render t b ++ w2 ++ op2Of t k ++ render t c

/-- the documented result shape (docstring of infix_notation, helpers.py:724-806): one group per operator
    application; a LEFT level's chain `a op b op c` is ONE flat group read left to right; a RIGHT level nests to
    the right; suppressed parentheses leave no trace, kept ones add a group with the two paren tokens. -/
def nest (t : Table) : Ex → Tok
  | .atom _ w => .s w
  | .paren _ e _ =>
    if t.lsup && t.rsup then nest t e
    else .g ((if t.lsup then [] else [.s t.lpar]) ++ [nest t e] ++ (if t.rsup then [] else [.s t.rpar]))
  | .pre k _ e => .g [.s (opOf t k), nest t e]
  | .post k e _ =>
    (match e, nest t e with
     | .post k' _ _, .g items => if k' = k then .g (items ++ [.s (opOf t k)]) else .g [nest t e, .s (opOf t k)]
     | _, x => .g [x, .s (opOf t k)])
  | .bin k a _ b =>
    if rightOf t k then .g [nest t a, .s (opOf t k), nest t b]
    else
      (match a, nest t a with
       | .bin k' _ _ _, .g items =>
         if k' = k then .g (items ++ [.s (opOf t k), nest t b]) else .g [nest t a, .s (opOf t k), nest t b]
       | _, x => .g [x, .s (opOf t k), nest t b])
  | .tern k a _ b _ c =>
    if rightOf t k then .g [nest t a, .s (opOf t k), nest t b, .s (op2Of t k), nest t c]
    else
      (match a, nest t a with
       | .tern k' _ _ _ _ _, .g items =>
         if k' = k then .g (items ++ [.s (opOf t k), nest t b, .s (op2Of t k), nest t c])
         else .g [nest t a, .s (opOf t k), nest t b, .s (op2Of t k), nest t c]
       | _, x => .g [x, .s (opOf t k), nest t b, .s (op2Of t k), nest t c])

end PP.Infix
