import PPModel.Mod.PR
/-
  The declarative reading of C10: a `ParseResults` is
    * a plain Python list of tokens (`toks`, operated on by the CPython list primitives of `PyList`), plus
    * an ordered multimap of names: `order` = the names that currently have a value, in the order in
      which they (last) came into existence; `vals n` = all values given to `n`, oldest first, plus
    * the set of list-all names (`la`), a persistent attribute of a name.
  `results[n]` is the last value of an ordinary name and all values, in order, of a list-all name.
  The multimap is a *function* `String → List α`: merging is pointwise append, there are no
  positions, no occurrence records and no association-list traversal order to get right.
-/
namespace PP.PR
open PP.PyList

structure Abs (α : Type) where
  toks : List α
  order : List String
  vals : String → List α
  la : String → Bool

variable {α : Type}

def Op.map {σ τ : Type} (f : σ → τ) : Op α σ → Op α τ
  | .getInt i => .getInt i | .getSlice sl => .getSlice sl | .getName n => .getName n
  | .getAttr n => .getAttr n | .get n d => .get n d | .setInt i v => .setInt i v
  | .setSlice sl vs => .setSlice sl vs | .setName n v => .setName n v | .delInt i => .delInt i
  | .delSlice sl => .delSlice sl | .delName n => .delName n | .pop0 => .pop0
  | .popInt i d => .popInt i d | .popName n d => .popName n d | .popBadKw => .popBadKw
  | .setSliceScalar sl => .setSliceScalar sl
  | .insert i v => .insert i v
  | .append v => .append v | .extendList vs => .extendList vs | .extendPR o => .extendPR (f o)
  | .iadd o => .iadd (f o) | .clear => .clear | .contains n => .contains n | .len => .len
  | .bool => .bool | .iter => .iter | .reversed => .reversed | .keys => .keys | .values => .values
  | .items => .items | .haskeys => .haskeys

namespace Abs

/-- `results[n]`: KeyError for a name without value -/
def lookup (a : Abs α) (n : String) : Except Err (View α) :=
  if n ∈ a.order then
    if a.la n then .ok (.many (a.vals n))
    else match (a.vals n).getLast? with
      | some v => .ok (.one v)
      | none => .error .key
  else .error .key

/-- give `n` one more value -/
def add (a : Abs α) (n : String) (v : α) : Abs α :=
  { a with order := if n ∈ a.order then a.order else a.order ++ [n],
           vals := fun k => if k = n then a.vals n ++ [v] else a.vals k }

/-- forget every value of `n` -/
def remove (a : Abs α) (n : String) : Abs α :=
  { a with order := a.order.filter (fun k => k ≠ n),
           vals := fun k => if k = n then [] else a.vals k }

/-- concatenation: tokens appended, values appended name by name, new names after the old ones,
    a name is list-all when it is on either side -/
def merge (a b : Abs α) : Abs α :=
  { toks := a.toks ++ b.toks,
    order := a.order ++ b.order.filter (fun k => k ∉ a.order),
    vals := fun k => a.vals k ++ b.vals k,
    la := fun k => a.la k || b.la k }

def truthy (a : Abs α) : Bool := !a.toks.isEmpty || !a.order.isEmpty

def lookups (a : Abs α) : List String → Except Err (List (String × View α))
  | [] => .ok []
  | k :: ks =>
    match a.lookup k with
    | .error e => .error e
    | .ok w =>
      match lookups a ks with
      | .error e => .error e
      | .ok r => .ok ((k, w) :: r)

/-- `list.pop(i)` -/
def popAt (a : Abs α) (i : Int) : Abs α × Out α :=
  match getIdx a.toks i, delIdx a.toks i with
  | some v, some t => ({ a with toks := t }, .val v)
  | _, _ => (a, .err .index)

/-- attaching a results name to an existing result (`ParseResults(existing, name, asList, modal)`, what the parser
    does for `expr("name")` / `expr("name*")`): the name gets one more value — the whole token list as a nested result
    (`asList`) or the first token — and becomes list-all when `modal` is false; every other name keeps its values
    and its list-all flag. -/
def reinit (mk : List α → α) (a : Abs α) (name : Option String) (asList modal : Bool) : Abs α :=
  match name with
  | none => a
  | some nm =>
    if nm = "" then a else
    let a1 : Abs α := { a with la := fun k => a.la k || (!modal && decide (k = nm)) }
    if asList then a1.add nm (mk a.toks)
    else match a.toks with
      | v :: _ => a1.add nm v
      | [] => a1

end Abs

/-- the specification of one operation -/
def specStep (a : Abs α) : Op α (Abs α) → Abs α × Out α
  | .getInt i => match getIdx a.toks i with
    | some v => (a, .val v)
    | none => (a, .err .index)
  | .getSlice sl => match getSlice a.toks sl with
    | some vs => (a, .list vs)
    | none => (a, .err .value)
  | .getName n => (a, outOfView (a.lookup n))
  | .getAttr n =>
    if n ∈ a.order then (a, outOfView (a.lookup n))
    else if n.startsWith "__" then (a, .err .attribute) else (a, .empty)
  | .get n d =>
    if n ∈ a.order then (a, outOfView (a.lookup n))
    else match d with
      | some v => (a, .val v)
      | none => (a, .none)
  | .setInt i v => match setIdx a.toks i v with
    | some t => ({ a with toks := t }, .none)
    | none => (a, .err .index)
  | .setSlice sl vs => match setSlice a.toks sl vs with
    | some t => ({ a with toks := t }, .none)
    | none => (a, .err .value)
  | .setName n v => (a.add n v, .none)
  | .delInt i => match delIdx a.toks i with
    | some t => ({ a with toks := t }, .none)
    | none => (a, .err .index)
  | .delSlice sl => match delSlice a.toks sl with
    | some t => ({ a with toks := t }, .none)
    | none => (a, .err .value)
  | .delName n => if n ∈ a.order then (a.remove n, .none) else (a, .err .key)
  | .pop0 => a.popAt (-1)
  | .popInt i _ => a.popAt i
  | .popName n d =>
    if n ∈ a.order then
      match a.lookup n with
      | .ok w => (a.remove n, .view w)
      | .error e => (a, .err e)
    else match d with
      | some v => (a, .val v)
      | none => (a, .err .key)
  | .popBadKw => (a, .err .type)
  | .setSliceScalar sl =>
    match sl.indices a.toks.length with
    | none => (a, .err .value)
    | some _ => (a, .err .type)
  | .insert i v => ({ a with toks := insertAt a.toks i v }, .none)
  | .append v => ({ a with toks := a.toks ++ [v] }, .none)
  | .extendList vs => ({ a with toks := a.toks ++ vs }, .none)
  | .extendPR o => (a.merge o, .none)
  | .iadd o => (a.merge o, .none)
  | .clear => ({ a with toks := [], order := [], vals := fun _ => [] }, .none)
  | .contains n => (a, .bool (decide (n ∈ a.order)))
  | .len => (a, .nat a.toks.length)
  | .bool => (a, .bool a.truthy)
  | .iter => (a, .list a.toks)
  | .reversed => (a, .list a.toks.reverse)
  | .keys => (a, .strs a.order)
  | .values => match a.lookups a.order with
    | .ok r => (a, .views (r.map (·.2)))
    | .error e => (a, .err e)
  | .items => match a.lookups a.order with
    | .ok r => (a, .items r)
    | .error e => (a, .err e)
  | .haskeys => (a, .bool (!a.order.isEmpty))

def specRun (a : Abs α) : List (Op α (Abs α)) → Abs α × List (Out α)
  | [] => (a, [])
  | op :: ops =>
    let r := specStep a op
    let rest := specRun r.1 ops
    (rest.1, r.2 :: rest.2)

/-- the abstraction function: forget positions and the occurrence records -/
def abs (s : PR α) : Abs α :=
  { toks := s.toks,
    order := PyDict.dkeys s.dict,
    vals := fun k => ((PyDict.dget s.dict k).getD []).map (·.1),
    la := fun k => decide (k ∈ s.all) }

end PP.PR
