/-
  C15 — model of the process-global memoisation state of pyparsing and of N threads using it.

  Shared state (class attributes of `ParserElement`, pyparsing/core.py):
    packrat_cache        core.py:974   (util.py:81 `_UnboundedCache` / util.py:102 `_FifoCache`)
    packrat_cache_lock   core.py:975   (RLock: owner + count)
    recursion_memos      core.py:939   (util.py:167 `UnboundedMemo`: `del` is a no-op; plain `{}` before
                                        `enable_left_recursion`)
    recursion_lock       core.py:938   (RLock)

  Part 1 (`Dict`, `Shared`)            python-dict data model (insertion ordered association list)
  Part 2 (`Thread`, `tstep`, `step`)   modes *off* and *packrat*: every thread runs
        reset_cache()                  core.py:1031-1037  acquire P; cache.clear(); memos.clear(); release P
        _parse(root)                   core.py:980-1026   `_parseCache`: acquire P; cache.get; on a miss run the
                                       element (nested `_parse` calls of the children, in the order decided by
                                       the element from the children's results), cache.set (util.py:113-117:
                                       `cache[key] = value`, then `while len(cache) > size:
                                       cache_pop(next(iter(cache)))` as separate steps), release P.
        An element whose `_parse` is `_parseNoCache` (memoisation off; or the top-level driver loop of
        parse_string / scan_string, which is not a cached call) is a key with `cached k = false`.
  Part 3 (`Ev`, `evStep`, `accepts`)   event-level semantics used to validate traces logged from the real
                                       class-level objects (both memoisation modes and left-recursion mode).
  Part 4 (`LR`)                        left-recursion mode: `Forward.parseImpl` core.py:5691-5737 as an
                                       instruction list over the memo table, whose key has NO input string.

  Assumptions (stated, not modelled): a single dict operation is atomic (GIL); `RLock` is a correct
  re-entrant lock.
-/
namespace PP.Threads

/-- packrat key `(self, instring, loc, callPreParse, do_actions)` core.py:984; `inp` identifies the string -/
structure Key where
  e : Nat
  inp : Nat
  loc : Nat
  flags : Nat
  deriving DecidableEq, Repr, Inhabited

/-- abstract outcome: an interned `(loc, tokens)` / exception value -/
abbrev Val := Nat
abbrev Tid := Nat

/-! ## Part 1: python dict -/

abbrev Dict (κ : Type) := List (κ × Val)

namespace Dict
variable {κ : Type} [DecidableEq κ]

def lookup : Dict κ → κ → Option Val
  | [], _ => none
  | (k', v) :: r, k => if k' = k then some v else lookup r k

/-- `d[k] = v`: an existing key keeps its position -/
def insert : Dict κ → κ → Val → Dict κ
  | [], k, v => [(k, v)]
  | (k', v') :: r, k, v => if k' = k then (k, v) :: r else (k', v') :: insert r k v

def erase (d : Dict κ) (k : κ) : Dict κ := d.filter (fun p => decide (p.1 ≠ k))

def has (d : Dict κ) (k : κ) : Bool := (lookup d k).isSome

end Dict

/-- memo key `(loc, self, do_actions)` core.py:5695 — no input string -/
structure MKey where
  loc : Nat
  fwd : Nat
  acts : Bool
  deriving DecidableEq, Repr, Inhabited

structure Shared where
  cache : Dict Key := []
  /-- `none`: `_UnboundedCache`; `some n`: `_FifoCache(n)` -/
  size : Option Nat := none
  memo : Dict MKey := []
  /-- `true`: `UnboundedMemo` (`__delitem__` is a no-op); `false`: plain dict -/
  memoRetains : Bool := false
  pOwner : Option Tid := none
  pCount : Nat := 0
  rOwner : Option Tid := none
  rCount : Nat := 0
  deriving Repr, Inhabited

/-! ## Part 2: threads in modes off / packrat -/

inductive Act where
  | call (k : Key)
  | ret (v : Val)
  deriving Repr, Inhabited

/-- What an element does: after the results `rs` of the children visited so far, either parse another
    child or finish with a value. `cached k`: `_parse` of this call goes through `_parseCache`. -/
structure Grammar where
  body : Key → List Val → Act
  cached : Key → Bool

structure Frame where
  k : Key
  rs : List Val
  deriving Repr, Inhabited

inductive PC where
  | rAcq | rClear | rMemo | rRel               -- reset_cache
  | enter | lookup | run
  | put (v : Val) | chk (v : Val) | pick (v : Val) | pop (v : Val) (k : Key) | rel (v : Val)
  | retn (v : Val)
  | done (v : Val)
  | crash                                      -- StopIteration / KeyError inside `_FifoCache.set`
  deriving Repr, Inhabited, DecidableEq

structure Thread where
  root : Key
  pc : PC
  stack : List Frame
  deriving Repr, Inhabited

def Thread.init (root : Key) : Thread := ⟨root, .rAcq, [⟨root, []⟩]⟩

/-- `RLock.acquire` by `t` (non-blocking reading: `none` = would block) -/
def acquireP (sh : Shared) (t : Tid) : Option Shared :=
  if sh.pOwner = none ∨ sh.pOwner = some t then
    some { sh with pOwner := some t, pCount := sh.pCount + 1 }
  else none

def releaseP (sh : Shared) : Shared :=
  { sh with pCount := sh.pCount - 1, pOwner := if sh.pCount ≤ 1 then none else sh.pOwner }

/-- one step of thread `t` (its local state `th`) on the shared state; `none`: not enabled -/
def tstep (g : Grammar) (sh : Shared) (t : Tid) (th : Thread) : Option (Shared × Thread) :=
  match th.pc, th.stack with
  | .rAcq, _ => (acquireP sh t).map fun sh' => (sh', { th with pc := .rClear })
  | .rClear, _ => some ({ sh with cache := [] }, { th with pc := .rMemo })
  | .rMemo, _ => some ({ sh with memo := [] }, { th with pc := .rRel })
  | .rRel, _ => some (releaseP sh, { th with pc := .enter })
  | .enter, f :: _ =>
      if g.cached f.k then (acquireP sh t).map fun sh' => (sh', { th with pc := .lookup })
      else some (sh, { th with pc := .run })
  | .lookup, f :: _ =>
      match sh.cache.lookup f.k with
      | some v => some (sh, { th with pc := .rel v })
      | none => some (sh, { th with pc := .run })
  | .run, f :: rest =>
      match g.body f.k f.rs with
      | .call k' => some (sh, { th with pc := .enter, stack := ⟨k', []⟩ :: f :: rest })
      | .ret v => some (sh, { th with pc := if g.cached f.k then .put v else .retn v })
  | .put v, f :: _ =>
      some ({ sh with cache := sh.cache.insert f.k v },
            { th with pc := match sh.size with | none => .rel v | some _ => .chk v })
  | .chk v, _ :: _ =>
      match sh.size with
      | none => some (sh, { th with pc := .rel v })
      | some n => some (sh, { th with pc := if sh.cache.length > n then .pick v else .rel v })
  | .pick v, _ :: _ =>
      match sh.cache with
      | [] => some (sh, { th with pc := .crash })
      | (k', _) :: _ => some (sh, { th with pc := .pop v k' })
  | .pop v k', _ :: _ =>
      if sh.cache.has k' then some ({ sh with cache := sh.cache.erase k' }, { th with pc := .chk v })
      else some (sh, { th with pc := .crash })
  | .rel v, _ :: _ => some (releaseP sh, { th with pc := .retn v })
  | .retn v, _ :: rest =>
      match rest with
      | [] => some (sh, { th with pc := .done v, stack := [] })
      | f' :: rest' => some (sh, { th with pc := .run, stack := { f' with rs := f'.rs ++ [v] } :: rest' })
  | _, _ => none

def upd {α : Type} (f : Tid → α) (t : Tid) (x : α) : Tid → α := fun t' => if t' = t then x else f t'

structure State where
  sh : Shared
  thr : Tid → Thread

def step (g : Grammar) (s : State) (t : Tid) : Option State :=
  (tstep g s.sh t (s.thr t)).map fun p => ⟨p.1, upd s.thr t p.2⟩

/-- reachability under *any* schedule -/
inductive Reach (g : Grammar) : State → State → Prop where
  | refl (s) : Reach g s s
  | tail {s s' s''} (t : Tid) : Reach g s s' → step g s' t = some s'' → Reach g s s''

/-- number of acquisitions of `packrat_cache_lock` the thread currently has -/
def insidePC : PC → Bool
  | .lookup | .run | .put _ | .chk _ | .pick _ | .pop _ _ | .rel _ => true
  | .crash => true   -- the model's crashed thread is terminal and keeps what it held (proved unreachable)
  | _ => false

def resetHeld : PC → Nat
  | .rClear | .rMemo | .rRel => 1
  | _ => 0

def cachedCount (g : Grammar) : List Frame → Nat
  | [] => 0
  | f :: r => (if g.cached f.k then 1 else 0) + cachedCount g r

def held (g : Grammar) (th : Thread) : Nat :=
  resetHeld th.pc +
  match th.stack with
  | [] => 0
  | f :: r => (if insidePC th.pc ∧ g.cached f.k then 1 else 0) + cachedCount g r

/-- program points that read or write the packrat cache / clear the memo table -/
def touching : PC → Bool
  | .rClear | .rMemo | .lookup | .put _ | .chk _ | .pick _ | .pop _ _ => true
  | _ => false

def finished : PC → Bool
  | .done _ | .crash => true
  | _ => false

/-- the serial meaning of a call: big-step evaluation without any cache -/
inductive Run (g : Grammar) : Key → List Val → Val → Prop where
  | ret {k rs v} : g.body k rs = .ret v → Run g k rs v
  | call {k rs k' r v} : g.body k rs = .call k' → Run g k' [] r → Run g k (rs ++ [r]) v → Run g k rs v

def Eval (g : Grammar) (k : Key) (v : Val) : Prop := Run g k [] v

/-! ### executable exploration (driver) -/

/-- visible event of the next step of a thread (what the instrumented real objects log) -/
inductive Ev where
  | acqP | relP | acqR | relR
  | cget (k : Key) (r : Option Val)
  | cput (k : Key) (v : Val)
  | cpop (k : Key)
  | cclear
  | mclear
  | mget (k : MKey) (r : Option Val)
  | mset (k : MKey) (v : Val)
  | mdel (k : MKey)
  | crash
  deriving Repr, Inhabited, DecidableEq

def evOf (g : Grammar) (sh : Shared) (th : Thread) : Option Ev :=
  match th.pc, th.stack with
  | .rAcq, _ => some .acqP
  | .rClear, _ => some .cclear
  | .rMemo, _ => some .mclear
  | .rRel, _ => some .relP
  | .enter, f :: _ => if g.cached f.k then some .acqP else none
  | .lookup, f :: _ => some (.cget f.k (sh.cache.lookup f.k))
  | .put v, f :: _ => some (.cput f.k v)
  | .pop _ k', _ => some (.cpop k')
  | .rel _, _ => some .relP
  | _, _ => none

end PP.Threads
