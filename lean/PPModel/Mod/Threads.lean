/-
  C15 — model of the process-global memoisation state of pyparsing and of N threads using it.

  Shared state (class attributes of `ParserElement`, pyparsing/core.py):
    packrat_cache        core.py:974   (util.py:81 `_UnboundedCache` / util.py:102 `_FifoCache`)
    packrat_cache_lock   core.py:975   (RLock: owner + count)
    recursion_memos      core.py:939   (util.py:167 `UnboundedMemo`: `del` is a no-op; plain `{}` before
                                        `enable_left_recursion`)
    recursion_lock       core.py:938   (RLock)

  Part 1 (`Dict`, `Shared`)            python-dict data model (insertion ordered association list)
  Part 2 (`Thread`, `tstep`, `step`)   modes *off* and *packrat*: every thread runs
        reset_cache()                  core.py:1031-1037  acquire P; cache.clear(); memos.clear(); release P
        _parse(root)                   core.py:980-1026   `_parseCache`: acquire P; cache.get; on a miss run the
                                       element (nested `_parse` calls of the children, in the order decided by
                                       the element from the children's results), cache.set (util.py:113-117:
                                       `cache[key] = value`, then `while len(cache) > size:
                                       cache_pop(next(iter(cache)))` as separate steps), release P.
        An element whose `_parse` is `_parseNoCache` (memoisation off; or the top-level driver loop of
        parse_string / scan_string, which is not a cached call) is a key with `cached k = false`.
  Part 3 (`Ev`, `evStep`, `accepts`)   event-level semantics used to validate traces logged from the real
                                       class-level objects (both memoisation modes and left-recursion mode).
  Part 4 (`LR`)                        left-recursion mode: `Forward.parseImpl` core.py:5691-5737 as an
                                       instruction list over the memo table, whose key has NO input string.

  Assumptions (stated, not modelled): a single dict operation is atomic (GIL); `RLock` is a correct
  re-entrant lock.
-/
namespace PP.Threads

/-- packrat key `(self, instring, loc, callPreParse, do_actions)` core.py:984; `inp` identifies the string -/
structure Key where
  e : Nat
  inp : Nat
  loc : Nat
  flags : Nat
  deriving DecidableEq, Repr, Inhabited

/-- abstract outcome: an interned `(loc, tokens)` / exception value -/
abbrev Val := Nat
abbrev Tid := Nat

/-! ## Part 1: python dict -/

abbrev Dict (κ : Type) := List (κ × Val)

namespace Dict
variable {κ : Type} [DecidableEq κ]

def lookup : Dict κ → κ → Option Val
  | [], _ => none
  | (k', v) :: r, k => if k' = k then some v else lookup r k

/-- `d[k] = v`: an existing key keeps its position -/
def insert : Dict κ → κ → Val → Dict κ
  | [], k, v => [(k, v)]
  | (k', v') :: r, k, v => if k' = k then (k, v) :: r else (k', v') :: insert r k v

def erase (d : Dict κ) (k : κ) : Dict κ := d.filter (fun p => decide (p.1 ≠ k))

def has (d : Dict κ) (k : κ) : Bool := (lookup d k).isSome

end Dict

/-- memo key `(loc, self, do_actions)` core.py:5695 — no input string -/
structure MKey where
  loc : Nat
  fwd : Nat
  acts : Bool
  deriving DecidableEq, Repr, Inhabited

structure Shared where
  cache : Dict Key := []
  /-- `none`: `_UnboundedCache`; `some n`: `_FifoCache(n)` -/
  size : Option Nat := none
  memo : Dict MKey := []
  /-- `true`: `UnboundedMemo` (`__delitem__` is a no-op); `false`: plain dict -/
  memoRetains : Bool := false
  pOwner : Option Tid := none
  pCount : Nat := 0
  rOwner : Option Tid := none
  rCount : Nat := 0
  deriving Repr, Inhabited

/-! ## Part 2: threads in modes off / packrat -/

inductive Act where
  | call (k : Key)
  | ret (v : Val)
  /-- a NESTED entry-point call made by the element's parse action / condition while the element is being
      parsed: `sub.parse_string(s)` / `scan_string` / `search_string` / `transform_string` (core.py:1213, 1295):
      `reset_cache()` — acquire P (re-entrant when the caller is inside `_parseCache`), cache.clear(),
      memos.clear(), release P — then `_parse(k)` of the nested call's own driver loop `k`; its value is handed
      to the action like a child's result. -/
  | entry (k : Key)
  deriving Repr, Inhabited

/-- What an element does: after the results `rs` of the children visited so far, either parse another
    child or finish with a value. `cached k`: `_parse` of this call goes through `_parseCache`. -/
structure Grammar where
  body : Key → List Val → Act
  cached : Key → Bool

structure Frame where
  k : Key
  rs : List Val
  deriving Repr, Inhabited

inductive PC where
  | rAcq | rClear | rMemo | rRel               -- reset_cache
  | enter | lookup | run
  | put (v : Val) | chk (v : Val) | pick (v : Val) | pop (v : Val) (k : Key) | rel (v : Val)
  | retn (v : Val)
  | done (v : Val)
  | crash                                      -- StopIteration / KeyError inside `_FifoCache.set`
  deriving Repr, Inhabited, DecidableEq

structure Thread where
  root : Key
  pc : PC
  stack : List Frame
  deriving Repr, Inhabited

def Thread.init (root : Key) : Thread := ⟨root, .rAcq, [⟨root, []⟩]⟩

/-- `RLock.acquire` by `t` (non-blocking reading: `none` = would block) -/
def acquireP (sh : Shared) (t : Tid) : Option Shared :=
  if sh.pOwner = none ∨ sh.pOwner = some t then
    some { sh with pOwner := some t, pCount := sh.pCount + 1 }
  else none

def releaseP (sh : Shared) : Shared :=
  { sh with pCount := sh.pCount - 1, pOwner := if sh.pCount ≤ 1 then none else sh.pOwner }

/-- one step of thread `t` (its local state `th`) on the shared state; `none`: not enabled -/
def tstep (g : Grammar) (sh : Shared) (t : Tid) (th : Thread) : Option (Shared × Thread) :=
  match th.pc, th.stack with
  | .rAcq, _ => (acquireP sh t).map fun sh' => (sh', { th with pc := .rClear })
  | .rClear, _ => some ({ sh with cache := [] }, { th with pc := .rMemo })
  | .rMemo, _ => some ({ sh with memo := [] }, { th with pc := .rRel })
  | .rRel, _ => some (releaseP sh, { th with pc := .enter })
  | .enter, f :: _ =>
      if g.cached f.k then (acquireP sh t).map fun sh' => (sh', { th with pc := .lookup })
      else some (sh, { th with pc := .run })
  | .lookup, f :: _ =>
      match sh.cache.lookup f.k with
      | some v => some (sh, { th with pc := .rel v })
      | none => some (sh, { th with pc := .run })
  | .run, f :: rest =>
      match g.body f.k f.rs with
      | .call k' => some (sh, { th with pc := .enter, stack := ⟨k', []⟩ :: f :: rest })
      -- nested entry: exactly a thread start (`Thread.init`), but on top of the frames of the running parse
      | .entry k' => some (sh, { th with pc := .rAcq, stack := ⟨k', []⟩ :: f :: rest })
      | .ret v => some (sh, { th with pc := if g.cached f.k then .put v else .retn v })
  | .put v, f :: _ =>
      some ({ sh with cache := sh.cache.insert f.k v },
            { th with pc := match sh.size with | none => .rel v | some _ => .chk v })
  | .chk v, _ :: _ =>
      match sh.size with
      | none => some (sh, { th with pc := .rel v })
      | some n => some (sh, { th with pc := if sh.cache.length > n then .pick v else .rel v })
  | .pick v, _ :: _ =>
      match sh.cache with
      | [] => some (sh, { th with pc := .crash })
      | (k', _) :: _ => some (sh, { th with pc := .pop v k' })
  | .pop v k', _ :: _ =>
      if sh.cache.has k' then some ({ sh with cache := sh.cache.erase k' }, { th with pc := .chk v })
      else some (sh, { th with pc := .crash })
  | .rel v, _ :: _ => some (releaseP sh, { th with pc := .retn v })
  | .retn v, _ :: rest =>
      match rest with
      | [] => some (sh, { th with pc := .done v, stack := [] })
      | f' :: rest' => some (sh, { th with pc := .run, stack := { f' with rs := f'.rs ++ [v] } :: rest' })
  | _, _ => none

def upd {α : Type} (f : Tid → α) (t : Tid) (x : α) : Tid → α := fun t' => if t' = t then x else f t'

structure State where
  sh : Shared
  thr : Tid → Thread

def step (g : Grammar) (s : State) (t : Tid) : Option State :=
  (tstep g s.sh t (s.thr t)).map fun p => ⟨p.1, upd s.thr t p.2⟩

/-- reachability under *any* schedule -/
inductive Reach (g : Grammar) : State → State → Prop where
  | refl (s) : Reach g s s
  | tail {s s' s''} (t : Tid) : Reach g s s' → step g s' t = some s'' → Reach g s s''

/-- number of acquisitions of `packrat_cache_lock` the thread currently has -/
def insidePC : PC → Bool
  | .lookup | .run | .put _ | .chk _ | .pick _ | .pop _ _ | .rel _ => true
  | .crash => true   -- the model's crashed thread is terminal and keeps what it held (proved unreachable)
  | _ => false

def resetHeld : PC → Nat
  | .rClear | .rMemo | .rRel => 1
  | _ => 0

def cachedCount (g : Grammar) : List Frame → Nat
  | [] => 0
  | f :: r => (if g.cached f.k then 1 else 0) + cachedCount g r

def held (g : Grammar) (th : Thread) : Nat :=
  resetHeld th.pc +
  match th.stack with
  | [] => 0
  | f :: r => (if insidePC th.pc ∧ g.cached f.k then 1 else 0) + cachedCount g r

/-- program points that read or write the packrat cache / clear the memo table -/
def touching : PC → Bool
  | .rClear | .rMemo | .lookup | .put _ | .chk _ | .pick _ | .pop _ _ => true
  | _ => false

def finished : PC → Bool
  | .done _ | .crash => true
  | _ => false

/-- the serial meaning of a call: big-step evaluation without any cache -/
inductive Run (g : Grammar) : Key → List Val → Val → Prop where
  | ret {k rs v} : g.body k rs = .ret v → Run g k rs v
  | call {k rs k' r v} : g.body k rs = .call k' → Run g k' [] r → Run g k (rs ++ [r]) v → Run g k rs v
  | entry {k rs k' r v} : g.body k rs = .entry k' → Run g k' [] r → Run g k (rs ++ [r]) v → Run g k rs v

def Eval (g : Grammar) (k : Key) (v : Val) : Prop := Run g k [] v

/-! ### executable exploration (driver) -/

/-- visible event of the next step of a thread (what the instrumented real objects log) -/
inductive Ev where
  | acqP | relP | acqR | relR
  | cget (k : Key) (r : Option Val)
  | cput (k : Key) (v : Val)
  | cpop (k : Key)
  | cclear
  | mclear
  | mget (k : MKey) (r : Option Val)
  | mset (k : MKey) (v : Val)
  | mdel (k : MKey)
  | crash
  deriving Repr, Inhabited, DecidableEq

def evOf (g : Grammar) (sh : Shared) (th : Thread) : Option Ev :=
  match th.pc, th.stack with
  | .rAcq, _ => some .acqP
  | .rClear, _ => some .cclear
  | .rMemo, _ => some .mclear
  | .rRel, _ => some .relP
  | .enter, f :: _ => if g.cached f.k then some .acqP else none
  | .lookup, f :: _ => some (.cget f.k (sh.cache.lookup f.k))
  | .put v, f :: _ => some (.cput f.k v)
  | .pop _ k', _ => some (.cpop k')
  | .rel _, _ => some .relP
  | _, _ => none


/-! ## Part 3: event-level semantics (trace validation) -/

def acquireR (sh : Shared) (t : Tid) : Option Shared :=
  if sh.rOwner = none ∨ sh.rOwner = some t then
    some { sh with rOwner := some t, rCount := sh.rCount + 1 }
  else none

def releaseR (sh : Shared) : Shared :=
  { sh with rCount := sh.rCount - 1, rOwner := if sh.rCount ≤ 1 then none else sh.rOwner }

/-- Effect of one logged event of thread `t`; `none` = the event is not possible in the model:
    a lock acquired while another thread owns it, a cache/memo access without the lock the code takes for it
    (`packrat_cache_lock` for the cache and for `reset_cache`'s `recursion_memos.clear()`; `recursion_lock`
    for memo get/set/del in `Forward.parseImpl`), a returned value that differs from the dict contents, or an
    eviction that is not FIFO. -/
def evStep (sh : Shared) (t : Tid) : Ev → Option Shared
  | .acqP => acquireP sh t
  | .relP => if sh.pOwner = some t then some (releaseP sh) else none
  | .acqR => acquireR sh t
  | .relR => if sh.rOwner = some t then some (releaseR sh) else none
  | .cget k r => if sh.pOwner = some t ∧ sh.cache.lookup k = r then some sh else none
  | .cput k v => if sh.pOwner = some t then some { sh with cache := sh.cache.insert k v } else none
  | .cpop k =>
      match sh.size, sh.cache with
      | some n, (k', _) :: _ =>
          if sh.pOwner = some t ∧ k' = k ∧ sh.cache.length > n then some { sh with cache := sh.cache.erase k }
          else none
      | _, _ => none
  | .cclear => if sh.pOwner = some t then some { sh with cache := [] } else none
  | .mclear => if sh.pOwner = some t then some { sh with memo := [] } else none
  | .mget k r => if sh.rOwner = some t ∧ sh.memo.lookup k = r then some sh else none
  | .mset k v => if sh.rOwner = some t then some { sh with memo := sh.memo.insert k v } else none
  | .mdel k =>
      if sh.rOwner = some t then some (if sh.memoRetains then sh else { sh with memo := sh.memo.erase k })
      else none
  | .crash => none

/-- index of the first event the model cannot perform, or `none` when the whole trace is a run;
    at the end every `_FifoCache.set` must have finished evicting -/
def accepts : Shared → Nat → List (Tid × Ev) → Option Nat
  | _, _, [] => none
  | sh, i, (t, e) :: rest =>
      match evStep sh t e with
      | none => some i
      | some sh' => accepts sh' (i + 1) rest

/-! ### executable runs of Part 2 under a schedule -/

inductive Gran where
  | region   -- a thread is pre-empted only where it acquires `packrat_cache_lock` without holding it
  | event    -- ... before every logged event (`cpop` excepted: `_FifoCache.set` is one call)
  | lock     -- ... before every acquire / release of `packrat_cache_lock`, re-entrant ones included
  deriving DecidableEq, Repr

def visible (gran : Gran) (sh : Shared) (t : Tid) : Ev → Bool
  | .acqP => gran = .event || gran = .lock || sh.pOwner ≠ some t
  | .relP => gran = .event || gran = .lock
  | .cpop _ => false
  | _ => gran = .event

structure Cfg where
  g : Grammar
  gran : Gran
  n : Nat            -- threads 0..n-1

/-- thread `t` is parked at a visible event it can perform -/
def parkedEnabled (c : Cfg) (s : State) (t : Tid) : Bool :=
  match evOf c.g s.sh (s.thr t) with
  | some e => visible c.gran s.sh t e && (tstep c.g s.sh t (s.thr t)).isSome
  | none => false

/-- run `t` while its next step is not a visible event (fuel bounded) -/
def runSilent (c : Cfg) : Nat → State → Tid → List (Tid × Ev) → State × List (Tid × Ev)
  | 0, s, _, tr => (s, tr)
  | f + 1, s, t, tr =>
      match evOf c.g s.sh (s.thr t) with
      | some e =>
          if visible c.gran s.sh t e then (s, tr)
          else match step c.g s t with
            | some s' => runSilent c f s' t ((t, e) :: tr)
            | none => (s, tr)
      | none =>
          match step c.g s t with
          | some s' =>
              let tr' := if (s'.thr t).pc = .crash then (t, Ev.crash) :: tr else tr
              runSilent c f s' t tr'
          | none => (s, tr)

/-- let `t` perform its pending visible event and run on to its next one -/
def macroStep (c : Cfg) (fuel : Nat) (s : State) (t : Tid) (tr : List (Tid × Ev)) :
    Option (State × List (Tid × Ev)) :=
  if parkedEnabled c s t then
    match evOf c.g s.sh (s.thr t), step c.g s t with
    | some e, some s' => some (runSilent c fuel s' t ((t, e) :: tr))
    | _, _ => none
  else none

def enabledList (c : Cfg) (s : State) : List Tid := (List.range c.n).filter (parkedEnabled c s)

/-- follow `sched`; afterwards always the lowest enabled thread, until nobody is enabled -/
def runSched (c : Cfg) (fuel : Nat) : Nat → State → List Tid → List (Tid × Ev) →
    Option (State × List (Tid × Ev))
  | 0, s, _, tr => some (s, tr)
  | k + 1, s, sched, tr =>
      match sched with
      | t :: rest =>
          match macroStep c fuel s t tr with
          | some (s', tr') => runSched c fuel k s' rest tr'
          | none => none
      | [] =>
          match enabledList c s with
          | [] => some (s, tr)
          | t :: _ =>
              match macroStep c fuel s t tr with
              | some (s', tr') => runSched c fuel k s' [] tr'
              | none => none

def startAll (c : Cfg) (fuel : Nat) (s : State) : State × List (Tid × Ev) :=
  (List.range c.n).foldl (fun (p : State × List (Tid × Ev)) t => runSilent c fuel p.1 t p.2) (s, [])

/-- all complete schedules (depth-first, at most `limit`) -/
def explore (c : Cfg) (fuel : Nat) : Nat → State → List Tid → List (List Tid) → Nat → List (List Tid)
  | 0, _, _, acc, _ => acc
  | k + 1, s, pre, acc, limit =>
      match enabledList c s with
      | [] => pre.reverse :: acc
      | en =>
          en.foldl (fun acc t =>
            if acc.length ≥ limit then acc
            else match macroStep c fuel s t [] with
              | some (s', _) => explore c fuel k s' (t :: pre) acc limit
              | none => acc) acc

/-! ## Part 4: left-recursion mode -/
namespace LR

/-- (Line numbers as of /repo 16175de; re-checked against 9a7c23f: the SUCCESS path below is unchanged. That commit
    added, on the path "body fails before any match" only, `memo[peek_key] = (prev_loc, copy of exception)` and
    `memo[act_key] = memo[peek_key]` before re-raising, and makes a memo hit on an exception raise a copy. The
    failing path is not part of this machine — the witnesses use inputs on which the body succeeds — its events are
    covered by trace validation against `evStep` only, in the same-input LR leg.)
    `Forward.parseImpl` (core.py:5691-5737) with `do_actions=True` at `loc 0` for a Forward whose body is a
    terminal (its own parse does not touch shared state and yields `bodyVal` = a value determined by the
    thread's INPUT), preceded by `reset_cache()`. Program counter = position in the event order:
      0 acqP 1 cclear 2 mclear 3 relP                       reset_cache core.py:1031-1037
      4 acqR                                                 core.py:5691
      5 mget aT            hit: return it (→ 15)             core.py:5695-5698
      6 mset aF seed                                         core.py:5704
      7 mget aF  8 mset aT (that)                            core.py:5711 `memo[act_key] = memo[peek_key]`
      9 mset aT body  10 mset aF body                        core.py:5733, 5737 (first round: match got better)
      11 mget aT           KeyError escapes if absent        core.py:5725 (second round: not better)
      12 mset aF r  13 mdel aF  14 mdel aT                   core.py:5725-5726
      15 relR → done r                                       core.py:5727 -/
structure LThread where
  inp : Nat
  pc : Nat := 0
  reg : Val := 0
  result : Option Val := none     -- `some v`: returned v
  keyError : Bool := false
  deriving Repr, Inhabited, DecidableEq

def aT : MKey := ⟨0, 1, true⟩
def aF : MKey := ⟨0, 1, false⟩
def seed : Val := 0
def bodyVal (inp : Nat) : Val := inp + 1

def nextEv (sh : Shared) (th : LThread) : Option Ev :=
  if th.keyError ∨ th.result.isSome then none else
  match th.pc with
  | 0 => some .acqP | 1 => some .cclear | 2 => some .mclear | 3 => some .relP
  | 4 => some .acqR
  | 5 => some (.mget aT (sh.memo.lookup aT))
  | 6 => some (.mset aF seed)
  | 7 => some (.mget aF (sh.memo.lookup aF))
  | 8 => some (.mset aT th.reg)
  | 9 => some (.mset aT (bodyVal th.inp)) | 10 => some (.mset aF (bodyVal th.inp))
  | 11 => some (.mget aT (sh.memo.lookup aT))
  | 12 => some (.mset aF th.reg) | 13 => some (.mdel aF) | 14 => some (.mdel aT)
  | 15 => some .relR
  | _ => none

def advance (th : LThread) : Ev → LThread
  | .mget _ r =>
      if th.pc = 5 then
        match r with
        | some v => { th with pc := 15, reg := v }
        | none => { th with pc := 6 }
      else
        match r with
        | some v => { th with pc := th.pc + 1, reg := v }
        | none => { th with keyError := true }     -- KeyError propagates; `with` releases recursion_lock
  | .relR => { th with pc := 16, result := some th.reg }
  | _ => { th with pc := th.pc + 1 }

structure LState where
  sh : Shared
  thr : List LThread
  deriving Repr

def lstep (s : LState) (t : Tid) : Option (LState × Ev) :=
  match s.thr[t]? with
  | none => none
  | some th =>
    match nextEv s.sh th with
    | none => none
    | some e =>
      match evStep s.sh t e with
      | none => none
      | some sh' =>
        let th' := advance th e
        -- an escaping KeyError unwinds `with recursion_lock`
        let sh'' := if th'.keyError then releaseR sh' else sh'
        some (⟨sh'', s.thr.set t th'⟩, e)

def lrun : LState → List Tid → List (Tid × Ev) → Option (LState × List (Tid × Ev))
  | s, [], tr => some (s, tr.reverse)
  | s, t :: rest, tr =>
      match lstep s t with
      | some (s', e) => lrun s' rest ((t, e) :: tr)
      | none => none

def linit (inputs : List Nat) : LState :=
  ⟨{ memoRetains := true }, inputs.map fun i => { inp := i }⟩

end LR

/-! ## Part 5: lock discipline over BOTH class-level locks (all modes, nested entry calls included)

  Which lock is acquired while which is held, in the unchanged code:
    * `reset_cache()` (core.py:1040-1046) takes `packrat_cache_lock` (P) only and acquires nothing inside;
    * `_parseCache` (core.py:992) holds P across the whole nested parse of the element, parse actions included —
      so a nested `parse_string`/`scan_string` call made by an action re-enters P (RLock) for its `reset_cache()`;
    * `Forward.parseImpl` (core.py:5711, left-recursion mode only: core.py:5690 returns before it otherwise) holds
      `recursion_lock` (R) across the parse of its body, parse actions included — so a nested entry call made by an
      action takes P (for `reset_cache()`) while R is held;
    * packrat and left-recursion mode exclude each other (core.py:1107, 1154), so P is never held while R is taken;
    * every `Forward` uses the ONE class-wide `recursion_lock` (no element instance carries a lock of its own).
  Hence the one global order of the unchanged code is  R before P  (`codeRank`).  The machine itself is stated for
  any number of locks, so that a lock per `Forward` instance can be expressed (and shown to have no order).
  A thread is abstracted to the list of its lock operations (`tau` = any other step). -/
namespace Locks

/-- lock identities: 0 = `ParserElement.recursion_lock`, 1 = `ParserElement.packrat_cache_lock` (the two class-wide
    locks of the unchanged code), 2 + i = a lock object stored on the i-th element INSTANCE (the unchanged code has
    none - generated fact `Gen.instanceLocks = 0`, PPProofs/Props/Gen/C15Locks.lean; the scheduler wraps any it finds
    on the live grammar objects as `F<i>`) -/
abbrev Lock := Nat   -- (signatures below say `Nat` so that `omega` sees through)
def R : Nat := 0
def P : Nat := 1
def F (i : Nat) : Nat := i + 2

inductive Op where
  | acq (l : Nat)
  | rel (l : Nat)
  | tau
  deriving DecidableEq, Repr, Inhabited

/-- the acquisition order of the unchanged code: `recursion_lock` before `packrat_cache_lock`; an instance-level
    lock has no place in it (it ranks with `recursion_lock`, so two of them can never be nested in order) -/
def codeRank : Nat → Nat
  | 1 => 1
  | _ => 0

abbrev Held := Nat → Nat

def Held.zero : Held := fun _ => 0
def Held.inc (h : Held) (l : Nat) : Held := fun l' => if l' = l then h l' + 1 else h l'
def Held.dec (h : Held) (l : Nat) : Held := fun l' => if l' = l then h l' - 1 else h l'

/-- `lowerHeld n rank h l`: every lock (of the `n` locks of the system) the thread holds ranks strictly below `l` -/
def lowerHeld (n : Nat) (rank : Nat → Nat) (h : Held) (l : Nat) : Bool :=
  (List.range n).all fun l' => h l' == 0 || decide (rank l' < rank l)

def noneHeld (n : Nat) (h : Held) : Bool := (List.range n).all fun l' => h l' == 0

/-- the program respects the order `rank` over the locks `0 .. n-1` from hold counts `h` on: a lock that is not
    already held (RLock re-entrancy) is acquired only while every held lock ranks below it; only held locks are
    released; at the end nothing is held -/
def ordered (n : Nat) (rank : Nat → Nat) : Held → List Op → Bool
  | h, [] => noneHeld n h
  | h, .tau :: r => ordered n rank h r
  | h, .acq l :: r =>
      decide (l < n) && (decide (0 < h l) || lowerHeld n rank h l) && ordered n rank (h.inc l) r
  | h, .rel l :: r => decide (0 < h l) && ordered n rank (h.dec l) r

/-- index of the first operation that breaks the discipline (`none`: the program is ordered) -/
def firstViolation (n : Nat) (rank : Nat → Nat) : Held → Nat → List Op → Option Nat
  | h, i, [] => if noneHeld n h then none else some i
  | h, i, .tau :: r => firstViolation n rank h (i + 1) r
  | h, i, .acq l :: r =>
      if decide (l < n) && (decide (0 < h l) || lowerHeld n rank h l) then
        firstViolation n rank (h.inc l) (i + 1) r
      else some i
  | h, i, .rel l :: r => if 0 < h l then firstViolation n rank (h.dec l) (i + 1) r else some i

structure LState where
  owner : Nat → Option Tid
  count : Nat → Nat
  prog : Tid → List Op

def setL {α : Type} (f : Nat → α) (l : Nat) (x : α) : Nat → α := fun l' => if l' = l then x else f l'

/-- one step of thread `t`; `none`: finished, or blocked at an `acquire` of a lock another thread owns -/
def lstep (s : LState) (t : Tid) : Option LState :=
  match s.prog t with
  | [] => none
  | .tau :: r => some { s with prog := upd s.prog t r }
  | .acq l :: r =>
      if s.owner l = none ∨ s.owner l = some t then
        some { owner := setL s.owner l (some t), count := setL s.count l (s.count l + 1), prog := upd s.prog t r }
      else none
  | .rel l :: r =>
      if s.owner l = some t then
        some { owner := setL s.owner l (if s.count l ≤ 1 then none else some t),
               count := setL s.count l (s.count l - 1), prog := upd s.prog t r }
      else none

inductive LReach : LState → LState → Prop where
  | refl (s) : LReach s s
  | tail {s s' s''} (t : Tid) : LReach s s' → lstep s' t = some s'' → LReach s s''

def linit (prog : Tid → List Op) : LState := ⟨fun _ => none, fun _ => 0, prog⟩

/-- `reset_cache()`: acquire P; packrat_cache.clear(); recursion_memos.clear(); release P -/
def reset : List Op := [.acq P, .tau, .tau, .rel P]

/-- lock programs of `_parse` in modes off / packrat: `_parseCache` calls, and nested entry calls made by
    parse actions (`reset_cache()` followed by the nested parse) -/
inductive PackratProg : List Op → Prop where
  | nil : PackratProg []
  | tau {p} : PackratProg p → PackratProg (.tau :: p)
  | cached {a b} : PackratProg a → PackratProg b → PackratProg (.acq P :: (a ++ .rel P :: b))
  | entry {p} : PackratProg p → PackratProg (reset ++ p)

/-- lock programs of `_parse` in left-recursion mode: `Forward.parseImpl` calls (every Forward takes the class-wide
    lock R) and nested entry calls -/
inductive LRProg : List Op → Prop where
  | nil : LRProg []
  | tau {p} : LRProg p → LRProg (.tau :: p)
  | forward {a b} : LRProg a → LRProg b → LRProg (.acq R :: (a ++ .rel R :: b))
  | entry {p} : LRProg p → LRProg (reset ++ p)

/-! executable runs (driver, `decide`d examples) -/
def lrun : LState → List Tid → Option LState
  | s, [] => some s
  | s, t :: r => match lstep s t with | some s' => lrun s' r | none => none

def progOf (ps : List (List Op)) : Tid → List Op := fun t => ps.getD t []

end Locks

end PP.Threads
