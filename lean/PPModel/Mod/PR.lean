import PPModel.Base.PyList
/-
  Value model of `pyparsing.results.ParseResults` (pyparsing/results.py), operation by operation.

  * values (`α`) are opaque: no operation of the class that C10 speaks about looks inside a token
    or a named value (apart from `_parent`/`_name` bookkeeping on nested results, which no view of
    C10 observes and which is not modelled);
  * `_toklist`  ↦ `toks : List α`
  * `_tokdict`  ↦ `dict : Dict (List (α × Int))`  name ↦ occurrences `(value, position)`,
                  insertion ordered like a Python dict
  * `_all_names` ↦ `all : List String` (a set; only membership is ever used)
  * `_name`, `_modal` ↦ `name`, `modal` (written by `__init__`, read by no C10 operation)
-/
namespace PP.PR
open PP.PyList PP.PyDict

structure PR (α : Type) where
  toks : List α
  dict : Dict (List (α × Int))
  all : List String
  name : Option String := none
  modal : Bool := true

inductive Err where
  | index | key | type | value | attribute
  deriving Repr, DecidableEq

/-- what `results[name]` returns: the last value of an ordinary name, or a fresh
    `ParseResults([v, ...])` of all values of a list-all name -/
inductive View (α : Type) where
  | one (v : α)
  | many (vs : List α)
  deriving DecidableEq

inductive Out (α : Type) where
  | none                                  -- `None` / statement without value
  | val (v : α)
  | list (vs : List α)                    -- a plain list / the items of an iterator
  | view (w : View α)
  | empty                                 -- the empty string returned by `__getattr__`
  | bool (b : Bool)
  | nat (n : Nat)
  | strs (ks : List String)
  | views (ws : List (View α))
  | items (kws : List (String × View α))
  | err (e : Err)
  deriving DecidableEq

/-- the public operations of C10; `σ` is the type of a `ParseResults` argument (`+=`, `extend`) -/
inductive Op (α σ : Type) where
  | getInt (i : Int)                          -- r[i]
  | getSlice (sl : Slice)                     -- r[a:b:c]
  | getName (n : String)                      -- r[n]
  | getAttr (n : String)                      -- r.n   (n not an attribute of the class)
  | get (n : String) (d : Option α)           -- r.get(n[, d])
  | setInt (i : Int) (v : α)                  -- r[i] = v
  | setSlice (sl : Slice) (vs : List α)       -- r[a:b:c] = vs
  | setName (n : String) (v : α)              -- r[n] = v
  | delInt (i : Int)                          -- del r[i]
  | delSlice (sl : Slice)                     -- del r[a:b:c]
  | delName (n : String)                      -- del r[n]
  | pop0                                      -- r.pop()
  | popInt (i : Int) (d : Option α)           -- r.pop(i[, d])
  | popName (n : String) (d : Option α)       -- r.pop(n[, d]) / r.pop(n, default=d)
  | popBadKw                                  -- r.pop(..., foo=1): unexpected keyword
  | setSliceScalar (sl : Slice)               -- r[a:b:c] = <not iterable>
  | insert (i : Int) (v : α)                  -- r.insert(i, v)
  | append (v : α)                            -- r.append(v)
  | extendList (vs : List α)                  -- r.extend(vs)        vs a plain iterable
  | extendPR (o : σ)                          -- r.extend(o)         o a ParseResults
  | iadd (o : σ)                              -- r += o
  | clear                                     -- r.clear()
  | contains (n : String)                     -- n in r
  | len | bool | iter | reversed | keys | values | items | haskeys

variable {α : Type}

/-- results.py:269 `__bool__`: `not not (self._toklist or self._tokdict)` -/
def PR.truthy (s : PR α) : Bool := !s.toks.isEmpty || !s.dict.isEmpty

/-- results.py:215-222 `__getitem__` for a name -/
def getName (s : PR α) (n : String) : Except Err (View α) :=
  if n ∉ s.all then
    -- return self._tokdict[i][-1][0]
    match dget s.dict n with
    | none => .error .key
    | some occ =>
      match occ.getLast? with
      | none => .error .index
      | some vp => .ok (.one vp.1)
  else
    -- return ParseResults([v[0] for v in self._tokdict[i]])
    match dget s.dict n with
    | none => .error .key
    | some occ => .ok (.many (occ.map (·.1)))

/-- results.py:224-226 / 232-234: `self._tokdict[k] = self._tokdict.get(k, []) + [occ]` -/
def setOcc (s : PR α) (k : String) (vp : α × Int) : PR α :=
  { s with dict := dset s.dict k ((dget s.dict k).getD [] ++ [vp]) }

/-- results.py:253-261 fix-up after `del self._toklist[i]`:
    `for occurrences in values(): for j in removed: for k,(value,position): position - (position > j)` -/
def fixDel (removed : List Int) (d : Dict (List (α × Int))) : Dict (List (α × Int)) :=
  d.map (fun e => (e.1, removed.foldl
    (fun occ j => occ.map (fun vp => (vp.1, vp.2 - (if vp.2 > j then 1 else 0)))) e.2))

/-- results.py:391-395 fix-up after `self._toklist.insert(index, ...)`: `position + (position > index)`
    (the *raw* index, also when it is negative or beyond the end) -/
def fixIns (index : Int) (d : Dict (List (α × Int))) : Dict (List (α × Int)) :=
  d.map (fun e => (e.1, e.2.map (fun vp => (vp.1, vp.2 + (if vp.2 > index then 1 else 0)))))

/-- results.py:244-261 `__delitem__` for an int: IndexError from the list leaves everything untouched -/
def delInt (s : PR α) (i : Int) : Option (PR α) :=
  let mylen := s.toks.length
  match delIdx s.toks i with
  | none => none
  | some toks' =>
    let i' := if i < 0 then i + (mylen : Int) else i
    let sl : Slice := ⟨some i', some (i' + 1), none⟩
    match sl.indices mylen with
    | none => none
    | some (a, b, c) => some { s with toks := toks', dict := fixDel (rangeList a b c).reverse s.dict }

def delSliceOp (s : PR α) (sl : Slice) : Option (PR α) :=
  let mylen := s.toks.length
  match delSlice s.toks sl with
  | none => none
  | some toks' =>
    match sl.indices mylen with
    | none => none
    | some (a, b, c) => some { s with toks := toks', dict := fixDel (rangeList a b c).reverse s.dict }

/-- results.py:454-476 `__iadd__` -/
def iadd (s o : PR α) : PR α :=
  if !o.truthy then              -- `if not other:` … `self._all_names |= other._all_names; return self`
    { s with all := s.all ++ o.all.filter (fun n => n ∉ s.all) }
  else
    let s1 :=
      if o.dict.isEmpty then s     -- `if other._tokdict:`
      else
        let offset : Int := s.toks.length
        let addoffset (a : Int) : Int := if a < 0 then offset else a + offset
        let otherdictitems : List (String × (α × Int)) :=
          o.dict.flatMap (fun e => e.2.map (fun v => (e.1, (v.1, addoffset v.2))))
        otherdictitems.foldl (fun s kv => setOcc s kv.1 kv.2) s
    { s1 with toks := s1.toks ++ o.toks,                                    -- self._toklist += other._toklist
              all := s1.all ++ o.all.filter (fun n => n ∉ s1.all) }       -- self._all_names |= other._all_names

def viewsOf (s : PR α) : List String → Except Err (List (String × View α))
  | [] => .ok []
  | k :: ks =>
    match getName s k with
    | .error e => .error e
    | .ok w =>
      match viewsOf s ks with
      | .error e => .error e
      | .ok r => .ok ((k, w) :: r)

def outOfView : Except Err (View α) → Out α
  | .ok w => .view w
  | .error e => .err e

/-- one operation: new state and what the caller sees (exception class = `Out.err`) -/
def step (s : PR α) : Op α (PR α) → PR α × Out α
  | .getInt i =>                       -- 216-217
    match getIdx s.toks i with
    | some v => (s, .val v)
    | none => (s, .err .index)
  | .getSlice sl =>
    match getSlice s.toks sl with
    | some vs => (s, .list vs)
    | none => (s, .err .value)
  | .getName n => (s, outOfView (getName s n))
  | .getAttr n =>                      -- 441-447
    match getName s n with
    | .ok w => (s, .view w)
    | .error .key => if n.startsWith "__" then (s, .err .attribute) else (s, .empty)
    | .error e => (s, .err e)
  | .get n d =>                        -- 367-370
    if dhas s.dict n then (s, outOfView (getName s n))
    else match d with
      | some v => (s, .val v)
      | none => (s, .none)
  | .setInt i v =>                     -- 228-229
    match setIdx s.toks i v with
    | some t => ({ s with toks := t }, .none)
    | none => (s, .err .index)
  | .setSlice sl vs =>
    match setSlice s.toks sl vs with
    | some t => ({ s with toks := t }, .none)
    | none => (s, .err .value)
  | .setName n v => (setOcc s n (v, 0), .none)      -- 232-234
  | .delInt i =>
    match delInt s i with
    | some s' => (s', .none)
    | none => (s, .err .index)
  | .delSlice sl =>
    match delSliceOp s sl with
    | some s' => (s', .none)
    | none => (s, .err .value)
  | .delName n =>                      -- 240-242
    if dhas s.dict n then ({ s with dict := ddel s.dict n }, .none) else (s, .err .key)
  | .pop0 =>                           -- 333-334, 340-344 with args = [-1]
    match getIdx s.toks (-1) with
    | none => (s, .err .index)
    | some v =>
      match delInt s (-1) with
      | some s' => (s', .val v)
      | none => (s, .err .index)
  | .popInt i _ =>                     -- 340-344: `isinstance(args[0], int)` wins, a default is ignored
    match getIdx s.toks i with
    | none => (s, .err .index)
    | some v =>
      match delInt s i with
      | some s' => (s', .val v)
      | none => (s, .err .index)
  | .popName n d =>                    -- 340-347
    if d.isNone || dhas s.dict n then
      match getName s n with
      | .error e => (s, .err e)
      | .ok w =>
        if dhas s.dict n then ({ s with dict := ddel s.dict n }, .view w) else (s, .err .key)
    else match d with
      | some v => (s, .val v)
      | none => (s, .none)
  | .popBadKw => (s, .err .type)       -- 335-339: TypeError before anything is touched
  | .setSliceScalar sl =>              -- 229: list raises ValueError for step 0, else TypeError (not iterable)
    match sl.indices s.toks.length with
    | none => (s, .err .value)
    | some _ => (s, .err .type)
  | .insert i v =>                     -- 389-395
    ({ s with toks := insertAt s.toks i v, dict := fixIns i s.dict }, .none)
  | .append v => ({ s with toks := s.toks ++ [v] }, .none)            -- 412
  | .extendList vs => ({ s with toks := s.toks ++ vs }, .none)        -- 432
  | .extendPR o => (iadd s o, .none)                                  -- 429-430
  | .iadd o => (iadd s o, .none)
  | .clear => ({ s with toks := [], dict := [] }, .none)              -- 438-439 (`_all_names` stays)
  | .contains n => (s, .bool (dhas s.dict n))                         -- 264
  | .len => (s, .nat s.toks.length)
  | .bool => (s, .bool s.truthy)
  | .iter => (s, .list s.toks)
  | .reversed => (s, .list s.toks.reverse)                            -- 276 `self._toklist[::-1]`
  | .keys => (s, .strs (dkeys s.dict))
  | .values =>                                                        -- 282
    match viewsOf s (dkeys s.dict) with
    | .ok r => (s, .views (r.map (·.2)))
    | .error e => (s, .err e)
  | .items =>                                                         -- 285
    match viewsOf s (dkeys s.dict) with
    | .ok r => (s, .items r)
    | .error e => (s, .err e)
  | .haskeys => (s, .bool (!s.dict.isEmpty))                          -- 291

/-- run a history, collecting the outputs -/
def run (s : PR α) : List (Op α (PR α)) → PR α × List (Out α)
  | [] => (s, [])
  | op :: ops =>
    let r := step s op
    let rest := run r.1 ops
    (rest.1, r.2 :: rest.2)

/-! ### the constructor (results.py:153-213) -/

/-- shapes of the `toklist` argument that are modelled -/
inductive CtorArg (α : Type) where
  | none                                  -- None
  | list (vs : List α)                    -- a list (or generator) of values
  | scalar (v : α) (isStr : Bool)         -- a str/bytes (isStr) or a non-subscriptable object (int, float, …)

/-- `__new__` -/
def ctorToks : CtorArg α → List α
  | .none => []
  | .list vs => vs
  | .scalar v _ => [v]

/-- `ParseResults(arg, name, asList, modal)` for a fresh object; `wrap v` is the value `ParseResults(v)`
    (v itself when it already is a ParseResults). `name = none` also stands for `''`. -/
def ctor (wrap : α → α) (arg : CtorArg α) (name : Option String) (asList modal : Bool) :
    Except Err (PR α) :=
  let s0 : PR α := { toks := ctorToks arg, dict := [], all := [], name := none, modal := modal }
  match name with
  | none => .ok s0
  | some nm =>
    if nm = "" then .ok s0 else
    let s1 : PR α := { s0 with all := if modal then [] else [nm], name := some nm }
    match arg with
    | .none => .ok s1                                   -- `toklist in self._null_values`
    | .list [] => .ok s1
    | .list (v :: _) =>
      if asList then .ok (setOcc s1 nm (wrap v, 0))     -- 203
      else .ok (setOcc s1 nm (v, 0))                    -- 208
    | .scalar v true =>                                 -- 196-197: toklist = [toklist]
      if asList then .ok (setOcc s1 nm (wrap v, 0)) else .ok (setOcc s1 nm (v, 0))
    | .scalar v false =>
      if asList then .error .type                       -- 203: `toklist[0]` on a non-subscriptable
      else .ok (setOcc s1 nm (v, 0))                    -- 209-211

/-- `ParseResults(s, name, asList, modal)` for an existing object `s` (`__new__` returns `s`, then
    `__init__` runs on it; `mk toks` is the value `ParseResults(toks)`) -/
def reinit (mk : List α → α) (s : PR α) (name : Option String) (asList modal : Bool) : PR α :=
  let s0 := { s with modal := modal }
  match name with
  | none => s0
  | some nm =>
    if nm = "" then s0 else
    -- 188-191: `if not modal: self._all_names.add(name)`
    let s1 : PR α := { s0 with all := if modal then s0.all else (if nm ∈ s0.all then s0.all else s0.all ++ [nm]),
                               name := some nm }
    if asList then setOcc s1 nm (mk s1.toks, 0)          -- 200-201
    else match s1.toks with
      | v :: _ => setOcc s1 nm (v, 0)                    -- 208
      | [] => s1                                         -- 209-213 (`toklist is self`)

end PP.PR

/-! ### copies, pickling, concatenation (C11) — value level
    At the value level a copy is the same value; what is copied and what is shared is the subject of
    `PPModel/Mod/PRHeap.lean`. -/
namespace PP.PR
variable {α : Type}

/-- results.py:573-585 `copy()`: `ParseResults(self._toklist)` (new list, `__init__` sets `_modal = True`),
    `_tokdict.copy()`, `_all_names |=`, `_name` -/
def copyV (s : PR α) : PR α :=
  { toks := s.toks, dict := s.dict, all := ([] : List String) ++ s.all.filter (fun n => n ∉ ([] : List String)),
    name := s.name, modal := true }

/-- results.py:758-767 `__getstate__` -/
def getstate (s : PR α) : List α × (PyDict.Dict (List (α × Int)) × Option Unit × List String × Option String) :=
  (s.toks, (s.dict, none, s.all, s.name))

/-- results.py:774 `__getnewargs__` + 153-172 `__new__(cls, toklist, name)` (no `__init__` in the protocol) -/
def newFromArgs (s : PR α) : PR α := { toks := s.toks, dict := [], all := [], name := none, modal := true }

/-- results.py:769-772 `__setstate__` -/
def setstate (_ : PR α)
    (st : List α × (PyDict.Dict (List (α × Int)) × Option Unit × List String × Option String)) : PR α :=
  { toks := st.1, dict := st.2.1, all := st.2.2.2.1, name := st.2.2.2.2, modal := true }

/-- `copy.copy(s)` / `pickle.loads(pickle.dumps(s))` as far as the value goes:
    `cls.__new__(cls, *s.__getnewargs__())` then `__setstate__(s.__getstate__())` -/
def pickleRT (s : PR α) : PR α := setstate (newFromArgs s) (getstate s)

/-- results.py:449-452 `__add__` -/
def addV (a b : PR α) : PR α := iadd (copyV a) b

/-- results.py:476-482 `sum([x, y, ...])`: `0 + x` is `x.copy()`, then `+` from the left -/
def sumV : List (PR α) → Option (PR α)
  | [] => none
  | x :: rest => some (rest.foldl addV (copyV x))

/-- `ParseResults([])` -/
def emptyPR : PR α := { toks := [], dict := [], all := [] }

end PP.PR
