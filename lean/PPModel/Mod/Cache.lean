import PPModel.Mod.Entry
/-
  Packrat memoization (core.py:974-1026 `_parseCache`, util.py `_FifoCache` / `_UnboundedCache`).

  `_parseCache` looks `(self, instring, loc, callPreParse, do_actions)` up in the class-level cache; on a miss it
  runs `_parseNoCache` (whose nested `_parse` calls are again `_parseCache`) and stores a copy of the result or
  of the exception; on a hit it returns a copy of the stored result / re-raises the stored exception.

  Two models:
  * `parseH` — the cache abstracted as an **oracle**: at any call the cache may or may not answer, and when it
    answers it returns whatever it holds.  Which entries are present (size 0/1/2/128/unbounded, FIFO eviction,
    `reset_cache`) is left completely arbitrary; only *what* an entry can hold is constrained (`Oracle.Sound`).
  * `parseF` — the concrete bounded FIFO / unbounded cache threaded through the *top-level* calls of an entry
    point (`scan_string` keeps one cache across its successive `_parse` calls).
-/
namespace PP.Parse

/-- `h fuel id loc doActions callPre = some v`: the cache answers this call with `v` -/
abbrev Oracle := Nat → Nat → Nat → Bool → Bool → Option Out

/-- `expr._parse` with packrat enabled -/
def parseH (g : Grammar) (s : List Char) (h : Oracle) : Nat → P
  | 0 => fun _ _ _ _ => .hang
  | f+1 => fun id loc acts callPre =>
    match h f id loc acts callPre with
    | some v => v
    | none => parseStep g s (parseH g s h f) id loc acts callPre

/-- what a cache entry can hold: the outcome of a completed `_parseNoCache` run for exactly that key -/
def Oracle.Sound (g : Grammar) (s : List Char) (h : Oracle) : Prop :=
  ∀ f id loc a c v, h f id loc a c = some v → v ≠ .hang ∧ ∃ f', parse g s f' id loc a c = v

end PP.Parse

namespace PP.Parse

/-- packrat cache key without the expression-independent parts (the input string is fixed between two
    `reset_cache()` calls of one entry point; the multi-string situation is C15's) -/
structure Key where
  id : Nat
  loc : Nat
  acts : Bool
  callPre : Bool
  deriving DecidableEq, Repr

/-- the insertion-ordered dict inside `_FifoCache` / `_UnboundedCache` (util.py:73-123) -/
abbrev CacheL := List (Key × Out)

def CacheL.get (c : CacheL) (k : Key) : Option Out := (c.find? (fun kv => kv.1 = k)).map (·.2)

/-- `cache[key] = value`: an existing key keeps its position -/
def CacheL.assign : CacheL → Key → Out → CacheL
  | [], k, v => [(k, v)]
  | (k', v') :: c, k, v => if k' = k then (k, v) :: c else (k', v') :: CacheL.assign c k v

/-- `_FifoCache.set` (util.py:113-117): assign, then `while len(cache) > size: cache.pop(next(iter(cache)))`;
    `size = none` is `_UnboundedCache.set` -/
def CacheL.set (size : Option Nat) (c : CacheL) (k : Key) (v : Out) : CacheL :=
  let c' := c.assign k v
  match size with
  | none => c'
  | some n => c'.drop (c'.length - n)

/-- the oracle that answers from a given cache content (at every depth) -/
def oracleOf (c : CacheL) : Oracle := fun _ id loc a cp => c.get ⟨id, loc, a, cp⟩

end PP.Parse
