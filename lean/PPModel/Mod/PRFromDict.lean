/-
  `ParseResults.from_dict` (results.py:780-805) and `as_dict` (544-571) on trees.

  `J α` is the argument: a scalar, a Python list, or a (key-ordered) dict.  `R α` is what `as_dict`'s `to_item`
  walks over: an object that is not a ParseResults (returned as is), or a ParseResults given by its tokens and its
  `(name, results[name])` pairs in key order.  Keys of one dict are distinct (Python dicts), every name is an
  ordinary one (`modal=True` default), so `+=` in the loop of `from_dict` just appends one token and one name per
  item (C11 `concat_is_merge` on the full model).
-/
namespace PP.FromDict

inductive J (α : Type) where
  | atom (a : α)
  | list (xs : List (J α))
  | dict (kvs : List (String × J α))

inductive R (α : Type) where
  | obj (j : J α)
  | pr (toks : List (R α)) (names : List (String × R α))

variable {α : Type}

mutual
/-- one item `k: v` of the loop: the token that is appended and the value bound to `k`
    * Mapping:  `ret += cls.from_dict(v, name=k)` = `cls([inner], name=k)`: token `inner`, `k ↦ inner` (`ParseResults(inner)` is `inner`)
    * iterable: `ret += cls([v], name=k, asList=True)`: token `v` itself, `k ↦ ParseResults(v)` = a result over the items of `v`
    * scalar:   `ret += cls([v], name=k, asList=False)`: token `v`, `k ↦ v` -/
def conv : J α → R α × R α
  | .atom a => (.obj (.atom a), .obj (.atom a))
  | .list xs => (.obj (.list xs), .pr (xs.map .obj) [])
  | .dict kvs => (.pr (body kvs).1 (body kvs).2, .pr (body kvs).1 (body kvs).2)
/-- `ret = cls([]); for k, v in other.items(): ret += …` -/
def body : List (String × J α) → List (R α) × List (String × R α)
  | [] => ([], [])
  | (k, v) :: rest => ((conv v).1 :: (body rest).1, (k, (conv v).2) :: (body rest).2)
end

/-- `ParseResults.from_dict(d)` for a dict `d` -/
def fromDict (kvs : List (String × J α)) : R α := .pr (body kvs).1 (body kvs).2

mutual
/-- `to_item`: `obj.as_dict() if obj.haskeys() else [to_item(v) for v in obj]` for a ParseResults, else `obj` -/
def toItem : R α → J α
  | .obj j => j
  | .pr toks names => if names.isEmpty then .list (toItems toks) else .dict (asDictNames names)
def toItems : List (R α) → List (J α)
  | [] => []
  | r :: rs => toItem r :: toItems rs
/-- `as_dict`: `dict((k, to_item(v)) for k, v in self.items())` -/
def asDictNames : List (String × R α) → List (String × J α)
  | [] => []
  | (k, r) :: rest => (k, toItem r) :: asDictNames rest
end

def asDict : R α → List (String × J α)
  | .obj _ => []
  | .pr _ names => asDictNames names

end PP.FromDict
