import PPModel.Base.PyList
/-
  Heap model of `ParseResults` for the aliasing clauses of C11: which cells a copy shares with the original.

  A `ParseResults` object owns a *list cell* (`_toklist`) and a *dict cell* (`_tokdict`); the dict maps a name to an
  *occurrence-list cell* (a Python list of `(value, position)` records).  Tokens and named values are scalars or
  references to other `ParseResults` objects.  All four kinds of cells live in one id space with one allocation
  counter.  Transcribed from pyparsing/results.py: `copy` 573-585, `__getstate__`/`__setstate__`/`__getnewargs__`
  758-775, `deepcopy` 587-606, and the mutators 224-261, 372-439.
-/
namespace PP.PRHeap
open PP.PyList PP.PyDict

inductive HVal (α : Type) where
  | atom (a : α)
  | ref (o : Nat)
  deriving DecidableEq

structure HObj where
  lst : Nat
  dct : Nat
  all : List String
  deriving DecidableEq

structure Heap (α : Type) where
  lists : Nat → List (HVal α)
  dicts : Nat → Dict Nat
  occs : Nat → List (HVal α × Int)
  objs : Nat → HObj
  next : Nat

variable {α : Type}

def upd {β : Type} (f : Nat → β) (i : Nat) (v : β) : Nat → β := fun j => if j = i then v else f j

/-- `ParseResults.copy()`: `ret = ParseResults(self._toklist)` (a new list with the same items),
    `ret._tokdict = self._tokdict.copy()` (a new dict, the occurrence lists themselves are shared),
    `ret._all_names |= self._all_names`.  Returns the new heap and the id of the copy. -/
def copy (h : Heap α) (o : Nat) : Heap α × Nat :=
  let ob := h.objs o
  let l := h.next
  let d := h.next + 1
  let c := h.next + 2
  ({ h with lists := upd h.lists l (h.lists ob.lst),
            dicts := upd h.dicts d (h.dicts ob.dct),
            objs := upd h.objs c ⟨l, d, ob.all⟩,
            next := h.next + 3 }, c)

/-- `copy.copy(o)`: `state = o.__getstate__()` makes `self._toklist[:]` and `self._tokdict.copy()`;
    `cls.__new__(cls, *o.__getnewargs__())` makes an object with another fresh list and an empty dict;
    `__setstate__(state)` then installs the state's list and dict.  (The two cells made by `__new__` become garbage.) -/
def copyModule (h : Heap α) (o : Nat) : Heap α × Nat :=
  let ob := h.objs o
  let l1 := h.next          -- self._toklist[:]
  let d1 := h.next + 1      -- self._tokdict.copy()
  let l2 := h.next + 2      -- list(toklist) in __new__
  let d2 := h.next + 3      -- dict() in __new__
  let c := h.next + 4
  ({ h with lists := upd (upd h.lists l1 (h.lists ob.lst)) l2 (h.lists ob.lst),
            dicts := upd (upd h.dicts d1 (h.dicts ob.dct)) d2 [],
            objs := upd h.objs c ⟨l1, d1, ob.all⟩,
            next := h.next + 5 }, c)

/-- the mutations of an object's own tokens and own names -/
inductive Mut (α : Type) where
  | append (v : HVal α)
  | setTok (i : Int) (v : HVal α)
  | insert (i : Int) (v : HVal α)
  | delTok (i : Int)
  | setName (k : String) (v : HVal α)
  | addOcc (k : String) (v : HVal α) (p : Int)   -- `self[k] = _ParseResultsWithOffset(v, p)` (what `+=` does per name)
  | extendToks (vs : List (HVal α))               -- `self._toklist += other._toklist`
  | delName (k : String)
  | clear

/-- rewrite, in place, the positions in every occurrence list the object's dict refers to -/
def fixOccs (occs : Nat → List (HVal α × Int)) (cells : List Nat) (f : Int → Int) : Nat → List (HVal α × Int) :=
  cells.foldl (fun oc cell => upd oc cell ((oc cell).map (fun vp => (vp.1, f vp.2)))) occs

def mutate (h : Heap α) (o : Nat) : Mut α → Heap α
  | .append v => { h with lists := upd h.lists (h.objs o).lst (h.lists (h.objs o).lst ++ [v]) }
  | .setTok i v =>
    match setIdx (h.lists (h.objs o).lst) i v with
    | some t => { h with lists := upd h.lists (h.objs o).lst t }
    | none => h
  | .insert i v =>
    { h with lists := upd h.lists (h.objs o).lst (insertAt (h.lists (h.objs o).lst) i v),
             occs := fixOccs h.occs ((h.dicts (h.objs o).dct).map (·.2))
                       (fun p => p + (if p > i then 1 else 0)) }
  | .delTok i =>
    match normIdx (h.lists (h.objs o).lst).length i with
    | none => h
    | some j =>
      { h with lists := upd h.lists (h.objs o).lst ((h.lists (h.objs o).lst).eraseIdx j),
               occs := fixOccs h.occs ((h.dicts (h.objs o).dct).map (·.2))
                         (fun p => p - (if p > (j : Int) then 1 else 0)) }
  | .setName k v =>
    -- self._tokdict[k] = self._tokdict.get(k, []) + [occurrence]   (a NEW list)
    let old := match dget (h.dicts (h.objs o).dct) k with
      | some cell => h.occs cell
      | none => []
    { h with occs := upd h.occs h.next (old ++ [(v, 0)]),
             dicts := upd h.dicts (h.objs o).dct (dset (h.dicts (h.objs o).dct) k h.next),
             next := h.next + 1 }
  | .addOcc k v p =>
    -- results.py:225-226 `self._tokdict[k] = self._tokdict.get(k, list()) + [v]`: also a NEW list (copy-on-write);
    -- this is what keeps the occurrence lists a copy shares with its source (copy() copies the dict only) intact
    let old := match dget (h.dicts (h.objs o).dct) k with
      | some cell => h.occs cell
      | none => []
    { h with occs := upd h.occs h.next (old ++ [(v, p)]),
             dicts := upd h.dicts (h.objs o).dct (dset (h.dicts (h.objs o).dct) k h.next),
             next := h.next + 1 }
  | .extendToks vs => { h with lists := upd h.lists (h.objs o).lst (h.lists (h.objs o).lst ++ vs) }
  | .delName k => { h with dicts := upd h.dicts (h.objs o).dct (ddel (h.dicts (h.objs o).dct) k) }
  | .clear => { h with lists := upd h.lists (h.objs o).lst [], dicts := upd h.dicts (h.objs o).dct [] }

/-- `self += other` (results.py:454-476) as a sequence of own mutations of `self`: one `addOcc` per occurrence of
    `other` (positions re-based by `len(self)`), then the tokens (`_all_names` is a field of the object, not a cell) -/
def iaddMuts (offset : Int) (items : List (String × (HVal α × Int))) (toks : List (HVal α)) : List (Mut α) :=
  items.map (fun kv => Mut.addOcc kv.1 kv.2.1 (if kv.2.2 < 0 then offset else kv.2.2 + offset)) ++ [.extendToks toks]

def mutateAll (h : Heap α) (o : Nat) : List (Mut α) → Heap α
  | [] => h
  | m :: ms => mutateAll (mutate h o m) o ms

/-- what an object shows, one level deep: its tokens, and for every name the values in order -/
def view (h : Heap α) (o : Nat) : List (HVal α) × List (String × List (HVal α)) × List String :=
  (h.lists (h.objs o).lst,
   (h.dicts (h.objs o).dct).map (fun e => (e.1, (h.occs e.2).map (·.1))),
   (h.objs o).all)

/-- one step of `ParseResults.deepcopy()` for an object whose only nested result is token 0:
    `ret = self.copy()`, then `ret._toklist[0] = self._toklist[0].deepcopy()` (= `copy()` for a flat group).
    The name table of `ret` is left as `copy()` made it. -/
def deepcopy1 (h : Heap α) (o : Nat) : Heap α × Nat :=
  let r := copy h o
  match r.1.lists (h.objs o).lst with
  | .ref n :: _ =>
    let r2 := copy r.1 n
    ({ r2.1 with lists := upd r2.1.lists (r2.1.objs r.2).lst
                   ((r2.1.lists (r2.1.objs r.2).lst).set 0 (.ref r2.2)) }, r.2)
  | _ => r

end PP.PRHeap

namespace PP.PRHeap
/-! ### the sharing table (executable; compared with the real class on every run)
    Shape: object 2 = inner group `['a']`; object 5 = outer `[<inner>, 'b']`, `g ↦ <inner>`, `x ↦ 'b'`. -/

def shapeHeap : Heap String :=
  { lists := fun i => if i = 0 then [.atom "a"] else if i = 3 then [.ref 2, .atom "b"] else [],
    dicts := fun i => if i = 4 then [("g", 6), ("x", 7)] else [],
    occs := fun i => if i = 6 then [(.ref 2, 0)] else if i = 7 then [(.atom "b", 1)] else [],
    objs := fun i => if i = 2 then ⟨0, 1, []⟩ else ⟨3, 4, []⟩,
    next := 8 }

/-- does the probe, applied after making a copy of kind `kind` of the outer object, change what the *other* side
    shows (outer view or the view of the original inner group)?  `none` for unknown commands. -/
def sharing (kind probe : String) : Option Bool :=
  let h0 := shapeHeap
  let mk : Option (Heap String × Nat) :=
    if kind = "copy" then some (copy h0 5)
    else if kind = "copy.copy" then some (copyModule h0 5)
    else if kind = "deepcopy" then some (deepcopy1 h0 5)
    else none
  match mk with
  | none => none
  | some (h1, c) =>
    let changed (h2 : Heap String) (who : Nat) : Bool :=
      decide (view h2 who ≠ view h1 who) || decide (view h2 2 ≠ view h1 2)
    let tokRef : Option Nat := match (view h1 c).1 with
      | .ref n :: _ => some n
      | _ => none
    let nameRef : Option Nat := match (view h1 c).2.1 with
      | (_, .ref n :: _) :: _ => some n
      | _ => none
    if probe = "own-append" then some (changed (mutate h1 c (.append (.atom "z"))) 5)
    else if probe = "own-setname" then some (changed (mutate h1 c (.setName "x" (.atom "new"))) 5)
    else if probe = "own-deltok" then some (changed (mutate h1 c (.delTok 0)) 5)
    else if probe = "own-insert" then some (changed (mutate h1 c (.insert 0 (.atom "z"))) 5)
    else if probe = "own-delname" then some (changed (mutate h1 c (.delName "g")) 5)
    else if probe = "own-clear" then some (changed (mutate h1 c .clear) 5)
    -- `c += other` where `other` binds `x` (a name the source has) and `g`, and brings one token
    else if probe = "own-iadd-shared-name" then
      some (changed (mutateAll h1 c (iaddMuts 2 [("x", (.atom "new", 0)), ("g", (.atom "new", 0))] [.atom "new"])) 5)
    else if probe = "orig-iadd-shared-name" then
      some (decide (view (mutateAll h1 5 (iaddMuts 2 [("x", (.atom "new", 0)), ("g", (.atom "new", 0))] [.atom "new"])) c
                      ≠ view h1 c))
    else if probe = "orig-append" then some (decide (view (mutate h1 5 (.append (.atom "z"))) c ≠ view h1 c))
    else if probe = "orig-setname" then some (decide (view (mutate h1 5 (.setName "x" (.atom "new"))) c ≠ view h1 c))
    else if probe = "nested-via-token" then tokRef.map (fun n => changed (mutate h1 n (.append (.atom "z"))) 5)
    else if probe = "nested-via-name" then nameRef.map (fun n => changed (mutate h1 n (.append (.atom "z"))) 5)
    else none

end PP.PRHeap
