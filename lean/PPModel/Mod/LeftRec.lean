import PPModel.Mod.Entry
/-
  Bounded ("seed growing") left recursion: Forward.parseImpl under enable_left_recursion (core.py ~5700-5765).

  The real code keeps a class-level memo table keyed `(loc, Forward, do_actions)`.  While a Forward is being grown at a
  location, nested references to it at that location get the *previous round's* result from the table (initially a
  failure seed); entries of finished Forwards are retained (UnboundedMemo never deletes, LRUMemo keeps `capacity`
  deleted entries) and are re-used by later visits.

  Model: the in-growth entries are an **environment** passed *down* into the body evaluation (`Env`); finished Forwards
  are simply evaluated again.  For a parser without side effects re-evaluation and re-use of a retained entry are the
  same thing as long as retention is sound; where it is not (a finished inner Forward that depended on an outer seed:
  indirect left recursion; a seed left behind by a fatal exception) the real code deviates from this model — those are
  the registered findings of C04 / C03, and the correspondence run stays out of exactly those regions.
-/
namespace PP.Parse

structure LKey where
  id : Nat
  loc : Nat
  acts : Bool
  deriving DecidableEq, Repr

abbrev Env := List (LKey × Out)

def Env.get (env : Env) (k : LKey) : Option Out := (env.find? (fun kv => kv.1 = k)).map (·.2)

def Env.set (env : Env) (k : LKey) (v : Out) : Env := (k, v) :: env.filter (fun kv => kv.1 ≠ k)

/-- `new_loc <= prev_loc` where the failure seed has `prev_loc = loc - 1` -/
def notBetter (newLoc loc : Nat) (prev : Out) : Bool :=
  match prev with
  | .ok pl _ => newLoc ≤ pl
  | _ => newLoc + 1 ≤ loc

/-- the `while True` growth loop (5733-5765).  `body a pk ak` evaluates the Forward's expression with `do_actions = a`
    while the memo holds `pk` under the peek key and `ak` under the action key. -/
def growLoop (body : Bool → Out → Out → Out) (acts : Bool) (loc : Nat) : Nat → Out → Out → Out
  | 0, _, _ => .hang
  | k+1, prevPeek, prevAct =>
    match body false prevPeek prevAct with
    | .fail .parse l =>
      (match prevPeek with
       | .ok _ _ => if acts then prevAct else prevPeek   -- no longer match: keep the previous round
       | _ => .fail .parse l)                             -- failed before getting any match
    | .ok nl nt =>
      if notBetter nl loc prevPeek then (if acts then prevAct else prevPeek)
      else if acts then
        match body true prevPeek prevAct with
        | .ok al at' => growLoop body acts loc k (.ok nl nt) (.ok al at')
        | o => o
      else growLoop body acts loc k (.ok nl nt) prevAct
    | o => o

/-- `_parseNoCache` with the class-specific `parseImpl` supplied from outside -/
def parseStepWith (g : Grammar) (s : List Char) (p : P) (impl : Node → Nat → Bool → Out) : P :=
  fun id loc acts callPre =>
  match g[id]? with
  | none => .hang
  | some nd =>
    match (if callPre && nd.callPre then preParse p nd s loc else PreR.at loc) with
    | .abort o => o
    | .at pre =>
      let r := impl nd pre acts
      let r := match r with
        | .idx => if nd.mayIdx || pre ≥ s.length then Out.fail .parse s.length else .idx
        | r => r
      match r with
      | .ok e ts =>
        let ts := postParse nd ts
        if !nd.acts.isEmpty && (acts || nd.callDuringTry) then runActs nd.acts pre e ts else .ok e ts
      | o => o

/-- `expr._parse` under enable_left_recursion -/
def parseLR (g : Grammar) (s : List Char) : Nat → Env → P
  | 0, _ => fun _ _ _ _ => .hang
  | f+1, env => fun id loc acts callPre =>
    parseStepWith g s (parseLR g s f env) (fun nd pre a =>
      match nd.kind with
      | .forward (some e) =>
        -- memo hit: a seed / previous round of a growth in progress at this location
        (match env.get ⟨id, pre, a⟩ with
         | some v => v
         | none =>
           let seed : Out := .fail .parse pre     -- "Forward recursion without base case"
           growLoop (fun a' pk ak =>
               let env1 := env.set ⟨id, pre, false⟩ pk
               let env2 := if a then env1.set ⟨id, pre, true⟩ ak else env1
               enhanceImpl (parseLR g s f env2) a' (some e) pre)
             a pre (s.length + 2) seed seed)
      | _ => parseImpl g (parseLR g s f env) nd s pre a) id loc acts callPre

end PP.Parse
