"""Structural stand-in for the `railroad-diagrams` package (module name `railroad`), used by the C20 check.

The real package is not installed here (the `railroad` 0.5.0 in /venv is an unrelated package).  This
module reproduces the *constructor signatures* that pyparsing/diagram/__init__.py uses and records the
constructor tree verbatim (raw arguments, nothing wrapped or normalised), so a walk over the result
sees exactly what pyparsing handed to the package: a `None` or `""` where an item should be is kept
as `None` / `""` (the real package would wrap a str into Terminal(str) and crash or draw an empty box).

writeSvg / writeStandalone emit a marker string `<svg data-stub="Diagram">…</svg>` that lists the link
targets, so railroad_to_html can be exercised with the real jinja2 template.
"""
from __future__ import annotations

STUB = True
__version__ = "stub-3.0"


class DiagramItem:
    fields = ()

    def __init__(self, name="g", attrs=None, text=None):
        self.name = name
        self.attrs = attrs or {}
        self.children = [text] if text is not None else []

    # -- structural view -------------------------------------------------------------------
    def kind(self):
        return type(self).__name__

    def slots(self):
        """list of (slot-name, raw value) for the item positions of this node"""
        return []

    def writeSvg(self, write):
        write(f'<g data-stub="{self.kind()}"/>')

    def __repr__(self):
        return f"{self.kind()}({', '.join(f'{k}={v!r}' for k, v in self.slots())})"


class DiagramMultiContainer(DiagramItem):
    def __init__(self, *items):
        DiagramItem.__init__(self)
        self.items = list(items)

    def slots(self):
        return [(f"items[{i}]", x) for i, x in enumerate(self.items)]


class Diagram(DiagramMultiContainer):
    def __init__(self, *items, **kwargs):
        DiagramMultiContainer.__init__(self, *items)
        self.type = kwargs.pop("type", "simple")
        self.css = kwargs.pop("css", None)
        self.kwargs = kwargs

    def _links(self):
        out = []

        def walk(x):
            if isinstance(x, NonTerminal):
                out.append(x.href)
            if isinstance(x, DiagramItem):
                for _, v in x.slots():
                    walk(v)

        walk(self)
        return out

    def writeSvg(self, write):
        write(f'<svg data-stub="Diagram" data-links="{" ".join(str(h) for h in self._links())}"></svg>')

    def writeStandalone(self, write, css=None):
        write(f'<svg data-stub="Diagram" data-standalone="1" '
              f'data-links="{" ".join(str(h) for h in self._links())}"></svg>')


class Sequence(DiagramMultiContainer):
    def __init__(self, *items):
        DiagramMultiContainer.__init__(self, *items)


class Stack(DiagramMultiContainer):
    def __init__(self, *items):
        DiagramMultiContainer.__init__(self, *items)


class OptionalSequence(DiagramMultiContainer):
    def __init__(self, *items):
        DiagramMultiContainer.__init__(self, *items)


class AlternatingSequence(DiagramMultiContainer):
    def __init__(self, *items):
        DiagramMultiContainer.__init__(self, *items)


class Choice(DiagramMultiContainer):
    def __init__(self, default, *items):
        DiagramMultiContainer.__init__(self, *items)
        self.default = default

    def slots(self):
        return [(f"items[{i}]", x) for i, x in enumerate(self.items)]


class MultipleChoice(DiagramMultiContainer):
    def __init__(self, default, type, *items):
        DiagramMultiContainer.__init__(self, *items)
        self.default = default
        self.type = type


class HorizontalChoice(DiagramMultiContainer):
    def __init__(self, *items):
        DiagramMultiContainer.__init__(self, *items)


class _Single(DiagramItem):
    def __init__(self, item):
        DiagramItem.__init__(self)
        self.item = item

    def slots(self):
        return [("item", self.item)]


class Optional(_Single):
    def __init__(self, item, skip=False):
        _Single.__init__(self, item)
        self.skip = skip


class OneOrMore(_Single):
    def __init__(self, item, repeat=None):
        _Single.__init__(self, item)
        self.rep = repeat


class ZeroOrMore(_Single):
    def __init__(self, item, repeat=None, skip=False):
        _Single.__init__(self, item)
        self.rep = repeat
        self.skip = skip


class Group(_Single):
    def __init__(self, item, label=None):
        _Single.__init__(self, item)
        self.label = label


class _Text(DiagramItem):
    def __init__(self, text, href=None, title=None, cls=""):
        DiagramItem.__init__(self)
        self.text = text
        self.href = href
        self.title = title
        self.cls = cls

    def __repr__(self):
        return f"{self.kind()}({self.text!r}" + (f", href={self.href!r})" if self.href else ")")


class Terminal(_Text):
    pass


class NonTerminal(_Text):
    pass


class Comment(_Text):
    pass


class Skip(DiagramItem):
    def __init__(self):
        DiagramItem.__init__(self)


class Start(DiagramItem):
    def __init__(self, type="simple", label=None):
        DiagramItem.__init__(self)
        self.type, self.label = type, label


class End(DiagramItem):
    def __init__(self, type="simple"):
        DiagramItem.__init__(self)
        self.type = type
