"""Shared machinery of the /verif checks.

A check (harness/props/cXX.py: run(ctx)) consists of three legs, all recorded in the Ctx:

  proof leg           ctx.proof_leg(...)        build Props/Cxx.lean against the regenerated facts,
                                                audit axioms / banned tokens
  correspondence leg  ctx.correspond(...)       run the Lean model (compiled driver) and the real
                                                code on the same cases and diff
  search leg          ctx.fail_input(...)       a concrete input/history on which the *real code*
                                                breaks the property (oracle = the proved statement)

Decision (ctx.finish): a failing input that is not a registered known finding => VIOLATION with
that replay; otherwise a broken obligation or correspondence => VIOLATION ... no-failing-input-found
(replay names the theorem / correspondence); otherwise exit 0.  Harness trouble => exit 2.
"""
from __future__ import annotations

import fcntl
import hashlib
import json
import os
import random
import re
import subprocess
import sys
import time
import traceback
from pathlib import Path

VERIF = Path(__file__).resolve().parent.parent
REPO = Path(os.environ.get("VERIF_REPO", "/repo"))
LEAN = VERIF / "lean"
DRIVER = LEAN / ".lake" / "build" / "bin" / "ppdriver"
GUARD = "PYPARSING_VERIF"

ALLOWED_AXIOMS = {"propext", "Classical.choice", "Quot.sound"}
BANNED = re.compile(
    r"\bsorry\b|\badmit\b|^\s*axiom\s|native_decide|bv_decide|implemented_by|\bunsafe\s|maxHeartbeats\s+0"
)

TRUSTED_BASE = [
    "Lean 4.33.0 kernel (lake build; thorough tier also leanchecker)",
    "axioms allowed in property theorems: propext, Classical.choice, Quot.sound (audited by #print axioms every run)",
    "hand-written Lean models under lean/PPModel are faithful only as far as the correspondence leg exercises them",
    "harness: S-expression codec (harness/sexp.py, PPModel/Base/Sexp.lean), canonicalisers, generators",
    "CPython str/list/dict/re primitives as transcribed in the models",
]


def import_pyparsing():
    """import the working tree of /repo (never an installed copy)"""
    os.environ.setdefault(GUARD, "1")
    rp = str(REPO)
    if rp in sys.path:
        sys.path.remove(rp)
    sys.path.insert(0, rp)
    import pyparsing  # noqa

    assert Path(pyparsing.__file__).resolve().parent == (REPO / "pyparsing").resolve(), pyparsing.__file__
    return pyparsing


class HarnessError(Exception):
    pass


class CaseTimeout(BaseException):
    """raised by the per-case alarm; BaseException so pyparsing's own handlers cannot swallow it"""


def _with_alarm_once(seconds, fn, *a, **kw):
    """run fn under a per-case time limit.  The limit is on the *CPU time of this process* (ITIMER_PROF), so a busy
    machine (16 checks side by side) cannot turn a slow case into a "hang"; a wall-clock backstop of 20x the limit
    catches a case that sleeps instead of spinning."""
    import signal

    def _h(signum, frame):
        raise CaseTimeout()

    old_p = signal.signal(signal.SIGPROF, _h)
    old_r = signal.signal(signal.SIGALRM, _h)
    signal.setitimer(signal.ITIMER_PROF, seconds)
    signal.setitimer(signal.ITIMER_REAL, seconds * 20)
    try:
        return fn(*a, **kw)
    finally:
        signal.setitimer(signal.ITIMER_PROF, 0)
        signal.setitimer(signal.ITIMER_REAL, 0)
        signal.signal(signal.SIGPROF, old_p)
        signal.signal(signal.SIGALRM, old_r)


def with_alarm(seconds, fn, *a, **kw):
    """run fn under a per-case CPU-time limit (see _with_alarm_once).  Slow is not the same as stuck: a call that exceeds
    the limit is tried once more with a limit ten times as generous before CaseTimeout is raised, so that a case is
    recorded as a hang only when it really does not come back (fn should be repeatable; a non-repeatable fn can only
    be affected in a case that would otherwise have been reported as a hang)."""
    try:
        return _with_alarm_once(seconds, fn, *a, **kw)
    except CaseTimeout:
        return _with_alarm_once(seconds * 10, fn, *a, **kw)


with_alarm_retry = with_alarm


# --------------------------------------------------------------------------------------------
# Lean side
# --------------------------------------------------------------------------------------------
class LeanBuild:
    def __init__(self, ok, log, failed):
        self.ok, self.log, self.failed = ok, log, failed


def _lock():
    LEAN.mkdir(exist_ok=True)
    f = open(LEAN / ".build.lock", "w")
    fcntl.flock(f, fcntl.LOCK_EX)
    return f


def write_if_changed(path: Path, content: str) -> bool:
    path.parent.mkdir(parents=True, exist_ok=True)
    if path.exists() and path.read_text() == content:
        return False
    path.write_text(content)
    return True


def lake_build(targets, timeout=3000) -> LeanBuild:
    lk = _lock()
    try:
        p = subprocess.run(
            ["lake", "build", *targets], cwd=LEAN, capture_output=True, text=True, timeout=timeout
        )
    finally:
        lk.close()
    log = p.stdout + p.stderr
    failed = re.findall(r"^- (\S+)$", log, flags=re.M)
    return LeanBuild(p.returncode == 0, log, failed)


def lean_run_file(relpath, timeout=1200):
    """`lake env lean <file>`: elaborate one file against the built library, return its output"""
    p = subprocess.run(
        ["lake", "env", "lean", relpath], cwd=LEAN, capture_output=True, text=True, timeout=timeout
    )
    return p.returncode, p.stdout + p.stderr


def strip_lean_comments(src: str) -> str:
    out, i, n, depth = [], 0, len(src), 0
    while i < n:
        if src.startswith("/-", i):
            depth += 1
            i += 2
        elif depth and src.startswith("-/", i):
            depth -= 1
            i += 2
        elif depth:
            if src[i] == "\n":
                out.append("\n")
            i += 1
        elif src.startswith("--", i):
            while i < n and src[i] != "\n":
                i += 1
        else:
            out.append(src[i])
            i += 1
    return "".join(out)


def grep_banned(files):
    hits = []
    for f in files:
        txt = strip_lean_comments(Path(f).read_text())
        for ln, l in enumerate(txt.splitlines(), 1):
            if BANNED.search(l):
                hits.append(f"{Path(f).relative_to(LEAN)}:{ln}: {l.strip()[:120]}")
    return hits


def lean_sources_of(module: str):
    """transitive closure of project-local imports of a module (files under lean/)"""
    seen, todo = {}, [module]
    while todo:
        m = todo.pop()
        if m in seen:
            continue
        p = LEAN / (m.replace(".", "/") + ".lean")
        if not p.exists():
            continue
        seen[m] = p
        for imp in re.findall(r"^import\s+(\S+)", p.read_text(), flags=re.M):
            if imp.startswith(("PPModel", "PPProofs")):
                todo.append(imp)
    return seen


class Driver:
    """the compiled Lean model driver (line protocol)"""

    def __init__(self):
        if not DRIVER.exists():
            raise HarnessError(f"driver not built: {DRIVER}")

    MODEL_TIMEOUT = "(model-timeout)"

    def run(self, lines, timeout=1800, line_timeout=40.0):
        """one answer per input line.  A line the model does not answer within `line_timeout` seconds (the LR model
        re-evaluates finished Forwards and is exponential on some shapes) is answered MODEL_TIMEOUT and the driver is
        restarted on the rest; callers drop such cases from the comparison and count them."""
        outs, i, restarts = [], 0, 0
        t_end = time.time() + timeout
        while i < len(lines):
            got, why, err = self._stream(lines[i:], line_timeout, t_end)
            outs += got
            i += len(got)
            if i >= len(lines):
                break
            if why == "line-timeout" and restarts < 200:
                outs.append(self.MODEL_TIMEOUT)
                i += 1
                restarts += 1
                continue
            raise HarnessError(f"driver stopped ({why}) lines_in={len(lines)} lines_out={len(outs)} stderr={err[-500:]!r} "
                               f"next_input={lines[i]!r}")
        return outs

    def _stream(self, lines, line_timeout, t_end):
        import select
        import threading
        p = subprocess.Popen([str(DRIVER)], stdin=subprocess.PIPE, stdout=subprocess.PIPE, stderr=subprocess.PIPE)
        data = ("\n".join(lines) + "\n").encode()

        def feed():
            try:
                p.stdin.write(data)
                p.stdin.close()
            except (BrokenPipeError, ValueError, OSError):
                pass

        th = threading.Thread(target=feed, daemon=True)
        th.start()
        fd = p.stdout.fileno()
        buf, outs, why = b"", [], "eof"
        while len(outs) < len(lines):
            if time.time() > t_end:
                why = "total-timeout"
                break
            r, _, _ = select.select([fd], [], [], line_timeout)
            if not r:
                why = "line-timeout"
                break
            chunk = os.read(fd, 1 << 16)
            if not chunk:
                why = "eof"
                break
            buf += chunk
            *full, buf = buf.split(b"\n")
            outs += [x.decode() for x in full]
        if len(outs) < len(lines):
            p.kill()
        try:
            p.stdout.close()
        except Exception:  # noqa
            pass
        err = b""
        try:
            err = p.stderr.read() or b""
            p.stderr.close()
        except Exception:  # noqa
            pass
        p.wait()
        if len(outs) >= len(lines):
            why = "done"
        return outs[: len(lines)], why, err.decode(errors="replace")

    def run_sharded(self, lines, shards=16, timeout=1800):
        if len(lines) < 2000:
            return self.run(lines, timeout)
        from concurrent.futures import ThreadPoolExecutor

        k = (len(lines) + shards - 1) // shards
        chunks = [lines[i:i + k] for i in range(0, len(lines), k)]
        with ThreadPoolExecutor(len(chunks)) as ex:
            res = list(ex.map(lambda c: self.run(c, timeout), chunks))
        return [o for r in res for o in r]


# --------------------------------------------------------------------------------------------
# known findings
# --------------------------------------------------------------------------------------------
def load_known(prop):
    p = VERIF / "known_findings.json"
    if not p.exists():
        return []
    data = json.loads(p.read_text())
    return [e for e in data.get("findings", []) if e.get("property") == prop]


# --------------------------------------------------------------------------------------------
# context
# --------------------------------------------------------------------------------------------
class _Broken(list):
    def __bool__(self):
        return len(self) > 0 or os.environ.get("VERIF_FORCE_SEARCH") == "1"


class Ctx:
    def __init__(self, prop, tier, seed):
        self.prop, self.tier, self.seed = prop, tier, seed
        self.rng = random.Random(f"{prop}-{seed}")
        self.t0 = time.time()
        self.obligations = []  # (name, ok, detail)
        # descriptions of broken obligations / correspondences.  VERIF_FORCE_SEARCH=1 (self-test of the machinery on the
        # unchanged tree): the list reads as non-empty, so every check runs its failing-input search, but nothing is
        # reported for it — the searches themselves must then stay quiet.
        self.broken = _Broken()
        self.fail_inputs = []  # concrete failing inputs on the real code (not known)
        self.known_lines = []  # KNOWN-FINDING lines
        self.known_entries = load_known(prop)
        self.cov = {
            "evaluations": 0,
            "distinct_nontrivial": 0,
            "traces_validated_against_impl": 0,
            "disagreements_checked": 0,
            "samples": [],
            "streams": {},
        }
        self._distinct = set()
        self.rule = []
        self.assumptions = []
        self.notes = {}
        self.checker_cmd = ""
        self._driver = None

    # ---- budgets -------------------------------------------------------------------------
    def budget(self, quick, thorough):
        return thorough if self.tier == "thorough" else quick

    def subrng(self, tag):
        return random.Random(f"{self.prop}-{self.seed}-{tag}")

    # ---- proof leg -----------------------------------------------------------------------
    def proof_leg(self, module, theorems, generated=None, extra_modules=()):
        """Build `module` (a Props module) after regenerating `generated` files; audit `theorems`.

        generated: dict relpath-under-lean -> content (facts regenerated from the live source)
        theorems:  fully qualified names of the property theorems to audit
        """
        for rel, content in (generated or {}).items():
            write_if_changed(LEAN / rel, content)
        aud_rel = f"PPProofs/Audit/{self.prop}.lean"
        aud = f"import {module}\n" + "".join(f"import {m}\n" for m in extra_modules)
        aud += "".join(f"#print axioms {t}\n" for t in theorems)
        write_if_changed(LEAN / aud_rel, aud)
        targets = [module, *extra_modules, "ppdriver"]
        self.checker_cmd = f"cd lean && lake build {' '.join(targets)} && lake env lean {aud_rel}"
        b = lake_build(targets)
        if not b.ok:
            errs = [l for l in b.log.splitlines() if l.startswith("error:")][:12]
            drv_ok = DRIVER.exists() and "ppdriver" not in " ".join(b.failed) and not any(
                f.startswith("PPModel") or f == "Main" for f in b.failed
            )
            for t in theorems:
                self.obligations.append((t, False, "module does not build"))
            self.broken.append(
                {"kind": "proof-obligation", "module": module, "failed_targets": b.failed, "errors": errs}
            )
            if not drv_ok:
                raise HarnessError("lean driver does not build:\n" + "\n".join(errs))
            return False
        # thorough: independent re-check of the compiled property module
        if self.tier == "thorough":
            for mod_ in (module, *extra_modules):
                p = subprocess.run(
                    ["lake", "env", "leanchecker", mod_], cwd=LEAN, capture_output=True, text=True, timeout=3000
                )
                ok = p.returncode == 0
                self.obligations.append((f"leanchecker {mod_}", ok, (p.stdout + p.stderr)[-300:]))
                if not ok:
                    self.broken.append({"kind": "leanchecker", "module": mod_, "log": (p.stdout + p.stderr)[-2000:]})
        rc, out = lean_run_file(aud_rel)
        found = {}
        for m in re.finditer(r"'([^']+)' depends on axioms: \[([^\]]*)\]", out.replace("\n", " ")):
            found[m.group(1)] = {a.strip() for a in m.group(2).split(",") if a.strip()}
        for m in re.finditer(r"'([^']+)' does not depend on any axioms", out):
            found[m.group(1)] = set()
        all_ok = True
        for t in theorems:
            key = t if t in found else next((k for k in found if k.endswith("." + t) or t.endswith("." + k)), None)
            if key is None:
                self.obligations.append((t, False, "theorem missing from audit output"))
                self.broken.append({"kind": "proof-obligation", "theorem": t, "errors": out[-800:]})
                all_ok = False
            elif not found[key] <= ALLOWED_AXIOMS:
                self.obligations.append((t, False, f"axioms {sorted(found[key])}"))
                self.broken.append({"kind": "axiom-audit", "theorem": t, "axioms": sorted(found[key])})
                all_ok = False
            else:
                self.obligations.append((t, True, f"axioms {sorted(found[key])}"))
        srcs = lean_sources_of(module)
        for m in extra_modules:
            srcs.update(lean_sources_of(m))
        hits = grep_banned(srcs.values())
        self.obligations.append(("no sorry/admit/axiom/native_decide/bv_decide/implemented_by/unsafe in sources", not hits, "; ".join(hits[:5])))
        if hits:
            self.broken.append({"kind": "banned-token", "hits": hits})
            all_ok = False
        self.notes["lean_sources"] = sorted(str(p.relative_to(LEAN)) for p in srcs.values())
        return all_ok

    def obligation(self, name, ok, detail=""):
        """an extra checked obligation (e.g. generated fact matches the literal proved about)"""
        self.obligations.append((name, bool(ok), detail))
        if not ok:
            self.broken.append({"kind": "proof-obligation", "theorem": name, "detail": detail})

    # ---- correspondence leg --------------------------------------------------------------
    @property
    def driver(self):
        if self._driver is None:
            self._driver = Driver()
        return self._driver

    def correspond(self, stream, cases, model_lines, impl_outputs, model_outputs=None, nontrivial=None, outcome_of=None):
        """diff model vs implementation on `cases`.

        cases: list of case objects (json-able); model_lines: protocol line per case (or None when
        model_outputs is given); impl_outputs: canonical string per case from the real code.
        Returns the list of indices that differ."""
        if model_outputs is None:
            model_outputs = self.driver.run_sharded(model_lines)
        diffs = []
        st = self.cov["streams"].setdefault(stream, {"cases": 0, "diffs": 0, "outcomes": {}})
        for i, (c, mo, io) in enumerate(zip(cases, model_outputs, impl_outputs)):
            st["cases"] += 1
            self.cov["evaluations"] += 1
            self.cov["traces_validated_against_impl"] += 1
            key = hashlib.sha1((stream + "|" + json.dumps(c, sort_keys=True, default=str)).encode()).hexdigest()
            if (nontrivial is None or nontrivial(c, io)) and key not in self._distinct:
                self._distinct.add(key)
            if outcome_of is not None:
                oc = outcome_of(c, io)
            else:
                oc = (io.split(" ", 1)[0][:24] if isinstance(io, str) else "?").lstrip("(")
            st["outcomes"][oc] = st["outcomes"].get(oc, 0) + 1
            if mo == Driver.MODEL_TIMEOUT:
                # the model did not answer this line in time: no comparison was made (counted, never a diff)
                st["model_timeouts"] = st.get("model_timeouts", 0) + 1
                continue
            if mo != io:
                diffs.append(i)
        st["diffs"] += len(diffs)
        self.cov["disagreements_checked"] += len(diffs)
        if cases and len(self.cov["samples"]) < 12:
            for j in (0, len(cases) // 2, len(cases) - 1):
                self.cov["samples"].append(
                    {"stream": stream, "case": cases[j], "impl": impl_outputs[j], "model": model_outputs[j]}
                )
        if diffs:
            ex = [
                {"case": cases[i], "model": model_outputs[i], "impl": impl_outputs[i],
                 "line": model_lines[i] if model_lines else None}
                for i in diffs[:5]
            ]
            self.broken.append({"kind": "correspondence", "stream": stream, "n_diffs": len(diffs), "examples": ex})
        return diffs

    def count_cases(self, stream, n, distinct_keys=(), outcomes=None, samples=()):
        """account for oracle/search executions on the real code"""
        st = self.cov["streams"].setdefault(stream, {"cases": 0, "diffs": 0, "outcomes": {}})
        st["cases"] += n
        self.cov["evaluations"] += n
        for k in distinct_keys:
            self._distinct.add(stream + "|" + str(k))
        for k, v in (outcomes or {}).items():
            st["outcomes"][k] = st["outcomes"].get(k, 0) + v
        for s in samples:
            if len(self.cov["samples"]) < 16:
                self.cov["samples"].append({"stream": stream, "case": s})

    # ---- search leg ----------------------------------------------------------------------
    def match_known(self, signature):
        for e in self.known_entries:
            if e.get("status", "open") == "open" and e.get("signature") == signature:
                return e
        return None

    def known(self, entry, detail=""):
        line = f"KNOWN-FINDING: property={self.prop} {entry['signature']}: {entry['what']}"
        if line not in self.known_lines:
            self.known_lines.append(line)

    def fail_input(self, kind, case, expected, actual, theorem=None, signature=None, how=None):
        """a concrete case on which the real code violates the property"""
        if signature:
            e = self.match_known(signature)
            if e is not None:
                self.known(e)
                return
        self.fail_inputs.append(
            {"kind": kind, "case": case, "expected": expected, "actual": actual, "theorem": theorem,
             "signature": signature, "how_to_run": how}
        )

    # ---- finish --------------------------------------------------------------------------
    def write_replay(self, obj):
        d = VERIF / "replays"
        d.mkdir(exist_ok=True)
        blob = json.dumps(obj, sort_keys=True, indent=1, default=str)
        h = hashlib.sha1(blob.encode()).hexdigest()[:10]
        p = d / f"{self.prop}-{h}.json"
        p.write_text(blob)
        return p.relative_to(VERIF)

    def finish(self):
        wall = time.time() - self.t0
        n_obl = len(self.obligations)
        n_ok = sum(1 for o in self.obligations if o[1])
        self.cov["distinct_nontrivial"] = len(self._distinct)
        viol_lines = []
        for fi in self.fail_inputs[:3]:
            rp = self.write_replay({"property": self.prop, "replay_kind": "failing-input", "seed": self.seed,
                                    "tier": self.tier, **fi})
            viol_lines.append(f"VIOLATION property={self.prop} replay={rp}")
        if not self.fail_inputs and len(self.broken):
            rp = self.write_replay({"property": self.prop, "replay_kind": "broken-obligation", "seed": self.seed,
                                    "tier": self.tier, "broken": self.broken})
            viol_lines.append(f"VIOLATION property={self.prop} replay={rp} no-failing-input-found")
        cov = dict(self.cov)
        cov.update(
            obligations=max(n_obl, 1) if n_obl else 0,
            discharged=n_ok,
            checker_cmd=self.checker_cmd or "cd lean && lake build",
            trusted_base=TRUSTED_BASE + self.assumptions,
            rule="; ".join(self.rule) or "see streams",
            obligation_list=[{"name": n, "ok": ok, "detail": d} for n, ok, d in self.obligations],
            known_findings_reported=self.known_lines,
            broken=self.broken[:10],
        )
        cov.update(self.notes)
        if not cov["samples"]:
            cov["samples"] = [{"note": "no case executed"}]
        ev = {
            "property_id": self.prop,
            "tier": self.tier,
            "seed": self.seed,
            "level": "proof",
            "coverage": cov,
            "assumptions": self.assumptions or ["see coverage.trusted_base"],
            "wall_s": round(wall, 2),
            "violations": len(viol_lines),
        }
        # evidence/<id>.json describes a run against /repo itself; runs against a scratch worktree (VERIF_REPO) or the
        # forced-search self-test write next to it, so they never replace it
        scratch = os.environ.get("VERIF_FORCE_SEARCH") == "1" or os.path.realpath(str(REPO)) != os.path.realpath("/repo")
        ed = VERIF / "evidence" / ".scratch" if scratch else VERIF / "evidence"
        ed.mkdir(parents=True, exist_ok=True)
        (ed / f"{self.prop}.json").write_text(json.dumps(ev, indent=1, default=str) + "\n")
        for l in self.known_lines:
            print(l)
        for l in viol_lines:
            print(l)
        print(
            f"[{self.prop}] tier={self.tier} seed={self.seed} obligations={n_ok}/{n_obl} "
            f"cases={cov['evaluations']} distinct={cov['distinct_nontrivial']} "
            f"diffs={cov['disagreements_checked']} fail_inputs={len(self.fail_inputs)} wall={wall:.1f}s"
        )
        return 1 if viol_lines else 0


def pmap(fn, items, procs=None, chunksize=None):
    """order-preserving parallel map over processes (fork: children inherit the imported repo)"""
    items = list(items)
    if len(items) < 64:
        return [fn(x) for x in items]
    import multiprocessing as mp

    procs = procs or min(16, os.cpu_count() or 4)
    ctx = mp.get_context("fork")
    with ctx.Pool(procs) as pool:
        return pool.map(fn, items, chunksize or max(1, len(items) // (procs * 8)))


HARD_TIMEOUT = "__hard_timeout__"


def pmap_hard(fn, items, per_item_timeout=20.0, procs=None):
    """order-preserving parallel map with a HARD per-item limit: a worker that exceeds it is killed (SIGKILL) and the
    item's result is the sentinel HARD_TIMEOUT. Needed where the real code can spin inside C (regex backtracking),
    which the SIGALRM-based per-case guard cannot interrupt."""
    import multiprocessing as mp
    import queue as _q

    items = list(items)
    procs = procs or min(16, os.cpu_count() or 4)
    ctx = mp.get_context("fork")
    task_q, res_q = ctx.Queue(), ctx.Queue()
    for i in range(len(items)):
        task_q.put(i)
    results = [None] * len(items)

    def worker(wid):
        while True:
            try:
                i = task_q.get(timeout=0.5)
            except _q.Empty:
                return
            res_q.put(("start", wid, i, None))
            try:
                r = fn(items[i])
            except BaseException as ex:  # noqa
                r = ("__worker_exception__", type(ex).__name__, str(ex)[:200])
            res_q.put(("done", wid, i, r))

    workers, running = {}, {}
    next_wid = [0]

    def spawn():
        wid = next_wid[0]
        next_wid[0] += 1
        p = ctx.Process(target=worker, args=(wid,), daemon=True)
        p.start()
        workers[wid] = p

    for _ in range(min(procs, max(1, len(items)))):
        spawn()
    done = 0
    while done < len(items):
        try:
            kind, wid, i, r = res_q.get(timeout=0.5)
            if kind == "start":
                running[wid] = (i, time.time())
            else:
                running.pop(wid, None)
                if results[i] is None:
                    results[i] = r
                    done += 1
        except _q.Empty:
            pass
        now = time.time()
        for wid, (i, t0) in list(running.items()):
            if now - t0 > per_item_timeout:
                workers[wid].kill()
                workers[wid].join()
                running.pop(wid)
                if results[i] is None:
                    results[i] = HARD_TIMEOUT
                    done += 1
                spawn()
        # a worker may have died without reporting (e.g. segfault): respawn while tasks remain
        alive = [w for w in workers.values() if w.is_alive()]
        if not alive and done < len(items):
            if task_q.empty() and not running:
                for k in range(len(items)):
                    if results[k] is None:
                        results[k] = HARD_TIMEOUT
                        done += 1
            else:
                spawn()
    for p in workers.values():
        if p.is_alive():
            p.kill()
    return results
