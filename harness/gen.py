"""Random / structured generation of grammar programs (harness/gram.py) and of inputs derived from them.

Design goals (DESIGN.md §3.4): sharing (a pool of sub-expressions reused by several composites), common-prefix
alternatives, Forwards referenced from several places, every node kind / model branch hit, mostly-valid inputs
sampled from the grammar plus mutations and a malformed stream.  No left recursion and no nullable repetition body
is generated unless asked for (those are outside the quantifier of C01/C02/C03/C06).
"""
from __future__ import annotations

ALPHA = "ab"
BLANKS = [" ", " ", " ", "\t", "\n", "  ", " \n", "\r\n"]


class Info:
    __slots__ = ("nullable", "left", "shape", "is_fwd", "body", "skips")

    def __init__(self, nullable, left=frozenset(), shape=None, is_fwd=False):
        self.nullable, self.left, self.shape, self.is_fwd, self.body = nullable, frozenset(left), shape, is_fwd, None


class Cfg:
    def __init__(self, **kw):
        self.n_leaves = 4
        self.n_comp = 6
        self.p_reuse = 0.5
        self.forwards = 1  # number of Forwards
        self.actions = 0.15  # probability to attach an action/condition to a new composite
        self.errorstop = 0.15
        self.ignore = 0.1
        self.ws_variants = 0.15  # leave_whitespace / set_whitespace_chars
        self.names = 0.0
        self.set_name = 0.1  # custom names (error-message rewriting in ParseElementEnhance / MatchFirst / Or)
        self.lr = False
        self.leaf_kinds = None
        self.comp_kinds = None
        self.fatal_actions = True
        self.failing_actions = True  # actions / conditions that raise ParseException
        self.dl_combine = True        # DelimitedList(combine=True) allowed
        self.blank_literals = True    # literals containing a blank ("a b") allowed
        for k, v in kw.items():
            setattr(self, k, v)


LEAF_KINDS = [
    ("Literal", 6), ("Word", 6), ("WordIB", 2), ("WordMax", 2), ("WordExact", 1), ("WordMin", 1), ("WordSlow", 2),
    ("WordSlowMax", 1),
    ("Keyword", 2), ("CaselessLiteral", 1), ("CaselessKeyword", 1), ("CharsNotIn", 2), ("Char", 1), ("Empty", 1),
    ("NoMatch", 1), ("StringStart", 1), ("StringEnd", 2), ("LineStart", 1), ("LineEnd", 2), ("WordStart", 1),
    ("WordEnd", 1), ("WordKw", 1),
]
COMP_KINDS = [
    ("+", 8), ("-", 2), ("|", 6), ("^", 4), ("And3", 2), ("MatchFirst3", 2), ("Or3", 2), ("Opt", 4), ("OptD", 1),
    ("ZeroOrMore", 4), ("OneOrMore", 4), ("ManyStop", 2), ("[]", 2), ("*", 1), ("~", 2), ("FollowedBy", 2),
    ("Group", 4), ("Suppress", 3), ("Combine", 3), ("SkipTo", 3), ("DelimitedList", 3), ("Located", 1),
    ("copy", 1), ("fwdref", 3),
]


def _weighted(rng, items):
    tot = sum(w for _, w in items)
    x = rng.random() * tot
    for k, w in items:
        x -= w
        if x <= 0:
            return k
    return items[-1][0]


class ProgGen:
    def __init__(self, rng, cfg: Cfg):
        self.rng, self.cfg = rng, cfg
        self.prog, self.info, self.n = [], {}, 0
        self.pool = []
        self.fwds = []

    def fresh(self, p="e"):
        self.n += 1
        return f"{p}{self.n}"

    def add(self, st, info):
        self.prog.append(st)
        if st[0] != "_":
            self.info[st[0]] = info
            self.pool.append(st[0])
        return st[0]

    # ---- leaves ------------------------------------------------------------------------------
    def leaf(self):
        r = self.rng
        k = _weighted(r, self.cfg.leaf_kinds or LEAF_KINDS)
        v = self.fresh()
        lits = ["a", "b", "ab", "ba", "x", ",", "+", "aa", "abb", "a b"]
        if not self.cfg.blank_literals:
            lits = lits[:-1]
        if k == "Literal":
            m = r.choice(lits)
            return self.add([v, "Literal", m], Info(False, shape=("lit", m)))
        if k == "Word":
            return self.add([v, "Word", "ab"], Info(False, shape=("word", "ab", "ab", 1, 0)))
        if k == "WordIB":
            return self.add([v, "Word", "a", {"body": "b"}], Info(False, shape=("word", "a", "b", 1, 0)))
        if k == "WordMax":
            mx = r.choice([1, 2, 3])
            return self.add([v, "Word", "ab", {"max": mx}], Info(False, shape=("word", "ab", "ab", 1, mx)))
        if k == "WordExact":
            return self.add([v, "Word", "ab", {"exact": 2}], Info(False, shape=("word", "ab", "ab", 2, 2)))
        if k == "WordMin":
            return self.add([v, "Word", "ab", {"min": 2}], Info(False, shape=("word", "ab", "ab", 2, 0)))
        if k == "WordSlow":
            # a blank in the character set forces the character-loop path (no max: see C17 finding)
            return self.add([v, "Word", "ab ", {"min": r.choice([1, 2])}], Info(False, shape=("word", "ab", "ab ", 1, 0)))
        if k == "WordSlowMax":
            # character-loop path WITH max: strict (raises when a further body character follows) - the model
            # transcribes that; only the PEG reference interpreter / C17 stay out of this region
            mx = r.choice([2, 3, 5])
            return self.add([v, "Word", "ab", {"body": "ab ", "max": mx}], Info(False, shape=("word", "ab", "ab", 1, mx)))
        if k == "WordKw":
            return self.add([v, "Word", "ab", {"as_keyword": True}], Info(False, shape=("word", "ab", "ab", 1, 0)))
        if k == "Keyword":
            m = r.choice(["ab", "a", "ba"])
            return self.add([v, "Keyword", m], Info(False, shape=("lit", m)))
        if k == "CaselessLiteral":
            m = r.choice(["aB", "Ab", "x"])
            return self.add([v, "CaselessLiteral", m], Info(False, shape=("lit", m.lower())))
        if k == "CaselessKeyword":
            return self.add([v, "CaselessKeyword", "Ab"], Info(False, shape=("lit", "aB")))
        if k == "CharsNotIn":
            if r.random() < 0.5:
                return self.add([v, "CharsNotIn", "b ,"], Info(False, shape=("lit", "ax")))
            return self.add([v, "CharsNotIn", "x\n", {"max": 2}], Info(False, shape=("lit", "ab")))
        if k == "Char":
            return self.add([v, "Char", "ab"], Info(False, shape=("lit", "a")))
        if k == "Empty":
            return self.add([v, "Empty"], Info(True, shape=("lit", "")))
        if k == "NoMatch":
            return self.add([v, "NoMatch"], Info(False, shape=("lit", "")))
        if k in ("StringStart", "StringEnd", "LineStart", "WordEnd"):
            a = ["ab"] if k == "WordEnd" else []
            return self.add([v, k] + a, Info(True, shape=("lit", "")))
        if k == "LineEnd":
            return self.add([v, k], Info(True, shape=("lit", "\n")))
        if k == "WordStart":
            return self.add([v, k] + (["ab"] if r.random() < 0.7 else []), Info(True, shape=("lit", "")))
        raise ValueError(k)

    # ---- operands ----------------------------------------------------------------------------
    def pick(self, nonnull=False, avoid_left=frozenset()):
        r = self.rng
        for _ in range(30):
            if self.pool and r.random() < self.cfg.p_reuse:
                v = r.choice(self.pool[-8:] if r.random() < 0.6 else self.pool)
            else:
                v = self.leaf()
            inf = self.info[v]
            if nonnull and inf.nullable:
                continue
            if avoid_left and (self.left_closure(v) & avoid_left):
                continue
            return v
        # fall back to a consuming literal
        v = self.fresh()
        return self.add([v, "Literal", "a"], Info(False, shape=("lit", "a")))

    def left_closure(self, v, seen=None):
        seen = seen if seen is not None else set()
        out = set()
        for f in self.info[v].left:
            if f in seen:
                continue
            seen.add(f)
            out.add(f)
            b = self.info[f].body
            if b is not None:
                out |= self.left_closure(b, seen)
        return out

    # ---- composites --------------------------------------------------------------------------
    def comp(self):
        r = self.rng
        k = _weighted(r, self.cfg.comp_kinds or COMP_KINDS)
        v = self.fresh()
        I = self.info
        if k in ("+", "-"):
            a, b = self.pick(), self.pick()
            if k == "-" and r.random() > self.cfg.errorstop * 4:
                k = "+"
            left = I[a].left | (I[b].left if I[a].nullable else frozenset())
            return self.add([v, k, a, b], Info(I[a].nullable and I[b].nullable, left, ("seq", [a, b])))
        if k in ("|", "^"):
            a, b = self.pick(), self.pick()
            if r.random() < 0.3:  # common-prefix alternatives
                c = self.pick()
                a2 = self.add([self.fresh(), "+", a, c], Info(I[a].nullable and I[c].nullable,
                              I[a].left | (I[c].left if I[a].nullable else frozenset()), ("seq", [a, c])))
                b = a2 if r.random() < 0.5 else b
                if b is not a2:
                    a = a2
            return self.add([v, k, a, b], Info(I[a].nullable or I[b].nullable, I[a].left | I[b].left, ("alt", [a, b])))
        if k in ("And3", "MatchFirst3", "Or3"):
            xs = [self.pick() for _ in range(3)]
            op = k[:-1]
            if op == "And":
                left, nul = frozenset(), True
                for x in xs:
                    if nul:
                        left |= I[x].left
                    nul = nul and I[x].nullable
                return self.add([v, op, xs], Info(nul, left, ("seq", xs)))
            return self.add([v, op, xs], Info(any(I[x].nullable for x in xs),
                                              frozenset().union(*[I[x].left for x in xs]), ("alt", xs)))
        if k in ("Opt", "OptD"):
            a = self.pick()
            st = [v, "Opt", a] + (["D"] if k == "OptD" else [])
            return self.add(st, Info(True, I[a].left, ("opt", a)))
        if k in ("ZeroOrMore", "OneOrMore", "ManyStop"):
            a = self.pick(nonnull=True)
            op = k if k != "ManyStop" else r.choice(["ZeroOrMore", "OneOrMore"])
            st = [v, op, a]
            left = I[a].left
            if k == "ManyStop":
                s = self.pick()
                st.append(s)
                left |= I[s].left
            return self.add(st, Info(op == "ZeroOrMore", left, ("many", a, 0 if op == "ZeroOrMore" else 1)))
        if k == "[]":
            a = self.pick(nonnull=True)
            m = r.choice([0, 1, 2])
            n = r.choice([None, m, m + 1, m + 2])
            if n == 0:
                n = 1
            return self.add([v, "[]", a, [m, n]], Info(m == 0, I[a].left, ("many", a, m)))
        if k == "*":
            a = self.pick()
            n = r.choice([1, 2, 3])
            return self.add([v, "*", a, n], Info(I[a].nullable, I[a].left, ("seq", [a] * n)))
        if k in ("~", "FollowedBy"):
            a = self.pick()
            return self.add([v, k, a], Info(True, I[a].left, ("lit", "") if k == "~" else ("look", a)))
        if k in ("Group", "Suppress", "Located", "copy"):
            a = self.pick()
            return self.add([v, k, a], Info(I[a].nullable, I[a].left, ("seq", [a])))
        if k == "Combine":
            a = self.pick()
            kw = {"join": r.choice(["", "", "-"]), "adjacent": r.random() < 0.7}
            return self.add([v, "Combine", a, kw], Info(I[a].nullable, I[a].left, ("tight" if kw["adjacent"] else "seq", [a])))
        if k == "SkipTo":
            a = self.pick()
            kw = {"include": r.random() < 0.4}
            left = I[a].left
            if r.random() < 0.3:
                f = self.pick()
                kw["fail_on"] = f
                left |= I[f].left
            if r.random() < 0.2:
                g = self.pick(nonnull=True)
                kw["ignore"] = g
                left |= I[g].left
            return self.add([v, "SkipTo", a, kw], Info(True, left, ("skipto", a, kw["include"])))
        if k == "DelimitedList":
            a = self.pick()
            kw = {"delim": r.choice([",", ",", "+"]), "combine": self.cfg.dl_combine and r.random() < 0.25, "trailing": r.random() < 0.25}
            if r.random() < 0.3:
                kw["min"] = r.choice([1, 2])
                kw["max"] = kw["min"] + r.choice([0, 1, 2]) if r.random() < 0.6 else None
            return self.add([v, "DelimitedList", a, kw], Info(I[a].nullable, I[a].left, ("dlist", a, kw["delim"])))
        if k == "fwdref":
            if self.fwds:
                f = r.choice(self.fwds)
                # use the Forward inside a sequence after a consuming element, or directly
                if r.random() < 0.6:
                    a = self.pick(nonnull=True)
                    return self.add([v, "+", a, f], Info(False, I[a].left, ("seq", [a, f])))
                return self.add([v, "Group", f], Info(False, frozenset([f]), ("seq", [f])))
            return self.comp()
        raise ValueError(k)

    def decorate(self, v):
        """actions / whitespace variants / ignorables attached to an existing variable (in place or as a copy)"""
        r, c = self.rng, self.cfg
        I = self.info
        if r.random() < c.actions:
            tags = [["none"], ["const", "K"], ["drop"], ["rev"], ["dup"], ["app", "Z"], ["app", "Z"]]
            if c.failing_actions:
                tags.append(["failP"])
            if c.fatal_actions:
                tags.append(["failF"])
            if r.random() < 0.6 or not c.failing_actions:
                self.add(["_", "action", v, r.choice(tags)], None)
            else:
                self.add(["_", "condition", v, r.random() < 0.5, {"fatal": c.fatal_actions and r.random() < 0.3}], None)
            if r.random() < 0.15:
                self.add(["_", "call_during_try", v], None)
        if r.random() < c.set_name:
            self.add(["_", "set_name", v, "N" + v], None)
        if r.random() < c.names:
            # results names, drawn from a small pool so that the same name is used on several elements, both as
            # "last match" and as list-all ("name*")
            w = self.fresh()
            self.add([w, "name", v, r.choice(["x", "y", "x*", "y*", "item", "item*", "x"])],
                     Info(I[v].nullable, I[v].left, I[v].shape))
            v = w
        if r.random() < c.ws_variants:
            w = self.fresh()
            if r.random() < 0.6:
                self.add([w, "leave_whitespace", v], Info(I[v].nullable, I[v].left, I[v].shape))
            else:
                self.add([w, "set_whitespace_chars", v, r.choice([" ", " \t", "\n "])], Info(I[v].nullable, I[v].left, I[v].shape))
            v = w
        return v

    def generate(self):
        r, c = self.rng, self.cfg
        for i in range(c.forwards):
            f = self.fresh("f")
            self.prog.append([f, "Forward"])
            self.info[f] = Info(False, frozenset([f]), ("fwd", f), is_fwd=True)
            self.fwds.append(f)
        for _ in range(c.n_leaves):
            self.leaf()
        last = None
        for _ in range(c.n_comp):
            last = self.decorate(self.comp())
        # assign Forwards: body must not reach the Forward at its left edge
        for f in self.fwds:
            cands = [v for v in self.pool if not self.info[v].is_fwd]
            r.shuffle(cands)
            body = None
            for v in cands[:20]:
                self.info[f].body = v
                if f not in self.left_closure(v) or c.lr:
                    body = v
                    break
                self.info[f].body = None
            if body is None:
                body = self.add([self.fresh(), "Literal", "a"], Info(False, shape=("lit", "a")))
                self.info[f].body = body
            self.prog.append(["_", "<<=", f, body])
            self.info[f].nullable = self.info[body].nullable
        root = last
        if self.fwds and r.random() < 0.5:
            root = self.add([self.fresh(), r.choice(["+", "|"]), last, r.choice(self.fwds)],
                            Info(False, self.info[last].left, ("seq" if r.random() < 0.5 else "alt", [last, self.fwds[0]])))
        if r.random() < c.ignore:
            cm = self.add([self.fresh(), "Literal", "#"], Info(False, shape=("lit", "#")))
            self.prog.append(["_", "ignore", root, cm])
        return self.prog, root

    # ---- inputs derived from the grammar -----------------------------------------------------
    def sample(self, v, depth=0):
        r = self.rng
        sh = self.info[v].shape
        if sh is None or depth > 6:
            return "a"
        t = sh[0]
        if t == "lit":
            return sh[1]
        if t == "word":
            _, ini, body, mn, mx = sh
            n = r.randint(max(mn, 1), max(mn, 1) + 2) if not mx else r.randint(max(mn, 1), mx)
            return r.choice(ini) + "".join(r.choice(body.replace(" ", "") or "a") for _ in range(n - 1))
        if t in ("seq", "tight"):
            sep = "" if t == "tight" else None
            parts = [self.sample(x, depth + 1) for x in sh[1]]
            out = ""
            for p in parts:
                out += (sep if sep is not None else r.choice(["", " ", " ", "  ", "\n", "\t"])) + p
            return out
        if t == "alt":
            return self.sample(r.choice(sh[1]), depth + 1)
        if t == "opt":
            return self.sample(sh[1], depth + 1) if r.random() < 0.6 else ""
        if t == "many":
            n = r.randint(sh[2], sh[2] + 2)
            return " ".join(self.sample(sh[1], depth + 1) for _ in range(n))
        if t == "look":
            return ""
        if t == "skipto":
            junk = "".join(r.choice("xab ,") for _ in range(r.randint(0, 3)))
            return junk + self.sample(sh[1], depth + 1)
        if t == "dlist":
            n = r.randint(1, 3)
            return (r.choice(["", " "]) + sh[2] + r.choice(["", " "])).join(self.sample(sh[1], depth + 1) for _ in range(n))
        if t == "fwd":
            b = self.info[v].body
            return self.sample(b, depth + 1) if b is not None else "a"
        return "a"


def pieces(pg, v, depth=0):
    """like ProgGen.sample, but returns the list of leaf texts (token pieces) of one sentence of `v`, without separators"""
    r = pg.rng
    sh = pg.info[v].shape
    if sh is None or depth > 6:
        return ["a"]
    t = sh[0]
    if t == "lit":
        return [sh[1]] if sh[1] else []
    if t == "word":
        _, ini, body, mn, mx = sh
        n = r.randint(max(mn, 1), max(mn, 1) + 2) if not mx else r.randint(max(mn, 1), mx)
        return [r.choice(ini) + "".join(r.choice(body.replace(" ", "") or "a") for _ in range(n - 1))]
    if t in ("seq", "tight"):
        out = []
        for x in sh[1]:
            out += pieces(pg, x, depth + 1)
        return out
    if t == "alt":
        return pieces(pg, r.choice(sh[1]), depth + 1)
    if t == "opt":
        return pieces(pg, sh[1], depth + 1) if r.random() < 0.6 else []
    if t == "many":
        out = []
        for _ in range(r.randint(sh[2], sh[2] + 2)):
            out += pieces(pg, sh[1], depth + 1)
        return out
    if t == "look":
        return []
    if t == "dlist":
        out = pieces(pg, sh[1], depth + 1)
        for _ in range(r.randint(0, 2)):
            out += [sh[2]] + pieces(pg, sh[1], depth + 1)
        return out
    if t == "fwd":
        b = pg.info[v].body
        return pieces(pg, b, depth + 1) if b is not None else ["a"]
    return ["a"]


def mutate(rng, s):
    alpha = "abx,+ \n\t#AB"
    if not s:
        return rng.choice(alpha)
    k = rng.random()
    i = rng.randrange(len(s) + 1)
    if k < 0.25:
        return s[:i] + s[i + 1:]
    if k < 0.5:
        return s[:i] + rng.choice(alpha) + s[i:]
    if k < 0.7:
        return s[:i] + rng.choice(alpha) + s[i + 1:]
    if k < 0.85:
        return s[:i] + rng.choice(BLANKS) + s[i:]
    return s[:i]


def inputs_for(rng, pg: ProgGen, root, n):
    out = []
    for _ in range(max(1, n // 2)):
        s = pg.sample(root)
        out.append(s)
        if rng.random() < 0.8:
            out.append(mutate(rng, s))
    while len(out) < n:
        L = rng.randint(0, 8)
        out.append("".join(rng.choice("aabbx,+  \n\t#B") for _ in range(L)))
    seen, res = set(), []
    for s in out:
        if s not in seen:
            seen.add(s)
            res.append(s)
    return res[:n]


def gen_case(rng, cfg=None, n_inputs=6):
    cfg = cfg or Cfg()
    pg = ProgGen(rng, cfg)
    prog, root = pg.generate()
    return prog, root, inputs_for(rng, pg, root, n_inputs)
