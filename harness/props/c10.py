"""C10 — ParseResults behaves as a list plus an ordered multimap of names.

proof:           lean/PPProofs/Props/C10.lean — refinement of the transcribed class (PPModel/Mod/PR.lean) by
                 `Abs` = plain list + ordered multimap + list-all set, for every operation and every history
correspondence:  the compiled model vs the real class on generated histories (start objects from real parses and
                 from the constructor); after EACH operation: return value / exception class, list view, keys,
                 items, bool, len (and, on the real side, as_list/values/get/reversed/haskeys consistency)
search (oracle): prlib.Spec — a plain Python list + dict-of-lists + set, independent of Lean — put through the
                 same histories on canonical values and compared with the real object after every operation
"""
from __future__ import annotations

import json
from pathlib import Path

from .. import common
from .. import prlib
from ..sexp import Sym, dumps, line as sx

META = dict(
    text="Lean theorems (PPProofs/Props/C10.lean) prove, for ALL value types, ALL states satisfying PRInv (unique keys, "
         "no empty occurrence list; established by the constructor and kept by every operation: prinv_of_ctor, "
         "prinv_of_reinit, prinv_step; reinit_refines: naming an existing result adds one value and keeps all other names and list-all flags) and ALL finite histories of the 31 modelled operations, that the transcribed "
         "ParseResults refines a plain list + ordered multimap + list-all set (refines_step, refines_history: same "
         "abstract state and same return value / exception class after every step), full strength on the model; "
         "corollaries list_ops_keep_names (= del_insert_keep_names; del/insert/pop/append/extend/slice-assign never "
         "change any named value, key order or list-all flag) and unknown_attr_empty. `+=`/extend(ParseResults) is "
         "the merge for every well-formed argument, empty or not (iadd_is_merge; the only hypothesis on a history is "
         "that ParseResults arguments are themselves well-formed objects); iadd_falsy_keeps_listall is the regression "
         "witness of the fixed finding iadd_falsy_other_drops_listall (pyparsing 448d339). "
         "`in` is name membership, not list membership (contains_is_not_list_membership: the literal list reading of "
         "`in` in the statement is false, documented behaviour). The model is tied to the code by per-step "
         "differential histories on every run; a Python list+multimap oracle independent of Lean decides failing inputs.",
    note="Trusted: Lean kernel; axioms propext/Classical.choice/Quot.sound; PPModel/Mod/PR.lean and Base/PyList.lean are "
         "hand transcriptions of results.py and of CPython list/slice/dict semantics (checked only differentially); "
         "token values are opaque in the model (nested results are compared by their public views); _parent/_name "
         "bookkeeping, get_name(), non-string keys, unhashable keys and attribute names that are attributes of the class "
         "are outside the model; start states of parse results are read through __getstate__ (pickle protocol).",
    technique="Lean 4 refinement proof over a transcribed model + per-step differential histories + list/multimap oracle",
    design="§5 C10",
)

THEOREMS = [
    "PP.PR.refines_step",
    "PP.PR.prinv_step",
    "PP.PR.refines_history",
    "PP.PR.prinv_of_ctor",
    "PP.PR.prinv_of_reinit",
    "PP.PR.reinit_refines",
    "PP.PR.list_ops_keep_names",
    "PP.PR.del_insert_keep_names",
    "PP.PR.unknown_attr_empty",
    "PP.PR.iadd_is_merge",
    "PP.PR.iadd_falsy_keeps_listall",
    "PP.PR.contains_is_not_list_membership",
]

KNOWN_SIG = "iadd_falsy_other_drops_listall"
NAMES = ["x", "y", "n", "g", "rec", "k", "o", "ns", "w", "zz", "q1", "__d"]


# ---- generators ------------------------------------------------------------------------------------
def gen_value(rng, pp, depth=0):
    c = rng.random()
    if c < 0.45:
        return {"s": rng.choice(["a", "b", "ab", "0", "", "x y", 'q"\\', "é", "None"])}
    if c < 0.6:
        return {"i": rng.choice([0, 1, -1, 7, 23])}
    if c < 0.65:
        return {"none": 1}
    if c < 0.72 and depth < 2:
        return {"l": [gen_value(rng, pp, depth + 1) for _ in range(rng.randint(0, 2))]}
    if depth < 2:
        d = {"pr": gen_start(rng, pp, depth + 1, simple=True)}
        try:
            prlib.build_value(pp, d)      # value descriptors must be constructible
            return d
        except prlib.ERRS:
            pass
    return {"s": "z"}


def gen_ctor(rng, pp, depth=0):
    c = rng.random()
    if c < 0.15:
        arg = None
    elif c < 0.7:
        arg = {"list": [gen_value(rng, pp, depth + 1) for _ in range(rng.choice([0, 1, 1, 2, 3, 4]))]}
    elif c < 0.85:
        arg = {"scalar": {"s": rng.choice(["a", "tok", ""])}}
    else:
        arg = {"scalar": {"i": rng.choice([0, 5])}}
    name = rng.choice([None, None, "", "x", "y", "n", 0])
    return {"ctor": [arg, name, rng.random() < 0.6, rng.random() < 0.6]}


def gen_start(rng, pp, depth=0, simple=False):
    gs = prlib.grammars(pp)
    c = rng.random()
    if c < (0.5 if simple else 0.55):
        g = rng.choice(sorted(gs))
        return {"parse": [g, rng.choice(gs[g][1])]}
    if c < 0.85 or depth >= 2:
        return gen_ctor(rng, pp, depth)
    return {"reinit": [gen_start(rng, pp, depth + 1, simple=True), rng.choice([None, "x", "y", "rec", "w"]),
                       rng.random() < 0.5, rng.random() < 0.5]}


def gen_index(rng, n):
    c = rng.random()
    if c < 0.55 and n:
        return rng.randrange(n)
    if c < 0.8 and n:
        return -rng.randint(1, n)
    return rng.choice([n, n + 1, -n - 1, -n - 2, 0, -1, 99, -99])


def gen_slice(rng, n):
    def b():
        c = rng.random()
        if c < 0.3:
            return None
        return rng.randint(-n - 2, n + 2)
    step = rng.choice([None, None, None, 1, 2, -1, -2, 3, -3, 0])
    return [b(), b(), step]


def gen_name(rng, keys, toks=()):
    if keys and rng.random() < 0.6:
        return rng.choice(keys)
    if toks and rng.random() < 0.3:
        return rng.choice(toks)          # a token that is (usually) not a name
    return rng.choice(NAMES)


def gen_op(rng, pp, r, attr_ok):
    n = len(r)
    keys = [str(k) for k in r.keys()]
    strtoks = [t for t in r if isinstance(t, str) and t and not t.startswith("_")]
    v = lambda: gen_value(rng, pp, 1)
    k = rng.choices(
        ["getint", "getslice", "getname", "getattr", "get", "setint", "setslice", "setname", "delint", "delslice",
         "delname", "pop", "popint", "popname", "insert", "append", "extendlist", "extendpr", "iadd", "clear",
         "contains", "len", "bool", "iter", "reversed", "keys", "values", "items", "haskeys", "popbadkw",
         "setslicescalar"],
        [4, 4, 5, 4, 4, 4, 4, 6, 6, 5, 4, 3, 4, 5, 6, 4, 3, 3, 6, 1, 2, 1, 1, 1, 2, 1, 1, 2, 1, 1, 1])[0]
    if k in ("getint", "delint"):
        return [k, gen_index(rng, n)]
    if k in ("getslice", "delslice", "setslicescalar"):
        return [k] + gen_slice(rng, n)
    if k in ("getname", "delname", "contains"):
        return [k, gen_name(rng, keys, strtoks)]
    if k == "getattr":
        nm = gen_name(rng, keys)
        return [k, nm] if attr_ok(nm) else ["getname", nm]
    if k == "get":
        return [k, gen_name(rng, keys, strtoks)] + ([v()] if rng.random() < 0.5 else [])
    if k == "setint":
        return [k, gen_index(rng, n), v()]
    if k == "setslice":
        sl = gen_slice(rng, n)
        if sl[2] not in (None, 1) and sl[2] != 0 and rng.random() < 0.7:
            m = len(range(*slice(*sl).indices(n)))   # mostly matching sizes for extended slices
        else:
            m = rng.randint(0, 3)
        return [k] + sl + [[v() for _ in range(m)]]
    if k == "setname":
        return [k, gen_name(rng, keys), v()]
    if k == "pop":
        return [k]
    if k == "popint":
        return [k, gen_index(rng, n)] + ([v()] if rng.random() < 0.3 else [])
    if k == "popname":
        op = [k, gen_name(rng, keys, strtoks)]
        if rng.random() < 0.6:
            op.append(v())
            if rng.random() < 0.4:
                op.append("kw")
        return op
    if k == "insert":
        return [k, gen_index(rng, n), v()]
    if k == "append":
        return [k, v()]
    if k == "extendlist":
        return [k, [v() for _ in range(rng.randint(0, 3))]]
    if k in ("extendpr", "iadd"):
        for _ in range(8):
            o = gen_start(rng, pp, 1)
            try:
                other = prlib.build_start(pp, o)
            except prlib.ERRS:
                continue
            return [k, o]
        return ["len"]
    return [k]


def gen_history(rng, pp, maxlen, attr_ok):
    for _ in range(20):
        start = gen_start(rng, pp)
        try:
            r = prlib.build_start(pp, start)
            break
        except prlib.ERRS:
            if rng.random() < 0.2:
                return {"start": start, "ops": []}     # constructor error as an outcome
    ops = []
    for _ in range(rng.randint(1, maxlen)):
        op = gen_op(rng, pp, r, attr_ok)
        ops.append(op)
        try:
            r, _ = prlib.apply_real(pp, r, op)
        except prlib.ERRS:
            pass
    return {"start": start, "ops": ops}


# ---- per-case evaluation ---------------------------------------------------------------------------
def model_line(pp, case):
    return sx(Sym("prhist"), prlib.start_sexp(pp, case["start"]), [prlib.op_sexp(pp, op) for op in case["ops"]])


def eval_case(pp, case):
    """(model protocol line, canonical real trace, canonical oracle trace)"""
    real = prlib.run_real(pp, case["start"], case["ops"])
    try:
        line = model_line(pp, case)
    except prlib.ERRS as e:   # start object cannot be built: the model gets the constructor call itself
        line = sx(Sym("prhist"), prlib.start_sexp(pp, case["start"]), [])
    spec = prlib.run_spec(pp, case["start"], case["ops"])
    return line, real, spec


def oracle_check(pp, case):
    """None, or (index of first bad step, expected step, actual step)"""
    real = prlib.run_real(pp, case["start"], case["ops"])
    spec = prlib.run_spec(pp, case["start"], case["ops"])
    if real and real[0] == "ctor-err":
        return None        # the constructor raised: no object, nothing to compare
    if dumps(real) == dumps(spec):
        return None
    for i, (a, b) in enumerate(zip(real, spec)):
        if dumps(a) != dumps(b):
            return i, dumps(b), dumps(a)
    return min(len(real), len(spec)), "", ""


def shrink(pp, case):
    """truncate at the first bad step, then drop operations while the history still fails"""
    bad = oracle_check(pp, case)
    if bad is None:
        return case
    ops = case["ops"][: bad[0]] if bad[0] > 0 else []
    cur = {"start": case["start"], "ops": ops}
    if oracle_check(pp, cur) is None:
        return case
    changed = True
    while changed:
        changed = False
        for i in range(len(cur["ops"]) - 1, -1, -1):
            cand = {"start": cur["start"], "ops": cur["ops"][:i] + cur["ops"][i + 1:]}
            try:
                if oracle_check(pp, cand) is not None:
                    cur = cand
                    changed = True
            except Exception:
                pass
    return cur


def report(ctx, pp, case, kind="history on which the real ParseResults leaves the list+multimap reading",
           signature=None):
    small = shrink(pp, case)
    bad = oracle_check(pp, small)
    if bad is None:
        return False
    i, exp, act = bad
    ctx.fail_input(kind, small, {"step": i, "list+multimap oracle": exp}, {"step": i, "real ParseResults": act},
                   theorem="PP.PR.refines_history", signature=signature,
                   how="harness.prlib.run_real(pp, case['start'], case['ops']) vs run_spec(...)")
    return True


# ---- fixed witnesses (run first) ---------------------------------------------------------------------
def corpus_cases():
    out = []
    d = common.VERIF / "corpus" / "C10"
    if d.exists():
        for p in sorted(d.glob("*.json")):
            out.append((p.name, json.loads(p.read_text())))
    return out


SHORTCUT_WITNESS = {
    "start": {"ctor": [{"list": [{"s": "b"}]}, "x", False, True]},
    "ops": [["iadd", {"ctor": [{"list": []}, "x", True, False]}], ["getname", "x"]],
}


# fixed histories that always run (also through the model): the witnesses of the theorems
FIXED = [
    # iadd_falsy_keeps_listall (fixed finding iadd_falsy_other_drops_listall), directly and through a grammar
    {"start": {"ctor": [{"list": [{"s": "b"}]}, "x", False, True]},
     "ops": [["iadd", {"ctor": [{"list": []}, "x", True, False]}], ["getname", "x"], ["items"]]},
    {"start": {"parse": ["optstar", "a"]}, "ops": [["getname", "x"], ["extendpr", {"parse": ["emptynamed", ""]}],
                                                      ["setname", "o", {"s": "v"}], ["getname", "o"]]},
    # ParseResults(existing, name*, ...) keeps the other list-all names (pyparsing aa3fe24)
    {"start": {"reinit": [{"parse": ["listall", "a 0 b"]}, "w", True, False]}, "ops": [["getname", "x"], ["getname", "w"]]},
    {"start": {"parse": ["starwrap", "a b"]}, "ops": [["getname", "x"], ["getname", "y"], ["items"]]},
    # contains_is_not_list_membership: a token that is not a name is not `in` the result
    {"start": {"ctor": [{"list": [{"s": "a"}]}, None, True, True]},
     "ops": [["contains", "a"], ["setname", "a", {"s": "v"}], ["contains", "a"], ["get", "a"], ["popname", "a", {"s": "d"}],
             ["popname", "a", {"s": "d"}, "kw"], ["contains", "a"]]},
    # the non-vacuity history of refines_history (exS / exOps in Props/C10.lean)
    {"start": {"hist": [{"ctor": [{"list": [{"s": "a"}, {"s": "0"}, {"s": "b"}]}, None, True, True]},
                        [["setname", "x", {"s": "a"}], ["setname", "x", {"s": "b"}], ["setname", "y", {"s": "0"}],
                         ["iadd", {"ctor": [{"list": []}, "x", True, False]}]]]},
     "ops": [["delint", -3], ["insert", -1, {"s": "i"}], ["setname", "y", {"s": "1"}], ["getname", "x"], ["getname", "y"],
             ["popname", "q", {"s": "d"}], ["getslice", None, None, -2], ["delslice", 0, None, 2], ["pop"], ["popint", 7],
             ["getattr", "nope"], ["items"]]},
    # unknown_attr_empty / dunder
    {"start": {"parse": ["names", "a 0"]}, "ops": [["getattr", "nope"], ["getattr", "__nope"], ["getattr", "x"]]},
    # del / insert keep names (del_insert_keep_names), incl. positions equal to the index
    {"start": {"parse": ["dupname", "a 0 b 1"]},
     "ops": [["insert", 0, {"s": "n"}], ["getname", "x"], ["delint", 0], ["delint", 0], ["getname", "x"], ["items"],
             ["delslice", None, None, -1], ["items"], ["getname", "y"]]},
]


def run(ctx):
    pp = common.import_pyparsing()
    PR = pp.ParseResults
    attr_ok = lambda nm: not hasattr(PR, nm)
    proof_ok = ctx.proof_leg("PPProofs.Props.C10", THEOREMS)
    maxlen = ctx.budget(12, 40)
    ctx.rule.append(
        f"histories of length 1..{maxlen} over the 31 operations from start objects = real parse results of "
        f"{len(prlib.grammars(pp))} grammars (names, list-all names, Groups, nested, Dict, int tokens, aslist) | constructor "
        "calls (None/list/str/int toklist x name x asList x modal) | ParseResults(existing, name, ...); arguments hit "
        "negative / out-of-range indices, slices with steps (incl. 0), missing names, defaults, nested values; "
        "non-trivial = history contains a mutating operation and the object has at least one name at some step; "
        f"the region of the fixed finding {KNOWN_SIG} (falsy `other` carrying list-all names that self lacks) is "
        "generated like any other; its witness runs as an ordinary regression case")
    # ---- corpus + registered witness ------------------------------------------------------------------
    n_corpus = 0
    for name, case in corpus_cases():
        n_corpus += 1
        if oracle_check(pp, case) is not None:
            report(ctx, pp, case, signature=case.get("signature"))
    bad = oracle_check(pp, SHORTCUT_WITNESS)      # fixed finding: an ordinary regression case now
    if bad is not None:
        ctx.fail_input("`r += other` ignores a falsy other that carries list-all names", SHORTCUT_WITNESS,
                       bad[1], bad[2], theorem="PP.PR.iadd_falsy_keeps_listall")
    # `in` is name membership (documented); the literal list reading is false — recorded, not a violation
    ctx.notes["contains_is_name_membership"] = {"'a' in ParseResults(['a'])": ("a" in PR(["a"]))}
    # unknown attribute -> '' (hypothesis of unknown_attr_empty: the name is not an attribute of the class)
    for nm in ["nosuch", "zz", "x1"]:
        r0 = PR(["a"])
        if attr_ok(nm) and getattr(r0, nm) != "":
            ctx.fail_input("attribute access to an unknown name does not return ''", {"start": "ParseResults(['a'])",
                           "attr": nm}, "", repr(getattr(r0, nm)), theorem="PP.PR.unknown_attr_empty")
    ctx.count_cases("corpus", n_corpus + 1)
    # ---- generated histories ----------------------------------------------------------------------------
    rng = ctx.subrng("hist")
    ncases = ctx.budget(2500, 30000)
    cases = [gen_history(rng, pp, maxlen, attr_ok) for _ in range(ncases)]
    cases = FIXED + [c for _, c in corpus_cases() if "signature" not in c] + cases
    lines, impl, nbad = [], [], 0
    for c in cases:
        line, real, spec = eval_case(pp, c)
        lines.append(line)
        impl.append(dumps(real))
        if not (real and real[0] == "ctor-err") and dumps(real) != dumps(spec) and nbad < 3:
            if report(ctx, pp, c):
                nbad += 1

    MUT = {"setint", "setslice", "setname", "delint", "delslice", "delname", "pop", "popint", "popname", "insert",
           "append", "extendlist", "extendpr", "iadd", "clear"}

    def nontrivial(c, io):
        return any(op[0] in MUT for op in c["ops"]) and '(("' in io

    def outcome(c, io):
        if io.startswith("(ctor-err"):
            return "ctor-err"
        return ("parse" if "parse" in c["start"] else "ctor" if "ctor" in c["start"] else "reinit") + \
            ("+err" if "(err " in io else "")

    diffs = ctx.correspond("histories", cases, lines, impl, nontrivial=nontrivial, outcome_of=outcome)
    opcount = {}
    errcount = {}
    for c, io in zip(cases, impl):
        for op in c["ops"]:
            opcount[op[0]] = opcount.get(op[0], 0) + 1
    for io in impl:
        for e in ("IndexError", "KeyError", "TypeError", "ValueError", "AttributeError"):
            errcount[e] = errcount.get(e, 0) + io.count("(err " + e)
    ctx.notes["op_histogram"] = opcount
    ctx.notes["exception_outcomes"] = errcount
    ctx.cov["traces_validated_against_impl"] = len(cases)
    # ---- search: a broken obligation or a correspondence diff is not yet a violation ---------------------
    if (diffs or not proof_ok) and not ctx.fail_inputs:
        seeds = [cases[i] for i in diffs[:50]]
        found = 0
        for c in seeds:
            if report(ctx, pp, c):
                found += 1
                break
        if not found:
            rng2 = ctx.subrng("search")
            for _ in range(ctx.budget(10000, 60000)):
                c = gen_history(rng2, pp, maxlen, attr_ok)
                if oracle_check(pp, c) is not None and report(ctx, pp, c):
                    break
    ctx.assumptions.append(
        "C10: values are opaque in the model; attribute names that are attributes of the class (keys, pop, ...) "
        "resolve to those attributes (Python semantics, outside the model); get_name()/_parent are not observed")


def replay(data):
    pp = common.import_pyparsing()
    case = data.get("case")
    if isinstance(case, dict) and "ops" in case:
        return oracle_check(pp, case) is not None
    if isinstance(case, dict) and "attr" in case:
        return getattr(pp.ParseResults(["a"]), case["attr"]) != ""
    ctx = common.Ctx("C10", "quick", data.get("seed", 0))
    run(ctx)
    return bool(ctx.broken or ctx.fail_inputs)
