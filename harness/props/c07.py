"""C07 — error stops and fatal exceptions are never backtracked over.

proof:           lean/PPProofs/Props/C07.lean (decision logic of And/_ErrorStop, MatchFirst, Opt, repetition,
                 ZeroOrMore, ParseElementEnhance, FollowedBy, NotAny, try_parse, Or — for all sub-expression
                 behaviours, inputs and list shapes); lean/PPProofs/Props/C07Depth.lean (the same at ANY nesting
                 depth: one theorem by induction over the path of propagating call positions of the transcribed parser)
correspondence:  the parse model vs the real code (memoization off) on grammars with '-' at every position of
                 sequences nested in every container, fatal actions and fatal conditions; observable = exception class,
                 location, and the tokens of the alternative that came back
search (oracle): two statements executed on the real code, independent of the model:
   A  "a fatal action aborts the parse": attach a recording action to an element; if it ever fires in a real
      (non-trial) pass, the same grammar with a ParseFatalException-raising action in its place must raise a
      ParseFatalException at the location of the first firing; if it never fires, the outcome is unchanged
      (grammars without NotAny / stop_on / Or / SkipTo, the only constructs allowed to treat a fatal as a non-match);
   B  "'-' == '+ (b | raise fatal)'": in the streamlined grammar every element after an _ErrorStop is replaced by
      MatchFirst([elem, Empty().add_parse_action(raise ParseFatalException, call_during_try=True)]) and the stops are
      removed; both grammars must agree on success+tokens / ParseException+loc / fatal-class.
"""
from __future__ import annotations

import json
import random

from .. import common, corr_parse, gen, gram

META = dict(
    text="Lean theorems (PPProofs/Props/C07.lean), each for ALL behaviours of the sub-expressions, inputs, locations and "
         "list shapes: after an _ErrorStop every failure of the rest of the And is a ParseSyntaxException raised at the "
         "failing element's location (errorstop_any_failure_is_syntax, errorstop_raises_at_failing_loc, "
         "errorstop_switches_on); MatchFirst, Opt, the repetition loop (first and later iterations), ZeroOrMore, every "
         "ParseElementEnhance (Group/Suppress/Combine/Forward/DelimitedList), FollowedBy and _parseNoCache pass a fatal "
         "exception through unchanged in class (matchfirst_never_swallows_fatal, ... parseStep_failure_passes); NotAny and "
         "try_parse (stop_on, SkipTo fail_on, lookaheads) treat it as a non-match (notany_treats_fatal_as_nonmatch, "
         "tryParse_converts_fatal); Or raises a collected fatal only when no alternative matched "
         "(or_fatal_only_if_none_matched, or_raises_fatal_when_none_matched). These are statements about the transcribed "
         "parseImpl bodies; the tie to core.py is the correspondence run. "
         "ANY DEPTH, as one theorem by induction over the nesting context (PPProofs/Props/C07Depth.lean; relation Path = "
         "reflexive-transitive closure of Step, one constructor per propagating call position of the transcribed parser: "
         "And first/later element, MatchFirst alternative after soft failures, Opt, first/later iteration of "
         "OneOrMore/ZeroOrMore, Group/Suppress/Combine/Forward/plain ParseElementEnhance, FollowedBy, Located, the SkipTo "
         "target (scan and include re-parse; the code catches only ParseException/IndexError there), the "
         "ignore-expressions run by preParse, by the repetition loop and by the pre-parse inside Or/StringStart, the real "
         "re-parses Or does after its trial pass), for all grammars, inputs, locations, flags and "
         "fuels: fatal_propagates_exact (the outer call fails with the inner fatal sent through the containers' exception "
         "maps), fatal_propagates_any_depth (outer failure is fatal; class unchanged, or ParseSyntaxException when an And "
         "element behind '-' is on the path; location unchanged unless it is 0 on a non-syntax exception, which "
         "ParseElementEnhance replaces), fatal_class_preserved_without_stop, errorstop_any_depth (any failure, also a plain "
         "ParseException, of an element behind '-' in an And reached through such a path surfaces at the top as "
         "ParseSyntaxException at the same location); step_fail is the single level. PARTIAL: Each is outside the model "
         "(oracle only); the trial pass of Or is not a Path position (a fatal collected there is raised only when no "
         "alternative matched: the two Or theorems above). The any-depth theorems speak about the transcribed parser "
         "(memoization off); the Path hypotheses are facts about the sub-parses on the way (earlier elements matched, "
         "earlier alternatives failed softly, ...), not decided by the theorem.",
    note="Trusted: Lean kernel; axioms propext/Classical.choice/Quot.sound; the parse model (validated differentially "
         "on every run, node attributes extracted from the live objects); the exception hierarchy "
         "(ParseSyntaxException <= ParseFatalException, ParseFatalException not <= ParseException) is re-checked against the "
         "live classes on every run.",
    technique="Lean 4 proof of the fatal/error-stop decision logic over a transcribed parse model; differential "
              "correspondence; two independent metamorphic oracles on the real code",
    design="§5 C07",
)

THEOREMS = [
    "PP.Parse.errorstop_any_failure_is_syntax",
    "PP.Parse.errorstop_raises_at_failing_loc",
    "PP.Parse.errorstop_switches_on",
    "PP.Parse.and_failure_passes_through",
    "PP.Parse.matchfirst_never_swallows_fatal",
    "PP.Parse.opt_never_swallows_fatal",
    "PP.Parse.repetition_never_swallows_fatal",
    "PP.Parse.repetition_first_never_swallows_fatal",
    "PP.Parse.zeroOrMore_never_swallows_fatal",
    "PP.Parse.enhance_never_swallows_fatal",
    "PP.Parse.followedBy_never_swallows",
    "PP.Parse.parseStep_failure_passes",
    "PP.Parse.tryParse_converts_fatal",
    "PP.Parse.notany_treats_fatal_as_nonmatch",
    "PP.Parse.or_fatal_only_if_none_matched",
    "PP.Parse.or_raises_fatal_when_none_matched",
    # any depth (PPProofs/Props/C07Depth.lean)
    "PP.Parse.step_fail",
    "PP.Parse.fatal_propagates_exact",
    "PP.Parse.fatal_propagates_any_depth",
    "PP.Parse.fatal_class_preserved_without_stop",
    "PP.Parse.errorstop_any_depth",
]

DASHY = dict(errorstop=0.9, actions=0.3, fatal_actions=True, ignore=0.0, ws_variants=0.05, set_name=0.0,
             comp_kinds=[("+", 4), ("-", 8), ("|", 6), ("^", 3), ("And3", 1), ("MatchFirst3", 2), ("Or3", 1), ("Opt", 4),
                         ("ZeroOrMore", 3), ("OneOrMore", 3), ("ManyStop", 1), ("~", 2), ("FollowedBy", 2), ("Group", 3),
                         ("Suppress", 2), ("Combine", 1), ("DelimitedList", 1), ("Located", 1), ("fwdref", 3)])
# oracle A: no construct that may legitimately treat a fatal as a non-match
NO_LOOKAHEAD = dict(errorstop=0.4, actions=0.0, ignore=0.0, ws_variants=0.05, set_name=0.0,
                    comp_kinds=[("+", 6), ("-", 2), ("|", 6), ("And3", 1), ("MatchFirst3", 2), ("Opt", 4), ("OptD", 1),
                                ("ZeroOrMore", 3), ("OneOrMore", 3), ("[]", 1), ("*", 1), ("FollowedBy", 2), ("Group", 3),
                                ("Suppress", 2), ("Combine", 1), ("DelimitedList", 2), ("Located", 1), ("copy", 1),
                                ("fwdref", 3)])


def _outcome(pp, root, s):
    try:
        r = root.parse_string(s)
        return ("ok", json.dumps(r.as_list(), default=repr))
    except pp.ParseFatalException as ex:
        return ("fatal", ex.loc, type(ex).__name__)
    except pp.ParseException as ex:
        return ("parse", ex.loc)
    except RecursionError:
        return ("internal", "RecursionError")
    except Exception as ex:  # noqa
        return ("internal", type(ex).__name__)


def _walk(pp, root):
    seen, todo, out = set(), [root], []
    while todo:
        e = todo.pop()
        if id(e) in seen:
            continue
        seen.add(id(e))
        out.append(e)
        todo.extend(corr_parse._children(pp, e))
    return out


def oracle_a_job(job):
    pp = common.import_pyparsing()
    prog, root_v, target = job["prog"], job["root"], job["target"]
    fired = []

    def build(kind):
        b = gram.build(pp, prog)
        x = b.env[target]
        if kind == "record":
            x.add_parse_action(lambda s, l, t: fired.append(l))
        else:
            def boom(s, l, t):
                raise pp.ParseFatalException(s, l, "oracle-A")
            x.add_parse_action(boom)
        return gram.prepare(b, root_v)

    try:
        r1, r2 = build("record"), build("fatal")
    except Exception:
        return 0, []
    if corr_parse.nullable_rep(pp, r1):
        return 0, []
    n, bad = 0, []
    pp.ParserElement.disable_memoization()
    for s in job["inputs"]:
        del fired[:]
        try:
            o1 = common.with_alarm_retry(2, _outcome, pp, r1, s)
            f = list(fired)
            o2 = common.with_alarm_retry(2, _outcome, pp, r2, s)
        except common.CaseTimeout:
            continue
        n += 1
        if f:
            want = ("fatal", f[0])
            ok = o2[0] == "fatal" and o2[1] == f[0]
        else:
            want = o1
            ok = o2 == o1
        if not ok:
            bad.append({"oracle": "A", "prog": prog, "root": root_v, "target": target, "input": s,
                        "expected": list(want), "actual": list(o2), "recording_run": list(o1), "fired_at": f})
    return n, bad


def _twin(pp, root):
    """in place: every element after an _ErrorStop becomes MatchFirst([elem, FATAL]); stops removed"""
    def fatal():
        def boom(s, l, t):
            raise pp.ParseFatalException(s, l, "oracle-B")
        return pp.Empty().add_parse_action(boom, call_during_try=True)

    changed = 0
    for e in _walk(pp, root):
        if type(e) is pp.And and any(type(x) is pp.And._ErrorStop for x in e.exprs):
            new, stop = [], False
            for x in e.exprs:
                if type(x) is pp.And._ErrorStop:
                    stop = True
                    continue
                if stop:
                    m = pp.MatchFirst([x, fatal()])
                    m.streamline()
                    new.append(m)
                else:
                    new.append(x)
            e.exprs = new
            changed += 1
    return changed


def oracle_b_job(job):
    pp = common.import_pyparsing()
    prog, root_v = job["prog"], job["root"]
    try:
        r1 = gram.prepare(gram.build(pp, prog), root_v)
        r2 = gram.prepare(gram.build(pp, prog), root_v)
    except Exception:
        return 0, []
    if corr_parse.nullable_rep(pp, r1):
        return 0, []
    if _twin(pp, r2) == 0:
        return 0, []
    n, bad = 0, []
    pp.ParserElement.disable_memoization()
    for s in job["inputs"]:
        try:
            o1 = common.with_alarm_retry(2, _outcome, pp, r1, s)
            o2 = common.with_alarm_retry(2, _outcome, pp, r2, s)
        except common.CaseTimeout:
            continue
        n += 1
        c1 = o1 if o1[0] != "fatal" else ("fatal",)
        c2 = o2 if o2[0] != "fatal" else ("fatal",)
        if c1 != c2:
            bad.append({"oracle": "B", "prog": prog, "root": root_v, "input": s, "expected": list(o2), "actual": list(o1)})
    return n, bad


def or_fatal_jobs(ctx, n):
    """template stream: an Or whose alternatives mix (a) sequences that pass an error stop and then fail with (b) siblings
    that match in the action-free trial pass but are vetoed in the second pass by a condition / action, at various
    distances; wrapped in the containers that must not swallow the fatal"""
    jobs = []
    toks = ["a", "b", "x", "ab"]
    for i in range(n):
        r = random.Random(f"C07-{ctx.seed}-orf-{i}")
        prog, alts = [], []
        for k in range(r.choice([2, 2, 3])):
            elems = []
            m = r.choice([2, 3, 4])
            for j in range(m):
                v = f"e{k}_{j}"
                kind = r.choice(["Literal", "Literal", "Word"])
                prog.append([v, kind, r.choice(toks) if kind == "Literal" else "ab"])
                if r.random() < 0.3:
                    if r.random() < 0.5:
                        if r.random() < 0.3:   # several condition functions in one add_condition call share its options
                            prog.append(["_", "condition", v, [True, r.random() < 0.5, r.random() < 0.5][: r.choice([2, 3])],
                                         {"fatal": r.random() < 0.7}])
                        else:
                            prog.append(["_", "condition", v, False, {"fatal": r.random() < 0.2}])
                    else:
                        prog.append(["_", "action", v, r.choice([["failP"], ["failF"], ["none"]])])
                elems.append(v)
            cur = elems[0]
            for j in range(1, m):
                nv = f"s{k}_{j}"
                prog.append([nv, "-" if r.random() < 0.4 else "+", cur, elems[j]])
                cur = nv
            alts.append(cur)
        prog.append(["o", "Or", alts] if len(alts) == 3 or r.random() < 0.5 else ["o", "^", alts[0], alts[1]])
        root = "o"
        w = r.choice(["none", "Group", "Opt", "ZeroOrMore", "MatchFirstFallback", "Forward", "OneOrMore"])
        if w in ("Group", "Opt", "ZeroOrMore", "OneOrMore"):
            prog.append(["w", w, "o"])
            prog.append(["rest", "Word", "abx "])
            prog.append(["root", "+", "w", "rest"] if w in ("Opt", "ZeroOrMore") else ["root", "copy", "w"])
            root = "root"
        elif w == "MatchFirstFallback":
            prog.append(["rest", "Word", "abx "])
            prog.append(["root", "|", "o", "rest"])
            root = "root"
        elif w == "Forward":
            prog = [["f", "Forward"]] + prog + [["sc", "Literal", "x"], ["tail", "+", "sc", "f"], ["ot", "Opt", "tail"],
                                               ["body", "+", "o", "ot"], ["_", "<<=", "f", "body"]]
            root = "f"
        inputs = []
        for _ in range(6):
            inputs.append(" ".join(r.choice(toks) for _ in range(r.randint(1, 5))))
        jobs.append(dict(prog=prog, root=root, inputs=inputs, entries=[("parse", ()), ("scan", (100, True, False))], modes=[("none",)]))
    return jobs


def dash_context_jobs(ctx, n):
    """template stream: (a) an error stop INSIDE a lookahead (FollowedBy / the first pass of Or) that is evaluated
    without actions - the candidate scan of an enclosing Or, a SkipTo target - inside Opt / ZeroOrMore / MatchFirst;
    (b) a sequence with '-' whose whitespace characters were changed after construction (copy + set_whitespace_chars,
    leave_whitespace) - the error stop must keep protecting what follows it"""
    jobs = []
    for i in range(n):
        r = random.Random(f"C07-{ctx.seed}-dctx-{i}")
        prog = [["a", "Literal", "a"], ["b", "Literal", "b"], ["c", "Literal", "c"], ["w", "Word", "abc"]]
        prog.append(["s1", "-", "a", "b"])
        if r.random() < 0.5:
            prog.append(["s", "+", "s1", "c"])
        else:
            prog.append(["s", "copy", "s1"])
        k = r.random()
        if k < 0.5:
            # (a) lookahead
            prog.append(["fb", "FollowedBy", "s"])
            prog.append(["alt1", "+", "fb", "w"])
            prog.append(["alt2", "+", "c", "w"])
            how = r.choice(["or", "or", "skipto", "plain"])
            if how == "or":
                prog.append(["core", "Or", ["alt1", "alt2"]])
            elif how == "skipto":
                prog.append(["core", "SkipTo", "fb"])
            else:
                prog.append(["core", "copy", "alt1"])
        else:
            # (b) whitespace override applied to the sequence afterwards
            op = r.choice(["set_whitespace_chars", "set_whitespace_chars", "leave_whitespace"])
            prog.append(["core", op, "s"] + ([r.choice([" \t", " ", "\n "])] if op == "set_whitespace_chars" else []))
        wrap = r.choice(["Opt", "ZeroOrMore", "MatchFirst", "none", "Group"])
        if wrap == "Opt":
            prog += [["o", "Opt", "core"], ["root", "+", "o", "w"]]
        elif wrap == "ZeroOrMore":
            prog += [["o", "ZeroOrMore", "core"], ["root", "+", "o", "w"]]
        elif wrap == "MatchFirst":
            prog.append(["root", "MatchFirst", ["core", "w"]])
        elif wrap == "Group":
            prog += [["g", "Group", "core"], ["root", "|", "g", "w"]]
        else:
            prog.append(["root", "copy", "core"])
        inputs = ["a c", "a b", "a b c", "ab", "a", "a bc", "ac", "a\tb c", "a\nc", "x a c", "c a"]
        jobs.append(dict(prog=prog, root="root", inputs=inputs, entries=[("parse", ()), ("scan", (100, True, False))], modes=[("none",)]))
    return jobs


def ref_job(job):
    """worker: the independent reading (harness/peg_ref.py with error stops: '-' makes the failure of any later element
    of the written sequence fatal; only negative lookahead treats a fatal as a non-match; Or raises it only when no
    alternative matches) against the real parse_string - outcome class and tokens"""
    from .. import peg_ref
    pp = common.import_pyparsing()
    try:
        b = gram.build(pp, job["prog"])
        root = gram.prepare(b, job["root"])
        ref = peg_ref.Ref(job["prog"], keyword_chars=pp.Keyword.DEFAULT_KEYWORD_CHARS, ws=pp.ParserElement.DEFAULT_WHITE_CHARS)
    except Exception:  # noqa (builder refused, or outside the reading)
        return 0, []
    if corr_parse.nullable_rep(pp, root):
        return 0, []
    pp.ParserElement.disable_memoization()
    n, bad = 0, []
    for s in job["inputs"]:
        try:
            want = list(ref.parse(job["root"], s))
        except (peg_ref.Unsupported, RecursionError):
            continue

        def real():
            try:
                return ["ok", json.loads(json.dumps(root.parse_string(s).as_list()))]
            except pp.ParseFatalException:
                return ["fatal"]
            except pp.ParseBaseException:
                return ["fail"]
        try:
            got = common.with_alarm_retry(2.0, real)
        except common.CaseTimeout:
            got = ["hang"]
        except RecursionError:
            continue
        n += 1
        if got != json.loads(json.dumps(want)):
            bad.append({"prog": job["prog"], "root": job["root"], "input": s, "expected": want, "actual": got})
    return n, bad


def run_ref(ctx, stream, jobs):
    res = common.pmap(ref_job, jobs)
    bad = [m for r_ in res for m in r_[1]]
    ctx.count_cases(stream, sum(r_[0] for r_ in res), outcomes={"mismatch": len(bad)},
                    distinct_keys=[json.dumps([j["prog"], x]) for j in jobs for x in j["inputs"]])
    for m in sorted(bad, key=lambda m: (len(m["prog"]), len(m["input"])))[:2]:
        ctx.fail_input("fatal exception / error stop backtracked over (or raised where the reading backtracks)",
                       {"ref": True, **{k: m[k] for k in ("prog", "root", "input")}}, m["expected"], m["actual"],
                       theorem="C07 statement (reference interpreter with error stops)", how="harness.props.c07.ref_job")


def _ref_cfg():
    from . import c01
    cfg = dict(c01.PEG_CFG)
    cfg["errorstop"] = 0.25
    cfg["comp_kinds"] = [k for k in cfg["comp_kinds"] if k[0] != "Located"] + [("-", 8)]
    return cfg


def _targets(prog):
    return [st[0] for st in prog if st[0] != "_" and st[1] not in ("Forward",)]


def run_oracles(ctx, mult=1):
    ja, jb = [], []
    for i in range(ctx.budget(2500, 25000) * mult):
        rng = random.Random(f"C07-{ctx.seed}-A-{i}")
        prog, root, inputs = gen.gen_case(rng, gen.Cfg(**NO_LOOKAHEAD), 5)
        ja.append(dict(prog=prog, root=root, inputs=inputs, target=rng.choice(_targets(prog))))
    for i in range(ctx.budget(2500, 25000) * mult):
        rng = random.Random(f"C07-{ctx.seed}-B-{i}")
        prog, root, inputs = gen.gen_case(rng, gen.Cfg(**DASHY), 5)
        jb.append(dict(prog=prog, root=root, inputs=inputs))
    for name, fn, jobs in (("oracle-A:fatal-action-aborts", oracle_a_job, ja), ("oracle-B:dash-twin", oracle_b_job, jb)):
        res = common.pmap(fn, jobs)
        n = sum(r[0] for r in res)
        bad = [m for r in res for m in r[1]]
        ctx.count_cases(name, n, distinct_keys=[json.dumps([j["prog"], j.get("target")]) for j in jobs],
                        outcomes={"calls": n, "mismatch": len(bad)},
                        samples=[{k: jobs[0][k] for k in jobs[0] if k != "inputs"} | {"input": jobs[0]["inputs"][0]}])
        for m in bad[:2]:
            ctx.fail_input("fatal exception / error stop backtracked over", {k: m[k] for k in m if k not in ("expected", "actual")},
                           m["expected"], m["actual"], theorem="C07 oracle " + m["oracle"],
                           how="harness.props.c07.oracle_a_job / oracle_b_job on this case")


def fatal_diffs(ctx, res):
    """a correspondence diff on which the *model* raises ParseFatal/ParseSyntaxException and the real code does not is a
    concrete failing input, not just a broken tie: the model's fatal outcomes are exactly those the theorems of
    Props/C07 prove to be propagated (errorstop_*, *_never_swallows_fatal, or_fatal_*), i.e. what the property says must
    abort the parse."""
    diffs = res[0]
    n = 0
    for d in diffs:
        c = d["case"]
        if c["entry"] not in ("parse", "parseAll"):
            continue
        if d["model"].startswith(("(fail fatal", "(fail syntax")) and not d["impl"].startswith(("(fail fatal", "(fail syntax")):
            ctx.fail_input("fatal exception / error stop backtracked over",
                           {"corr": True, "prog": c["prog"], "root": c["root"], "input": c["input"], "mode": c["mode"], "entry": c["entry"]},
                           d["model"], d["impl"], theorem="Props/C07 theorems on the model + correspondence",
                           how="gram.build(prog).parse_string(input): must raise ParseFatalException/ParseSyntaxException")
            n += 1
            if n >= 2:
                break


def lr_stream(ctx, mult):
    """error stops inside left-recursive rules under enable_left_recursion:  E <<= E op - T | T  must raise
    ParseSyntaxException exactly where the iterative grammar  T (op - T)*  does - the Forward's growth loop, which falls
    back to the previous round when a deeper expansion fails, must do so for ParseException only"""
    from . import c04
    from .. import gen_lr
    jobs, ojobs = [], []
    i = 0
    want = ctx.budget(250, 2500) * mult
    while len(ojobs) < want:
        rng = random.Random(f"C07-{ctx.seed}-lr{mult}-{i}")
        i += 1
        prog, root, it, itr, inputs, meta = gen_lr.direct(rng)
        if not meta["dash"] or meta["body"] != "MatchFirst" or meta["base_first"]:
            continue
        deep = meta["levels"] == 3 and meta["parens"]
        jobs.append(dict(prog=prog, root=root, inputs=[x for x in inputs if len(x) <= (10 if deep else 40)],
                         entries=[("parse", ()), ("parseAll", ())], modes=[("lr", None), ("lr", 2)]))
        ojobs.append(dict(prog=prog, root=root, it_prog=it, it_root=itr, inputs=inputs, meta=meta))
    if mult == 1:
        fatal_diffs(ctx, corr_parse.run_jobs(ctx, "model(parseLR)-vs-real:lr-dash", jobs))
    corr_parse._TIMEOUTS.value = 0
    res = common.pmap(c04.oracle_job, ojobs)
    bad = [m for r_ in res for m in r_[1]]
    ctx.count_cases("oracle:lr-dash-vs-iterative", sum(r_[0] for r_ in res), outcomes={"mismatch": len(bad)},
                    distinct_keys=[json.dumps([j["prog"], x]) for j in ojobs for x in j["inputs"]])
    for m in bad[:2]:
        ctx.fail_input("error stop inside a left-recursive rule backtracked over", {k: m[k] for k in ("prog", "root", "input", "meta")},
                       m["expected"], m["actual"], theorem="C07 statement (LR rule vs iterative equivalent)",
                       how="harness.props.c04.oracle_job")


# ------------------------------------------------------------------------------------------------
# build histories: the error stop commits the parse whatever was done with PARTS of the grammar before the Forward that
# contains the '-' got its definition (printed, named, streamlined, copied, used in a trial parse of a sibling).
# Expectation is constructed: on "a = 1; b = ?" the value after "b =" fails behind the error stop, so every container
# on the path (Forward, Group, repetition / DelimitedList, MatchFirst with an Empty() fallback, Opt) must let a
# ParseSyntaxException at the '?' through.
# ------------------------------------------------------------------------------------------------
HIST_WRAPPERS = ["delimited", "one-or-more", "zero-or-more", "opt-group", "suppress-list", "located", "nested-forward"]
HIST_HISTORIES = ["none", "printed", "streamlined", "named-streamlined", "copied", "sibling-parsed", "printed-inner"]


def hist_build(pp, wrapper, history):
    key, value = pp.Word("abc"), pp.Word("0123456789")
    setting = pp.Forward()
    item = pp.Group(setting)
    tail = pp.Suppress(pp.Opt(";"))
    if wrapper == "delimited":
        settings = pp.DelimitedList(item, ";")
    elif wrapper == "one-or-more":
        settings = pp.OneOrMore(item + tail)
    elif wrapper == "zero-or-more":
        settings = pp.Literal("{") + pp.ZeroOrMore(item + tail) + pp.Opt("}")
    elif wrapper == "opt-group":
        settings = pp.Opt(pp.Group(item + tail + pp.Opt(item)))
    elif wrapper == "suppress-list":
        settings = pp.Suppress(pp.OneOrMore(item + tail)) + pp.Empty()
    elif wrapper == "located":
        settings = pp.Located(pp.OneOrMore(item + tail))
    else:
        outer = pp.Forward()
        outer <<= pp.OneOrMore(item + tail)
        settings = pp.Group(outer)
    if history == "printed":
        assert str(settings)
    elif history == "streamlined":
        settings.streamline()
    elif history == "named-streamlined":
        settings.set_name("settings").streamline()
    elif history == "copied":
        settings = settings.copy()
        settings.streamline()
    elif history == "sibling-parsed":
        try:
            (pp.Literal("zz") | settings).parse_string("zz")
        except pp.ParseBaseException:
            pass
    elif history == "printed-inner":
        assert str(item)
        item.streamline()
    setting <<= key + "=" - value
    return settings | pp.Empty()


def hist_case(pp, wrapper, history, text):
    """None, or a description of what went wrong"""
    g = hist_build(pp, wrapper, history)
    prefix = "{ " if wrapper == "zero-or-more" else ""
    s = prefix + text
    want = s.index("?")
    try:
        r = g.parse_string(s)
        return f"returned {r.as_list()!r}: the failure behind the error stop was backtracked over"
    except pp.ParseSyntaxException as ex:
        return None if ex.loc == want else f"ParseSyntaxException at {ex.loc}, the failing element is at {want}"
    except pp.ParseBaseException as ex:
        return f"{type(ex).__name__} at {ex.loc} instead of ParseSyntaxException at {want}"


HIST_TEXTS = ["a = 1; b = ?", "a = ?", "a=1;b=2;c=?", "a = 1 ; b = 2 ; c =\n ?"]


def run_histories(ctx, pp):
    n, bad = 0, 0
    for w in HIST_WRAPPERS:
        for h in HIST_HISTORIES:
            for text in HIST_TEXTS:
                if w == "opt-group" and text.count("=") > 2:
                    continue          # that wrapper reads at most two settings
                n += 1
                try:
                    p = common.with_alarm(5, hist_case, pp, w, h, text)
                except common.CaseTimeout:
                    p = "does not return"
                except Exception as ex:  # noqa
                    p = f"internal {type(ex).__name__}: {ex}"
                if p and bad < 3:
                    bad += 1
                    ctx.fail_input("failure behind an error stop did not abort the parse (build history)",
                                   {"meta": "history", "wrapper": w, "history": h, "input": text},
                                   "ParseSyntaxException at the '?'", p,
                                   theorem="PP.Parse.errorstop_any_failure_is_syntax + *_never_swallows_fatal (oracle on the real objects)")
    ctx.count_cases("oracle:build-histories", n, distinct_keys=[f"{w}|{h}" for w in HIST_WRAPPERS for h in HIST_HISTORIES],
                    outcomes={"cases": n, "problems": bad})


def run(ctx):
    pp = common.import_pyparsing()
    ctx.proof_leg("PPProofs.Props.C07", THEOREMS, extra_modules=("PPProofs.Props.C07Depth",))
    # generated fact: the exception hierarchy the model's Exc type encodes
    ctx.obligation("ParseSyntaxException <= ParseFatalException", issubclass(pp.ParseSyntaxException, pp.ParseFatalException))
    ctx.obligation("ParseFatalException not <= ParseException", not issubclass(pp.ParseFatalException, pp.ParseException))
    ctx.obligation("ParseException, ParseFatalException <= ParseBaseException",
                   issubclass(pp.ParseException, pp.ParseBaseException) and issubclass(pp.ParseFatalException, pp.ParseBaseException))
    ctx.rule.append("programs from harness/gen.py with '-' weight 8 and fatal actions/conditions (stream dashy) nested in "
                    "every container; inputs sampled from the grammar + mutations; non-trivial = distinct (program,input)")
    # registered finding: set_debug(recurse=True) before the first parse strands the error stop (debug is outside the
    # model and the generators)
    import contextlib
    import io
    seq = pp.Literal("a") - pp.Literal("b")
    with contextlib.redirect_stdout(io.StringIO()), contextlib.redirect_stderr(io.StringIO()):
        seq.set_debug(True, recurse=True)
        g = seq | (pp.Literal("a") + "c")
        try:
            got = ["ok", g.parse_string("a c").as_list()]
        except pp.ParseFatalException as ex:
            got = ["fatal", type(ex).__name__]
        except pp.ParseBaseException as ex:
            got = ["exc", type(ex).__name__]
    if got[0] != "fatal":
        ctx.fail_input("fatal exception / error stop backtracked over",
                       {"program": "seq = Literal('a') - Literal('b'); seq.set_debug(True, recurse=True); seq | (Literal('a') + 'c')",
                        "input": "a c"}, "ParseSyntaxException", got, theorem="C07 statement", signature="set_debug_strands_errorstop")
    # registered finding: `x = A - B; x += C` appends to the outer And, which then has three elements and is not collapsed
    x = pp.Literal("a") - pp.Literal("b")
    x += pp.Literal("c")
    g = x | (pp.Literal("a") + "z")
    try:
        got = ["ok", g.parse_string("a z").as_list()]
    except pp.ParseFatalException as ex:
        got = ["fatal", type(ex).__name__]
    except pp.ParseBaseException as ex:
        got = ["exc", type(ex).__name__]
    if got[0] != "fatal":
        ctx.fail_input("fatal exception / error stop backtracked over",
                       {"program": "x = Literal('a') - Literal('b'); x += Literal('c'); x | (Literal('a') + 'z')", "input": "a z"},
                       "ParseSyntaxException", got, theorem="C07 statement", signature="iadd_strands_errorstop")
    ctx.count_cases("known-finding-witness", 2)
    jobs = []
    for i in range(ctx.budget(3000, 30000)):
        rng = random.Random(f"C07-{ctx.seed}-corr-{i}")
        prog, root, inputs = gen.gen_case(rng, gen.Cfg(**DASHY), 6)
        jobs.append(dict(prog=prog, root=root, inputs=inputs, entries=[("parse", ()), ("scan", (100, True, False))],
                         modes=[("none",)]))
    fatal_diffs(ctx, corr_parse.run_jobs(ctx, "model-vs-real:dashy", jobs))
    oj = or_fatal_jobs(ctx, ctx.budget(3000, 30000))
    fatal_diffs(ctx, corr_parse.run_jobs(ctx, "model-vs-real:or-fatal-templates", oj))
    dj = dash_context_jobs(ctx, ctx.budget(1500, 15000))
    fatal_diffs(ctx, corr_parse.run_jobs(ctx, "model-vs-real:dash-in-context", dj))
    run_ref(ctx, "reference:dash-in-context", [dict(prog=j["prog"], root=j["root"], inputs=j["inputs"]) for j in dj])
    rj = []
    for i in range(ctx.budget(2000, 20000)):
        rng = random.Random(f"C07-{ctx.seed}-ref-{i}")
        prog, root, inputs = gen.gen_case(rng, gen.Cfg(**_ref_cfg()), 6)
        rj.append(dict(prog=prog, root=root, inputs=inputs))
    run_ref(ctx, "reference:dashy", rj)
    res = common.pmap(oracle_b_job, [dict(prog=j["prog"], root=j["root"], inputs=j["inputs"]) for j in oj])
    bad = [m for r_ in res for m in r_[1]]
    ctx.count_cases("oracle-B:or-fatal-templates", sum(r_[0] for r_ in res), outcomes={"mismatch": len(bad)})
    for m in bad[:2]:
        ctx.fail_input("fatal exception / error stop backtracked over", {k: m[k] for k in m if k not in ("expected", "actual")},
                       m["expected"], m["actual"], theorem="C07 oracle B", how="harness.props.c07.oracle_b_job")
    run_oracles(ctx, 1)
    run_histories(ctx, pp)
    lr_stream(ctx, 1)
    if ctx.broken and not ctx.fail_inputs:
        run_oracles(ctx, 5)
        lr_stream(ctx, 4)


def replay(data):
    if data.get("replay_kind") == "failing-input" and data["case"].get("meta") == "history":
        c = data["case"]
        return bool(hist_case(common.import_pyparsing(), c["wrapper"], c["history"], c["input"]))
    if data.get("replay_kind") == "failing-input" and data["case"].get("ref"):
        c = data["case"]
        return bool(ref_job(dict(prog=c["prog"], root=c["root"], inputs=[c["input"]]))[1])
    if data.get("replay_kind") == "failing-input" and data["case"].get("corr"):
        c = data["case"]
        ctx = common.Ctx("C07", "quick", data.get("seed", 0))
        res = corr_parse.run_jobs(ctx, "replay", [dict(prog=c["prog"], root=c["root"], inputs=[c["input"]],
                                                       entries=[(c["entry"], ())], modes=[tuple(c["mode"])])])
        fatal_diffs(ctx, res)
        return bool(ctx.fail_inputs)
    if data.get("replay_kind") == "failing-input" and "meta" not in data["case"]:
        c = data["case"]
        if c.get("oracle") == "A":
            return bool(oracle_a_job(dict(prog=c["prog"], root=c["root"], target=c["target"], inputs=[c["input"]]))[1])
        return bool(oracle_b_job(dict(prog=c["prog"], root=c["root"], inputs=[c["input"]]))[1])
    ctx = common.Ctx("C07", "quick", data.get("seed", 0))
    run(ctx)
    return bool(ctx.broken or ctx.fail_inputs)
