"""C18, value semantics of the helpers' arguments: a helper must read its result from the text exactly as its
reference definition says *whatever else the expressions it was given are used for*, and must leave those expressions
as they were.

Every scenario builds the argument expressions, records what each argument does on a few inputs on its own (tokens and
named results, or the failure position), calls the helper, parses with the result (against the reference reading), calls
the helper a second time **with the same argument objects**, parses with both results again, and finally compares the
arguments' own behaviour with the record.  Only parse behaviour is compared (never names, reprs or attribute lists): a
helper that has to hook an argument (match_previous_literal / match_previous_expr add an action that returns nothing)
stays quiet as long as the argument still parses as before.

counted_array is the generated part (count syntaxes x shared count expression in two arrays x the count expression on its
own; the announced count against the items present); the other helpers (DelimitedList, nested_expr content=/ignore_expr=,
match_previous_*, original_text_for, ungroup, Group, Dict, dict_of, Suppress/Combine/Opt/ZeroOrMore stop_on, SkipTo,
Located, infix_notation, IndentedBlock) have fixed texts with hand-written readings.
"""
from __future__ import annotations

from .. import common


# ---------------------------------------------------------------------------------------------
# observing an expression
# ---------------------------------------------------------------------------------------------
def _plain(v):
    if isinstance(v, (list, tuple)):
        return [_plain(x) for x in v]
    if isinstance(v, dict):
        return {str(k): _plain(x) for k, x in sorted(v.items(), key=lambda kv: str(kv[0]))}
    if isinstance(v, (int, float, str, bool)) or v is None:
        return v
    return f"<{type(v).__name__}>"


def observe(pp, expr, text, parse_all=False):
    """('ok', tokens, named) | ('fail', loc) | ('error', exception type)"""
    try:
        r = common.with_alarm(5, expr.parse_string, text, parse_all=parse_all)
        return ["ok", _plain(r.as_list()), _plain(r.as_dict())]
    except pp.ParseBaseException as pe:
        return ["fail", pe.loc]
    except common.CaseTimeout:
        return ["error", "hang"]
    except Exception as ex:  # noqa
        return ["error", type(ex).__name__]


def fingerprint(pp, expr, inputs):
    return [observe(pp, expr, s) for s in inputs]


class Shared:
    """keep an object of the package that a scenario hands to a helper (pyparsing_common.integer) as it was: the
    attribute dictionary is put back afterwards, so that a helper that does modify it cannot disturb later cases"""

    def __init__(self, *objs):
        self.objs = objs

    def __enter__(self):
        self.saved = [{k: (v[:] if isinstance(v, list) else v) for k, v in o.__dict__.items()} for o in self.objs]
        return self

    def __exit__(self, *a):
        for o, d in zip(self.objs, self.saved):
            o.__dict__.clear()
            o.__dict__.update(d)
        return False


# ---------------------------------------------------------------------------------------------
# counted_array
# ---------------------------------------------------------------------------------------------
COUNT_KINDS = ["binary", "hex", "common_integer", "integer_copy_named", "with_meta", "default"]
DIGS = {"binary": "01", "hex": "0123456789abcdef", "common_integer": "0123456789", "integer_copy_named": "0123456789",
        "with_meta": "0123456789", "default": "0123456789"}
BASE = {"binary": 2, "hex": 16}


def make_count_expr(pp, kind):
    """(int_expr or None, inputs for its own fingerprint)"""
    C = pp.pyparsing_common
    if kind == "binary":
        return pp.Word("01").set_parse_action(lambda t: int(t[0], 2)), ["101", "0", "11 1", "2", ""]
    if kind == "hex":
        return pp.Word("0123456789abcdef").set_parse_action(lambda t: int(t[0], 16)), ["1f", "0", "a b", "x"]
    if kind == "common_integer":
        return C.integer, ["42", "007", "0", "x1", "3 4"]
    if kind == "integer_copy_named":
        return C.integer.copy()("n"), ["42", "007", "x"]
    if kind == "with_meta":
        return C.integer("n") + pp.Word("xyz")("type"), ["2 xy", "0 z", "2", "x 2"]
    return None, []


def render_count(kind, k):
    if kind == "binary":
        return bin(k)[2:]
    if kind == "hex":
        return "%x" % k
    return str(k)


def counted_reading(kind, item_chars, text):
    """reference reading: the count (maximal run of digits of the count syntax; for with_meta also a word over xyz), then
    exactly that many blank-separated items over item_chars; the rest of the text is left.  None = rejected."""
    import re
    ws = " \t\n\r"
    i = 0
    n = len(text)
    while i < n and text[i] in ws:
        i += 1
    j = i
    while j < n and text[j] in DIGS[kind]:
        j += 1
    if j == i:
        return None
    k = int(text[i:j], BASE.get(kind, 10))
    named = {}
    if kind in ("integer_copy_named", "with_meta"):
        named["n"] = k
    if kind == "with_meta":
        m = re.compile(r"[ \t\n\r]*([xyz]+)").match(text, j)
        if not m:
            return None
        named["type"] = m.group(1)
        j = m.end()
    items = []
    for _ in range(k):
        m = re.compile(r"[ \t\n\r]*([" + item_chars + r"]+)").match(text, j)
        if not m:
            return None
        items.append(m.group(1))
        j = m.end()
    return items, named, j


def run_counted(pp, case):
    """case: dict(kind, texts1, texts2, own): one count expression shared by two counted_arrays (items over 'ab' and over
    'cd9'), used on its own before, between and after.  Returns None or (expected, actual)."""
    kind = case["kind"]
    C = pp.pyparsing_common
    with Shared(C.integer):
        ie, own_inputs = make_count_expr(pp, kind)
        own_inputs = own_inputs + case.get("own", [])
        fp0 = fingerprint(pp, ie, own_inputs) if ie is not None else None
        glob0 = fingerprint(pp, C.integer, ["42", "007", "x"])

        def check_array(arr, chars, text, label):
            want = counted_reading(kind, chars, text)
            got = observe(pp, arr, text)
            if want is None:
                if got[0] != "fail":
                    return (f"{label}: rejected (announced count / items do not fit)", f"{got!r} on {text!r}")
                return None
            exp = ["ok", want[0], want[1]]
            if got != exp:
                return (f"{label}: {exp!r} (announced number of items)", f"{got!r} on {text!r}")
            return None

        def check_own(label):
            if ie is not None:
                fp = fingerprint(pp, ie, own_inputs)
                if fp != fp0:
                    k = next(i for i, (a, b) in enumerate(zip(fp0, fp)) if a != b)
                    return (f"{label}: the int_expr given to counted_array still parses {own_inputs[k]!r} as {fp0[k]!r}",
                            f"{fp[k]!r}")
            g = fingerprint(pp, C.integer, ["42", "007", "x"])
            if g != glob0:
                return (f"{label}: pyparsing_common.integer unchanged {glob0!r}", f"{g!r}")
            return None

        a1 = pp.counted_array(pp.Word("ab"), int_expr=ie) if ie is not None else pp.counted_array(pp.Word("ab"))
        for t in case["texts1"]:
            d = check_array(a1, "ab", t, "first array")
            if d:
                return d
        a2 = pp.counted_array(pp.Word("cd9"), int_expr=ie) if ie is not None else pp.counted_array(pp.Word("cd9"))
        for t in case["texts2"]:
            d = check_array(a2, "cd9", t, "second array (same int_expr)")
            if d:
                return d
        for t in case["texts1"]:
            d = check_array(a1, "ab", t, "first array, after the second was built")
            if d:
                return d
        # both arrays in one record
        if case["texts1"] and case["texts2"]:
            t1, t2 = case["texts1"][0], case["texts2"][0]
            w1, w2 = counted_reading(kind, "ab", t1), counted_reading(kind, "cd9", t2)
            if w1 is not None and w2 is not None:
                rec = pp.Group(a1) + pp.Group(a2)
                text = t1[:w1[2]] + " " + t2
                got = observe(pp, rec, text)
                if got[0] != "ok" or got[1] != [w1[0], w2[0]]:
                    return (f"record of both arrays: {[w1[0], w2[0]]!r}", f"{got!r} on {text!r}")
        return check_own("after both counted_arrays")


def gen_counted_case(rng):
    kind = rng.choice(COUNT_KINDS)

    def text(chars, meta):
        k = rng.choice([0, 1, 2, 3, 3, 5, 9, 17])
        real = k if rng.random() < 0.65 else max(0, k + rng.choice([-1, 1, 2]))
        items = ["".join(rng.choice(chars) for _ in range(rng.randint(1, 3))) for _ in range(real)]
        head = render_count(kind, k)
        if rng.random() < 0.1:
            head = "0" + head
        parts = [head] + ([rng.choice(["x", "yz", "zzx"])] if meta else []) + items
        return rng.choice([" ", " ", "  ", "\n"]).join(parts)

    meta = kind == "with_meta"
    return {"kind": kind, "texts1": [text("ab", meta) for _ in range(rng.randint(1, 3))],
            "texts2": [text("cd9", meta) for _ in range(rng.randint(1, 3))]}


# ---------------------------------------------------------------------------------------------
# the other helpers: fixed scenarios
# ---------------------------------------------------------------------------------------------
def _scenarios(pp):
    """name -> function returning (args: {label: (expr, own inputs)}, builds: [callable(args) -> expr],
    checks: [(build index, text, expected observation)])"""
    W = pp.Word
    S = {}

    def upper(t):
        return t[0].upper()

    def delimited():
        item = W("ab1").set_parse_action(upper)
        delim = pp.Literal(",")
        return ({"expr": (item, ["ab", "1a b", "x"]), "delim": (delim, [",", ",,", "a"])},
                [lambda: pp.DelimitedList(item, delim), lambda: pp.DelimitedList(item, delim, combine=True),
                 lambda: pp.DelimitedList(item, delim, min=2, allow_trailing_delim=True)],
                [(0, "a, b1 ,ab", ["ok", ["A", "B1", "AB"], {}]), (1, "a,b1,ab", ["ok", ["A,B1,AB"], {}]),
                 (2, "a, b,", ["ok", ["A", "B"], {}]), (2, "a", ["fail", 1]), (0, "a, b1 ,ab", ["ok", ["A", "B1", "AB"], {}])])
    S["DelimitedList"] = delimited

    def nested():
        content = W("ab1").set_parse_action(upper)
        ign = pp.QuotedString('"', unquote_results=False)
        return ({"content": (content, ["ab", "1 a", "("]), "ignore_expr": (ign, ['"a b"', '"a', "a"])},
                [lambda: pp.nested_expr("(", ")", content=content, ignore_expr=ign),
                 lambda: pp.nested_expr("[[", "]]", content=content, ignore_expr=ign),
                 lambda: pp.nested_expr("(", ")", content=content, ignore_expr=None)],
                [(0, '(a "b )" (1 ab) ())', ["ok", [["A", '"b )"', ["1", "AB"], []]], {}]),
                 (1, '[[a [[b]] "]]"]]', ["ok", [["A", ["B"], '"]]"']], {}]),
                 (2, "(a (b) 1)", ["ok", [["A", ["B"], "1"]], {}]), (0, "(a (b)", ["fail", 6]),
                 (0, '(a "b )" (1 ab) ())', ["ok", [["A", '"b )"', ["1", "AB"], []]], {}])])
    S["nested_expr"] = nested

    def prev_literal():
        first = W("0123456789")
        return ({"expr": (first, ["12", "1:1", "x"])},
                [lambda: first + ":" + pp.match_previous_literal(first),
                 lambda: first + ":" + pp.match_previous_literal(first) + ":" + pp.match_previous_literal(first)],
                [(0, "1:1", ["ok", ["1", ":", "1"], {}]), (0, "1:2", ["fail", 2]), (0, "1:10", ["ok", ["1", ":", "1"], {}]),
                 (1, "7:7:7", ["ok", ["7", ":", "7", ":", "7"], {}]), (1, "7:7:8", ["fail", 4]),
                 (0, "12:12", ["ok", ["12", ":", "12"], {}])])
    S["match_previous_literal"] = prev_literal

    def prev_expr():
        first = W("0123456789")
        return ({"expr": (first, ["12", "1:1", "x"])},
                [lambda: first + ":" + pp.match_previous_expr(first)],
                [(0, "1:1", ["ok", ["1", ":", "1"], {}]), (0, "1:2", ["fail", 2]), (0, "1:10", ["fail", 2]),
                 (0, "12:12", ["ok", ["12", ":", "12"], {}])])
    S["match_previous_expr"] = prev_expr

    def original_text():
        e = W("ab").set_parse_action(upper) + W("0123456789")("num")
        return ({"expr": (e, ["ab  12", "ab x", "12"])},
                [lambda: pp.original_text_for(e), lambda: pp.original_text_for(e, as_string=False)],
                [(0, "ab  12 z", ["ok", ["ab  12"], {}]), (1, "ab  12 z", ["ok", ["ab  12"], {"num": "12"}]),
                 (0, "ab z", ["fail", 3])])
    S["original_text_for"] = original_text

    def grouping():
        e = W("ab").set_parse_action(upper)
        g = pp.Group(e + e)
        return ({"expr": (e, ["ab", "x"]), "group": (g, ["a b", "a"])},
                [lambda: pp.ungroup(g), lambda: pp.Group(g), lambda: pp.Suppress(e) + g, lambda: pp.Combine(e + W("1")),
                 lambda: pp.Opt(e, default="-") + pp.ZeroOrMore(g)],
                [(0, "a b", ["ok", ["A", "B"], {}]), (1, "a b", ["ok", [[["A", "B"]]], {}]),
                 (2, "a b a", ["ok", [["B", "A"]], {}]), (3, "ab1", ["ok", ["AB1"], {}]), (3, "ab 1", ["fail", 2]),
                 (4, "a b a", ["ok", ["A", ["B", "A"]], {}]), (4, "1", ["ok", ["-"], {}])])
    S["ungroup/Group/Suppress/Combine/Opt"] = grouping

    def dicts():
        key = W("kq")
        val = W("0123456789").set_parse_action(lambda t: int(t[0]))
        return ({"key": (key, ["k", "1"]), "value": (val, ["12", "k"])},
                [lambda: pp.dict_of(key, val), lambda: pp.Dict(pp.OneOrMore(pp.Group(key + val))),
                 lambda: pp.dict_of(key, pp.Suppress("=") + val)],
                [(0, "k 1 q 22", ["ok", [["k", 1], ["q", 22]], {"k": 1, "q": 22}]),
                 (1, "k 1 q 22", ["ok", [["k", 1], ["q", 22]], {"k": 1, "q": 22}]),
                 (2, "k = 1 kq=3", ["ok", [["k", 1], ["kq", 3]], {"k": 1, "kq": 3}]), (0, "1", ["fail", 0])])
    S["dict_of/Dict"] = dicts

    def stops():
        w = W("abend")
        stop = pp.Keyword("end")
        q = pp.QuotedString('"', unquote_results=False)
        return ({"expr": (w, ["ab", "end"]), "stop_on": (stop, ["end", "enda"]), "ignore": (q, ['"x"', "x"])},
                [lambda: pp.ZeroOrMore(w, stop_on=stop) + stop, lambda: pp.OneOrMore(w, stop_on=stop),
                 lambda: pp.SkipTo(stop, include=True, ignore=q), lambda: pp.SkipTo(stop, fail_on=pp.Literal(";")),
                 lambda: pp.Located(w)],
                [(0, "a b end", ["ok", ["a", "b", "end"], {}]), (1, "a end b", ["ok", ["a"], {}]),
                 (2, 'x "end" y end z', ["ok", ['x "end" y ', "end"], {}]), (3, "x ; end", ["fail", 0]),
                 (3, "x end", ["ok", ["x "], {}]),
                 (4, "  ab", ["ok", [2, ["ab"], 4], {"locn_start": 2, "value": ["ab"], "locn_end": 4}])])
    S["ZeroOrMore/OneOrMore stop_on, SkipTo, Located"] = stops

    def infix():
        num = W("0123456789").set_parse_action(lambda t: int(t[0]))
        plus = pp.Literal("+")
        neg = pp.Literal("-")
        return ({"base_expr": (num, ["12", "x"]), "op": (plus, ["+", "-"]), "unary": (neg, ["-", "+"])},
                [lambda: pp.infix_notation(num, [(neg, 1, pp.OpAssoc.RIGHT), (plus, 2, pp.OpAssoc.LEFT)]),
                 lambda: pp.infix_notation(num, [(plus, 2, pp.OpAssoc.RIGHT)])],
                [(0, "1 + -2 + 3", ["ok", [[1, "+", ["-", 2], "+", 3]], {}]), (0, "7", ["ok", [7], {}]),
                 (1, "1 + 2 + 3", ["ok", [[1, "+", [2, "+", 3]]], {}]), (1, "(1 + 2)", ["ok", [[1, "+", 2]], {}])])
    S["infix_notation"] = infix

    def indented():
        stmt = W("abc")
        return ({"expr": (stmt, ["ab", "1", "a\\\nb"])},
                [lambda: pp.IndentedBlock(stmt), lambda: pp.Literal("x:") + pp.IndentedBlock(stmt, recursive=False)],
                [(0, "  a\n  b\n", ["ok", [["a", "b"]], {}]), (1, "x:\n  a\n  b\nc", ["ok", ["x:", ["a", "b"]], {}])])
    S["IndentedBlock"] = indented
    return S


def run_scenario(pp, name):
    """None or (expected, actual)"""
    sc = _scenarios(pp).get(name)
    if sc is None:
        return None
    args, builds, checks = sc()
    fp0 = {k: fingerprint(pp, e, ins) for k, (e, ins) in args.items()}
    built = {}
    for idx, text, want in checks:
        if idx not in built:
            try:
                built[idx] = builds[idx]()
            except Exception as ex:  # noqa
                return (f"{name}: variant {idx} can be built", f"{type(ex).__name__}: {ex}")
            for k, (e, ins) in args.items():
                fp = fingerprint(pp, e, ins)
                if fp != fp0[k]:
                    j = next(i for i, (a, b) in enumerate(zip(fp0[k], fp)) if a != b)
                    return (f"{name}: argument {k} still parses {ins[j]!r} as {fp0[k][j]!r} after variant {idx} was built",
                            f"{fp[j]!r}")
        got = observe(pp, built[idx], text)
        if got != want:
            return (f"{name} variant {idx} on {text!r}: {want!r}", f"{got!r}")
    for k, (e, ins) in args.items():
        fp = fingerprint(pp, e, ins)
        if fp != fp0[k]:
            j = next(i for i, (a, b) in enumerate(zip(fp0[k], fp)) if a != b)
            return (f"{name}: argument {k} still parses {ins[j]!r} as {fp0[k][j]!r} after all parses", f"{fp[j]!r}")
    return None


# ---------------------------------------------------------------------------------------------
# correspondence: counted_array vs the Lean model (PPModel/Mod/Counted.lean)
# ---------------------------------------------------------------------------------------------
MODULE = "PPProofs.Props.C18Counted"
THEOREMS = ["PP.C18.Counted.counted_exact", "PP.C18.Counted.counted_reads_items", "PP.C18.Counted.counted_fails_iff",
            "PP.C18.Counted.rep_spec"]


def counted_correspondence(ctx, pp):
    from ..sexp import Sym, line as sx, loads_all
    rng = ctx.subrng("counted-corr")
    exprs = {}
    for kind in ("default", "binary", "hex"):
        base = BASE.get(kind, 10)
        ie = pp.Word(DIGS[kind]).set_parse_action((lambda b: (lambda t: int(t[0], b)))(base))
        exprs[kind] = pp.counted_array(pp.Word("ab"), int_expr=ie) if kind != "default" else pp.counted_array(pp.Word("ab"))
    cases, lines, impl = [], [], []
    alpha = list("ab ab  019f\n\tx")
    for _ in range(ctx.budget(4000, 40000)):
        kind = rng.choice(["default", "binary", "hex"])
        c = gen_counted_case(rng)
        c["kind"] = kind
        k = rng.choice([0, 1, 2, 3, 5, 11])
        real = k if rng.random() < 0.6 else max(0, k + rng.choice([-1, 1, 2]))
        t = " ".join([render_count(kind, k)] + ["".join(rng.choice("ab") for _ in range(rng.randint(1, 3)))
                                                for _ in range(real)])
        if rng.random() < 0.3:
            i = rng.randrange(len(t) + 1)
            t = t[:i] + rng.choice(alpha) + t[i + rng.choice([0, 1]):]
        if "\t" in t:
            continue  # parse_string expands tabs
        got = observe(pp, exprs[kind], t)
        cases.append({"counted_corr": kind, "s": t})
        lines.append(sx(Sym("counted"), BASE.get(kind, 10), DIGS[kind], "ab", t))
        impl.append(sx(got[1]) if got[0] == "ok" else got[0] if got[0] == "fail" else f"{got[0]}:{got[1]}")

    def view(o):
        if o.startswith("("):
            try:
                return sx(loads_all(o)[0][0])
            except Exception:  # noqa
                return o
        return o

    outs = [view(o) if o != common.Driver.MODEL_TIMEOUT else o for o in ctx.driver.run_sharded(lines)]
    return ctx.correspond("counted-array-vs-model", cases, lines, impl, model_outputs=outs,
                          nontrivial=lambda c, o: o != "fail",
                          outcome_of=lambda c, o: c["counted_corr"] + ":" + ("fail" if o == "fail" else "items"))


# ---------------------------------------------------------------------------------------------
def helper_args_oracle(ctx, pp):
    from pyparsing.testing import pyparsing_test
    rng = ctx.subrng("helper-args")
    n = 0
    outcomes = {}
    fixed = [{"kind": "binary", "texts1": ["10 ab b a"], "texts2": ["11 c d 9 9"], "own": ["101"]},
             {"kind": "common_integer", "texts1": ["2 ab b a"], "texts2": ["1 c d"]},
             {"kind": "with_meta", "texts1": ["2 xy a b"], "texts2": ["0 z"]},
             {"kind": "default", "texts1": ["3 a b a"], "texts2": ["1 9"]}]
    cases = fixed + [gen_counted_case(rng) for _ in range(ctx.budget(1500, 20000))]
    for case in cases:
        with pyparsing_test.reset_pyparsing_context():
            d = run_counted(pp, case)
        n += 1
        outcomes["counted:" + case["kind"]] = outcomes.get("counted:" + case["kind"], 0) + 1
        if d is not None and not any("helper_counted" in f["case"] for f in ctx.fail_inputs):
            ctx.fail_input("counted_array with a caller-supplied int_expr that is used again",
                           {"helper_counted": case}, d[0], d[1],
                           theorem="C18 counted_array returns exactly the announced number of items; arguments are not modified "
                                   "(oracle, search only)",
                           how="ie = <count expression of this kind>; a1 = counted_array(Word('ab'), int_expr=ie); "
                               "a2 = counted_array(Word('cd9'), int_expr=ie); parse texts1 with a1, texts2 with a2, and the "
                               "count expression on its own before and after")
    for name in _scenarios(pp):
        with pyparsing_test.reset_pyparsing_context():
            d = run_scenario(pp, name)
        n += 1
        outcomes["fixed:" + name] = 1
        if d is not None and not any(f["case"].get("helper_args") == name for f in ctx.fail_inputs):
            ctx.fail_input("helper result / argument behaviour when the arguments are reused", {"helper_args": name},
                           d[0], d[1], theorem="C18 helpers vs reference reading; arguments are not modified (oracle, search only)")
    ctx.count_cases("oracle-helper-args", n, outcomes=outcomes,
                    samples=[{"helper_counted": fixed[0]}])


def replay(pp, case):
    from pyparsing.testing import pyparsing_test
    with pyparsing_test.reset_pyparsing_context():
        if "helper_counted" in case:
            return run_counted(pp, case["helper_counted"]) is not None
        return run_scenario(pp, case["helper_args"]) is not None
