"""C04 — left-recursive grammars parse as their iterative equivalents.

proof:           lean/PPProofs/Props/C04.lean — the growth loop of Forward.parseImpl, for every body function: the result is
                 the last element of a strictly growing chain of peek matches started from the failure seed
                 (growLoop_peek_spec, growLoop_round_grows), a recursion without base case fails with a ParseException in
                 the first round (lr_no_base); a non-recursive body yields its own outcome (lr_transparent_nonrec).
                 lean/PPProofs/Props/C04Iter.lean — a DIRECT left-recursive rule E <<= (E + tail) | base equals the iterative
                 grammar base (tail)*: for arbitrary base/tail functions at the growth-loop level (lr_direct_eq_iterative,
                 _acts, _budget), and for the transcribed parser parseLR vs the model's parse of And[b, ZeroOrMore(And[t..])]
                 under explicit flag / pre-parse hypotheses (parseLR_direct_eq_parse_iterative(_ws)_partial).
correspondence:  the seed-growing model parseLR vs the real code under enable_left_recursion(None/1/2) on generated DIRECT
                 left-recursive rule sets (1-3 levels, several operators, Or/MatchFirst bodies, grouped/flat, '-', parens).
search (oracle): the real LR parse vs the real parse of the mechanically derived repetition grammar (base (op tail)*):
                 same success set, same flat tokens, left-nested where grouped; independent of the memo capacity; no
                 base case => ParseException.
"""
from __future__ import annotations

import json
import random

from .. import common, corr_parse, gen_lr, gram

META = dict(
    text="Lean theorems about the growth loop (PPProofs/Props/C04.lean), for EVERY body function, location and round budget: "
         "growLoop_peek_spec (the value returned without actions is the last of a chain seed -> B(seed) -> B(B(seed)) ... "
         "whose ends strictly increase, and the next round gets no further or fails: 'the longest input obtainable by "
         "repeatedly growing the recursion from its base'), growLoop_round_grows, lr_no_base (no base case => "
         "ParseException at once, no unbounded recursion), lr_transparent_nonrec(_fail). The loop is structurally recursive "
         "on a round budget. FULL STRENGTH at the growth-loop level (PPProofs/Props/C04Iter.lean): for the body of a DIRECT "
         "left-recursive rule E <<= (E + tail) | base - lrBody = what MatchFirst[And[E, tail...], base] computes when the "
         "nested E is a memo hit, generic in ARBITRARY sub-parser functions base/tail - the growth loop equals the iterative "
         "grammar base (tail)* (iterRef: base, then tail greedily while it matches, shape of _MultipleMatch's loop, tokens "
         "concatenated), for all base/tail, locations and budgets: lr_direct_eq_iterative (no actions), "
         "lr_direct_eq_iterative_acts (do_actions=True, assuming action run and trial run agree on success and end "
         "positions), lr_direct_eq_iterative_budget (any sufficient growth budget vs any sufficient repetition budget), "
         "iterLoop_budget, iterLoop_no_hang, iterRef_plain. Hypotheses: a successful tail strictly advances (the property's "
         "exclusion of empty repetition bodies), a base match ends at or after the location; fatal errors propagate "
         "identically, a non-match of base is MatchFirst's (farther of the seed's and base's location). On the "
         "TRANSCRIBED PARSER: parseLR_body_eq_lrBody (the body parseLR hands to the growth loop for a node table "
         "E=Forward(m), m=MatchFirst[sq,b], sq=And[E,t...] IS lrBody with base/tail := the plain model parser on b / on "
         "the rest of the And, up to ParseElementEnhance's location fix-up) and parseLR_direct_eq_iterative_partial "
         "(hence parseLR on E = enhFix(iterRef over the plain model parser), for every table, input, fuel, location, "
         "acts) under explicit hypotheses: no parse actions / results names on E, m, sq; b and t... in a closed "
         "Forward-free part of the table (parseLR_frame: there parseLR = parse for every environment); the And's "
         "pre-parse does not move from where the Forward's ended; no growth of E in progress at that location; the tail "
         "strictly advances (dischargeable: tailOf_strict + parse_lit1_strict when it starts with a one-character "
         "operator literal); with actions: trial/action agreement. And both halves together, "
         "parseLR_direct_eq_parse_iterative_partial: parseLR on E = the model's parse of the iterative grammar "
         "I=And[b,Z], Z=ZeroOrMore(R), R=And[t...] in the same table (parse_I_step, manyLoop_eq_iterLoop: _MultipleMatch's "
         "loop is iterLoop), same fuel, tokens AND end location AND failures. PARTIAL (hence the names _partial): that "
         "last theorem assumes that the pre-parse of Z and R does not move and that b / the first tail element ignore "
         "their callPreParse flag (no whitespace/ignorables before the operator at the positions visited), that matches "
         "end inside the input, and that the base's failure is a ParseException at or after the location. The "
         "whitespace hypotheses cannot just be dropped: exG2_end_differs (Lean, replayed on the real code) shows LR "
         "grammar and iterative grammar END at different offsets on '1 ' (ZeroOrMore returns the pre-parsed location when "
         "it matches nothing) while the tokens agree. parseLR_direct_eq_parse_iterative_ws_partial is the "
         "whitespace-tolerant version: Z and R may skip whitespace, provided the first tail element skips at least as "
         "much itself (the situation of the live objects) - then SAME TOKENS and same failures, the end differing only "
         "by that skipped whitespace when the repetition matches nothing (SameButEnd; parse_I_step_ws). Still assumed "
         "there: b ignores its callPreParse flag at the location, ends inside the input, base failure at/after the "
         "location. NOT covered by any theorem: rules with actions/names on E/m/sq (or on I/Z/R), Forwards inside "
         "base/tail (parenthesised recursion), ignorables. Equality of the real LR parse with the real parse of the derived repetition grammar (tokens) stays "
         "decided by the real-code oracle on generated direct "
         "left-recursive rule sets; indirect / mutual left recursion is the registered finding indirect_left_recursion "
         "(the real code returns the base case only) and is kept out of the generators.",
    note="Trusted: Lean kernel; axioms propext/Classical.choice/Quot.sound; the seed-growing model (in-growth memo entries as "
         "an environment; finished Forwards re-evaluated, so the memo capacity does not occur) validated differentially "
         "against the real LR mode with capacities None/1/2 on every run.",
    technique="Lean 4 proof (growth-loop chain invariant; lock-step simulation growth loop = repetition loop) over a "
              "transcribed model; differential correspondence in LR mode; "
              "LR-vs-iterative-grammar oracle on the real code",
    design="§5 C04",
)

THEOREMS = ["PP.Parse.growLoop_peek_spec", "PP.Parse.growLoop_round_grows", "PP.Parse.lr_no_base",
            "PP.Parse.lr_transparent_nonrec", "PP.Parse.lr_transparent_nonrec_fail",
            "PP.Parse.lr_direct_eq_iterative", "PP.Parse.lr_direct_eq_iterative_acts",
            "PP.Parse.lr_direct_eq_iterative_budget", "PP.Parse.iterLoop_budget", "PP.Parse.iterLoop_no_hang",
            "PP.Parse.iterRef_plain", "PP.Parse.growLoop_lrBody_loop",
            "PP.Parse.parseLR_frame", "PP.Parse.parseLR_body_eq_lrBody", "PP.Parse.parseLR_direct_eq_iterative_partial",
            "PP.Parse.growLoop_congr", "PP.Parse.growLoop_enhFix", "PP.Parse.tailOf_strict", "PP.Parse.parse_lit1_strict",
            "PP.Parse.parseLR_direct_eq_parse_iterative_partial", "PP.Parse.parse_I_step", "PP.Parse.manyLoop_eq_iterLoop",
            "PP.Parse.exG2_end_differs", "PP.Parse.parseLR_direct_eq_parse_iterative_ws_partial", "PP.Parse.parse_I_step_ws"]

CAPS = [None, 1, 2, 4]


def flatten(x):
    out = []
    for t in x:
        out += flatten(t) if isinstance(t, list) else [t]
    return out


def oracle_job(job):
    pp = common.import_pyparsing()
    n, bad = 0, []
    try:
        it_root = gram.prepare(gram.build(pp, job["it_prog"]), job["it_root"])
    except Exception:
        return 0, []
    for s in job["inputs"]:
        if corr_parse._TIMEOUTS.value >= corr_parse.MAX_TIMEOUTS:
            break
        pp.ParserElement.disable_memoization()

        def run(root):
            try:
                return ("ok", json.loads(json.dumps(root.parse_string(s, parse_all=job.get("parse_all", False)).as_list())))
            except pp.ParseSyntaxException:
                return ("syntax",)
            except pp.ParseBaseException:
                return ("fail",)
            except RecursionError:
                return ("RecursionError",)
        try:
            want = common.with_alarm(3.0, run, it_root)
        except common.CaseTimeout:
            continue
        outs = {}
        for cap in CAPS:
            if job.get("pre_packrat"):
                # the documented way to switch: packrat was on (e.g. enabled by an imported module), then
                # enable_left_recursion(force=True) - the result must not depend on that history
                pp.ParserElement.enable_packrat()
            pp.ParserElement.enable_left_recursion(cap, force=True)
            try:
                root = gram.prepare(gram.build(pp, job["prog"]), job["root"])
                outs[cap] = common.with_alarm(3.0, run, root)
            except common.CaseTimeout:
                outs[cap] = ("hang",)
                with corr_parse._TIMEOUTS.get_lock():
                    corr_parse._TIMEOUTS.value += 1
            finally:
                pp.ParserElement.disable_memoization()
            n += 1
        got = outs[None]
        probs = []
        if any(o != got for o in outs.values()):
            probs.append(f"result depends on the memo capacity: {outs}")
        if got[0] in ("hang", "RecursionError"):
            probs.append(f"left-recursive parse does not terminate normally: {got[0]}")
        if job["meta"]["base_first"] and job["meta"]["body"] == "MatchFirst":
            pass  # the base alternative listed first in a MatchFirst never grows: no iterative equivalent claimed
        elif job["meta"]["dash"] and job["meta"]["body"] == "Or" and "syntax" in (want[0], got[0]):
            pass  # an Or body raises the error stop's fatal only when no alternative matched (C07): `^` + `-` is not `|` + `-`
        elif want[0] != got[0]:
            probs.append(f"iterative grammar: {want[0]}, left-recursive grammar: {got[0]}")
        elif want[0] == "ok":
            if flatten(want[1]) != flatten(got[1]):
                probs.append(f"flat tokens differ: iterative {flatten(want[1])} vs left-recursive {flatten(got[1])}")
        if probs:
            bad.append({"prog": job["prog"], "root": job["root"], "input": s, "meta": job["meta"], "expected": list(want),
                        "actual": [list(got)] + probs})
    return n, bad


def nobase_job(job):
    pp = common.import_pyparsing()
    n, bad = 0, []
    for cap in CAPS:
        pp.ParserElement.enable_left_recursion(cap, force=True)
        try:
            root = gram.prepare(gram.build(pp, job["prog"]), job["root"])
            for s in job["inputs"]:
                n += 1
                try:
                    r = common.with_alarm(3.0, lambda: root.parse_string(s))
                    bad.append({"prog": job["prog"], "root": job["root"], "input": s, "expected": "ParseException", "actual": ["ok", r.as_list()]})
                except pp.ParseException:
                    pass
                except common.CaseTimeout:
                    bad.append({"prog": job["prog"], "root": job["root"], "input": s, "expected": "ParseException", "actual": "hang"})
                except Exception as ex:  # noqa
                    bad.append({"prog": job["prog"], "root": job["root"], "input": s, "expected": "ParseException", "actual": type(ex).__name__})
        finally:
            pp.ParserElement.disable_memoization()
    return n, bad


def indirect_job(job):
    """registered finding: indirect left recursion returns the base case only"""
    pp = common.import_pyparsing()
    pp.ParserElement.enable_left_recursion(force=True)
    try:
        root = gram.prepare(gram.build(pp, job["prog"]), job["root"])
        out = []
        for s in job["inputs"]:
            try:
                out.append(["ok", common.with_alarm(3.0, lambda: root.parse_string(s)).as_list()])
            except pp.ParseBaseException as ex:
                out.append(["exc", type(ex).__name__])
            except common.CaseTimeout:
                out.append(["hang"])
        return out
    finally:
        pp.ParserElement.disable_memoization()


def in_context(prog, root, it, itr, inputs, meta):
    """the recursive rule used by alternatives that share a prefix extending past it:  E .. E step E | E .. E | E  — the
    finished recursion is visited several times at one location, and the sequence that fails late has appended to what
    it was handed (a memo entry handed out uncopied would keep those tokens)"""
    def wrap(p, r):
        return p + [["cx_sep", "Literal", ".."], ["cx_kw", "Literal", "step"], ["cx1", "And", [r, "cx_sep", r, "cx_kw", r]],
                    ["cx2", "And", [r, "cx_sep", r]], ["cx_root", "MatchFirst", ["cx1", "cx2", r]]]
    a, b, c = inputs[0], inputs[1], inputs[2]
    ins = [f"{a}..{b}", f"{a} .. {b} step {c}", a, f"{a}..{b} step", f"{b}..{c}..{a}", f"{a}..", ""]
    return dict(prog=wrap(prog, root), root="cx_root", it_prog=wrap(it, itr), it_root="cx_root", inputs=ins, meta=meta)


def run(ctx):
    common.import_pyparsing()
    ctx.proof_leg("PPProofs.Props.C04", THEOREMS, extra_modules=("PPProofs.Props.C04Iter",))
    ctx.rule.append("direct left-recursive rule sets from harness/gen_lr.py (1-3 levels, 1-2 operators per level, MatchFirst/Or "
                    "bodies, grouped/flat, '+'/'-' after the operator, optional parenthesised recursion) x 10 expression strings "
                    "(well-formed, trailing/leading operator, junk, empty, padded) x capacities None/1/2/4; non-trivial = distinct "
                    "(rule set, input)")
    # ---- registered finding: indirect left recursion ----------------------------------------------
    wit = dict(prog=[["X", "Forward"], ["Y", "Forward"], ["la", "Literal", "a"], ["lx", "Literal", "x"], ["ly", "Literal", "y"],
                     ["yx", "+", "Y", "lx"], ["bx", "MatchFirst", ["yx", "la"]], ["_", "<<=", "X", "bx"], ["xy", "+", "X", "ly"],
                     ["_", "<<=", "Y", "xy"]], root="X", inputs=["ayxyx"])
    got = indirect_job(wit)
    if got == [["hang"]]:
        ctx.fail_input("left-recursive parse does not terminate", {"prog": wit["prog"], "root": "X", "input": "ayxyx"},
                       "terminates", got, theorem="C04 statement (termination)")
    elif got != [["ok", ["a", "y", "x", "y", "x"]]]:
        ctx.fail_input("indirect left recursion does not grow", {"prog": wit["prog"], "root": "X", "input": "ayxyx"},
                       ["ok", ["a", "y", "x", "y", "x"]], got, theorem="C04 statement (indirect recursion)",
                       signature="indirect_left_recursion")
    ctx.count_cases("known-finding-witness", 1)
    # ---- correspondence + oracle on direct left recursion ---------------------------------------------
    jobs, ojobs, pjobs = [], [], []
    for i in range(ctx.budget(500, 4000)):
        rng = random.Random(f"C04-{ctx.seed}-lr-{i}")
        prog, root, it, itr, inputs, meta = gen_lr.direct(rng)
        # the model re-evaluates finished Forwards (no retention), which is exponential in the number of levels: the
        # deepest shapes (3 levels with parenthesised recursion) are compared on short inputs only
        deep = meta["levels"] == 3 and meta["parens"]
        jobs.append(dict(prog=prog, root=root, inputs=[x for x in inputs if len(x) <= (10 if deep else 40)],
                         entries=[("parse", ()), ("parseAll", ())], modes=[("lr", None), ("lr", 1), ("lr", 2)]))
        ojobs.append(dict(prog=prog, root=root, it_prog=it, it_root=itr, inputs=inputs, meta=meta))
        ojobs.append(dict(prog=prog, root=root, it_prog=it, it_root=itr, inputs=inputs[:5], meta=meta, parse_all=True))
        if i % 3 == 0:
            ojobs.append(in_context(prog, root, it, itr, inputs, meta))
        if i % 4 == 1:
            ojobs.append(dict(prog=prog, root=root, it_prog=it, it_root=itr, inputs=inputs[:4], meta=meta, pre_packrat=True))
        if i % 4 == 2:
            pjobs.append(dict(prog=prog, root=root, inputs=inputs[:4] + [inputs[0] + " and " + inputs[1]]))
    corr_parse.run_jobs(ctx, "model(parseLR)-vs-real:direct-lr", jobs)
    mult = 4 if (ctx.broken and not ctx.fail_inputs) else 1
    for k in range(mult):
        if k:
            ojobs = []
            for i in range(ctx.budget(500, 4000)):
                rng = random.Random(f"C04-{ctx.seed}-more{k}-{i}")
                prog, root, it, itr, inputs, meta = gen_lr.direct(rng)
                ojobs.append(dict(prog=prog, root=root, it_prog=it, it_root=itr, inputs=inputs, meta=meta))
        corr_parse._TIMEOUTS.value = 0
        res = common.pmap(oracle_job, ojobs)
        n = sum(r[0] for r in res)
        bad = [m for r in res for m in r[1]]
        ctx.count_cases("oracle:lr-vs-iterative", n, distinct_keys=[json.dumps([j["prog"], s]) for j in ojobs for s in j["inputs"]],
                        outcomes={"calls": n, "mismatch": len(bad)}, samples=[{"prog": ojobs[0]["prog"], "input": ojobs[0]["inputs"][0]}])
        for m in bad[:3]:
            ctx.fail_input("left-recursive grammar differs from its iterative equivalent", {k2: m[k2] for k2 in ("prog", "root", "input", "meta")},
                           m["expected"], m["actual"], theorem="C04 statement (LR-vs-iterative oracle)")
    # ---- a left-recursive grammar's entry points do not depend on what was parsed before ------------------------
    from . import c08
    res = common.pmap(c08.prior_job, pjobs)
    badp = [m for r_ in res for m in r_[1] if m["mode"][0] == "lr"]
    ctx.count_cases("oracle:independent-of-earlier-calls", sum(r_[0] for r_ in res), outcomes={"mismatch": len(badp)})
    for m in badp[:2]:
        ctx.fail_input("a left-recursive grammar's entry point depends on what was parsed before",
                       {"prior": True, **{k2: m[k2] for k2 in ("prog", "root", "input", "mode", "others")}}, m["expected"], m["actual"],
                       theorem="C04 statement (every entry point starts from an empty memo)", how="harness.props.c08.prior_job")
    # ---- no base case ------------------------------------------------------------------------------------
    nb = [dict(prog=[["E", "Forward"], ["p", "Literal", "+"], ["n", "Word", "01"], ["s", "And", ["E", "p", "n"]], ["_", "<<=", "E", "s"]],
               root="E", inputs=["1+1", "1", "", "+1"]),
          dict(prog=[["E", "Forward"], ["T", "Forward"], ["p", "Literal", "+"], ["s", "And", ["E", "p", "T"]], ["_", "<<=", "E", "s"],
                     ["m", "Literal", "*"], ["t", "And", ["T", "m", "E"]], ["_", "<<=", "T", "t"]], root="E", inputs=["1+1*1", ""])]
    res = [nobase_job(j) for j in nb]
    ctx.count_cases("oracle:no-base-case", sum(r[0] for r in res))
    for r in res:
        for m in r[1][:2]:
            ctx.fail_input("recursion without base case does not fail with a ParseException", {k2: m[k2] for k2 in ("prog", "root", "input")},
                           m["expected"], m["actual"], theorem="PP.Parse.lr_no_base (oracle)")


def replay(data):
    if data.get("replay_kind") == "failing-input" and data["case"].get("prior"):
        from . import c08
        c = data["case"]
        return any(m["mode"][0] == "lr" for m in c08.prior_job(dict(prog=c["prog"], root=c["root"], inputs=[c["input"]] + [o for o in c["others"] if o != c["input"]]))[1])
    if data.get("replay_kind") == "failing-input":
        c = data["case"]
        if "meta" in c:
            rng = None
            # rebuild the iterative grammar is not possible from the case alone: re-run the quick check instead
    ctx = common.Ctx("C04", "quick", data.get("seed", 0))
    run(ctx)
    return bool(ctx.broken or ctx.fail_inputs)
