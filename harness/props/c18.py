"""C18 — built-in expressions and helpers conform to their reference definitions.

proof:           lean/PPProofs/Props/C18.lean (+ C18More.lean: ipv4_address, identifier, ieee_float; C18Datetime.lean:
                 iso8601_datetime): for each Regex/Word based built-in, `Regex.parse <live pattern> = some AST`
                 (generated fact, lean/PPProofs/Props/Gen/Patterns.lean is rewritten from the live package on every
                 run) and an unbounded language theorem `AST.Accepts s <-> <documented syntax> s`.
correspondence:  the Lean regex engine (PPModel/Base/Regex.lean: parser + backtracking matcher, `m` with captures and
                 the capture-free `ends` the theorems are about) vs CPython `re` on every built-in pattern x strings
                 generated from the pattern itself (sampler over the sre parse tree), mutated, and random.
search (oracle): on the real expressions, `parse_string(s, parse_all=True)` accepts exactly the strings of the
                 documented syntax (python transcription of the Lean `Is…` predicates) and the converted values agree
                 with int()/float()/ipaddress/uuid/datetime/str.isidentifier.  The agreement with CPython library
                 code is search-only (no model) and labelled so in the evidence.
QuotedString:    model PPModel/Mod/Quoted.lean, theorems PPProofs/Props/C18Quoted.lean, facts / correspondence / oracle in
                 harness/props/c18_quoted.py (see its docstring).
"""
from __future__ import annotations

import datetime as _dt
import ipaddress
import json
import math
import re
import uuid as _uuid
from pathlib import Path

from .. import common
from ..sexp import Sym, line as sx
from . import c18_quoted as cq
from . import c18_helpers as chh

META = dict(
    text="PARTIAL. Proved in Lean for ALL strings (PPProofs/Props/C18.lean, over the regex-engine model "
         "PPModel/Base/Regex.lean), full strength, each with non-vacuity examples: integer_language, "
         "hex_integer_language, signed_integer_language, real_language (+ ureal_language, accepts_signOpt), "
         "uuid_language (8-4-4-4-12 hex digits), iso8601_date_language (yyyy | yyyy-mm | yyyy-mm-dd), fnumber_language "
         "(+ fnumber_body_language, expo_accepts: optional sign, digits, optional '.' digits*, optional exponent), "
         "sci_real_language (+ sci_body_language, ureal_first_sound/complete: optional sign, digits+exponent or real with "
         "optional exponent) - the "
         "pattern read from the live package parses to the pinned AST and the AST's preferred re.match consumes the whole "
         "string iff the string has the documented syntax. Also full strength (PPProofs/Props/C18More.lean, helper lemmas "
         "PPProofs/Lemmas/RegexIpv4.lean): ipv4_language (accepted <=> four octets of the pattern's exact policy, 1-2 "
         "digits or 1dd / 2[0-4]d / 25[0-5], separated by dots; = ipv4_language_partial for => and ipv4_complete for <=: "
         "the preferred backtracking match goes through the whole of each dot-terminated octet (mem_octet_complete + "
         "head?_flatMap_unique) and the preferred match of the last octet is the whole octet (octet_head_enum, kernel "
         "evaluation over all digit strings of length <= 3)) and identifier_language (accepted <=> one character of the "
         "pattern's initial class - ASCII letters, '_', U+00AA U+00B5 U+00BA U+00C0-D6 U+00D8-F6 U+00F8-FF - followed by "
         "characters of the body class = initial class + digits + U+00B7; the classes are those of the live reString, "
         "nothing is claimed about str.isidentifier), and ieee_float_language (accepted <=> optional sign, then an "
         "fnumber body with e/E exponent, or nan / inf / infinity in any letter case; ieee_sim: the (?i:...) AST has the "
         "same matches as the fnumber-shaped AST because its character sets have the same members; helper lemmas "
         "PPProofs/Lemmas/RegexCI.lean; case folding is the MODEL's ASCII folding - CPython's extra IGNORECASE "
         "equivalences for str patterns, e.g. U+0131 dotless i / U+0130 for 'i', are not modelled, the statement is about "
         "ASCII text). Full strength too (PPProofs/Props/C18Datetime.lean): iso8601_datetime_language (accepted <=> "
         "yyyy-mm-dd, 'T' or a blank, hh:mm, then optional seconds - nothing | ':' | ':ss' | ':ss.' digits* - then optional "
         "zone - nothing | 'Z' | +-hhmm | +-hh:mm; digits only, no range checks on the fields, exactly as the pattern; "
         "isoDatetime_head: the preferred match is the deterministic prefix followed by the greedy tails secFn/tzFn). For "
         "mac_address (back-reference: needs capture-aware lemmas about the matcher `m`), number, "
         "fraction, ipv6 parts and the quoted-string built-ins only the generated-fact obligations (*_pattern_ast, "
         "*_leaves_fact, *_quoted_string_fact: live pattern = pinned AST, checked by the kernel on every run) are proved; "
         "their language theorems are MISSING and acceptance is decided by the oracle (python transcription of the syntax) on "
         "generated strings. QuotedString (model PPModel/Mod/Quoted.lean = the unquote_scan_re loop, "
         "convert_escaped_numerics, the esc_quote replacement and the slicing of parseImpl; PPProofs/Props/C18Quoted.lean): "
         "quoted_roundtrip is full strength for the unquoting - for EVERY content and every option value, unquote(quote "
         "content) = content for the minimal and the defensive writing, under the hypotheses the code needs (esc_char is not "
         "a line feed; EscQuoteOk: content.replace(E,EQ).replace(EQ,E) == content, discharged for no esc_quote by "
         "quoted_roundtrip_no_esc_quote and for a doubled one-character quote by quoted_roundtrip_doubled); "
         "quoted_unquote_any_writing / quoted_scan_any_writing: every valid mix of writings (raw, esc_char+c, \\t\\n\\f\\r, "
         "\\xHH, \\uHHHH, \\OOO) is read back; quoted_result_roundtrip, quoted_verbatim (unquote_results=False, immediate); "
         "scan_pattern_facts (generated fact: the live unquote_scan_re.pattern is the transcribed text and it is compiled "
         "with DOTALL iff multiline). MISSING for QuotedString: that the matching regex self.re ends exactly after "
         "Q + quote(content) + E (the span; needs the preferred-match property of the backtracking matcher for the "
         "parametric pattern) - decided by the oracle (model-written texts through the real parse_string) and by the "
         "correspondence parse_string vs model (live pattern run by the regex-engine model + Quoted.result). "
         "NOT proved (search only, on the real code): value agreement with int()/float()/ipaddress/"
         "uuid/datetime/str.isidentifier; ipv6_address vs ipaddress; the QuotedString span; dbl/sgl/quoted_string + "
         "remove_quotes; nested_expr vs a bracket reader; DelimitedList min/max/trailing delimiter; counted_array exact "
         "count when one int_expr object is shared; that helpers leave the expressions they are given as they were "
         "(oracle-helper-args). counted_array (model PPModel/Mod/Counted.lean: intExpr + array_expr with the count action "
         "binding array_expr to expr*n; PPProofs/Props/C18Counted.lean, full strength for every count/item expression and "
         "text): counted_exact (a successful parse returns exactly the announced number of items), counted_reads_items / "
         "rep_spec (they are the item expression applied n times in sequence), counted_fails_iff; correspondence "
         "counted-array-vs-model for decimal/binary/hex Word counts. The copy of a caller-supplied int_expr is NOT modelled. "
         "There is no Lean model of nested_expr/DelimitedList yet. Two open known findings are "
         "registered (ipv6_embedded_ipv4_forms, delimited_max1_trailing); quoted_numeric_escapes is fixed (31e7764) and "
         "its region (numeric escapes written by the reference encoder) is generated again.",
    note="Trusted: Lean kernel; axioms propext/Classical.choice/Quot.sound; the regex model (parser + matcher `m` + "
         "capture-free `ends` on which the theorems are stated) is a hand-written model of CPython re, validated only "
         "differentially on every run (every built-in pattern x generated strings: match end, groups, ends==m); "
         "\\d \\w \\s are ASCII in the model (CPython: Unicode), so theorems and runs are about ASCII text; the "
         "python transcriptions of the syntaxes and the reference encoders/readers in harness/props/c18.py; the QuotedString "
         "model takes esc_char as one character and has no Char for \\uD800-\\uDFFF escapes (generators stay out); "
         "matcher_ok (harness/props/c18_quoted.py: which model-written texts the matching regex must span) is a python "
         "reference walk.",
    technique="Lean 4 proof over a regex-engine model + generated pattern facts + differential run against re + oracles",
    design="§5 C18",
)

THEOREMS = [
    "PP.C18.integer_pattern_ast", "PP.C18.integer_language",
    "PP.C18.hex_integer_pattern_ast", "PP.C18.hex_integer_language",
    "PP.C18.signed_integer_pattern_ast", "PP.C18.signed_integer_language",
    "PP.C18.real_pattern_ast", "PP.C18.real_language", "PP.C18.ureal_language", "PP.C18.accepts_signOpt",
    "PP.C18.uuid_language", "PP.C18.iso8601_date_language", "PP.C18.fnumber_language", "PP.C18.fnumber_body_language",
    "PP.C18.expo_accepts",
    "PP.C18.ipv4_language_partial", "PP.C18.mem_octet",
    "PP.C18.ipv4_language", "PP.C18.ipv4_complete", "PP.C18.mem_octet_complete", "PP.C18.octet_head_enum",
    "PP.C18.identifier_language",
    "PP.C18.ieee_float_language", "PP.C18.ieee_body_language", "PP.C18.ieee_sim",
    "PP.C18.iso8601_datetime_language", "PP.C18.isoDatetime_head", "PP.C18.preFn_some",
    "PP.C18.sci_real_language", "PP.C18.sci_body_language", "PP.C18.ureal_first_sound", "PP.C18.ureal_first_complete",
    "PP.C18.sci_real_pattern_ast", "PP.C18.fnumber_pattern_ast",
    "PP.C18.ieee_float_pattern_ast", "PP.C18.identifier_pattern_ast", "PP.C18.ipv4_address_pattern_ast",
    "PP.C18.mac_address_pattern_ast", "PP.C18.iso8601_date_pattern_ast", "PP.C18.iso8601_datetime_pattern_ast",
    "PP.C18.uuid_pattern_ast", "PP.C18.number_leaves_fact", "PP.C18.fraction_leaves_fact", "PP.C18.ipv6_leaves_fact",
    "PP.C18.dbl_quoted_string_fact", "PP.C18.sgl_quoted_string_fact", "PP.C18.quoted_string_fact",
] + cq.THEOREMS + chh.THEOREMS

GEN_REL = "PPProofs/Props/Gen/Patterns.lean"
DATETIME_MODULE = "PPProofs.Props.C18Datetime"   # iso8601_datetime_language (imports Props/C18)
MORE_MODULE = "PPProofs.Props.C18More"   # ipv4/identifier/ieee_float language theorems (imports Props/C18)


# ---------------------------------------------------------------------------------------------
# T1: generated facts
# ---------------------------------------------------------------------------------------------
def leaves(pp, e, seen=None, out=None):
    """Regex / Word leaves of an expression in construction order: (kind, pattern, flags)"""
    if seen is None:
        seen, out = set(), []
    if id(e) in seen:
        return out
    seen.add(id(e))
    if isinstance(e, pp.Regex):
        out.append(("Regex", e.pattern, int(e.flags)))
    elif isinstance(e, pp.Word):
        out.append(("Word", e.reString, 0))
    elif isinstance(e, pp.QuotedString):
        out.append(("QuotedString", e.pattern, int(e.re_flags)))
    elif isinstance(e, pp.Literal):
        out.append(("Literal", e.match, 0))
    for sub in getattr(e, "exprs", None) or []:
        leaves(pp, sub, seen, out)
    sub = getattr(e, "expr", None)
    if sub is not None and isinstance(sub, pp.ParserElement):
        leaves(pp, sub, seen, out)
    return out


SINGLE = ["integer", "hex_integer", "signed_integer", "real", "sci_real", "fnumber", "ieee_float", "identifier",
          "ipv4_address", "mac_address", "iso8601_date", "iso8601_datetime", "uuid"]
MULTI_COMMON = ["number", "fraction", "mixed_integer", "ipv6_address"]
MULTI_TOP = ["dbl_quoted_string", "sgl_quoted_string", "quoted_string", "python_quoted_string"]


def builtin_facts(pp):
    """name -> list of (kind, pattern, flags) leaves, from the live package"""
    C = pp.pyparsing_common
    facts = {}
    for n in SINGLE + MULTI_COMMON:
        facts[n] = leaves(pp, getattr(C, n))
    for n in MULTI_TOP:
        facts[n] = leaves(pp, getattr(pp, n))
    return facts


PINNED = Path(__file__).with_name("c18_pinned.json")


def load_pinned():
    """the facts for which the obligations in Props/C18.lean were last proved (committed next to this file)"""
    if not PINNED.exists():
        return None
    return {n: [tuple(x) for x in lv] for n, lv in json.loads(PINNED.read_text()).items()}


def _ast_of(driver, kind, p, fl):
    if kind == "Literal":
        return "lit:" + p
    return driver.run([sx(Sym("reast"), bool(fl & re.I), bool(fl & re.M), bool(fl & re.S), p)])[0]


def precheck_facts(ctx, facts):
    """A failing `decide +kernel` obligation makes Lean spend minutes diagnosing it, so the obligations are
    pre-evaluated with the compiled driver (same `Regex.parse`): a live pattern that no longer parses to the AST of the
    pinned pattern is recorded as a broken obligation right away and the pinned text stays in the generated file; every
    fact that is written to the generated file is still checked by the Lean kernel in the build that follows."""
    pinned = load_pinned()
    if pinned is None:
        return facts
    try:
        drv = ctx.driver
    except common.HarnessError:
        return facts
    out = {}
    for n, lv in facts.items():
        pv = pinned.get(n)
        if pv is None or lv == pv:
            out[n] = lv
            continue
        same = len(lv) == len(pv) and all(
            a[0] == b[0] and a[2] == b[2] and _ast_of(drv, a[0], a[1], a[2]) == _ast_of(drv, b[0], b[1], b[2])
            for a, b in zip(lv, pv))
        if same:
            out[n] = lv
        else:
            out[n] = pv
            changed = [(a, b) for a, b in zip(lv, pv) if a != b][:2] or [(lv[:3], pv[:3])]
            ctx.obligation(f"PP.C18.{n} generated fact (pattern of the live package parses to the pinned AST)", False,
                           f"live {changed[0][0]!r} vs pinned {changed[0][1]!r}")
    return out


def lean_str(s: str) -> str:
    out = ['"']
    for ch in s:
        o = ord(ch)
        if ch == "\\":
            out.append("\\\\")
        elif ch == '"':
            out.append('\\"')
        elif ch == "\n":
            out.append("\\n")
        elif ch == "\t":
            out.append("\\t")
        elif ch == "\r":
            out.append("\\r")
        elif o < 32 or (126 < o < 0x10000):
            out.append("\\u%04x" % o)
        else:
            out.append(ch)
    out.append('"')
    return "".join(out)


def gen_patterns_lean(facts) -> str:
    L = ["/- GENERATED by harness/props/c18.py from the live pyparsing package (pattern / reString / flags of the",
         "   built-in expressions). Rewritten on every run; the obligations in Props/C18.lean consume these. -/",
         "namespace PP.Gen.Patterns", ""]
    for n in SINGLE:
        lv = facts[n]
        kind, pat, fl = lv[0] if len(lv) == 1 else ("?", "<not a single Regex/Word leaf>", 0)
        L.append(f"/-- pyparsing_common.{n} ({kind}) -/")
        L.append(f"def {n} : String := {lean_str(pat)}")
        L.append(f"def {n}_flags : Nat := {fl}")
        L.append("")
    for n in MULTI_COMMON + MULTI_TOP:
        lv = facts[n]
        if n == "ipv6_address":
            # many repeated leaves: the distinct ones in first-occurrence order
            seen, d = set(), []
            for k in lv:
                if k not in seen:
                    seen.add(k)
                    d.append(k)
            lv = d
        L.append(f"/-- leaves of {n}: (kind, pattern or literal, flags) -/")
        items = ",\n   ".join(f"({lean_str(k)}, {lean_str(p)}, {f})" for k, p, f in lv)
        L.append(f"def {n}_leaves : List (String × String × Nat) :=\n  [{items}]")
        L.append("")
    L.append("end PP.Gen.Patterns")
    return "\n".join(L) + "\n"


# ---------------------------------------------------------------------------------------------
# string generators
# ---------------------------------------------------------------------------------------------
def sample_from_pattern(rng, pattern, flags=0, maxrep=4):
    """a random string of the language of `pattern` (walk of the sre parse tree)"""
    import re._parser as sp
    import re._constants as sc

    tree = sp.parse(pattern, flags)
    groups = {}

    def cat_chars(cat):
        name = str(cat)
        if "NOT_DIGIT" in name:
            return "ax. -"
        if "DIGIT" in name:
            return "0123456789"
        if "NOT_SPACE" in name:
            return "ax0."
        if "SPACE" in name:
            return " \t"
        if "NOT_WORD" in name:
            return " .-+"
        if "WORD" in name:
            return "ab_09Z"
        return "a"

    def in_chars(items):
        neg = False
        pos = []
        for op, av in items:
            if op is sc.NEGATE:
                neg = True
            elif op is sc.LITERAL:
                pos.append(chr(av))
            elif op is sc.RANGE:
                lo, hi = av
                pos.extend(chr(x) for x in {lo, hi, (lo + hi) // 2, rng.randint(lo, hi)})
            elif op is sc.CATEGORY:
                pos.extend(cat_chars(av))
        if neg:
            cand = [c for c in "aZ09 .-+:eE\"'\\x\n_/" if not re.match("[" + "".join(re.escape(p) for p in pos) + "]", c)] \
                if pos else list("aZ09 .")
            # re-check through the real class to be exact
            return cand or ["~"]
        return pos or ["a"]

    def walk(t):
        out = []
        for op, av in t:
            if op is sc.LITERAL:
                ch = chr(av)
                if flags & re.I or _ci_active[0]:
                    ch = rng.choice([ch.lower(), ch.upper()])
                out.append(ch)
            elif op is sc.NOT_LITERAL:
                out.append(rng.choice([c for c in "aZ0 ." if c != chr(av)]))
            elif op is sc.ANY:
                out.append(rng.choice("aZ0 .\"'\\"))
            elif op is sc.IN:
                out.append(rng.choice(in_chars(av)))
            elif op in (sc.MAX_REPEAT, sc.MIN_REPEAT, getattr(sc, "POSSESSIVE_REPEAT", None)):
                lo, hi, sub = av
                hi = min(hi, lo + maxrep)
                for _ in range(rng.randint(lo, hi)):
                    out.append(walk(sub))
            elif op is sc.SUBPATTERN:
                gid, add, dele, sub = av
                old = _ci_active[0]
                if add & re.I:
                    _ci_active[0] = True
                s = walk(sub)
                _ci_active[0] = old
                if gid is not None:
                    groups[gid] = s
                out.append(s)
            elif op is sc.BRANCH:
                out.append(walk(rng.choice(av[1])))
            elif op is sc.GROUPREF:
                out.append(groups.get(av, ""))
            elif op in (sc.ASSERT, sc.ASSERT_NOT, sc.AT):
                pass
            elif op is sc.CATEGORY:
                out.append(rng.choice(cat_chars(av)))
            else:
                pass
        return "".join(out)

    _ci_active = [False]
    return walk(tree)


def mutate(rng, s, alphabet):
    if not s:
        return rng.choice(alphabet)
    k = rng.randrange(7)
    i = rng.randrange(len(s))
    if k == 0:
        return s[:i] + s[i + 1:]
    if k == 1:
        return s[:i] + rng.choice(alphabet) + s[i:]
    if k == 2:
        return s[:i] + rng.choice(alphabet) + s[i + 1:]
    if k == 3:
        return s[:i] + s[i] + s[i:]
    if k == 4:
        return s[:i]
    if k == 5:
        return s + rng.choice(alphabet)
    j = rng.randrange(len(s))
    l = list(s)
    l[i], l[j] = l[j], l[i]
    return "".join(l)


ALPHA = "0123456789+-.eE:abfAFxX nNiItTyZzgG_\"'\\/%é"


def strings_for_pattern(rng, pattern, flags, n):
    out = []
    alpha = ALPHA + "".join(c for c in pattern if c.isalnum() or c in "\"'")
    for _ in range(n):
        try:
            s = sample_from_pattern(rng, pattern, flags)
        except Exception:
            s = ""
        r = rng.random()
        if r < 0.35:
            pass
        elif r < 0.8:
            for _ in range(rng.randint(1, 2)):
                s = mutate(rng, s, alpha)
        else:
            s = "".join(rng.choice(alpha) for _ in range(rng.randint(0, 10)))
        out.append(s)
    return out


# ---------------------------------------------------------------------------------------------
# correspondence: Lean regex engine vs CPython re
# ---------------------------------------------------------------------------------------------
def re_case_line(p, fl, pos, s):
    return sx(Sym("rematch"), bool(fl & re.I), bool(fl & re.M), bool(fl & re.S), p, pos, s)


def re_impl(p, fl, pos, s):
    m = re.compile(p, fl).match(s, pos)
    if m is None:
        return "(nomatch same)"
    return sx([m.end(), [g if g is not None else Sym("None") for g in m.groups()], Sym("same")])


EXTRA_PATTERNS = [
    # exercising the rest of the modelled pattern language (anchors, \b, lazy, nested groups, back-reference by name)
    (r"\b(?:ab|a)\b$", 0), (r"^a*?b", re.M), (r"(a|ab)(c|bcd)(d*)", 0), (r"(a*)*b", 0), (r"(a?){2,3}?x", 0),
    (r"(?P<q>['\"])[^'\"]*(?P=q)", 0), (r"/\*(?:[^*]|\*(?!/))*\*/", 0), (r"<!--[\s\S]*?-->", 0), (r"#.*", 0),
    (r"//(?:\\\n|[^\n])*", 0), (r"a{,2}b{2,}\{x\}", 0), (r"[]a-c^-]+[^]x]", 0), (r"(?s:.)+?$|x", 0),
]


def regex_correspondence(ctx, facts):
    rng = ctx.subrng("regex")
    per = ctx.budget(600, 8000)
    pats = []
    for n, lv in facts.items():
        for kind, p, fl in lv:
            if kind in ("Regex", "Word", "QuotedString") and (p, fl) not in [(a, b) for _, a, b in pats]:
                pats.append((n, p, fl))
    for p, fl in EXTRA_PATTERNS:
        pats.append(("extra", p, fl))
    cases, lines, impl = [], [], []
    for n, p, fl in pats:
        for s in strings_for_pattern(rng, p, fl, per):
            if "\\w" in p or "\\W" in p or "\\b" in p or "\\s" in p or "\\S" in p or "\\d" in p or "\\D" in p:
                s = s.replace("é", "e")  # class escapes are modelled for ASCII only
            pos = 0
            if len(s) > 2 and rng.random() < 0.15:
                pos = rng.randint(1, 2)
            cases.append({"builtin": n, "pattern": p, "flags": fl, "pos": pos, "s": s})
            lines.append(re_case_line(p, fl, pos, s))
            impl.append(re_impl(p, fl, pos, s))
    diffs = ctx.correspond("regex-engine-vs-re", cases, lines, impl,
                           nontrivial=lambda c, o: not o.startswith("(nomatch"),
                           outcome_of=lambda c, o: ("nomatch" if o.startswith("(nomatch") else
                                                    "full" if o.startswith(f"({len(c['s'])} ") else "prefix"))
    return diffs


# ---------------------------------------------------------------------------------------------
# reference definitions (python transcriptions of the Lean `Is…` predicates; no `re` here)
# ---------------------------------------------------------------------------------------------
DIG = "0123456789"
HEX = "0123456789abcdefABCDEF"


def _digits(s):
    return len(s) > 0 and all(c in DIG for c in s)


def _unsign(s):
    return s[1:] if s[:1] in ("+", "-") else s


def spec_integer(s):
    return _digits(s)


def spec_hex_integer(s):
    return len(s) > 0 and all(c in HEX for c in s)


def spec_signed_integer(s):
    return _digits(_unsign(s))


def _ureal(t):
    if "." not in t:
        return False
    a, b = t.split(".", 1)
    return all(c in DIG for c in a + b) and (len(a) > 0 or len(b) > 0) and (len(a) > 0 or len(b) > 0) and \
        not (len(a) == 0 and len(b) == 0)


def spec_real(s):
    return _ureal(_unsign(s))


def _exp(t):
    return t[:1] in ("e", "E") and _digits(_unsign(t[1:]))


def spec_sci_real(s):
    t = _unsign(s)
    i = min([k for k in (t.find("e"), t.find("E")) if k >= 0], default=-1)
    if i < 0:
        return _ureal(t)
    return (_digits(t[:i]) or _ureal(t[:i])) and _exp(t[i:])


def spec_fnumber(s):
    t = _unsign(s)
    i = min([k for k in (t.find("e"), t.find("E")) if k >= 0], default=-1)
    mant, ex = (t, "") if i < 0 else (t[:i], t[i:])
    if ex and not _exp(ex):
        return False
    if "." in mant:
        a, b = mant.split(".", 1)
        return _digits(a) and all(c in DIG for c in b)
    return _digits(mant)


def spec_ieee_float(s):
    t = _unsign(s).lower()
    if t in ("nan", "inf", "infinity"):
        return True
    return spec_fnumber(_unsign(s).replace("E", "e")) and _unsign(s)[:1] not in ("+", "-")


def spec_number(s):
    return spec_sci_real(s) or spec_real(s) or spec_signed_integer(s)


def _octet(o):
    # the pattern's exact policy: 25[0-5] | 2[0-4][0-9] | 1?[0-9]{1,2}
    if not _digits(o):
        return False
    if len(o) <= 2:
        return True
    return len(o) == 3 and o[0] in "12" and int(o) <= 255


def spec_ipv4_address(s):
    parts = s.split(".")
    return len(parts) == 4 and all(_octet(p) for p in parts)


def spec_mac_address(s):
    if len(s) != 17:
        return False
    d = s[2]
    if d not in ":.-":
        return False
    parts = s.split(d)
    return len(parts) == 6 and all(len(p) == 2 and all(c in HEX for c in p) for p in parts)


def spec_uuid(s):
    parts = s.split("-")
    return [len(p) for p in parts] == [8, 4, 4, 4, 12] and all(c in HEX for p in parts for c in p)


def spec_iso8601_date(s):
    parts = s.split("-")
    if not (1 <= len(parts) <= 3):
        return False
    return [len(p) for p in parts] == [4, 2, 2][:len(parts)] and all(_digits(p) for p in parts)


def spec_iso8601_datetime(s):
    # yyyy-mm-dd[T ]hh:mm(:(ss(.d*)?)?)?(Z|[+-]hh:?mm)?
    if len(s) < 16:
        return False
    d, sep, t = s[:10], s[10], s[11:]
    if not (spec_iso8601_date(d) and len(d) == 10 and sep in "T "):
        return False
    if not (_digits(t[0:2]) and t[2:3] == ":" and _digits(t[3:5]) and len(t) >= 5):
        return False
    r = t[5:]
    if r[:1] == ":":
        r = r[1:]
        if r[:1] in DIG and r[:1] != "":
            if not _digits(r[:2]) or len(r) < 2:
                return False
            r = r[2:]
            if r[:1] == ".":
                r = r[1:]
                while r[:1] in DIG and r[:1] != "":
                    r = r[1:]
    if r == "" or r == "Z":
        return True
    if r[0] in "+-":
        z = r[1:]
        return (len(z) == 5 and _digits(z[:2]) and z[2] == ":" and _digits(z[3:])) or (len(z) == 4 and _digits(z))
    return False


def spec_identifier_ascii(s):
    first = "abcdefghijklmnopqrstuvwxyzABCDEFGHIJKLMNOPQRSTUVWXYZ_"
    return len(s) > 0 and s[0] in first and all(c in first + DIG for c in s[1:])


def _feq(a, b):
    return (isinstance(a, float) and isinstance(b, float) and
            ((math.isnan(a) and math.isnan(b)) or (a == b and math.copysign(1, a) == math.copysign(1, b))))


def _ieq(a, b):
    return type(a) is int and type(b) is int and a == b


# name -> (spec, reference value fn or None, value comparator)
def _builtin_table():
    return {
        "integer": (spec_integer, lambda s: int(s), _ieq),
        "hex_integer": (spec_hex_integer, lambda s: int(s, 16), _ieq),
        "signed_integer": (spec_signed_integer, lambda s: int(s), _ieq),
        "real": (spec_real, lambda s: float(s), _feq),
        "sci_real": (spec_sci_real, lambda s: float(s), _feq),
        "fnumber": (spec_fnumber, lambda s: float(s), _feq),
        "ieee_float": (spec_ieee_float, lambda s: float(s), _feq),
        "number": (spec_number, lambda s: int(s) if spec_signed_integer(s) else float(s),
                   lambda a, b: _ieq(a, b) or _feq(a, b)),
        "ipv4_address": (spec_ipv4_address, lambda s: s, lambda a, b: a == b),
        "mac_address": (spec_mac_address, lambda s: s, lambda a, b: a == b),
        "uuid": (spec_uuid, lambda s: s, lambda a, b: a == b),
        "iso8601_date": (spec_iso8601_date, lambda s: s, lambda a, b: a == b),
        "iso8601_datetime": (spec_iso8601_datetime, lambda s: s, lambda a, b: a == b),
        "identifier": (spec_identifier_ascii, lambda s: s, lambda a, b: a == b),
    }


def _accept(pp, expr, s):
    """parse_string(s, parse_all=True) on the real expression: ('ok', tokens, named) | ('fail',) | ('error', name)"""
    try:
        r = common.with_alarm(5, expr.parse_string, s, parse_all=True)
        return ("ok", list(r), dict(r.as_dict()))
    except pp.ParseBaseException:
        return ("fail",)
    except common.CaseTimeout:
        return ("error", "hang")
    except Exception as e:  # noqa
        return ("error", type(e).__name__)


def check_builtin(pp, name, s):
    """oracle for one (built-in, string); returns None or (expected, actual) description"""
    spec, ref, eq = _builtin_table()[name]
    expr = getattr(pp.pyparsing_common, name)
    res = _accept(pp, expr, s)
    want = spec(s)
    if res[0] == "error":
        return (f"accept={want} without internal error", f"raised {res[1]}")
    if (res[0] == "ok") != want:
        return (f"documented syntax says accept={want}", f"parse_string(parse_all=True) {'accepted' if res[0] == 'ok' else 'rejected'}")
    if want:
        toks = res[1]
        if len(toks) != 1:
            return ("one token", f"{toks!r}")
        try:
            rv = ref(s)
        except Exception as e:  # reference rejects a string of the documented syntax
            return (f"reference converter accepts {s!r}", f"reference raised {type(e).__name__}")
        if not eq(toks[0], rv):
            return (f"value {rv!r} ({type(rv).__name__})", f"{toks[0]!r} ({type(toks[0]).__name__})")
        # library agreement on well-formed inputs (search only)
        d = lib_agreement(pp, name, s, res)
        if d:
            return d
    else:
        d = lib_wellformed_rejected(pp, name, s)
        if d:
            return d
    return None


def lib_agreement(pp, name, s, res):
    """accepted string: what the stdlib parser says about it must be compatible with the documented range"""
    if name == "ipv4_address":
        # ipaddress refuses leading zeros (ambiguous octal); otherwise it must agree
        if all(p == str(int(p)) for p in s.split(".")):
            try:
                ipaddress.IPv4Address(s)
            except Exception:
                return ("ipaddress.IPv4Address accepts (no leading zeros, octets 0..255)", "it raises")
    elif name == "uuid":
        try:
            u = _uuid.UUID(s)
        except Exception:
            return ("uuid.UUID accepts", "it raises")
        if str(u) != s.lower():
            return (f"uuid.UUID round trip {s.lower()!r}", str(u))
    elif name == "iso8601_date":
        named = {k: v for k, v in res[2].items() if v is not None}
        parts = s.split("-")
        want = dict(zip(["year", "month", "day"], parts))
        if named != want:
            return (f"named results {want}", f"{named}")
    elif name == "iso8601_datetime":
        named = res[2]
        if named.get("year") != s[:4] or named.get("month") != s[5:7] or named.get("day") != s[8:10] \
                or named.get("hour") != s[11:13] or named.get("minute") != s[14:16]:
            return ("named results are the fields of the text", f"{named}")
    elif name == "identifier":
        if not s.isidentifier():
            return ("str.isidentifier() is True", "False")
    return None


def lib_wellformed_rejected(pp, name, s):
    """rejected string: it must not be a well-formed input of the stdlib parser (in canonical form)"""
    if name == "ipv4_address":
        try:
            ipaddress.IPv4Address(s)
        except Exception:
            return None
        return ("rejected strings are not valid for ipaddress.IPv4Address", "ipaddress accepts it")
    if name == "uuid":
        try:
            u = _uuid.UUID(s)
        except Exception:
            return None
        if str(u) == s.lower():
            return ("rejected strings are not canonical UUIDs", "uuid.UUID round-trips it")
    if name == "iso8601_date":
        try:
            d = _dt.date.fromisoformat(s)
        except Exception:
            return None
        if d.isoformat() == s:
            return ("rejected strings are not yyyy-mm-dd dates", "date.fromisoformat round-trips it")
    if name == "identifier":
        if s.isascii() and s.isidentifier():
            return ("rejected ASCII strings are not identifiers", "str.isidentifier() is True")
    if name in ("integer", "signed_integer"):
        pass
    return None


# spec-driven generators (strings of the documented syntax, independent of the live pattern)
def gen_spec_string(rng, name):
    d = lambda lo=1, hi=4: "".join(rng.choice(DIG) for _ in range(rng.randint(lo, hi)))
    h = lambda n: "".join(rng.choice(HEX) for _ in range(n))
    sign = lambda: rng.choice(["", "", "+", "-"])
    exp = lambda: rng.choice("eE") + sign() + d(1, 3)
    ureal = lambda: rng.choice([d() + "." + d(0, 3), "." + d(), d() + "."])
    if name == "integer":
        return d(1, 12)
    if name == "hex_integer":
        return h(rng.randint(1, 10))
    if name == "signed_integer":
        return sign() + d(1, 12)
    if name == "real":
        return sign() + ureal()
    if name == "sci_real":
        return sign() + rng.choice([d() + exp(), ureal() + exp(), ureal()])
    if name == "fnumber":
        return sign() + d() + rng.choice(["", ".", "." + d()]) + rng.choice(["", exp()])
    if name == "ieee_float":
        k = rng.random()
        if k < 0.4:
            w = rng.choice(["nan", "inf", "infinity"])
            return sign() + "".join(rng.choice([c.lower(), c.upper()]) for c in w)
        return sign() + d() + rng.choice(["", ".", "." + d()]) + rng.choice(["", exp()])
    if name == "number":
        return gen_spec_string(rng, rng.choice(["signed_integer", "real", "sci_real"]))
    if name == "ipv4_address":
        o = lambda: rng.choice(["0", "1", "9", "10", "99", "100", "199", "200", "249", "250", "255", "00", "01", "09",
                                str(rng.randint(0, 255))])
        return ".".join(o() for _ in range(4))
    if name == "mac_address":
        dl = rng.choice(":.-")
        return dl.join(h(2) for _ in range(6))
    if name == "uuid":
        return "-".join(h(n) for n in (8, 4, 4, 4, 12))
    if name == "iso8601_date":
        y, m, dd = d(4, 4), "%02d" % rng.randint(1, 12), "%02d" % rng.randint(1, 28)
        return rng.choice([y, y + "-" + m, y + "-" + m + "-" + dd, y + "-" + m + "-" + dd])
    if name == "iso8601_datetime":
        y, m, dd = d(4, 4), "%02d" % rng.randint(1, 12), "%02d" % rng.randint(1, 28)
        t = "%02d:%02d" % (rng.randint(0, 23), rng.randint(0, 59))
        sec = rng.choice(["", ":", ":%02d" % rng.randint(0, 59), ":%02d." % rng.randint(0, 59),
                          ":%02d.%s" % (rng.randint(0, 59), d(1, 6))])
        tz = rng.choice(["", "", "Z", "+05:30", "-0800", "+00:00"])
        return y + "-" + m + "-" + dd + rng.choice("T ") + t + sec + tz
    if name == "identifier":
        first = "abcXYZ_"
        return rng.choice(first) + "".join(rng.choice(first + "019") for _ in range(rng.randint(0, 8)))
    raise KeyError(name)


NEAR = {
    "integer": ["", "0", "00", "-1", "+1", "1 2", "1_000", "1.", "0x1", "١٢"],
    "hex_integer": ["", "0x1F", "g", "1F", "ff", "-ff"],
    "signed_integer": ["", "+", "-", "+-1", "--1", "- 1", "1-", "+0", "-0", "1e3", "1_0"],
    "real": ["", ".", "+.", "1", "1.", ".1", "-1.5", "1.5.2", "1..", "..1", "1 .5", "1.e5", "1e5", "+.5", "1._5"],
    "sci_real": ["", ".", "1", "1e5", "1E+5", "1e", "1e+", "1.e5", ".5e-3", "1.5e3.2", "1e5e3", "e5", ".e5", "1.5",
                 "1.5E", "-1e-0", "1e5.", "+1.e+1"],
    "fnumber": ["", "1", "1.", ".5", "1.5", "1e5", "1.e5", "1.5e", "-1", "+1.5E-3", "1..5", "1e+", "1 e5"],
    "ieee_float": ["nan", "NaN", "+nan", "-inf", "Infinity", "infinit", "in", "infinityy", "INF", "1e5", "1E5", ".5",
                   "1.", "nane", "-", "+", "- inf", "1.5e3", "iNfInItY"],
    "number": ["1", "-1", "1.", "1.5", "1e5", "1.5e3", "1e", "1.5e", ".", "+", "1e5.5", "1.e1", ".5e1", "--1"],
    "ipv4_address": ["0.0.0.0", "255.255.255.255", "256.1.1.1", "1.1.1.256", "1.1.1", "1.1.1.1.1", "1.1.1.", ".1.1.1",
                     "01.1.1.1", "001.1.1.1", "1.1.1.001", "1.1.1.1000", "1..1.1", "1.1.1.1 ", "999.1.1.1",
                     "1.1.1.25", "1.1.1.2555", "100.200.249.250", "1.1.1.300", "1.1.1.260", "300.1.1.1", "25.25.25.25",
                     "1.1.1.1a", "a.1.1.1", "1,1,1,1"],
    "mac_address": ["aa:bb:cc:dd:ee:ff", "AA-BB-CC-DD-EE-FF", "aa.bb.cc.dd.ee.ff", "aa:bb-cc:dd:ee:ff",
                    "aa:bb:cc:dd:ee", "aa:bb:cc:dd:ee:ff:00", "aabb.ccdd.eeff", "a:b:c:d:e:f", "gg:bb:cc:dd:ee:ff",
                    "aa:bb:cc:dd:ee:f", "aa bb cc dd ee ff", "aa:bb:cc:dd:ee:ff:"],
    "uuid": ["12345678-1234-5678-1234-567812345678", "12345678123456781234567812345678",
             "{12345678-1234-5678-1234-567812345678}", "12345678-1234-5678-1234-56781234567",
             "12345678-1234-5678-1234-5678123456789", "1234567-81234-5678-1234-567812345678",
             "g2345678-1234-5678-1234-567812345678", "ABCDEF12-1234-5678-1234-567812345678",
             "urn:uuid:12345678-1234-5678-1234-567812345678"],
    "iso8601_date": ["2000", "2000-12", "2000-12-31", "2000-1", "2000-12-3", "200", "20000", "2000-", "2000-12-",
                     "2000-12-31-", "2000-13-45", "2000/12/31", "20001231", "2000-12-311", "0000-00-00"],
    "iso8601_datetime": ["2000-12-31T12:30", "2000-12-31 12:30", "2000-12-31T12:30:59", "2000-12-31T12:30:59.5",
                         "2000-12-31T12:30:59.", "2000-12-31T12:30:", "2000-12-31T12:30Z", "2000-12-31T12:30:59+05:30",
                         "2000-12-31T12:30:59-0800", "2000-12-31T12:30:59+05", "2000-12-31T12", "2000-12-31",
                         "2000-12-31t12:30", "2000-12-31T12:30:5", "2000-12-31T12:30:59.123456789Z",
                         "2000-12-31T12:30:59z", "2000-12-31T1230", "2000-12-31T12:30:Z", "2000-12-31T12:30+0530",
                         "2000-12-31T12:30:59+5:30", "2000-12-31  12:30"],
    "identifier": ["a", "_", "_a1", "1a", "a-b", "a b", "", "a.b", "class", "__init__", "a1_", "A", "Z9", "a$", "$a"],
}


def builtin_oracle(ctx, pp, facts, boost=1):
    rng = ctx.subrng("builtin-oracle")
    table = _builtin_table()
    per = ctx.budget(1000, 12000) * boost
    n = 0
    outcomes = {}
    samples = []
    distinct = set()
    for name in table:
        lv = [x for x in facts.get(name, []) if x[0] in ("Regex", "Word")]
        pool = list(NEAR.get(name, []))
        for _ in range(per):
            r = rng.random()
            if r < 0.3:
                s = gen_spec_string(rng, name)
            elif r < 0.55 and lv:
                k, p, fl = rng.choice(lv)
                try:
                    s = sample_from_pattern(rng, p, fl)
                except Exception:
                    s = gen_spec_string(rng, name)
            elif r < 0.9:
                base = gen_spec_string(rng, name) if rng.random() < 0.6 or not lv else \
                    sample_from_pattern(rng, rng.choice(lv)[1], rng.choice(lv)[2])
                s = mutate(rng, base, ALPHA)
                if rng.random() < 0.3:
                    s = mutate(rng, s, ALPHA)
            else:
                s = "".join(rng.choice(ALPHA) for _ in range(rng.randint(0, 8)))
            pool.append(s)
        for s in pool:
            s = s.strip()  # parse_string skips surrounding blanks; the documented syntaxes have none
            if name == "identifier" and not s.isascii():
                continue  # statement: identifier vs str.isidentifier on ASCII
            if name in ("integer", "hex_integer", "signed_integer", "real", "sci_real", "fnumber", "ieee_float",
                        "number", "iso8601_date", "iso8601_datetime", "ipv4_address") and not s.isascii():
                continue  # \d is Unicode-aware in CPython; the model and the documented syntax are ASCII
            n += 1
            d = check_builtin(pp, name, s)
            key = "accept" if table[name][0](s) else "reject"
            outcomes[f"{name}:{key}"] = outcomes.get(f"{name}:{key}", 0) + 1
            distinct.add(f"{name}|{s}")
            if d is None and len(samples) < 4 and key == "accept" and rng.random() < 0.01:
                samples.append({"builtin": name, "s": s})
            if d is not None:
                if sum(1 for f in ctx.fail_inputs if f["case"].get("builtin") == name) < 1:
                    ctx.fail_input("built-in does not conform to its reference definition",
                                   {"builtin": name, "s": s}, d[0], d[1],
                                   theorem=f"PP.C18.{name}_language (+ value agreement, search only)",
                                   how=f"pyparsing_common.{name}.parse_string({s!r}, parse_all=True)")
    ctx.count_cases("oracle-builtins", n, distinct_keys=distinct, outcomes=outcomes, samples=samples)


# ---------------------------------------------------------------------------------------------
# ipv6_address vs ipaddress (search only)
# ---------------------------------------------------------------------------------------------
def gen_ipv6(rng):
    h = lambda: "".join(rng.choice(HEX) for _ in range(rng.randint(1, 4)))
    k = rng.random()
    if k < 0.25:
        return ":".join(h() for _ in range(rng.choice([8, 8, 8, 7, 9])))
    if k < 0.7:
        a = rng.randint(0, 7)
        b = rng.randint(0, 7 - a) if rng.random() < 0.8 else rng.randint(0, 8)
        return ":".join(h() for _ in range(a)) + "::" + ":".join(h() for _ in range(b))
    if k < 0.85:
        v4 = ".".join(str(rng.choice([0, 1, 9, 10, 99, 100, 199, 200, 249, 250, 255, 256, 300])) for _ in range(4))
        return "::ffff:" + v4
    s = ":".join(h() for _ in range(8))
    i = rng.randrange(len(s))
    return s[:i] + rng.choice([":", "g", "", ".", "::"]) + s[i + 1:]


def _ip6_valid(s):
    try:
        ipaddress.IPv6Address(s)
        return True
    except Exception:
        return False


def embedded_v4_other_than_ffff(s):
    """signature region of the known finding: a dotted quad embedded after anything but exactly '::ffff:'"""
    return "." in s and not (s.startswith("::ffff:") and ":" not in s[7:])


def check_ipv6(pp, s):
    res = _accept(pp, pp.pyparsing_common.ipv6_address, s)
    valid = _ip6_valid(s)
    if res[0] == "error":
        return ("no internal error", res[1])
    if res[0] == "ok" and res[1] != [s]:
        return (f"token {s!r}", f"{res[1]!r}")
    if (res[0] == "ok") != valid:
        return (f"ipaddress.IPv6Address says valid={valid}", "accepted" if res[0] == "ok" else "rejected")
    return None


def ipv6_oracle(ctx, pp):
    rng = ctx.subrng("ipv6")
    fixed = ["::", "::1", "1::", "1:2:3:4:5:6:7:8", "1:2:3:4:5:6:7::", "::2:3:4:5:6:7:8", "1::8", "1:2:3:4:5:6:7",
             "1:2:3:4:5:6:7:8:9", "1::2::3", ":::", "1:::2", "::ffff:1.2.3.4", "::ffff:256.1.1.1", "12345::", "g::",
             "1:2:3:4::5:6:7:8", "1::2:3:4:5:6:7:8", "0:0:0:0:0:0:0:0", "FFFF::ffff", "::ffff:1.2.3", "1:2:3:4:5:6:7:",
             ":1:2:3:4:5:6:7"]
    # known finding: IPv4-embedded forms other than the literal lower-case '::ffff:' prefix
    e = ctx.match_known("ipv6_embedded_ipv4_forms")
    if e is not None:
        w = e["witness"]["input"]
        d = check_ipv6(pp, w)
        if d is not None and _ip6_valid(w):
            ctx.fail_input("ipv6_address rejects a well-formed address", {"ipv6": w}, d[0], d[1],
                           signature="ipv6_embedded_ipv4_forms")
    n = 0
    outcomes = {}
    for s in fixed + [gen_ipv6(rng) for _ in range(ctx.budget(5000, 80000))]:
        if embedded_v4_other_than_ffff(s) or "%" in s:
            continue  # region of the registered finding / zone ids (not part of the documented syntax)
        n += 1
        d = check_ipv6(pp, s)
        k = "valid" if _ip6_valid(s) else "invalid"
        outcomes[k] = outcomes.get(k, 0) + 1
        if d is not None and not any("ipv6" in f["case"] for f in ctx.fail_inputs):
            ctx.fail_input("ipv6_address disagrees with ipaddress", {"ipv6": s}, d[0], d[1],
                           theorem="C18 ipv6 (oracle, search only)",
                           how=f"pyparsing_common.ipv6_address.parse_string({s!r}, parse_all=True)")
    ctx.count_cases("oracle-ipv6", n, outcomes=outcomes, distinct_keys=[], samples=[{"ipv6": fixed[4]}])


# ---------------------------------------------------------------------------------------------
# QuotedString round trip (reference encoder; search on the real code)
# ---------------------------------------------------------------------------------------------
def qs_quote(cfg, content, style=""):
    """reference encoder: a source text q that must parse back to `content`, or None if this encoder cannot
    represent the content under cfg (conservative: None never hides a failure, it only skips the case).
    style[i] in "xuo" writes the ordinary character content[i] as a numeric escape \\xHH / \\uHHHH / \\OOO
    (only honoured when escapes are converted: unquote_results and convert_whitespace_escapes)"""
    Q, E, X, EQ = cfg["quote_char"], cfg["end_quote_char"] or cfg["quote_char"], cfg["esc_char"], cfg["esc_quote"]
    ML, UQ, CW = cfg["multiline"], cfg["unquote_results"], cfg["convert_whitespace_escapes"]
    conv = UQ and CW
    out = []
    i = 0
    n = len(content)
    while i < n:
        ch = content[i]
        if EQ and content.startswith(E, i):
            out.append(EQ)
            i += len(E)
            continue
        if X and ch == X:
            out.append(X + X)
        elif ch == E[0]:
            if X:
                out.append(X + ch)
            elif len(E) > 1 and i + 1 < n and content[i + 1] not in E and content[i + 1] not in "\n\r":
                out.append(ch)
            else:
                return None
        elif ch in "\n\r" and not ML:
            if conv:
                out.append("\\n" if ch == "\n" else "\\r")
            else:
                return None
        elif ch == "\\" and conv:
            # (X == '\\' was handled above) a raw backslash is converted when a t n f r 0-7 x u follows
            if X:
                out.append(X + ch)
            elif i + 1 < n and content[i + 1] in "tnfr01234567xu":
                return None
            else:
                out.append(ch)
        elif conv and style[i:i + 1] in ("x", "u", "o") and ch not in E and ch not in (EQ or "") and ch != X \
                and ord(ch) < 256:
            out.append({"x": "\\x%02x", "u": "\\u%04X", "o": "\\%03o"}[style[i]] % ord(ch))
        else:
            out.append(ch)
        i += 1
    body = "".join(out)
    if EQ:
        # the decoder replaces every esc_quote text by the end quote after unescaping
        if content.replace(E, EQ).replace(EQ, E) != content or (X and X in EQ) or ("\\" in EQ and conv):
            return None
    return Q + body + E


def qs_configs(rng, n):
    quotes = [('"', None), ("'", None), ("{{", "}}"), ("<", ">"), ("$$", None), ("[[", "]]"), ("/*", "*/"),
              ("'" * 3, None), ("q", "Q"), ('"', "'")]
    out = []
    for _ in range(n):
        Q, E = rng.choice(quotes)
        Eeff = E or Q
        X = rng.choice([None, "\\", "\\", "^", "!"])
        EQ = rng.choice([None, None, Eeff + Eeff, Eeff + Eeff, "@@"])
        out.append(dict(quote_char=Q, end_quote_char=E, esc_char=X, esc_quote=EQ, multiline=rng.random() < 0.4,
                        unquote_results=rng.random() < 0.8, convert_whitespace_escapes=rng.random() < 0.6))
    return out


def check_quoted(pp, cfg, content, style=""):
    q = qs_quote(cfg, content, style)
    if q is None:
        return "skip"
    try:
        e = pp.QuotedString(cfg["quote_char"], esc_char=cfg["esc_char"], esc_quote=cfg["esc_quote"],
                            multiline=cfg["multiline"], unquote_results=cfg["unquote_results"],
                            end_quote_char=cfg["end_quote_char"],
                            convert_whitespace_escapes=cfg["convert_whitespace_escapes"])
    except ValueError:
        return "skip"
    e.leave_whitespace().parse_with_tabs()
    want = content if cfg["unquote_results"] else q
    try:
        r = common.with_alarm(5, e.parse_string, q, parse_all=True)
    except pp.ParseBaseException as pe:
        return (f"[{want!r}]", f"ParseException at {pe.loc} on source {q!r}")
    except common.CaseTimeout:
        return (f"[{want!r}]", "hang")
    except Exception as ex:  # noqa
        return (f"[{want!r}]", f"{type(ex).__name__} on source {q!r}")
    if list(r) != [want]:
        return (f"[{want!r}]", f"{list(r)!r} from source {q!r}")
    return None


def quoted_oracle(ctx, pp):
    rng = ctx.subrng("quoted")
    n = skipped = 0
    outcomes = {}
    e = ctx.match_known("quoted_numeric_escapes")
    numeric_ok = e is None
    for ent in ctx.known_entries:
        if ent.get("signature") != "quoted_numeric_escapes":
            continue
        # open: reported as KNOWN-FINDING while it still fails; fixed: an ordinary regression case
        w = ent["witness"]
        d = check_quoted(pp, w["quoted"], w["content"], w["style"])
        n += 1
        if d not in (None, "skip"):
            ctx.fail_input("QuotedString does not convert \\xHH / \\uHHHH / \\OOO escapes", w, d[0], d[1],
                           theorem="C18 quoted_roundtrip (oracle, search only)",
                           signature="quoted_numeric_escapes" if ent.get("status", "open") == "open" else None)
    cfgs = qs_configs(rng, ctx.budget(1200, 12000))
    for cfg in cfgs:
        E = cfg["end_quote_char"] or cfg["quote_char"]
        alpha = list("ab c\\\\tn0x41u\t\n\r'\"") + [E, E[0], cfg["quote_char"], cfg["esc_char"] or "z",
                                                      cfg["esc_quote"] or "y", "\\t", "\\n", "\\x41", "\\101", "\\0",
                                                      "\x0c", "\x0b", "\xa0", "\u2003", "\x1c", "\x85", "é", "\x00"]
        for _ in range(ctx.budget(12, 30)):
            content = "".join(rng.choice(alpha) for _ in range(rng.randint(0, 7)))
            # numeric escapes (x/u/o styles) are the region of the known finding quoted_numeric_escapes: generated
            # only once that finding is no longer registered as open
            style = "".join(rng.choice("rrrrrxuo") for _ in content) if (numeric_ok and rng.random() < 0.4) else ""
            d = check_quoted(pp, cfg, content, style)
            if d == "skip":
                skipped += 1
                continue
            n += 1
            k = "unquote" if cfg["unquote_results"] else "verbatim"
            outcomes[k] = outcomes.get(k, 0) + 1
            if d is not None and not any("quoted" in f["case"] for f in ctx.fail_inputs):
                ctx.fail_input("QuotedString round trip", {"quoted": cfg, "content": content, "style": style}, d[0], d[1],
                               theorem="C18 quoted_roundtrip (oracle, search only)",
                               how="QuotedString(**cfg).leave_whitespace().parse_string(quote(cfg, content), parse_all=True)")
    outcomes["unrepresentable-skipped"] = skipped
    ctx.count_cases("oracle-quoted-roundtrip", n, outcomes=outcomes,
                    samples=[{"quoted": cfgs[0], "content": "a b"}])


def _ref_quoted_literal(kind, s):
    """reference scanner for dbl/sgl/quoted_string: opening quote, items (ordinary char | doubled quote |
    backslash + char, where \\x needs hex digits), closing quote at the very end"""
    qs = {"dbl": ['"'], "sgl": ["'"], "any": ['"', "'"]}[kind]
    if not s or s[0] not in qs:
        return False
    q = s[0]
    i = 1
    while i < len(s):
        c = s[i]
        if c == q:
            if s[i:i + 2] == q + q:
                i += 2
                continue
            return i == len(s) - 1
        if c == "\\":
            if i + 1 >= len(s):
                return False
            d = s[i + 1]
            if d == "x":
                j = i + 2
                k = j
                while k < len(s) and s[k] in HEX:
                    k += 1
                if k == j:
                    return False
                i = k
                continue
            i += 2
            continue
        if c in "\n\r":
            return False
        i += 1
    return False


def check_quoted_builtin(pp, kind, s):
    exprs = {"dbl": pp.dbl_quoted_string, "sgl": pp.sgl_quoted_string, "any": pp.quoted_string}
    e = exprs[kind]
    want = _ref_quoted_literal(kind, s)
    res = _accept(pp, e, s)
    ok = res[0] == "ok"
    if res[0] == "error":
        return ("no internal error", res[1])
    if ok != want:
        return (f"reference scanner says accept={want}", "accepted" if ok else "rejected")
    if ok and res[1] != [s]:
        return (f"[{s!r}]", f"{res[1]!r}")
    if ok:
        r2 = e.copy().set_parse_action(pp.remove_quotes).parse_string(s, parse_all=True)
        if list(r2) != [s[1:-1]]:
            return (f"remove_quotes -> [{s[1:-1]!r}]", f"{list(r2)!r}")
    return None


def quoted_builtins_oracle(ctx, pp):
    """dbl/sgl/quoted_string: accept exactly well-formed literals, return the source text;
    remove_quotes strips one character at each end"""
    rng = ctx.subrng("quoted-builtins")
    n = 0
    outcomes = {}
    alpha = ['"', "'", "\\", "a", "b", " ", "x", "4", "1", "\n", '""', "''", '\\"', "\\'", "\\x41", "\\x", "\\\\", "\\n"]
    for _ in range(ctx.budget(10000, 150000)):
        kind = rng.choice(["dbl", "sgl", "any"])
        q = rng.choice({"dbl": ['"'], "sgl": ["'"], "any": ['"', "'"]}[kind])
        body = "".join(rng.choice(alpha) for _ in range(rng.randint(0, 6)))
        s = rng.choice([q + body + q, q + body + q, q + body, body + q, q + body + q + rng.choice(alpha)])
        if s != s.strip():
            continue
        n += 1
        want = _ref_quoted_literal(kind, s)
        key = f"{kind}:{'accept' if want else 'reject'}"
        outcomes[key] = outcomes.get(key, 0) + 1
        d = check_quoted_builtin(pp, kind, s)
        if d is not None and not any("quoted_builtin" in f["case"] for f in ctx.fail_inputs):
            ctx.fail_input("quoted-string built-in", {"quoted_builtin": kind, "s": s}, d[0], d[1],
                           theorem="C18 quoted built-ins (oracle, search only)")
    ctx.count_cases("oracle-quoted-builtins", n, outcomes=outcomes, samples=[{"quoted_builtin": "dbl", "s": '"a""b"'}])


# ---------------------------------------------------------------------------------------------
# nested_expr / DelimitedList / counted_array (search only)
# ---------------------------------------------------------------------------------------------
UNUSUAL = ["\x0c", "\x0b", "\xa0", "\u2003", "\x1c", "\x1f", "\x85", "\u3000", "\u00e9", "~", "\\", '"', "'", "\x00", "\x7f"]


def gen_tree(rng, depth, alpha="abc1"):
    items = []
    for _ in range(rng.randint(0, 3)):
        if depth > 0 and rng.random() < 0.4:
            items.append(gen_tree(rng, depth - 1, alpha))
        else:
            items.append("".join(rng.choice(alpha) for _ in range(rng.randint(1, 3))))
    return items


def render_tree(rng, t, op, cl, white=" "):
    w = lambda: rng.choice(white)
    out = op
    prev_word = False
    for x in t:
        is_word = not isinstance(x, list)
        p = x if is_word else render_tree(rng, x, op, cl, white)
        sep = w() if (prev_word and is_word) else rng.choice(["", w(), w() + w()])
        out += sep + p
        prev_word = is_word
    return out + rng.choice(["", w()]) + cl


def balanced_tree(s, op, cl, white=" \t\n\r"):
    """reference bracket reader: the nesting of a single balanced group spanning all of s, or None.
    `white` is pyparsing's whitespace set (DEFAULT_WHITE_CHARS), every other character is content."""
    pos = 0
    n = len(s)

    def skip():
        nonlocal pos
        while pos < n and s[pos] in white:
            pos += 1

    def group():
        nonlocal pos
        if not s.startswith(op, pos):
            return None
        pos += len(op)
        items = []
        while True:
            skip()
            if pos >= n:
                return None
            if s.startswith(cl, pos):
                pos += len(cl)
                return items
            if s.startswith(op, pos):
                g = group()
                if g is None:
                    return None
                items.append(g)
                continue
            st = pos
            while pos < n and s[pos] not in white and not s.startswith(op, pos) and not s.startswith(cl, pos):
                pos += 1
            items.append(s[st:pos])

    skip()
    g = group()
    if g is None:
        return None
    skip()
    return g if pos == n else None


def check_nested(pp, op, cl, s, white=None):
    """white=None: the default whitespace set; otherwise nested_expr is built and run under
    set_default_whitespace_chars(white) inside reset_pyparsing_context"""
    def go():
        e = pp.nested_expr(op, cl, ignore_expr=None)
        res = _accept(pp, e, s)
        want = balanced_tree(s, op, cl, white if white is not None else " \t\n\r")
        if res[0] == "error":
            return ("no internal error", res[1])
        if (res[0] == "ok") != (want is not None):
            return (f"balanced={want is not None}" + (f" nesting {[want]!r}" if want is not None else ""),
                    "accepted" if res[0] == "ok" else "rejected")
        if want is not None:
            got = e.parse_string(s, parse_all=True).as_list()
            if got != [want]:
                return (f"{[want]!r}", f"{got!r}")
        return None

    if white is None:
        return go()
    from pyparsing.testing import pyparsing_test
    with pyparsing_test.reset_pyparsing_context():
        pp.ParserElement.set_default_whitespace_chars(white)
        return go()


def nested_oracle(ctx, pp):
    rng = ctx.subrng("nested")
    n = 0
    outcomes = {}
    pairs = [("(", ")"), ("[", "]"), ("{", "}"), ("<<", ">>"), ("{{", "}}"), ("begin", "end"), ("{%", "%}"),
             ("<", "/>"), ("(*", ")")]
    fixed = [("<<", ">>", "<<a\x0cb>>", None), ("{%", "%}", "{% a\xa0b {%   %} %}", None),
             ("(", ")", "(a\x0bb (\x1c))", None), ("<<", ">>", "<<a\nb  c>>", " \t"), ("(", ")", "(a\nb (c\r))", " \t")]
    cases = list(fixed)
    for _ in range(ctx.budget(5000, 60000)):
        op, cl = rng.choice(pairs)
        r = rng.random()
        white = None
        if r < 0.45:
            alpha = "abc1"                               # plain words
        elif r < 0.8:
            alpha = list("ab1") + UNUSUAL + [op[0], cl[0], cl[-1]]   # characters re's \s / \w / quoting treat specially
            alpha = [c for c in alpha if c not in " \t\n\r"]
        else:
            white = rng.choice([" \t", " ", " \t\n"])     # narrowed DEFAULT_WHITE_CHARS: the rest is content
            alpha = list("ab1") + [c for c in "\n\r\t" if c not in white and c != "\t"] + ["\x0c"]
        sep = white if white is not None else " \t\n\r"
        sep = sep.replace("\t", "")  # parse_string expands tabs: keep column arithmetic out of the reference
        t = gen_tree(rng, 3, alpha)
        if len(op) > 1 and op.isalpha():
            t = gen_tree(rng, 3, "abc1")
        s = render_tree(rng, t, op, cl, sep)
        if rng.random() < 0.4:
            s = mutate(rng, s, [op, cl, " ", "a", op[0], cl[0]] + UNUSUAL[:5])
        if "\t" in s:
            continue
        cases.append((op, cl, s, white))
    for op, cl, s, white in cases:
        n += 1
        d = check_nested(pp, op, cl, s, white)
        k = ("balanced" if balanced_tree(s, op, cl, white or " \t\n\r") is not None else "unbalanced") + \
            (":narrow-ws" if white is not None else ":unusual" if not s.isascii() or any(ord(c) < 32 and c not in "\n\r" for c in s) else "")
        outcomes[k] = outcomes.get(k, 0) + 1
        if d is not None and not any("nested" in f["case"] for f in ctx.fail_inputs):
            ctx.fail_input("nested_expr vs bracket reader", {"nested": [op, cl], "s": s, "white": white}, d[0], d[1],
                           theorem="C18 nested_roundtrip (oracle, search only)",
                           how=f"nested_expr({op!r}, {cl!r}, ignore_expr=None).parse_string({s!r}, parse_all=True)"
                               + (f" under set_default_whitespace_chars({white!r})" if white is not None else ""))
    ctx.count_cases("oracle-nested", n, outcomes=outcomes, samples=[{"nested": ["<<", ">>"], "s": "<<a\x0cb <<c>>>>"}])


def check_delimited(pp, delim, mn, mx, trail, combine, s):
    try:
        e = pp.DelimitedList(pp.Word("ab1"), delim=delim, combine=combine, min=mn, max=mx, allow_trailing_delim=trail)
    except ValueError:
        return "skip"
    res = _accept(pp, e, s)
    # reference: split on the delimiter; blanks around items/delimiters are skipped (not when combine=True)
    raw = s.split(delim)
    parts = raw if combine else [p.strip(" ") for p in raw]
    trailing = False
    if trail and len(parts) >= 2 and parts[-1] == "":
        parts = parts[:-1]
        trailing = True
    okitems = all(len(p) > 0 and all(c in "ab1" for c in p) for p in parts)
    lo = mn or 1
    want = okitems and len(parts) >= lo and (mx is None or len(parts) <= mx)
    if res[0] == "error":
        return ("no internal error", res[1])
    if (res[0] == "ok") != want:
        return (f"accept={want} ({len(parts)} items, min={mn}, max={mx}, trailing={trailing})",
                "accepted" if res[0] == "ok" else "rejected")
    if want:
        exp = [s] if combine else parts
        if res[1] != exp:
            return (f"{exp!r}", f"{res[1]!r}")
    return None


def delimited_oracle(ctx, pp):
    rng = ctx.subrng("delimited")
    n = 0
    outcomes = {}
    e = ctx.match_known("delimited_max1_trailing")
    if e is not None:
        w = e["witness"]
        d = check_delimited(pp, w["delim"], w["min"], w["max"], w["allow_trailing_delim"], False, w["input"])
        if d not in (None, "skip"):
            ctx.fail_input("DelimitedList(max=1, allow_trailing_delim=True) matches nothing", {"delimited": w}, d[0], d[1],
                           signature="delimited_max1_trailing")
    for _ in range(ctx.budget(8000, 100000)):
        delim = rng.choice([",", ";", "::", "|"])
        mn = rng.choice([None, None, 1, 2, 3])
        mx = rng.choice([None, None, 1, 2, 3, 4])
        trail = rng.random() < 0.5
        combine = rng.random() < 0.25
        k = rng.randint(1, 5)
        items = ["".join(rng.choice("ab1") for _ in range(rng.randint(1, 3))) for _ in range(k)]
        if combine:
            s = delim.join(items)
        else:
            s = (rng.choice(["", " "]) + delim + rng.choice(["", " "])).join(items)
        if rng.random() < 0.4:
            s += delim
        if rng.random() < 0.25:
            s = mutate(rng, s, [delim, "a", "x", delim[0]] + UNUSUAL[:6])
        s = s.strip(" \t\n\r")
        if " " in s and combine:
            continue
        if mx == 1 and trail:
            continue  # region of the registered finding delimited_max1_trailing (only its witness is replayed)
        d = check_delimited(pp, delim, mn, mx, trail, combine, s)
        if d == "skip":
            continue
        n += 1
        outcomes["trail" if trail else "no-trail"] = outcomes.get("trail" if trail else "no-trail", 0) + 1
        if d is not None and not any("delimited" in f["case"] for f in ctx.fail_inputs):
            ctx.fail_input("DelimitedList min/max/trailing", {"delimited": [delim, mn, mx, trail, combine], "s": s},
                           d[0], d[1], theorem="C18 delimited_counts (oracle, search only)")
    ctx.count_cases("oracle-delimited", n, outcomes=outcomes,
                    samples=[{"delimited": [",", 2, 3, True, False], "s": "a, b,"}])


def check_counted(pp, s, use_int_expr):
    if use_int_expr:
        e = pp.counted_array(pp.Word("ab"), int_expr=pp.Word("01").set_parse_action(lambda t: int(t[0], 2)))
        base = 2
        digs = "01"
    else:
        e = pp.counted_array(pp.Word("ab"))
        base = 10
        digs = DIG
    res = _accept(pp, e, s)
    # reference: the count is the maximal run of digits (no blank is required after it), the items are blank separated
    h = 0
    while h < len(s) and s[h] in digs:
        h += 1
    want = None
    if h > 0:
        k = int(s[:h], base)
        items = [x for x in re.split("[ \t\n\r]+", s[h:]) if x]  # pyparsing's whitespace, not str.split()'s
        if len(items) == k and all(all(c in "ab" for c in it) for it in items):
            want = items
    if res[0] == "error":
        return ("no internal error", res[1])
    if (res[0] == "ok") != (want is not None):
        return (f"accept={want is not None}", "accepted" if res[0] == "ok" else "rejected")
    if want is not None and res[1] != want:
        return (f"{want!r}", f"{res[1]!r}")
    return None


def counted_oracle(ctx, pp):
    rng = ctx.subrng("counted")
    n = 0
    outcomes = {}
    for _ in range(ctx.budget(5000, 60000)):
        use = rng.random() < 0.3
        k = rng.randint(0, 5)
        real_k = k if rng.random() < 0.6 else max(0, k + rng.choice([-1, 1, 2]))
        items = ["".join(rng.choice("ab") for _ in range(rng.randint(1, 3))) for _ in range(real_k)]
        head = bin(k)[2:] if use else str(k)
        if rng.random() < 0.1:
            head = "0" + head
        s = " ".join([head] + items)
        if rng.random() < 0.1:
            s = mutate(rng, s, list("ab 12") + UNUSUAL[:6])
        s = s.strip(" \t\n\r")
        n += 1
        d = check_counted(pp, s, use)
        outcomes["exact" if k == real_k else "off"] = outcomes.get("exact" if k == real_k else "off", 0) + 1
        if d is not None and not any("counted" in f["case"] for f in ctx.fail_inputs):
            ctx.fail_input("counted_array count", {"counted": use, "s": s}, d[0], d[1],
                           theorem="C18 counted_array_exact (oracle, search only)")
    ctx.count_cases("oracle-counted", n, outcomes=outcomes, samples=[{"counted": False, "s": "2 ab ba"}])


def run(ctx):
    pp = common.import_pyparsing()
    facts = builtin_facts(pp)
    n_broken = len(ctx.broken)
    gen_facts = precheck_facts(ctx, facts)
    qfacts = cq.facts_for_build(ctx, pp, lean_str)
    ok = ctx.proof_leg("PPProofs.Props.C18", THEOREMS,
                       generated={GEN_REL: gen_patterns_lean(gen_facts), cq.GEN_REL: qfacts}, extra_modules=[cq.MODULE, chh.MODULE, MORE_MODULE, DATETIME_MODULE])
    ok = ok and len(ctx.broken) == n_broken
    ctx.notes["generated_facts"] = {n: lv[:4] for n, lv in facts.items()}
    ctx.rule.append(
        "regex-engine-vs-re: every Regex/Word/QuotedString pattern of the built-ins (+13 extra patterns covering the "
        "rest of the modelled syntax) x strings sampled from the pattern's own sre parse tree (35%), 1-2 mutations of "
        "such strings (45%), random strings (20%), 15% matched at pos 1-2; compared: match end, groups(), and that the "
        "capture-free `ends` agrees with the full matcher; non-trivial = the pattern matches a prefix. "
        "oracle-builtins: per built-in, strings of the documented syntax (spec-driven generator), strings of the live "
        "pattern, mutations of both, hand-written near misses; ASCII only (\\d is Unicode-aware in CPython). "
        "oracle-ipv6: generated full/compressed/mixed/mutated addresses vs ipaddress (dotted quads only after the exact "
        "'::ffff:' prefix and no zone ids: region of the known finding). oracle-quoted-roundtrip: random parameter "
        "combinations (10 quote pairs x esc_char x esc_quote x multiline x unquote_results x convert_whitespace_escapes) "
        "x contents over an alphabet of quotes, escapes, backslash sequences and blanks, encoded by a reference encoder "
        "(unrepresentable contents are skipped and counted). oracle-quoted-model: texts written by the Lean model "
        "(qsquote: minimal/defensive writing of a content; qsencode: a list of (writing, character) items) and parsed by the "
        "real QuotedString with parse_all - a sweep of every writing (raw, esc, ws, hex, uni, oct) x ~25 character classes "
        "(LF CR TAB FF blank, quote/end-quote characters, esc_char, backslash, 0 1 7 8 x u t n f r, letters, @, e-acute, "
        "NUL, \\xff, U+0100) x followers ('', '1', '41', 'b') x quote pairs x esc_char x esc_quote x multiline x "
        "convert_whitespace_escapes (+ unquote_results=False), fixed regression cases, and a random stream; writings the "
        "model calls not valid and texts the reference walk matcher_ok calls not matchable are skipped and counted. "
        "quoted-parse-vs-model: parse_string(text) token vs model on those well-formed texts and on arbitrary / "
        "truncated / extended bodies (non-trivial = the real expression matched). oracle-quoted-builtins: dbl/sgl/quoted_string vs a reference "
        "scanner + remove_quotes. oracle-nested: random bracket trees rendered with 9 opener/closer pairs (single- and multi-character, "
        "keyword), ignore_expr=None, default content; words from plain letters (45%), from an alphabet of characters that "
        "re's \\s/\\S, quoting or C strings treat specially (\\x0c \\x0b \\xa0 \\u2003 \\x1c \\x1f \\x85 \\u3000 e-acute ~ backslash "
        "quotes NUL DEL) (35%), or under a narrowed DEFAULT_WHITE_CHARS (' \\t', ' ', ' \\t\\n') inside "
        "reset_pyparsing_context with newlines/CR/FF as content (20%); 40% mutated; vs a bracket reader parametrised by "
        "the whitespace set. The unusual characters also enter QuotedString contents and DelimitedList/counted_array "
        "mutations. oracle-delimited: delim x min x max x trailing x combine x item lists (max=1 with trailing "
        "delimiter excluded: known finding). oracle-counted: announced vs real item count, decimal and binary counts. "
        "oracle-helper-args: counted_array with six count syntaxes (binary/hex Word + action, pyparsing_common.integer itself, "
        "a named copy, integer + a metadata word, the default) where ONE int_expr object is given to two counted_arrays and "
        "used on its own before/between/after: each array against the reference reading (announced count vs items present, "
        "named results), both arrays in one record, and the int_expr's and pyparsing_common.integer's own parse behaviour "
        "unchanged; fixed scenarios with hand-written readings for DelimitedList(expr, delim), nested_expr(content=, "
        "ignore_expr=), match_previous_literal/expr, original_text_for, ungroup/Group/Suppress/Combine/Opt, dict_of/Dict, "
        "ZeroOrMore/OneOrMore(stop_on=), SkipTo(ignore=, fail_on=), Located, infix_notation, IndentedBlock: the same "
        "argument objects in 2-5 helper calls, argument behaviour (tokens, named results, failure position - never names "
        "or reprs) recorded before and compared after every call; each case inside reset_pyparsing_context")
    diffs = regex_correspondence(ctx, facts)
    boost = 1 if (ok and not diffs) else 4
    builtin_oracle(ctx, pp, facts, boost=boost)
    ipv6_oracle(ctx, pp)
    quoted_oracle(ctx, pp)
    n_broken_q = len(ctx.broken)
    wellformed = cq.quoted_model_oracle(ctx, pp)
    qdiffs = cq.quoted_correspondence(ctx, pp, wellformed)
    if (qdiffs or not ok or len(ctx.broken) > n_broken_q or ctx.broken) and \
            not any("qsmodel" in f["case"] for f in ctx.fail_inputs):
        # a broken obligation / correspondence diff alone is not a violation: search for a failing input
        cq.quoted_model_oracle(ctx, pp, search_cfgs=[c["qscorr"] for c in qdiffs])
    quoted_builtins_oracle(ctx, pp)
    nested_oracle(ctx, pp)
    delimited_oracle(ctx, pp)
    counted_oracle(ctx, pp)
    chh.counted_correspondence(ctx, pp)
    chh.helper_args_oracle(ctx, pp)  # last: it hands objects of the package (pyparsing_common.integer) to helpers
    ctx.assumptions.append(
        "C18: agreement of converted values with int()/float()/ipaddress/uuid/datetime/str.isidentifier is checked by "
        "the oracle on generated inputs only (search; CPython library code has no model)")


def replay(data):
    pp = common.import_pyparsing()
    case = data.get("case", {})
    if "builtin" in case and "s" in case and "pattern" not in case:
        return check_builtin(pp, case["builtin"], case["s"]) is not None
    if "ipv6" in case:
        return check_ipv6(pp, case["ipv6"]) is not None
    if "helper_counted" in case or "helper_args" in case:
        return chh.replay(pp, case)
    if "qsmodel" in case:
        return cq.check_model_quoted(pp, case["qsmodel"], case["inner"], case["expected"]) not in (None, "skip")
    if "quoted" in case:
        return check_quoted(pp, case["quoted"], case["content"], case.get("style", "")) not in (None, "skip")
    if "quoted_builtin" in case:
        return check_quoted_builtin(pp, case["quoted_builtin"], case["s"]) is not None
    if "nested" in case:
        return check_nested(pp, case["nested"][0], case["nested"][1], case["s"], case.get("white")) is not None
    if "delimited" in case:
        return check_delimited(pp, *case["delimited"], case["s"]) not in (None, "skip")
    if "counted" in case:
        return check_counted(pp, case["s"], case["counted"]) is not None
    ctx = common.Ctx("C18", "quick", data.get("seed", 0))
    run(ctx)
    return bool(ctx.broken or ctx.fail_inputs)
