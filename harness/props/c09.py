"""C09 — results are insensitive to inter-token whitespace and ignored comments.

proof:           lean/PPProofs/Props/C09.lean (gap_size_irrelevant: what a skipping element sees after a gap does not depend
                 on the gap; forward locality of the token leaves; preParse_noskip: a whitespace-leaving element is parsed
                 where it is called; the literal universal reading refuted for any PEG by ordered_choice_flips_witness)
correspondence:  the parse model vs the real code on every whitespace / comment variant the oracle generates
search (oracle): metamorphic, on the real code: for an accepted sentence of a class-W grammar (all leaves skip, no blank in
                 any leaf's characters, default whitespace, no LineEnd / CharsNotIn / SkipTo / Combine in the compared
                 tokens) (1) replace every maximal gap by any other non-empty gap, add/remove leading and trailing gaps,
                 (2) insert a fresh gap at boundaries between an alphanumeric piece and a punctuation piece, (3) after
                 root.ignore(comment) insert comment text into every gap / fresh-gap boundary: as_list() and as_dict() must
                 not change; conversely a gap inserted inside a Combine(adjacent=True) / leave_whitespace region must not
                 yield the same token. Also run on the repo's JSON and arithmetic example grammars.
"""
from __future__ import annotations

import json
import random

from .. import common, corr_parse, gen, gram

META = dict(
    text="Lean theorems (PPProofs/Props/C09.lean): skipWhite_append_gap and gap_size_irrelevant (for all strings, gaps and "
         "whitespace sets: after skipping an all-blank gap a skipping element sees the same remaining text whatever the gap "
         "was), lit_local / lit1_local / charsNotIn_local (token leaves are forward local: a leaf matched right after a gap "
         "yields the same token, shifted), preParse_noskip (a whitespace-leaving element without ignorables is parsed "
         "exactly where it is called - inserted whitespace is never skipped inside Combine(adjacent)/leave_whitespace "
         "regions), ordered_choice_flips_witness (the literal universal reading is false for any PEG). PARTIAL: the global "
         "invariance of the token list and names under gap variation / comment insertion is NOT a Lean theorem (it needs a "
         "simulation through every combinator and excludes look-behind leaves); it is decided by the metamorphic oracle on "
         "the real code and the model correspondence over the same variants; `ignore()` propagation is checked on the real "
         "objects (found and fixed: original_text_for blocked it).",
    note="Trusted: Lean kernel; axioms propext/Classical.choice/Quot.sound; parse model validated differentially; the "
         "class-W restriction of the generators is stated in the evidence rule.",
    technique="Lean 4 lemmas on whitespace skipping and leaf locality over a transcribed model + metamorphic gap/comment "
              "variation oracle on the real code + differential correspondence",
    design="§5 C09",
)

THEOREMS = ["PP.Parse.skipWhite_append_gap", "PP.Parse.gap_size_irrelevant", "PP.Parse.lit_local", "PP.Parse.lit1_local",
            "PP.Parse.charsNotIn_local", "PP.Parse.preParse_noskip", "PP.Parse.ordered_choice_flips_witness",
            "PP.Parse.skipWhite_stops", "PP.Parse.skipWhite_skips_only_white"]

W_CFG = dict(actions=0.0, ws_variants=0.0, ignore=0.0, set_name=0.0, errorstop=0.0, names=0.25, forwards=1, dl_combine=False,
             blank_literals=False,
             leaf_kinds=[("Literal", 6), ("Word", 6), ("WordIB", 2), ("WordMax", 1), ("WordMin", 1), ("Keyword", 2),
                         ("CaselessLiteral", 1), ("Char", 1), ("Empty", 1)],
             # no Or (^): registered finding or_longest_counts_eaten_blanks
             comp_kinds=[("+", 8), ("|", 6), ("And3", 2), ("MatchFirst3", 2), ("Opt", 4), ("ZeroOrMore", 4),
                         ("OneOrMore", 4), ("[]", 2), ("*", 1), ("~", 1), ("FollowedBy", 1), ("Group", 4), ("Suppress", 3),
                         ("DelimitedList", 3), ("copy", 1), ("fwdref", 3)])
GAPS = [" ", "  ", "\t", "\n", " \n ", "\r\n", " \t "]


def alnum(ch):
    return ch.isalnum()


def variants(rng, toks, comment=None):
    """base sentence = pieces joined by single blanks where both neighbours are alphanumeric at the boundary, else
    directly; returns (base, [variant strings])"""
    seps = []
    for a, b in zip(toks, toks[1:]):
        seps.append(" " if (alnum(a[-1]) and alnum(b[0])) or rng.random() < 0.5 else "")
    def join(sp, lead="", trail=""):
        out = lead
        for t, s in zip(toks, sp + [""]):
            out += t + s
        return out + trail
    base = join(seps)
    vs = []

    def cm():
        """one comment, or a run of comments of the registered kinds in random order"""
        if isinstance(comment, str):
            return comment
        k = rng.choice([1, 1, 2, 2, 3])
        return rng.choice(["", " ", "\n"]).join(rng.choice(comment) for _ in range(k))
    for _ in range(4):
        sp = []
        for (a, b), s in zip(zip(toks, toks[1:]), seps):
            if s:
                g = rng.choice(GAPS)
            elif alnum(a[-1]) != alnum(b[0]) and rng.random() < 0.5:
                g = rng.choice(GAPS)  # fresh gap between an alphanumeric piece and a punctuation piece
            else:
                g = ""
            if comment and g and rng.random() < 0.5:
                g = g + cm() + rng.choice(["", " ", "\n"]) if rng.random() < 0.7 else cm() + g
            sp.append(g)
        lead = rng.choice(["", "", " ", "\n\t"])
        trail = rng.choice(["", "", " ", "\n"])
        if comment and rng.random() < 0.3:
            lead += cm() + " "
        if comment and rng.random() < 0.3:
            trail += " " + cm()
        vs.append(join(sp, lead, trail))
    return base, vs


def outcome(pp, root, s):
    try:
        r = root.parse_string(s)
        return ["ok", json.loads(json.dumps(r.as_list(), default=repr)), json.loads(json.dumps(r.as_dict(), default=repr))]
    except pp.ParseBaseException as ex:
        return ["exc", type(ex).__name__]
    except RecursionError:
        return ["internal", "RecursionError"]


def oracle_job(job):
    pp = common.import_pyparsing()
    try:
        b = gram.build(pp, job["prog"])
        root = gram.prepare(b, job["root"])
    except Exception:
        return 0, [], 0
    if corr_parse.nullable_rep(pp, root):
        return 0, [], 0
    pp.ParserElement.disable_memoization()
    n, bad, acc = 0, [], 0
    for base, vs in job["groups"]:
        try:
            want = common.with_alarm_retry(2.0, outcome, pp, root, base)
        except common.CaseTimeout:
            continue
        if want[0] != "ok":
            continue  # the statement is about accepted inputs
        acc += 1
        for v in vs:
            n += 1
            try:
                got = common.with_alarm_retry(2.0, outcome, pp, root, v)
            except common.CaseTimeout:
                got = ["hang"]
            if got != want:
                bad.append({"prog": job["prog"], "root": job["root"], "input": v, "base": base, "expected": want, "actual": got})
                break
    return n, bad, acc


def run_oracle(ctx, stream, jobs):
    res = common.pmap(oracle_job, jobs)
    n, acc = sum(r[0] for r in res), sum(r[2] for r in res)
    bad = [m for r in res for m in r[1]]
    ctx.count_cases(stream, n, distinct_keys=[json.dumps([j["prog"], v]) for j in jobs for _, vs in j["groups"] for v in vs],
                    outcomes={"variants compared": n, "accepted base sentences": acc, "mismatch": len(bad)},
                    samples=[{"prog": jobs[0]["prog"], "base": jobs[0]["groups"][0][0], "variant": jobs[0]["groups"][0][1][0]}] if jobs and jobs[0]["groups"] else [])
    for m in sorted(bad, key=lambda m: len(m["input"]))[:3]:
        ctx.fail_input("whitespace / comment variation changes the result", {k: m[k] for k in ("prog", "root", "base", "input")},
                       m["expected"], m["actual"], theorem="C09 statement (metamorphic oracle)",
                       how="gram.build(prog).parse_string(base) vs .parse_string(input)")
    return bad


def region_jobs(ctx, n):
    """the converse clause: a Combine(adjacent) / leave_whitespace region over  w (N w)*  where N is a non-skipping
    element (one punctuation character via CharsNotIn(exact=1), a leave_whitespace()d literal) wrapped in
    ZeroOrMore / OneOrMore / Opt / Group - the wrapper's own skip flag comes from N, its later elements must still not
    skip.  Base = contiguous text; variants = one gap inserted at an interior piece boundary."""
    jobs = []
    for i in range(n):
        r = random.Random(f"C09-{ctx.seed}-region-{i}")
        prog = [["w", "Word", "ab"], ["w2", "Word", "ab01"]]
        k = r.random()
        if k < 0.5:
            prog.append(["n", "CharsNotIn", "ab01 \t\r\n", {"exact": 1}])
            sep = r.choice(["-", ".", ":"])
        elif k < 0.8:
            sep = r.choice(["-", "."])
            prog += [["n0", "Literal", sep], ["n", "leave_whitespace", "n0"]]
        else:
            sep = "-"
            prog += [["n0", "Literal", sep], ["n1", "leave_whitespace", "n0"], ["n", "Suppress", "n1"]]
        prog.append(["s", "+", "n", r.choice(["w", "w2"])])
        wrap = r.choice(["ZeroOrMore", "OneOrMore", "Opt", "Group1", "plain"])
        if wrap in ("ZeroOrMore", "OneOrMore", "Opt"):
            prog.append(["z", wrap, "s"])
        elif wrap == "Group1":
            prog += [["zg", "Group", "s"], ["z", "OneOrMore", "zg"]]
        else:
            prog.append(["z", "copy", "s"])
        prog.append(["body", "+", "w", "z"])
        if r.random() < 0.7:
            prog.append(["root", "Combine", "body"])
        else:
            prog.append(["root", "leave_whitespace", "body"])
        reps = 1 if wrap in ("Opt", "plain") else r.choice([1, 2, 3])
        pieces = ["".join(r.choice("ab") for _ in range(r.randint(1, 2)))]
        for _ in range(reps):
            pieces += [sep, "".join(r.choice("ab") for _ in range(r.randint(1, 2)))]
        base = "".join(pieces)
        vs = []
        for cut in range(1, len(pieces)):
            vs.append("".join(pieces[:cut]) + r.choice(GAPS) + "".join(pieces[cut:]))
        jobs.append(dict(prog=prog, root="root", groups=[(base, vs)]))
    return jobs


def region_job(job):
    """worker: a gap inside the region must change the result (it is never skipped)"""
    pp = common.import_pyparsing()
    try:
        b = gram.build(pp, job["prog"])
        root = gram.prepare(b, job["root"])
    except Exception:
        return 0, [], 0
    pp.ParserElement.disable_memoization()
    n, bad, acc = 0, [], 0
    for base, vs in job["groups"]:
        want = outcome(pp, root, base)
        if want[0] != "ok" or (job.get("need") and job["need"] not in json.dumps(want[1])):
            continue   # the base sentence must have been matched through the region
        acc += 1
        for v in vs:
            n += 1
            got = outcome(pp, root, v)
            if got == want:
                bad.append({"prog": job["prog"], "root": job["root"], "input": v, "base": base,
                            "expected": "a result different from " + json.dumps(want), "actual": got})
                break
    return n, bad, acc


def mixed_or_jobs(ctx, n):
    """an Or ('^') with a non-skipping alternative (led by a negative lookahead / a leave_whitespace()d token) next to
    ordinary skipping ones, without trailing optional parts (those are the registered finding's region): whichever
    alternative wins, gaps and comments in front of it are transparent"""
    jobs = []
    for i in range(n):
        r = random.Random(f"C09-{ctx.seed}-mixor-{i}")
        prog = [["nm", "Word", "xyz"], ["eq", "Literal", "="], ["sc", "Literal", ";"], ["kw", "Keyword", "ab"], ["w", "Word", "ab"],
                ["n1", "Word", "01"], ["dot", "Literal", "."], ["nk", "~", "kw"], ["a1", "+", "nk", "w"],
                ["a3", "And", ["n1", "dot", "n1"]]]
        alts = ["a1", "n1", "a3"]
        r.shuffle(alts)
        prog.append(["val", "Or", alts[: r.choice([2, 3])] if "a1" in alts[:2] else ["a1"] + alts[:2]])
        prog.append(["root", "And", ["nm", "eq", "val", "sc"]])
        comment = None
        if r.random() < 0.5:
            prog += [["cm", "Literal", "#"], ["_", "ignore", "root", "cm"]]
            comment = "#"
        groups = []
        for toks in (["x", "=", "10", ";"], ["y", "=", "1", ".", "0", ";"], ["z", "=", "ba", ";"], ["x", "=", "0", ";"]):
            groups.append(variants(r, toks, comment))
        jobs.append(dict(prog=prog, root="root", groups=groups))
    return jobs


def gen_jobs(ctx, tag, n, with_comment):
    jobs = []
    for i in range(n):
        rng = random.Random(f"C09-{ctx.seed}-{tag}-{i}")
        pg = gen.ProgGen(rng, gen.Cfg(**W_CFG))
        prog, root = pg.generate()
        comment = None
        if with_comment:
            prog = prog + [["cm", "Literal", "#"], ["_", "ignore", root, "cm"]]
            comment = "#"
            if rng.random() < 0.5:
                # a second kind of comment, registered later: any mixture, in any order, must be transparent
                prog = prog + [["cm2", "Literal", "%%"], ["_", "ignore", root, "cm2"]]
                comment = ["#", "%%"]
        groups = []
        for _ in range(4):
            toks = [t for t in gen.pieces(pg, root) if t]
            if not toks:
                continue
            groups.append(variants(rng, toks, comment))
        if groups:
            jobs.append(dict(prog=prog, root=root, groups=groups))
    return jobs


def example_jobs(pp):
    """the repo's JSON and arithmetic example grammars, as token lists"""
    out = []
    try:
        import importlib
        import sys
        sys.path.insert(0, str(common.REPO))
        jp = importlib.import_module("examples.jsonParser")
        docs = [["{", '"a"', ":", "1", ",", '"b"', ":", "[", "true", ",", "null", ",", "2.5", "]", "}"],
                ["[", "{", '"k"', ":", "{", "}", "}", ",", "[", "]", ",", '"s t"', "]"]]
        out.append(("json", jp.jsonObject | jp.jsonArray if hasattr(jp, "jsonArray") else jp.jsonObject, docs, None))
    except Exception:
        pass
    try:
        ar = importlib.import_module("examples.fourFn")
        bnf = ar.BNF()
        docs = [["9", "+", "3", "*", "(", "2", "-", "1", ")"], ["sin", "(", "PI", "/", "2", ")", "^", "2"], ["-", "4", "+", "E"]]
        out.append(("fourFn", bnf, docs, None))
    except Exception:
        pass
    return out


def run(ctx):
    pp = common.import_pyparsing()
    ctx.proof_leg("PPProofs.Props.C09", THEOREMS)
    ctx.rule.append("class-W programs (leaves Literal/Word/Keyword/CaselessLiteral/Char/Empty without blanks in their sets, "
                    "default whitespace, no LineEnd/CharsNotIn/SkipTo/Combine/leave_whitespace) x 4 sentences sampled as token "
                    "lists x 4 variants each (every gap replaced by another non-empty gap from 7 shapes, fresh gaps between "
                    "alphanumeric and punctuation pieces, leading/trailing gaps; second stream: the same with '#' comments after "
                    "root.ignore('#')); only accepted base sentences count; non-trivial = distinct (program, variant)")
    # corpus: the original_text_for / ignore witness (fixed) and the Combine converse
    g = pp.original_text_for(pp.Word("a") + pp.Word("b")) + ";"
    g.ignore(pp.c_style_comment)
    try:
        ok = g.parse_string("a /* c */ b ;").as_list() == ["a /* c */ b", ";"]
    except pp.ParseBaseException:
        ok = False
    if not ok:
        ctx.fail_input("ignore(comment) does not reach inside original_text_for", {"program": "original_text_for(Word('a')+Word('b'))+';' ignore(c_style_comment)",
                       "input": "a /* c */ b ;"}, ["a /* c */ b", ";"], "ParseException", theorem="C09 statement (ignore propagation)")
    for mk, s_ok, s_gap in [(lambda: pp.Combine(pp.Word("ab") + "," + pp.Word("ab")), "ab,ab", "ab ,ab"),
                            (lambda: (pp.Word("ab") + pp.Literal("x")).leave_whitespace(), "abx", "ab x")]:
        a = mk().parse_string(s_ok).as_list()
        try:
            bres = mk().parse_string(s_gap).as_list()
        except pp.ParseBaseException:
            bres = None
        if bres == a:
            ctx.fail_input("a gap inside a Combine(adjacent)/leave_whitespace region was skipped", {"input": s_gap}, "no longer the same token", bres,
                           theorem="PP.Parse.preParse_noskip (oracle)")
    # registered finding: a Combine / leave_whitespace region does not reach through a Forward
    fw = pp.Forward()
    fw <<= pp.Word("b") | pp.Literal(",")
    try:
        rfw = pp.Combine(pp.Literal("a") + fw).parse_string("a b").as_list()
    except pp.ParseBaseException:
        rfw = None
    if rfw is not None:
        ctx.fail_input("a gap inside a Combine(adjacent)/leave_whitespace region was skipped",
                       {"program": "f = Forward(); f <<= Word('b') | ','; Combine(Literal('a') + f)", "input": "a b"},
                       "ParseException", rfw, theorem="C09 statement (converse clause)", signature="forward_inside_combine_skips")
    # registered finding: Or counts the blanks a failing trailing Opt/ZeroOrMore has eaten
    A, B = pp.CaselessLiteral("aB"), pp.Word("ab") + pp.ZeroOrMore(pp.Literal("+"))
    rt = (A ^ B) + ";"
    r1, r2 = rt.parse_string("ab;").as_list(), rt.parse_string("ab ;").as_list()
    if r1 != r2:
        ctx.fail_input("a fresh gap flips an Or choice", {"program": "(CaselessLiteral('aB') ^ Word('ab') + ZeroOrMore('+')) + ';'",
                       "base": "ab;", "input": "ab ;"}, r1, r2, theorem="C09 statement", signature="or_longest_counts_eaten_blanks")
    # directed regions reached through a Forward whose body is a SEQUENCE (the registered finding concerns alternation bodies)
    def _sub():
        sub = pp.Forward()
        sub <<= pp.Literal("[") + pp.Word("0123456789") + pp.Literal("]") + pp.Opt(sub)
        return pp.Combine(pp.Word("ab") + sub) + pp.Opt(pp.Literal("=") + pp.Word("0123456789"))

    def _unit():
        unit = pp.Forward()
        unit <<= pp.Word("px")
        unit.leave_whitespace()
        return pp.Word("0123456789") + unit

    def _unit_ws():
        f = pp.Forward()
        f <<= pp.Word("ab")
        f.set_whitespace_chars(" ")
        return pp.Literal(":") + f

    for mk, s_ok, gaps in [(_sub, "ab[1][2] = 5", ["ab [1][2] = 5", "ab\t[1][2] = 5"]), (_unit, "12px", ["12 px", "12\npx"]),
                           (_unit_ws, ": ab", [":\nab", ": \nab"])]:
        a = outcome(pp, mk(), s_ok)
        for s_gap in gaps:
            b = outcome(pp, mk(), s_gap)
            if a[0] != "ok" or b == a:
                ctx.fail_input("a gap in front of a non-skipping Forward (Combine region / leave_whitespace / own whitespace set) was skipped",
                               {"directed": mk.__name__, "base": s_ok, "input": s_gap}, "not the same result as the contiguous text", b,
                               theorem="PP.Parse.preParse_noskip (oracle)")
    # comments wherever whitespace may appear - also between the pieces of a Combine(adjacent=False)
    def _loose(cmt):
        g = pp.Keyword("FROM") + pp.Combine(pp.Word("ab") + "." + pp.Word("ab"), adjacent=False)("table") + pp.Opt(pp.Keyword("AS") + pp.Word("ab"))
        g.ignore(cmt)
        return g
    for cmt, text in [(pp.c_style_comment, "/* c */"), (pp.python_style_comment, "# c\n")]:
        base = "FROM ab . ba AS a"
        want = outcome(pp, _loose(cmt), base)
        for v in [f"FROM ab {text} . ba AS a", f"FROM ab . {text} ba AS a", f"FROM {text} ab . ba AS a", f"FROM ab {text}.{text} ba AS a",
                  f"FROM ab . ba {text} AS a"]:
            got = outcome(pp, _loose(cmt), v)
            if want[0] != "ok" or got != want:
                ctx.fail_input("a comment inserted where whitespace may appear changes the result (Combine(adjacent=False) region)",
                               {"directed": "loose-combine", "comment": text, "base": base, "input": v}, want, got,
                               theorem="C09 statement (ignore propagation)")
    ctx.count_cases("corpus", 4 + 6 + 10)
    # example grammars of the repository
    n_ex = 0
    for name, root, docs, _ in example_jobs(pp):
        rng = ctx.subrng("examples-" + name)
        for toks in docs:
            base, vs = variants(rng, toks)
            want = outcome(pp, root, base)
            for v in vs:
                n_ex += 1
                got = outcome(pp, root, v)
                if want[0] == "ok" and got != want:
                    ctx.fail_input("whitespace variation changes the result of an example grammar", {"grammar": name, "base": base, "input": v},
                                   want, got, theorem="C09 statement (metamorphic oracle)")
    ctx.count_cases("oracle:repo-examples", n_ex)
    jobs = gen_jobs(ctx, "ws", ctx.budget(1500, 15000), False)
    run_oracle(ctx, "oracle:gap-variation", jobs)
    jobs_c = gen_jobs(ctx, "cm", ctx.budget(1200, 12000), True)
    run_oracle(ctx, "oracle:comment-insertion", jobs_c)
    run_oracle(ctx, "oracle:mixed-or", mixed_or_jobs(ctx, ctx.budget(400, 4000)))
    # the converse clause behind a Forward: `w + F` with F <<= a non-skipping expression - a gap in front of F is not skipped
    from . import c01
    # (bodies led by a negative lookahead are not regions: the element after the lookahead skips as usual)
    fj = [j for j in c01.forward_flag_jobs(f"C09-{ctx.seed}", ctx.budget(300, 3000)) if not any(st[0] == "nk" for st in j["prog"])]
    fres = common.pmap(region_job, [dict(prog=j["prog"], root=j["root"], need="!", groups=[("hi!", ["hi !", "hi\n!", "hi  !"])]) for j in fj])
    badf = [m for r_ in fres for m in r_[1]]
    ctx.count_cases("oracle:gap-before-nonskipping-forward", sum(r_[0] for r_ in fres),
                    outcomes={"variants": sum(r_[0] for r_ in fres), "accepted base sentences": sum(r_[2] for r_ in fres), "skipped gap": len(badf)})
    for m in sorted(badf, key=lambda m: len(m["input"]))[:2]:
        ctx.fail_input("a gap in front of a non-skipping (leave_whitespace) region reached through a Forward was skipped",
                       {"region": True, **{k: m[k] for k in ("prog", "root", "base", "input")}}, m["expected"], m["actual"],
                       theorem="PP.Parse.preParse_noskip (oracle)", how="harness.props.c09.region_job")
    # the converse clause on generated regions
    rj = region_jobs(ctx, ctx.budget(1500, 15000))
    res = common.pmap(region_job, rj)
    badr = [m for r_ in res for m in r_[1]]
    ctx.count_cases("oracle:gap-inside-region", sum(r_[0] for r_ in res),
                    distinct_keys=[json.dumps([j["prog"], v]) for j in rj for _, vs in j["groups"] for v in vs],
                    outcomes={"variants": sum(r_[0] for r_ in res), "accepted base sentences": sum(r_[2] for r_ in res), "skipped gap": len(badr)},
                    samples=[{"prog": rj[0]["prog"], "base": rj[0]["groups"][0][0], "variant": rj[0]["groups"][0][1][0]}])
    for m in sorted(badr, key=lambda m: len(m["input"]))[:2]:
        ctx.fail_input("a gap inside a Combine(adjacent)/leave_whitespace region was skipped",
                       {"region": True, **{k: m[k] for k in ("prog", "root", "base", "input")}}, m["expected"], m["actual"],
                       theorem="PP.Parse.preParse_noskip (oracle)", how="harness.props.c09.region_job")
    corr_parse.run_jobs(ctx, "model-vs-real:regions",
                        [dict(prog=j["prog"], root=j["root"], inputs=[j["groups"][0][0]] + j["groups"][0][1], entries=[("parse", ())],
                              modes=[("none",)]) for j in rj[: ctx.budget(600, 6000)]])
    # the model on the same variants
    cj = [dict(prog=j["prog"], root=j["root"], inputs=[g[0] for g in j["groups"]] + [v for g in j["groups"] for v in g[1][:2]],
               entries=[("parse", ())], modes=[("none",)]) for j in (jobs[: ctx.budget(500, 5000)] + jobs_c[: ctx.budget(400, 4000)])]
    corr_parse.run_jobs(ctx, "model-vs-real:variants", cj)
    if ctx.broken and not ctx.fail_inputs:
        run_oracle(ctx, "oracle:search", gen_jobs(ctx, "more", ctx.budget(6000, 30000), False))


def replay(data):
    if data.get("replay_kind") == "failing-input":
        c = data["case"]
        if c.get("region"):
            return bool(region_job(dict(prog=c["prog"], root=c["root"], groups=[(c["base"], [c["input"]])]))[1])
        if "prog" in c:
            return bool(oracle_job(dict(prog=c["prog"], root=c["root"], groups=[(c["base"], [c["input"]])]))[1])
    ctx = common.Ctx("C09", "quick", data.get("seed", 0))
    run(ctx)
    return bool(ctx.broken or ctx.fail_inputs)
