"""C13 — parse actions are called with the documented protocol.

proof:           lean/PPProofs/Props/C13.lean    (_trim_arity wrapper as a state machine over an abstract callable)
                 lean/PPProofs/Props/C13Gate.lean (do_actions / callDuringTry gating in a mini expression language)
generated fact:  lean/PPProofs/Props/Gen/TrimArity.lean  (pa_call_line_synth vs the real call line, max_limit)
correspondence:  PPModel.Mod.TrimArity (driver `trim`) vs set_parse_action/add_condition + parse_string on real
                 callables of every kind; PPModel.Mod.ActionGate (driver `gate`) vs real grammars built from the
                 same expression tree with logging actions
search (oracle): the theorem statements executed on the real code (trailing-k arguments, one body run, exception
                 class and identity out of parse_string, None/value, no action during trial matching)
"""
from __future__ import annotations

import functools
import json
import operator
import sys
from pathlib import Path

from .. import common
from ..sexp import Sym, line as sx, loads

META = dict(
    text="Lean theorems prove, for EVERY callable of the abstract class (any set of accepted argument counts, any "
         "stateful body behaviour, any traceback below the body frame), any number of arguments and any max_limit: "
         "a fresh _trim_arity wrapper probes n, n-1, ... arguments without entering the body and runs the body "
         "exactly once with the largest accepted trailing slice (called_once_with_trailing_args, "
         "no_body_run_while_probing, no_accepted_arity_raises_typeError); the found arity is sticky (sticky_arity, "
         "wrapper_invariant); None/same keeps and any other value replaces the tokens (return_value_protocol, "
         "condition_protocol); exceptions raised in the body at any depth propagate unchanged out of parse_string on "
         "EVERY call and in every reachable wrapper state, and a ParseException fails just the element "
         "(body_exceptions_propagate, full strength since the fix 5ea5199 of the former finding "
         "indexerror_after_arity_found; its two halves are body_exceptions_propagate_probing / _found, and "
         "indexError_after_found_propagates is the regression theorem for the repaired fast path). Nested wrappers "
         "(an action whose body runs another wrapped action: inner_expr.parse_string in the body, trace_parse_action, "
         "condition_as_parse_action given to set_parse_action, OnlyOnce; any depth): nest_pyLevel, "
         "nested_probe_failure_traceback (when nothing binds at the inner action the TypeError arrives with "
         "pa_call_line_synth as its INNERMOST traceback entry, the second entry - the one the code tests - is the "
         "body frame) and nested_typeError_not_arity_probe (for every inner callable, glue and reachable wrapper "
         "state the outer body is entered exactly once, the inner wrapper is invoked once, TypeError leaves). The call-line "
         "arithmetic (LINE_DIFF) is a generated-fact obligation (live_call_line). Gating: in the mini expression "
         "language (Or two passes, Each, SkipTo scan + fail_on, stop_on, NotAny/FollowedBy, Opt, ZeroOrMore, And, "
         "MatchFirst) fired_ids_firable proves by induction for all expressions/inputs that an action fires only "
         "where do_actions is on or its element has call_during_try (trial-matched positions count as off), hence "
         "no_actions_when_trying, or_/each_first_pass_fires_nothing, skipTo_scan_fires_nothing, "
         "skipTo_without_include_is_silent, stop_on_check_fires_nothing; action_loc_is_prestart_partial only states "
         "that the loc argument is the element's pre_loc (whitespace skipping itself is by transcription). The "
         "element's action configuration is a state machine over set_parse_action / add_parse_action / add_condition / "
         "set_parse_action(None) / copy (runOps): set_parse_action_replaces (after set_parse_action(fns, k) the "
         "actions are fns and the gate flag is exactly k, for every earlier history), add_never_clears, "
         "flag_after_history / flag_without_set (full characterisation of the flag), acts_after_history, "
         "replaced_action_silent_when_trying and history_fires_only_current_actions (full strength, every history); "
         "The two branches of _parseNoCache (the one taken with set_debug / set_debug_actions / set_fail_action and the "
         "plain one) are transcribed separately over an abstract element (any preParse, any parseImpl, any actions): "
         "debug_branch_agrees (same result and the same action calls - ids, order, loc - up to the debug callbacks, for "
         "every element, location, do_actions, callPreParse), action_loc_is_match_start (every action gets pre_loc, the "
         "location after skipping ignorables and whitespace, in both branches), debug_settings_keep_the_firing_rule. "
         "clear_resets_flag is the regression theorem of the fixed finding call_during_try_survives_clear (7688521: "
         "set_parse_action(None) counts as a set_parse_action without actions and without the keyword).",
    note="Trusted: Lean kernel; axioms propext/Classical.choice/Quot.sound; CPython traceback frame layout (a binding "
         "failure raises at the call line with no callee frame; a Python-level body contributes its own frame) is an "
         "assumption of the model checked only differentially; the TrimArity and ActionGate models are transcriptions "
         "tied to the source by the correspondence leg; the real parser's whitespace/packrat/left-recursion machinery "
         "is outside the gating mini-model (oracle-checked only). C-level callables other than the supported builtins "
         "are outside the property's class (their body TypeErrors are indistinguishable from binding failures). Also "
         "outside the claimed class: a callable that is itself a _trim_arity wrapper, e.g. b.set_parse_action("
         "*a.parseAction) - its own frame IS the wrapper's call line (PyLevel fails), a TypeError from the user's body "
         "is re-probed by the outer wrapper; the generators never re-pass wrapped actions and nothing is claimed there.",
    technique="Lean 4 proof over transcribed state machine + generated call-line fact + differential correspondence",
    design="§5 C13",
)

THEOREMS = [
    "PP.TrimArity.live_call_line",
    "PP.TrimArity.called_once_with_trailing_args",
    "PP.TrimArity.called_once_events",
    "PP.TrimArity.no_accepted_arity_raises_typeError",
    "PP.TrimArity.no_body_run_while_probing",
    "PP.TrimArity.wrapper_invariant",
    "PP.TrimArity.sticky_arity",
    "PP.TrimArity.first_return_sets_found",
    "PP.TrimArity.body_exceptions_propagate",
    "PP.TrimArity.body_exceptions_propagate_probing",
    "PP.TrimArity.body_exceptions_propagate_found",
    "PP.TrimArity.indexError_after_found_propagates",
    "PP.TrimArity.nest_pyLevel",
    "PP.TrimArity.nested_probe_failure_traceback",
    "PP.TrimArity.nested_typeError_not_arity_probe",
    "PP.TrimArity.return_value_protocol",
    "PP.TrimArity.condition_protocol",
    "PP.ActionGate.fired_ids_firable",
    "PP.ActionGate.no_actions_when_trying",
    "PP.ActionGate.or_first_pass_fires_nothing",
    "PP.ActionGate.each_first_pass_fires_nothing",
    "PP.ActionGate.skipTo_scan_fires_nothing",
    "PP.ActionGate.skipTo_without_include_is_silent",
    "PP.ActionGate.stop_on_check_fires_nothing",
    "PP.ActionGate.or_each_skipto_stopon_fire_only_real",
    "PP.ActionGate.action_loc_is_prestart_partial",
    "PP.ActionGate.set_parse_action_replaces",
    "PP.ActionGate.add_never_clears",
    "PP.ActionGate.flag_after_history",
    "PP.ActionGate.flag_without_set",
    "PP.ActionGate.acts_after_history",
    "PP.ActionGate.replaced_action_silent_when_trying",
    "PP.ActionGate.history_fires_only_current_actions",
    "PP.ActionGate.clear_resets_flag",
    "PP.ActionGate.debug_branch_agrees",
    "PP.ActionGate.action_loc_is_match_start",
    "PP.ActionGate.debug_settings_keep_the_firing_rule",
]

SIG_INDEX = "indexerror_after_arity_found"
SIG_CLEAR = "call_during_try_survives_clear"  # fixed in 7688521; corpus/C13/flag_after_clear*.json are its regression cases
CORPUS = common.VERIF / "corpus" / "C13"


# ================================================================================================
# generated facts (tie T1)
# ================================================================================================
def live_facts(pp):
    """observe, on the live code, the (file, line) of the frame that calls the user's callable on the probing
    path, and what _trim_arity synthesised (pa_call_line_synth)."""
    core = pp.core
    seen = []

    def spy(*a):
        fr = sys._getframe(1)
        seen.append((fr.f_code.co_filename, fr.f_lineno))

    w = core._trim_arity(spy)
    w("s", 0, [])  # probing path (found_arity False)
    w("s", 0, [])  # fast path
    synth = core.pa_call_line_synth
    import inspect

    try:
        max_limit = inspect.signature(core._trim_arity).parameters["max_limit"].default
    except Exception:
        max_limit = None
    return dict(
        synth_file=synth[0] if synth else None,
        synth_line=synth[1] if synth else None,
        call_file=seen[0][0],
        call_line=seen[0][1],
        fast_line=seen[1][1],
        max_limit=max_limit,
    )


def gen_lean(f):
    same = f["synth_file"] == f["call_file"]
    ml = f["max_limit"] if isinstance(f["max_limit"], int) and f["max_limit"] >= 0 else 0
    return f"""/- GENERATED by harness/props/c13.py from the live pyparsing source; do not edit. -/
namespace PP.TrimArity.Gen
/-- `pa_call_line_synth[1]` after one `_trim_arity` call -/
def synthLine : Nat := {int(f['synth_line'] or 0)}
/-- line number of the frame that calls the user's callable on the probing path (observed via sys._getframe) -/
def callLine : Nat := {int(f['call_line'])}
/-- `pa_call_line_synth[0]` is the file of that frame -/
def sameFile : Bool := {'true' if same else 'false'}
/-- default of `max_limit` in `_trim_arity`'s signature -/
def maxLimit : Nat := {ml}
/-- number of positional arguments the action loop passes to the wrapper -/
def nArgs : Nat := 3
end PP.TrimArity.Gen
"""


def cfg_sexp(f):
    same = f["synth_file"] == f["call_file"]
    return [0, int(f["synth_line"] or 0), 0 if same else 1, int(f["call_line"]), int(f["max_limit"] or 0)]


# ================================================================================================
# real callables
# ================================================================================================
EXC_NAMES = ["T", "Tcall", "I", "Isub", "P", "F", "S", "O1", "O2"]  # Tcall: TypeError from a bad call in the body


class _MyIndexError(IndexError):
    pass


def make_exc(pp, name):
    if name in ("T", "Tcall"):
        return TypeError("boom")
    if name == "I":
        return IndexError("boom")
    if name == "Isub":
        return _MyIndexError("boom")
    if name == "P":
        return pp.ParseException("", 0, "boom")
    if name == "F":
        return pp.ParseFatalException("", 0, "boom")
    if name == "S":
        return pp.ParseSyntaxException("", 0, "boom")
    if name == "O1":
        return ValueError("boom")
    if name == "O2":
        return KeyError("boom")
    raise ValueError(name)


MODEL_EXC = {"T": "T", "Tcall": "T", "I": "I", "Isub": "I", "P": "P", "F": "F", "S": "F", "O1": "O1", "O2": "O2"}


def classify_exc(pp, e):
    if isinstance(e, pp.core._ParseActionIndexError):
        return "W"
    if isinstance(e, pp.ParseFatalException):
        return "F"
    if isinstance(e, pp.ParseException):
        return "P"
    if isinstance(e, pp.ParseBaseException):
        return "B"
    if isinstance(e, TypeError):
        return "T"
    if isinstance(e, IndexError):
        return "I"
    if type(e) is ValueError:
        return "O1"
    if type(e) is KeyError:
        return "O2"
    return "X:" + type(e).__name__


def _deep(d, exc):
    if d <= 0:
        raise exc
    _deep(d - 1, exc)


def _two(a, b):
    return None


class Plan:
    """what the body does at its next run, and a log of what it was given"""

    def __init__(self):
        self.beh = ("ret", "none")
        self.log = []
        self.raised = None
        # nested wrappers: ("nest", depth) runs `nested_fn` `depth` helper frames below the body, then behaves as `after`
        self.nested_fn = None
        self.after = ("ret", "none")
        self.nested_exc = None

    def core(self, args):
        """called from the body with the tuple of positional arguments it received; returns an instruction the
        body executes in its own frame (so depth 0 really is the body's frame)"""
        self.log.append(args)
        if self.beh[0] == "nest":
            return ("nest", self._nested, self.beh[1])
        return self._instr(self.beh, args)

    def _nested(self, depth):
        """called from the body's own frame: the nested call (another element's parse_string) is made depth+1 frames
        below the body; what it raises passes through the body untouched.  Returns the follow-up instruction."""
        if depth > 0:
            return self._nested(depth - 1)
        try:
            self.nested_fn()
        except BaseException as x:  # noqa
            self.nested_exc = x
            raise
        return self._instr(self.after, self.log[-1])

    def _instr(self, b, args):
        if b[0] == "ret":
            if b[1] == "none":
                return ("ret", None)
            if b[1] == "same":
                return ("ret", args[-1] if args else None)
            if b[1] in ("T", "F"):
                return ("ret", b[1] == "T")
            if b[1] == 0:
                return ("ret", 0)  # a falsy replacement value: still "not None"
            return ("ret", "R%d" % b[1])
        _, name, depth = b[:3]
        exc = b[3] if len(b) > 3 else None
        self.raised = None if name == "Tcall" else exc
        if name == "Tcall":
            return ("badcall", depth)  # a call with the wrong number of arguments, made `depth` frames below the body
        if depth == 0:
            return ("raise", exc)
        _deep(depth - 1, exc)  # raises `depth` frames below the body (this frame is the first of them)


_BODY = """
    _i = _plan.core(({tup}))
    if _i[0] == 'nest':
        _i = _i[1](_i[2])
    if _i[0] == 'raise':
        raise _i[1]
    if _i[0] == 'badcall':
        if _i[1] == 0:
            _two(1)
        _deepcall(_i[1])
    return _i[1]
"""


def _fin(i):
    if i[0] == "raise":
        raise i[1]
    return i[1]


def _deepcall(d):
    if d <= 1:
        _two(1)  # TypeError from a bad call, raised in this frame
    else:
        _deepcall(d - 1)


def _params(k, prefix=""):
    names = ["a", "b", "c", "d"][:k]
    return names


def _mk_func(plan, params_src, tup_names, name="f", pre="", deco=""):
    tup = "".join(n + ", " for n in tup_names)
    body = _BODY.format(tup=tup)
    if name == "__init__":
        body = body.replace("return _i[1]", "return None")
    src = f"{deco}def {name}({params_src}):{body}"
    if pre:
        src = pre + "\n" + "\n".join("    " + l for l in src.splitlines())
    ns = {"_plan": plan, "_two": _two, "_deepcall": _deepcall, "functools": functools}
    exec(compile(src, "<c13-callable>", "exec"), ns)
    return ns


def build_callable(kind, k, plan):
    """returns (callable, accepted argument counts, is_class)"""
    names = ["a", "b", "c", "d"][:k]
    ps = ", ".join(names)
    acc = [k] if k <= 3 else []
    if kind == "def":
        return _mk_func(plan, ps, names)["f"], acc, False
    if kind == "lambda":
        # a lambda cannot hold statements: a bad call / an IndexError at depth 0 happen in the lambda's own frame
        # ( `_two(1)`, `[][0]` ), everything else is raised by a helper one frame below
        tup = "".join(n + ", " for n in names)
        src = (f"lambda {ps}: (_i := _plan.core(({tup})), "
               "(_i := _i[1](_i[2])) if _i[0] == 'nest' else None, "
               "_two(1) if _i[0] == 'badcall' and _i[1] == 0 else None, "
               "_deepcall(_i[1]) if _i[0] == 'badcall' else None, "
               "[][0] if _i[0] == 'raise' and type(_i[1]) is IndexError else None, "
               "_fin(_i))[-1]")
        lam = eval(compile(src, "<c13-lambda>", "eval"),
                   {"_plan": plan, "_two": _two, "_deepcall": _deepcall, "_fin": _fin})
        return lam, acc, False
    if kind == "bound":
        ns = _mk_func(plan, ", ".join(["self"] + names), names, pre="class K:")
        return ns["K"]().f, acc, False
    if kind == "static-cls":
        ns = _mk_func(plan, ps, names, pre="class K:", deco="@staticmethod\n")
        return ns["K"].f, acc, False
    if kind == "static-inst":
        ns = _mk_func(plan, ps, names, pre="class K:", deco="@staticmethod\n")
        return ns["K"]().f, acc, False
    if kind == "classmethod":
        ns = _mk_func(plan, ", ".join(["cls"] + names), names, pre="class K:", deco="@classmethod\n")
        return ns["K"].f, acc, False
    if kind == "partial":
        ns = _mk_func(plan, ", ".join(["x"] + names), names)
        return functools.partial(ns["f"], "bound-x"), acc, False
    if kind == "partial-kw":
        ns = _mk_func(plan, ", ".join(names + ["kw=None"]), names)
        return functools.partial(ns["f"], kw=1), acc, False
    if kind == "callobj":
        ns = _mk_func(plan, ", ".join(["self"] + names), names, name="__call__", pre="class K:")
        return ns["K"](), acc, False
    if kind == "class":
        ns = _mk_func(plan, ", ".join(["self"] + names), names, name="__init__", pre="class K:")
        return ns["K"], acc, True
    if kind == "varargs":
        # def f(*a): accepts everything; k leading named parameters make k the minimum
        ns = _mk_func(plan, ", ".join(names + ["*rest"]), names + ["*rest"])
        return ns["f"], [i for i in range(0, 4) if i >= k], False
    if kind == "defaults":
        # k required parameters, the rest up to 3 optional: accepts k..3
        allp = ["a", "b", "c"]
        if k > 3:
            return _mk_func(plan, ps, names)["f"], [], False
        src = ", ".join(allp[:k] + [p + "=None" for p in allp[k:]])
        return _mk_func(plan, src, allp)["f"], list(range(k, 4)), False
    if kind == "kwonly":
        ns = _mk_func(plan, ", ".join(names + ["*", "kw=1"]), names)
        return ns["f"], acc, False
    if kind == "kwreq":
        # a required keyword-only parameter: no positional call binds
        ns = _mk_func(plan, ", ".join(names + ["*", "kw"]), names)
        return ns["f"], [], False
    raise ValueError(kind)


KINDS = ["def", "lambda", "bound", "static-cls", "static-inst", "classmethod", "partial", "partial-kw", "callobj",
         "class", "varargs", "defaults", "kwonly", "kwreq"]


def beh_frames(kind, name, depth):
    """frames below the wrapper, as the model wants them: Python-level callables contribute the body frame (file 7)
    plus `depth` deeper frames; a lambda delegating to a function adds one more"""
    return [[7, 1]] * (1 + depth)


def model_beh(mode, kind, is_class, beh):
    if beh[0] == "ret":
        if is_class:  # the instance: some non-None (truthy) value
            return [Sym("ret"), 99 if mode == "act" else Sym("T")]
        v = beh[1]
        return [Sym("ret"), Sym(v) if isinstance(v, str) else v]
    _, name, depth = beh[:3]
    return [Sym("raise"), Sym(MODEL_EXC[name])] + beh_frames(kind, name, depth)


# ================================================================================================
# one scenario on the real code
# ================================================================================================
INPUT = "  ab"
LOC = 2
TOKS = ["ab"]


def run_real(pp, mode, kind, k, behs):
    """one element, one wrapper, len(behs) parse_string calls.  Returns the canonical list per invocation:
    [runs, top] with runs = list of argument-count or BAD description, top = outcome S-expression"""
    plan = Plan()
    fn, acc, is_class = build_callable(kind, k, plan)
    e = pp.Word("ab")
    if mode == "act":
        e.set_parse_action(fn)
    else:
        e.add_condition(fn, message="cond", fatal=(mode == "condfatal"))
    out = []
    for beh in behs:
        plan.log = []
        plan.raised = None
        if beh[0] == "raise":
            beh = beh + (make_exc(pp, beh[1]),)
        plan.beh = beh
        top, x = parse_top(pp, e, is_class)
        if x is not None and sx(top[1]) in ("T", "I", "O1", "O2", "F") and kind != "lambda" \
                and plan.raised is not None and x is not plan.raised:
            top.append(Sym("not-the-raised-object"))
        out.append([runs_of(pp, plan.log), top])
    return out, acc, is_class


def parse_top(pp, e, is_class):
    """e.parse_string(INPUT) -> (canonical outcome, the exception object or None)"""
    try:
        r = common.with_alarm(5, e.parse_string, INPUT)
        lst = r.as_list()
        if lst == TOKS:
            return [Sym("returns"), Sym("matched")], None
        if is_class and len(lst) == 1 and type(lst[0]).__name__ == "K":
            return [Sym("returns"), [Sym("replaced"), 99]], None
        if lst == [0] and type(lst[0]) is int:
            return [Sym("returns"), [Sym("replaced"), 0]], None
        if len(lst) == 1 and isinstance(lst[0], str) and lst[0].startswith("R"):
            return [Sym("returns"), [Sym("replaced"), int(lst[0][1:])]], None
        return [Sym("returns"), [Sym("other"), repr(lst)]], None
    except common.CaseTimeout:
        return [Sym("hang")], None
    except BaseException as x:  # noqa
        return [Sym("raises"), Sym(classify_exc(pp, x))], x


def runs_of(pp, log):
    """the body runs: argument count, and that the arguments are the trailing ones of (s, loc, toks)"""
    runs = []
    for args in log:
        kk = len(args)
        want = (INPUT, LOC, None)[3 - kk:] if kk <= 3 else None
        ok = want is not None
        if ok:
            for got, w, pos in zip(args, want, range(3 - kk, 3)):
                if pos == 2:
                    ok = ok and isinstance(got, pp.ParseResults) and got.as_list() == TOKS
                else:
                    ok = ok and got == w and type(got) is type(w)
        runs.append([Sym("r"), kk] if ok else [Sym("r"), kk, Sym("BAD-ARGS"), repr(args)[:80]])
    return runs


def model_line(mode, cfg, kind, acc, is_class, behs):
    invs = []
    for beh in behs:
        mb = model_beh(mode, kind, is_class, beh)
        invs.append([acc, [mb, mb, mb, mb]])
    return sx(Sym("trim"), Sym(mode), cfg, 3, [False, 0], *invs)


def project_model(out_line):
    """model output -> what is observable on the real code: body runs and the parse_string outcome"""
    try:
        items = loads(out_line)
    except Exception:
        return out_line
    res = []
    for evs, _elem, top, _found, _limit in items:
        runs = [[Sym("r"), ev[1]] for ev in evs if ev[0] == "r"]
        res.append([runs, top])
    return sx(res)


# ================================================================================================
# oracle: the theorem statements on the real observation (never more than they state)
# ================================================================================================
def oracle_trim(mode, acc, is_class, behs, obs):
    """returns None or (description, theorem, signature)"""
    ks = [k for k in (3, 2, 1, 0) if k in acc]
    found = False
    for i, (beh, (runs, top)) in enumerate(zip(behs, obs)):
        top_s = sx(top)
        if not ks:
            if runs:
                return (f"invocation {i}: body ran although no argument count binds", "no_accepted_arity_raises_typeError", None)
            if top_s != "(raises T)":
                return (f"invocation {i}: expected the binding TypeError, got {top_s}", "no_accepted_arity_raises_typeError", None)
            continue
        k = ks[0]
        if [sx(r) for r in runs] != [f"(r {k})"]:
            return (f"invocation {i}: expected exactly one body run with the trailing {k} of (s, loc, toks), got "
                    f"{sx(runs)}", "called_once_with_trailing_args / sticky_arity", None)
        if beh[0] == "ret":
            if mode == "act":
                v = beh[1]
                want = "(returns matched)" if (v in ("none", "same") and not is_class) else \
                    f"(returns (replaced {99 if is_class else v}))"
                thm = "return_value_protocol"
            else:
                want = "(returns matched)" if beh[1] == "T" or is_class else \
                    ("(raises F)" if mode == "condfatal" else "(raises P)")
                thm = "condition_protocol"
            if top_s != want:
                return (f"invocation {i}: body returned {beh[1]}, expected {want}, got {top_s}", thm, None)
            found = True
        else:
            want = f"(raises {MODEL_EXC[beh[1]]})"
            if MODEL_EXC[beh[1]] == "I" and found and top_s != want:
                return (f"invocation {i}: IndexError raised in the body after an earlier call returned; expected "
                        f"{want}, got {top_s}", "body_exceptions_propagate / indexError_after_found_propagates",
                        SIG_INDEX)
            if top_s != want:
                return (f"invocation {i}: body raised {beh[1]} at depth {beh[2]}, expected {want} out of parse_string, "
                        f"got {top_s}", "body_exceptions_propagate_partial / _found", None)
    return None


# ================================================================================================
# nested wrappers (PP.TrimArity.Nest): an action whose body runs another wrapped action
# ================================================================================================
NEST_SCEN = ["pstr", "pstr-cond", "trace", "cond", "condfatal", "once"]
# pstr       the body of a user's callable (any kind / arity) calls inner_expr.parse_string(...); inner_expr has an action
# pstr-cond  same, inner_expr has a condition (add_condition)
# trace      set_parse_action(trace_parse_action(g))
# cond(fatal) set_parse_action(condition_as_parse_action(g, fatal=...))
# once       set_parse_action(OnlyOnce(g))
INNER_IS_COND = {"pstr": False, "pstr-cond": True, "trace": False, "cond": True, "condfatal": True, "once": False}
CLEVEL_INNER = {
    # name: (callable, accepted counts, model behaviour per argument count, what the nested call does)
    "ord": (ord, [1], {1: [Sym("raise"), Sym("T")]}, ("raise", "T")),
    "int": (int, [0, 1, 2], {2: [Sym("raise"), Sym("T")], 1: [Sym("raise"), Sym("T")], 0: [Sym("ret"), 0]}, ("ret", 0)),
}


def build_inner(ispec, plan):
    """(callable, accepted counts, is_class, clevel name or None)"""
    if ispec[0] == "c":
        fn, acc, _, _ = CLEVEL_INNER[ispec[1]]
        return fn, acc, False, ispec[1]
    fn, acc, is_class = build_callable(ispec[1], ispec[2], plan)
    return fn, acc, is_class, None


def inner_reference_error(pp, scen, ispec):
    """message of the TypeError the inner action raises when it is used on its own (nothing binds / C-level refusal)"""
    g, _, _, _ = build_inner(ispec, Plan())
    e = pp.Word("ab")
    if scen == "pstr-cond":
        e.add_condition(g, message="cond")
    else:
        e.set_parse_action(g)
    try:
        common.with_alarm(5, e.parse_string, INPUT)
    except TypeError as x:
        return str(x)
    except Exception:  # noqa
        return None
    return None


class _Quiet:
    """trace_parse_action writes to sys.stderr"""

    def __enter__(self):
        self.old = sys.stderr
        sys.stderr = self

    def __exit__(self, *a):
        sys.stderr = self.old

    def write(self, *_):
        pass

    def flush(self):
        pass


def run_nest_real(pp, scen, okind, ok, ispec, invs):
    """one outer element, one outer wrapper, one inner wrapper; len(invs) parse_string calls.
    invs: [(inner behaviour, depth of the nested call below the body, behaviour of the outer body afterwards)]
    Per invocation: [outer body runs | na, inner body runs, outcome]"""
    oplan, iplan = Plan(), Plan()
    g, iacc, i_is_class, clevel = build_inner(ispec, iplan)
    o_is_class, once = False, None
    if scen in ("pstr", "pstr-cond"):
        inner = pp.Word("ab")
        if scen == "pstr":
            inner.set_parse_action(g)
        else:
            inner.add_condition(g, message="cond")
        fn, oacc, o_is_class = build_callable(okind, ok, oplan)
        oplan.nested_fn = lambda: inner.parse_string(INPUT)
    elif scen == "trace":
        fn, oacc = pp.trace_parse_action(g), [0, 1, 2, 3]
    elif scen in ("cond", "condfatal"):
        fn, oacc = pp.condition_as_parse_action(g, message="cond", fatal=(scen == "condfatal")), [3]
    else:
        fn = once = pp.OnlyOnce(g)
        oacc = [3]
    e = pp.Word("ab").set_parse_action(fn)
    ref = None
    out = []
    for ibeh, depth, after in invs:
        if ibeh[0] == "raise":
            ibeh = tuple(ibeh) + (make_exc(pp, ibeh[1]),)
        if after[0] == "raise":
            after = tuple(after) + (make_exc(pp, after[1]),)
        for pl in (oplan, iplan):
            pl.log, pl.raised, pl.nested_exc = [], None, None
        iplan.beh = tuple(ibeh)
        oplan.beh, oplan.after = ("nest", depth), tuple(after)
        if once is not None:
            once.reset()
        with _Quiet():
            top, x = parse_top(pp, e, o_is_class or (i_is_class and scen in ("trace", "once")))
        if x is not None and sx(top[1]) in ("T", "I", "O1", "O2", "F"):
            # the exception that leaves is the very object raised below the outer action's frame
            if scen in ("pstr", "pstr-cond"):
                src = oplan.nested_exc if oplan.nested_exc is not None else oplan.raised
                lam = okind == "lambda" and oplan.nested_exc is None
            else:
                src, lam = iplan.raised, (ispec[0] == "py" and ispec[1] == "lambda")
            if src is not None and not lam and x is not src:
                top.append(Sym("not-the-raised-object"))
            elif src is None and sx(top[1]) == "T" and not iplan.log and scen not in ("pstr", "pstr-cond"):
                # a TypeError from calling g (nothing binds): no object to compare with, compare with what g raises
                # when it is the action of a plain element
                if ref is None:
                    ref = inner_reference_error(pp, scen, ispec) or ""
                if str(x) != ref:
                    top.append(Sym("not-the-inner-error"))
        oruns = runs_of(pp, oplan.log) if scen in ("pstr", "pstr-cond") else Sym("na")
        out.append([oruns, Sym("na") if clevel else runs_of(pp, iplan.log), top])
    return out, oacc, o_is_class, iacc, i_is_class, clevel


def nest_model_line(cfg, scen, okind, oacc, o_is_class, ispec, iacc, i_is_class, clevel, invs):
    items = []
    imode = "cond" if INNER_IS_COND[scen] else "act"
    for ibeh, depth, after in invs:
        if scen in ("pstr", "pstr-cond"):
            bf, glue, ias = [7, 1], [[7, 2]] * (depth + 2) + [[0, 1], [0, 2]], [3, 3, 3, 3]
        else:
            bf, glue = ([2, 1] if scen == "once" else [0, 1]), []
            ias = [Sym("none"), Sym("none"), Sym("none"), 3]
        if scen == "pstr":
            if after[0] == "ret":
                a = [Sym("ret"), 99 if o_is_class else (Sym(after[1]) if isinstance(after[1], str) else after[1])]
            else:
                a = [Sym("raise"), Sym(MODEL_EXC[after[1]])]
        elif scen in ("trace", "once"):
            a = Sym("pass")
        else:
            a = Sym("condfatal" if scen == "condfatal" else "cond")
        if clevel:
            behs = [CLEVEL_INNER[clevel][2].get(k, [Sym("ret"), Sym("none")]) for k in range(4)]
        else:
            mb = model_beh(imode, ispec[1], i_is_class, tuple(ibeh))
            behs = [mb, mb, mb, mb]
        items.append([oacc, bf, glue, ias, Sym("O1"), a, iacc, behs])
    return sx(Sym("nest"), cfg, 3, [False, 0], [False, 0], *items)


def project_nest(out_line, scen, clevel=False):
    try:
        items = loads(out_line)
    except Exception:
        return out_line
    res = []
    for oevs, ievs, _elem, top, _f, _l, _if, _il in items:
        oruns = [[Sym("r"), ev[1]] for ev in oevs if ev[0] == "r"] if scen in ("pstr", "pstr-cond") else Sym("na")
        iruns = Sym("na") if clevel else [[Sym("r"), ev[1]] for l in ievs for ev in l if ev[0] == "r"]
        res.append([oruns, iruns, top])
    return sx(res)


def oracle_nest(scen, oacc, o_is_class, iacc, i_is_class, clevel, invs, obs):
    """the nested theorems on the real observation: the outer body is entered exactly once with the trailing
    arguments it accepts, the inner action is invoked exactly once, and what the nested call raises — in particular
    the TypeError of an inner action that cannot be called — is what leaves parse_string"""
    oks = [k for k in (3, 2, 1, 0) if k in oacc]
    iks = [k for k in (3, 2, 1, 0) if k in iacc]
    for i, ((ibeh, _depth, after), (oruns, iruns, top)) in enumerate(zip(invs, obs)):
        top_s = sx(top)
        if not oks:
            if oruns != [] or iruns not in ([], "na") or top_s != "(raises T)":
                return (f"invocation {i}: no argument count binds at the outer action, expected no body run and the "
                        f"binding TypeError, got runs {sx(oruns)} / {sx(iruns)}, {top_s}",
                        "no_accepted_arity_raises_typeError")
            continue
        if oruns != "na" and [sx(r) for r in oruns] != [f"(r {oks[0]})"]:
            return (f"invocation {i}: the outer action's body must be entered exactly once with the trailing {oks[0]} "
                    f"of (s, loc, toks); it ran {sx(oruns)} (outcome {top_s})",
                    "nested_typeError_not_arity_probe / called_once_with_trailing_args")
        # what the nested call does
        if clevel:
            nested = CLEVEL_INNER[clevel][3]
        elif not iks:
            nested = ("raise", "T")
            if iruns != []:
                return (f"invocation {i}: inner action ran although nothing binds: {sx(iruns)}",
                        "no_accepted_arity_raises_typeError")
        else:
            if [sx(r) for r in iruns] != [f"(r {iks[0]})"]:
                return (f"invocation {i}: the inner action must run exactly once with the trailing {iks[0]} arguments; "
                        f"it ran {sx(iruns)} (outcome {top_s})", "nested_typeError_not_arity_probe (inner wrapper "
                        "invoked once) / called_once_with_trailing_args")
            nested = ("raise", MODEL_EXC[ibeh[1]]) if ibeh[0] == "raise" else ("ret", ibeh[1])
        if nested[0] == "raise":
            want = f"(raises {nested[1]})"
            thm = "nested_typeError_not_arity_probe" if nested[1] == "T" else "body_exceptions_propagate"
        else:
            v = nested[1]
            if scen == "pstr" or (scen == "pstr-cond" and (v == "T" or i_is_class)):
                if after[0] == "raise":
                    want = f"(raises {MODEL_EXC[after[1]]})"
                elif o_is_class:
                    want = "(returns (replaced 99))"
                else:
                    want = "(returns matched)" if after[1] in ("none", "same") else f"(returns (replaced {after[1]}))"
                thm = "return_value_protocol / body_exceptions_propagate"
            elif scen == "pstr-cond":
                want, thm = "(raises P)", "condition_protocol"
            elif scen in ("trace", "once"):
                want = "(returns (replaced 99))" if i_is_class else \
                    ("(returns matched)" if v in ("none", "same") else f"(returns (replaced {v}))")
                thm = "return_value_protocol"
            else:
                truthy = i_is_class or v == "T"
                want = "(returns matched)" if truthy else ("(raises F)" if scen == "condfatal" else "(raises P)")
                thm = "condition_protocol"
        if top_s != want:
            return (f"invocation {i}: the nested call {'raises ' + nested[1] if nested[0] == 'raise' else 'returns'}; "
                    f"expected {want} out of parse_string, got {top_s}", thm)
    return None


NEST_OUTERS = [("varargs", 0), ("def", 0), ("def", 1), ("def", 2), ("def", 3), ("def", 4), ("lambda", 1), ("lambda", 3), ("bound", 2),
               ("static-cls", 1), ("classmethod", 3), ("partial", 1), ("partial-kw", 2), ("callobj", 3), ("class", 1),
               ("varargs", 2), ("defaults", 1), ("kwonly", 2), ("kwreq", 1)]
NEST_INNERS_REJECT = [("py", "def", 4), ("py", "kwreq", 1), ("py", "kwreq", 3), ("py", "lambda", 4), ("py", "bound", 4),
                      ("py", "class", 4), ("c", "ord")]
NEST_INNERS_OTHER = [("py", kind, k) for kind in ("def", "lambda", "bound", "partial", "callobj", "class", "varargs",
                                                  "defaults", "kwonly", "classmethod")
                     for k in (0, 1, 2, 3)] + [("c", "int")]
NEST_AFTERS = [("ret", "none"), ("ret", 5), ("ret", 0), ("raise", "T", 0), ("raise", "I", 0), ("raise", "P", 0),
               ("raise", "O1", 0)]


def _nest_inv(rng, scen, reject):
    if INNER_IS_COND[scen]:
        rets = RETS_COND
    else:
        rets = [("ret", "none"), ("ret", 5), ("ret", 0)] + ([("ret", "same")] if scen in ("trace", "once") else [])
    ibeh = rng.choice(rets) if (reject or rng.random() < 0.45) else rng.choice(raises())
    after = rng.choice(NEST_AFTERS) if scen == "pstr" else ("ret", "none")
    return (ibeh, rng.choice([0, 0, 1, 2]), after)


def gen_nest_cases(ctx, n, tag="nest", systematic=True):
    rng = ctx.subrng(tag)
    cases = []
    if systematic:
        # the region where the innermost traceback entry is the (inner) wrapper's call line: nothing binds at the
        # inner action, for every kind of outer action
        for scen in NEST_SCEN:
            for o in (NEST_OUTERS if scen.startswith("pstr") else [("lib", 3)]):
                for ispec in NEST_INNERS_REJECT:
                    inv = _nest_inv(rng, scen, True)
                    cases.append((scen, o[0], o[1], ispec, [inv, _nest_inv(rng, scen, True)]))
    for _ in range(n):
        scen = rng.choice(NEST_SCEN + ["pstr"])
        o = rng.choice(NEST_OUTERS) if scen.startswith("pstr") else ("lib", 3)
        reject = rng.random() < 0.35
        ispec = rng.choice(NEST_INNERS_REJECT if reject else NEST_INNERS_OTHER)
        invs = [_nest_inv(rng, scen, reject) for _ in range(rng.choice([1, 2, 2, 3]))]
        invs = [((("ret", "none") if (ib == ("ret", "same") and ispec[0] == "py" and ispec[2] == 0) else ib), d, a)
                for ib, d, a in invs]
        cases.append((scen, o[0], o[1], ispec, invs))
    # an outer class returns its instance whatever the nested condition says: not expressible as `cond` continuation
    return [c for c in cases if not (c[0] == "pstr-cond" and c[1] == "class")]


def _nest_case_json(c):
    scen, okind, ok, ispec, invs = c
    return {"scenario": scen, "outer": [okind, ok], "inner": list(ispec),
            "invs": [[list(ib), d, list(a)] for ib, d, a in invs]}


def _nest_case_of(j):
    return (j["scenario"], j["outer"][0], j["outer"][1], tuple(j["inner"]),
            [(tuple(ib), d, tuple(a)) for ib, d, a in j["invs"]])


def check_nest(ctx, pp, cfg, cases, stream="nest", correspond=True):
    lines, impl, js, scens = [], [], [], []
    n_fail = 0
    seen_scen = set()
    for c in cases:
        scen, okind, ok, ispec, invs = c
        obs, oacc, o_is_class, iacc, i_is_class, clevel = run_nest_real(pp, scen, okind, ok, ispec, invs)
        lines.append(nest_model_line(cfg, scen, okind, oacc, o_is_class, ispec, iacc, i_is_class, clevel, invs))
        impl.append(sx(obs))
        js.append(_nest_case_json(c))
        scens.append(scen)
        bad = oracle_nest(scen, oacc, o_is_class, iacc, i_is_class, clevel, invs, obs)
        if bad and n_fail < 3 and scen not in seen_scen:
            n_fail += 1
            seen_scen.add(scen)
            ctx.fail_input("exception raised below a parse action's frame (nested parse action) not propagated unchanged",
                           _nest_case_json(c), bad[0], sx(obs), theorem="PP.TrimArity." + bad[1],
                           how="harness/props/c13.py run_nest_real(scenario, outer kind, outer arity, inner, invs)")
    if not correspond:
        ctx.count_cases(stream, len(cases), distinct_keys=[json.dumps(j, sort_keys=True) for j in js],
                        samples=js[:2])
        return []
    mouts = [project_nest(o, sc, j["inner"][0] == "c") for o, sc, j in zip(ctx.driver.run_sharded(lines), scens, js)]
    diffs = ctx.correspond(stream, js, lines, impl, model_outputs=mouts, nontrivial=lambda c, o: True,
                           outcome_of=lambda c, o: f"{c['scenario']}/{c['inner'][1]}")
    return [cases[i] for i in diffs]


# ================================================================================================
# generators
# ================================================================================================
RETS_ACT = [("ret", "none"), ("ret", "same"), ("ret", 5), ("ret", 0)]
RETS_COND = [("ret", "T"), ("ret", "F")]


def raises(depths=(0, 1, 2)):
    return [("raise", n, d) for n in EXC_NAMES for d in depths]


def gen_trim_cases(ctx):
    rng = ctx.subrng("trim")
    cases = []
    for mode in ("act", "cond", "condfatal"):
        rets = RETS_ACT if mode == "act" else RETS_COND
        for kind in KINDS:
            for k in range(0, 5):
                if kind == "varargs" and k > 3:
                    continue
                firsts = rets + raises()
                for b in firsts:
                    if b == ("ret", "same") and k == 0:
                        continue
                    cases.append((mode, kind, k, [b]))
                # sequences: sticky arity, exceptions before/after the arity was found
                for _ in range(ctx.budget(6, 40)):
                    n = rng.randint(2, 4)
                    seq = []
                    for _ in range(n):
                        b = rng.choice(rets + raises()) if rng.random() < 0.6 else rng.choice(rets)
                        if b == ("ret", "same") and k == 0:
                            b = ("ret", "none")
                        seq.append(b)
                    cases.append((mode, kind, k, seq))
                # the formerly excluded region (fixed finding indexerror_after_arity_found): IndexError after a return
                for r0 in rets:
                    if r0 == ("ret", "same") and k == 0:
                        continue
                    for name in ("I", "Isub"):
                        for d in (0, 2):
                            cases.append((mode, kind, k, [r0, ("raise", name, d), r0, ("raise", name, d)]))
    return cases


def _trim_case_json(c):
    mode, kind, k, behs = c
    return {"mode": mode, "kind": kind, "k": k, "behs": [list(b) for b in behs]}


def _eval_trim(args):
    pp, cfg, c = args
    mode, kind, k, behs = c
    obs, acc, is_class = run_real(pp, mode, kind, k, [tuple(b) for b in behs])
    return obs, acc, is_class


# ================================================================================================
# gating mini-language (Model 2): trees, real builder, generator, oracle
# ================================================================================================
def nullable(t):
    k = t[0]
    if k == "lit":
        return False
    if k == "act":
        return nullable(t[3])
    if k in ("hist", "dbg"):
        return nullable(t[2])
    if k == "seq":
        return nullable(t[1]) and nullable(t[2])
    if k == "alt":
        return nullable(t[1]) or nullable(t[2])
    if k == "or":
        return any(nullable(x) for x in t[1:])
    if k == "each":
        return all(nullable(x) for x in t[1:])
    if k == "many":
        return nullable(t[1])
    return True  # skipto, star, opt, fb, not


def strip_act(t):
    while t[0] in DECO or t[0] == "dbg":
        t = t[3] if t[0] == "act" else t[2]
    return t


DBG_MODES = ["debug", "actions", "fail", "both", "null"]
# debug    set_debug(True)                      (default printing callbacks; stdout is swallowed)
# actions  set_debug_actions(start, success, exception)   silent logging callbacks
# fail     set_fail_action(fn)
# both     set_debug_actions(...) and set_fail_action(fn)
# null     set_debug_actions(null_debug_action x 3)


def strip_dbg(t):
    """the same grammar without set_debug / set_debug_actions / set_fail_action"""
    if not isinstance(t, tuple):
        return t
    if t[0] == "dbg":
        return strip_dbg(t[2])
    return tuple(strip_dbg(x) if isinstance(x, tuple) else x for x in t)


def has_dbg(t):
    return isinstance(t, tuple) and (t[0] == "dbg" or any(has_dbg(x) for x in t[1:]))


def lit_actions(t, out=None):
    """ids of the actions installed on a Literal: id -> its character (the match of that element starts with it)"""
    out = {} if out is None else out
    if not isinstance(t, tuple):
        return out
    if t[0] in DECO and strip_act(t)[0] == "lit":
        inner = t
        while inner[0] in DECO or inner[0] == "dbg":
            if inner[0] == "act":
                for a in inner[1]:
                    out[a["id"]] = strip_act(t)[1]
            elif inner[0] == "hist":
                for op in inner[1]:
                    for a in op.get("acts", ()):
                        out[a["id"]] = strip_act(t)[1]
            inner = inner[3] if inner[0] == "act" else inner[2]
        return out
    for x in t[1:]:
        lit_actions(x, out)
    return out


# ---- an element's action configuration as a history of operations (PP.ActionGate.Op / runOps) ------------------
DECO = ("act", "hist")
KW_SPELL = ("call_during_try", "callDuringTry")


def op_kw(op):
    return bool(op.get("kw")) if op["op"] in ("set", "add", "cond") else False


def hist_cfg(ops):
    """(installed actions, call_during_try) the documented way: set_parse_action replaces both, add_* append and
    or the keyword in, set_parse_action(None) removes all actions and the flag, copy keeps
    (PP.ActionGate.flag_after_history, acts_after_history, clear_resets_flag)."""
    acts, cdt = [], False
    for op in ops:
        o = op["op"]
        if o == "set":
            acts, cdt = list(op["acts"]), op_kw(op)
        elif o in ("add", "cond"):
            acts, cdt = acts + list(op["acts"]), cdt or op_kw(op)
        elif o == "clear":
            acts, cdt = [], False
    return acts, cdt


def op_sexp(op):
    o = op["op"]
    if o == "clear":
        return Sym("clear")
    if o in ("copy", "name"):
        return Sym("copy")
    kw = Sym("none") if op.get("kw") is None else bool(op["kw"])
    return [Sym(o), [[a["id"], Sym(a["kind"])] for a in op["acts"]], kw]


def tree_sexp(t):
    k = t[0]
    if k == "lit":
        return [Sym("lit"), t[1]]
    if k == "act":
        return [Sym("act"), [[a["id"], Sym(a["kind"])] for a in t[1]], bool(t[2]), tree_sexp(t[3])]
    if k == "hist":
        return [Sym("hist"), [op_sexp(op) for op in t[1]], tree_sexp(t[2])]
    if k == "dbg":
        return [Sym("dbg"), Sym(t[1]), tree_sexp(t[2])]
    if k in ("seq", "alt"):
        return [Sym(k), tree_sexp(t[1]), tree_sexp(t[2])]
    if k in ("or", "each"):
        return [Sym(k)] + [tree_sexp(x) for x in t[1:]]
    if k == "skipto":
        return [Sym(k), tree_sexp(t[1]), Sym("none") if t[2] is None else tree_sexp(t[2]), bool(t[3])]
    if k in ("many", "star"):
        return [Sym(k), tree_sexp(t[1]), Sym("none") if t[2] is None else tree_sexp(t[2])]
    return [Sym(k), tree_sexp(t[1])]  # opt fb not


def firable(t, da):
    """ids that may fire (PP.ActionGate.firable): the statement of fired_ids_firable"""
    k = t[0]
    if k == "lit":
        return set()
    if k == "act":
        own = {a["id"] for a in t[1]} if (da or t[2]) else set()
        return own | firable(t[3], da)
    if k == "hist":
        acts, cdt = hist_cfg(t[1])
        own = {a["id"] for a in acts} if (da or cdt) else set()
        return own | firable(t[2], da)
    if k == "dbg":
        return firable(t[2], da)
    if k in ("seq", "alt"):
        return firable(t[1], da) | firable(t[2], da)
    if k in ("or", "each"):
        out = set()
        for x in t[1:]:
            out |= firable(x, False) | firable(x, da)
        return out
    if k == "skipto":
        out = firable(t[1], False)
        if t[2] is not None:
            out |= firable(t[2], False)
        if t[3]:
            out |= firable(t[1], da)
        return out
    if k in ("many", "star"):
        out = firable(t[1], da)
        if t[2] is not None:
            out |= firable(t[2], False)
        return out
    return firable(t[1], da)


ACTION_SHAPES = ["def3", "def2", "lambda3", "lambda2", "bound3", "bound2", "partial2", "callobj3", "varargs",
                 "def1", "lambda1", "def0", "classmethod2", "static3"]


class Log(list):
    """fired actions (id, loc); `trial` is the stack of alternatives whose try_parse (first pass of Or / Each) is
    running, `trial_events` the actions fired meanwhile"""

    def __init__(self):
        super().__init__()
        self.trial = []
        self.trial_events = []
        self.callbacks = []  # debug callbacks / fail action calls: (kind, loc, ...)
        self.order = []  # actions and callbacks in the order they happened

    def append(self, item):
        super().append(item)
        self.order.append(("a",) + tuple(item))


def hook_first_pass(e, child_tree, log):
    """Or / Each call `e.try_parse(...)` on their alternatives in the first pass (core.py:4288, 4635): make that
    observable.  A refactoring that no longer goes through the instance attribute only blunts this oracle."""
    orig = e.try_parse

    def hooked(*a, **kw):
        log.trial.append(child_tree)
        try:
            return orig(*a, **kw)
        finally:
            log.trial.pop()

    e.try_parse = hooked
    return e


def make_logger(pp, a, log, as_cond=False):
    """a real callable of shape a['shape'] that logs (id, loc or -1) and then behaves as a['kind'];
    as_cond: a predicate for add_condition (keep = True; fail / fatal = False, the exception class comes from
    add_condition's `fatal`)"""
    aid, kind, shape = a["id"], a["kind"], a["shape"]

    def core(s, l, have_s, have_l):
        log.append((aid, l if have_l else -1))
        if getattr(log, "trial", None):
            log.trial_events.append((aid, log.trial[-1]))
        if as_cond and kind in ("keep", "fail", "fatal"):
            return kind == "keep"
        if kind == "keep":
            return None
        if kind == "fail":
            raise pp.ParseException(s if have_s else "", l if have_l else 0, "action-fail")
        if kind == "fatal":
            raise pp.ParseFatalException(s if have_s else "", l if have_l else 0, "action-fatal")
        raise ValueError("action-err")

    if shape == "def3":
        def f(s, l, t):
            return core(s, l, True, True)
        return f
    if shape == "def2":
        def f(l, t):
            return core("", l, False, True)
        return f
    if shape == "def1":
        def f(t):
            return core("", 0, False, False)
        return f
    if shape == "def0":
        def f():
            return core("", 0, False, False)
        return f
    if shape == "lambda3":
        return lambda s, l, t: core(s, l, True, True)
    if shape == "lambda2":
        return lambda l, t: core("", l, False, True)
    if shape == "lambda1":
        return lambda t: core("", 0, False, False)
    if shape == "varargs":
        return lambda *a: core(a[0], a[1], True, True)

    class K:
        def m3(self, s, l, t):
            return core(s, l, True, True)

        def m2(self, l, t):
            return core("", l, False, True)

        def __call__(self, s, l, t):
            return core(s, l, True, True)

        @classmethod
        def c2(cls, l, t):
            return core("", l, False, True)

        @staticmethod
        def s3(s, l, t):
            return core(s, l, True, True)

    if shape == "bound3":
        return K().m3
    if shape == "bound2":
        return K().m2
    if shape == "callobj3":
        return K()
    if shape == "classmethod2":
        return K.c2
    if shape == "static3":
        return K.s3
    if shape == "partial2":
        def g(x, l, t):
            return core("", l, False, True)
        return functools.partial(g, 1)
    raise ValueError(shape)


SHAPE_HAS_LOC = {sh: not sh.endswith(("1", "0")) for sh in ACTION_SHAPES}


def apply_ops(pp, e, ops, log):
    """the history of operations on one element, as a user would write it"""
    for n, op in enumerate(ops):
        o = op["op"]
        if o == "clear":
            e.set_parse_action(None)
            continue
        if o == "copy":
            e = e.copy()
            continue
        if o == "name":
            e = e("n%d" % n)
            continue
        kwargs = {} if op.get("kw") is None else {KW_SPELL[op.get("spell", 0)]: op["kw"]}
        if o == "cond":
            if op.get("fatal"):
                kwargs["fatal"] = True
            e.add_condition(*[make_logger(pp, a, log, as_cond=True) for a in op["acts"]], **kwargs)
        else:
            fns = [make_logger(pp, a, log) for a in op["acts"]]
            (e.set_parse_action if o == "set" else e.add_parse_action)(*fns, **kwargs)
    return e


def apply_dbg(pp, e, mode, log):
    """set_debug / set_debug_actions / set_fail_action on the element itself (all return self)"""
    cb = log.callbacks

    def start(instring, loc, expr, cache_hit=False):
        cb.append(("try", loc, bool(cache_hit)))
        log.order.append(("try", loc))

    def success(instring, startloc, endloc, expr, toks, cache_hit=False):
        cb.append(("match", startloc, endloc, bool(cache_hit)))
        log.order.append(("match", startloc, endloc))

    def exc_action(instring, loc, expr, exc, cache_hit=False):
        cb.append(("dfail", loc, bool(cache_hit)))
        log.order.append(("dfail", loc))

    def fail_action(s, loc, expr, err):
        cb.append(("fact", loc))
        log.order.append(("fact", loc))

    if mode == "debug":
        e.set_debug(True)
    elif mode == "null":
        e.set_debug_actions(pp.null_debug_action, pp.null_debug_action, pp.null_debug_action)
    if mode in ("actions", "both"):
        e.set_debug_actions(start, success, exc_action)
    if mode in ("fail", "both"):
        e.set_fail_action(fail_action)
    return e


def build_real(pp, t, log):
    k = t[0]
    if k == "dbg":
        return apply_dbg(pp, build_real(pp, t[2], log), t[1], log)
    if k == "lit":
        return pp.Literal(t[1])
    if k == "hist":
        e = build_real(pp, t[2], log)
        if t[2][0] in DECO:
            e = pp.And([e])
        return apply_ops(pp, e, t[1], log)
    if k == "act":
        e = build_real(pp, t[3], log)
        if t[3][0] in DECO:
            e = pp.And([e])
        fns = [make_logger(pp, a, log) for a in t[1]]
        if fns:
            # exercise both entry points and, for call_during_try=False, the default of the keyword
            meth = e.set_parse_action if t[1][0]["id"] % 2 == 0 else e.add_parse_action
            if t[2]:
                meth(*fns, call_during_try=True)
            elif t[1][0]["id"] % 3 == 0:
                meth(*fns, call_during_try=False)
            else:
                meth(*fns)
        return e
    if k == "seq":
        return pp.And([build_real(pp, t[1], log), build_real(pp, t[2], log)])
    if k == "alt":
        return pp.MatchFirst([build_real(pp, t[1], log), build_real(pp, t[2], log)])
    if k == "or":
        return pp.Or([hook_first_pass(build_real(pp, x, log), x, log) for x in t[1:]])
    if k == "each":
        return pp.Each([hook_first_pass(build_real(pp, x, log), x, log) for x in t[1:]])
    if k == "skipto":
        return pp.SkipTo(build_real(pp, t[1], log), include=bool(t[3]),
                         fail_on=None if t[2] is None else build_real(pp, t[2], log))
    if k == "many":
        return pp.OneOrMore(build_real(pp, t[1], log), stop_on=None if t[2] is None else build_real(pp, t[2], log))
    if k == "star":
        return pp.ZeroOrMore(build_real(pp, t[1], log), stop_on=None if t[2] is None else build_real(pp, t[2], log))
    if k == "opt":
        return pp.Opt(build_real(pp, t[1], log))
    if k == "fb":
        return pp.FollowedBy(build_real(pp, t[1], log))
    if k == "not":
        return pp.NotAny(build_real(pp, t[1], log))
    raise ValueError(k)


def acts_of(t, out=None):
    out = {} if out is None else out
    if t[0] == "act":
        for a in t[1]:
            out[a["id"]] = a
    if t[0] == "hist":
        for op in t[1]:
            for a in op.get("acts", ()):
                out[a["id"]] = a
    for x in t[1:]:
        if isinstance(x, (list, tuple)) and x and isinstance(x[0], str):
            acts_of(x, out)
    return out


def run_gate_real(pp, t, s, da, via_parse_string=False, packrat=False, ignore=False):
    """da=False: e.try_parse(s, 0) (the trial-matching entry point); da=True: e.try_parse(..., do_actions=True);
    via_parse_string: e.parse_string(s) (oracle only: its And/preParse wrapper is outside the mini-model);
    packrat / ignore (oracle only): with packrat enabled / with `#` as an ignorable of the whole grammar"""
    log = Log()
    old_out = sys.stdout
    sys.stdout = _Quiet()  # set_debug(True) prints
    try:
        if packrat:
            pp.ParserElement.enable_packrat()
        e = build_real(pp, t, log)
        if ignore:
            e.ignore(pp.Literal("#"))
        try:
            pp.ParserElement.reset_cache()
            if via_parse_string:
                common.with_alarm(5, e.parse_string, s)
                res = [Sym("ok"), -1]
            else:
                e.streamline()
                end = common.with_alarm(5, e.try_parse, s, 0, raise_fatal=True, do_actions=bool(da))
                res = [Sym("ok"), end]
        except common.CaseTimeout:
            res = Sym("hang")
        except pp.ParseFatalException:
            res = Sym("fatal")
        except pp.ParseException:
            res = Sym("fail")
        except ValueError:
            res = Sym("err")
        except Exception as x:  # noqa
            res = Sym("internal-" + type(x).__name__)
    finally:
        sys.stdout = old_out
        if packrat:
            pp.ParserElement.disable_memoization()
    return sx([res, [[i, l] for i, l in log]]), log


def project_gate(model_out, acts):
    try:
        res, tr = loads(model_out)
    except Exception:
        return model_out
    return sx([res, [[i, (l if SHAPE_HAS_LOC[acts[i]["shape"]] else -1)] for i, l in tr]])


class TreeGen:
    def __init__(self, rng):
        self.rng = rng
        self.next_id = 0

    def act_list(self, allow_raise=True):
        rng = self.rng
        out = []
        for _ in range(1 if rng.random() < 0.8 else 2):
            self.next_id += 1
            r = rng.random()
            kind = "keep" if (r < 0.7 or not allow_raise) else ("fail" if r < 0.85 else ("fatal" if r < 0.93 else "err"))
            out.append({"id": self.next_id, "kind": kind, "shape": rng.choice(ACTION_SHAPES)})
        return out

    def leaf(self):
        return ("lit", self.rng.choice("abc"))

    def maybe_act(self, t, p=0.6):
        rng = self.rng
        if t[0] not in DECO and rng.random() < p:
            if rng.random() < self.p_dbg:
                # debug settings / a fail action on the very element that carries the actions
                t = ("dbg", rng.choice(DBG_MODES), t)
            if rng.random() < self.p_hist:
                ops = self.history(focus=rng.random() < self.p_focus)
                # an element left without actions is transparent: streamline() would merge it into a same-kind parent,
                # which the mini-model does not do; configurations without actions only on literals
                if (p >= 1.0 or strip_act(t)[0] != "lit") and not hist_cfg(ops)[0]:
                    ops.append(self.one_op("add", None))
                    ops[-1]["acts"] = ops[-1]["acts"] or self.act_list()
                return ("hist", ops, t)
            return ("act", self.act_list(), rng.random() < 0.15, t)
        return t

    p_hist = 0.3
    p_focus = 0.35
    p_dbg = 0.08

    def one_op(self, o, kw):
        """operation `o` with keyword `kw` (None = not given)"""
        rng = self.rng
        op = {"op": o}
        if o in ("set", "add", "cond"):
            acts = self.act_list() if rng.random() < 0.93 else []
            op["fatal"] = o == "cond" and rng.random() < 0.2
            if o == "cond":
                for a in acts:  # a falsy predicate raises what add_condition's `fatal` says
                    if a["kind"] in ("fail", "fatal"):
                        a["kind"] = "fatal" if op["fatal"] else "fail"
            op.update(acts=acts, kw=kw, spell=rng.randrange(2))
        return op

    def history(self, focus=False):
        """a sequence of operations on one element.  focus: some operation carries call_during_try=True and a later
        set_parse_action comes without it (the flag must be gone)."""
        rng = self.rng
        ops = []
        if focus:
            pre = rng.choice(["set", "add", "cond", "cond"])
            ops.append(self.one_op(pre, True))
            if rng.random() < 0.3:
                ops.append(self.one_op(rng.choice(["add", "cond", "copy", "name"]), rng.choice([None, None, False, True])))
            if rng.random() < 0.25:  # set_parse_action(None), then a plain action
                ops.append({"op": "clear"})
                ops.append(self.one_op(rng.choice(["add", "add", "cond"]), rng.choice([None, None, False])))
            else:
                ops.append(self.one_op("set", rng.choice([None, None, False])))
            for _ in range(rng.choice([0, 0, 1])):
                ops.append(self.one_op(rng.choice(["add", "cond", "copy", "name"]), rng.choice([None, False])))
        else:
            for _ in range(rng.choice([1, 2, 2, 3, 4])):
                o = rng.choice(["set", "set", "add", "add", "cond", "clear", "copy", "name"])
                ops.append(self.one_op(o, rng.choice([None, None, None, False, True])))
        return ops

    def nonnull(self, d):
        for _ in range(20):
            t = self.tree(d)
            if not nullable(t):
                return t
        return self.maybe_act(self.leaf())

    def each_child(self, d):
        for _ in range(20):
            t = self.nonnull(d)
            if strip_act(t)[0] not in ("opt", "star", "many"):
                return t
        return self.maybe_act(self.leaf())

    def tree(self, d):
        rng = self.rng
        if d <= 0 or rng.random() < 0.18:
            return self.maybe_act(self.leaf(), 0.7)
        k = rng.choice(["seq", "seq", "alt", "or", "or", "each", "skipto", "skipto", "many", "many", "star", "opt",
                        "fb", "not"])
        if k in ("seq", "alt"):
            # streamline() merges And(And(..)..)/MatchFirst(MatchFirst(..)..) when the inner one carries no action;
            # the mini-model has no streamline, so a directly nested same-kind child always carries an action
            kids = [self.tree(d - 1), self.tree(d - 1)]
            kids = [self.maybe_act(c, 1.0) if c[0] == k else c for c in kids]
            t = (k, *kids)
        elif k == "or":
            kids = []
            for _ in range(rng.randint(2, 3)):
                c = self.tree(d - 1)
                if c[0] == "or":
                    c = self.maybe_act(c, 1.0)
                kids.append(c)
            t = ("or", *kids)
        elif k == "each":
            kids = []
            for _ in range(rng.randint(2, 3)):
                c = self.each_child(d - 1)
                if c[0] == "each":
                    c = self.maybe_act(c, 1.0)
                kids.append(c)
            t = ("each", *kids)
        elif k == "skipto":
            t = ("skipto", self.nonnull(d - 1), self.tree(d - 1) if rng.random() < 0.4 else None, rng.random() < 0.5)
        elif k in ("many", "star"):
            t = (k, self.nonnull(d - 1), self.tree(d - 1) if rng.random() < 0.5 else None)
        else:
            t = (k, self.tree(d - 1))
        return self.maybe_act(t, 0.35)


def sentence(rng, t, budget=8):
    """a string the tree is likely to accept"""
    k = t[0]
    if k == "lit":
        return t[1]
    if k == "act":
        return sentence(rng, t[3], budget)
    if k in ("hist", "dbg"):
        return sentence(rng, t[2], budget)
    if k == "seq":
        return sentence(rng, t[1]) + rng.choice(["", " "]) + sentence(rng, t[2])
    if k in ("alt",):
        return sentence(rng, rng.choice(t[1:3]))
    if k == "or":
        return sentence(rng, rng.choice(t[1:]))
    if k == "each":
        kids = list(t[1:])
        rng.shuffle(kids)
        return rng.choice(["", " "]).join(sentence(rng, x) for x in kids)
    if k == "skipto":
        return "".join(rng.choice("abc ") for _ in range(rng.randint(0, 3))) + sentence(rng, t[1])
    if k in ("many", "star"):
        n = rng.randint(0 if k == "star" else 1, 3)
        out = rng.choice(["", " "]).join(sentence(rng, t[1]) for _ in range(n))
        if t[2] is not None and rng.random() < 0.6:
            out += rng.choice(["", " "]) + sentence(rng, t[2])
        return out
    if k == "opt":
        return sentence(rng, t[1]) if rng.random() < 0.6 else ""
    if k == "fb":
        return sentence(rng, t[1])
    return rng.choice(["", "a", "b", "c"])  # not


WS_VARIANTS = [" ", " ", "  ", "\t", "\n", " \n ", "\t ", "\r\n"]


def gen_gate_cases(ctx, tag="gate", n=None, p_hist=None, p_focus=None, depths=(1, 2, 2, 3, 3, 4), p_dbg=None,
                   vary_ws=False):
    rng = ctx.subrng(tag)
    cases = []
    for i in range(ctx.budget(2500, 40000) if n is None else n):
        g = TreeGen(rng)
        if p_hist is not None:
            g.p_hist, g.p_focus = p_hist, p_focus
        if p_dbg is not None:
            g.p_dbg = p_dbg
        t = g.tree(rng.choice(depths))
        if not acts_of(t):
            t = ("act", g.act_list(), False, t) if t[0] not in DECO else ("act", g.act_list(), False, ("seq", t, ("lit", "a")))
        ins = set()
        for _ in range(3):
            s = sentence(rng, t)
            if rng.random() < 0.5:
                s = rng.choice(["", " ", "  "]) + s
            if rng.random() < 0.3 and s:
                j = rng.randrange(len(s))
                s = s[:j] + rng.choice(["", "a", "b", "c", " "]) + s[j + 1:]
            if rng.random() < 0.3:
                s += rng.choice([" ", "a", "b", "c"])
            if vary_ws:  # leading blanks / tabs / newlines before the matches
                s = rng.choice(["", " ", "\t", "\n ", "  "]) + "".join(rng.choice(WS_VARIANTS) if ch == " " else ch for ch in s)
            ins.add(s[:10] if not vary_ws else s[:14])
        if rng.random() < 0.3:
            ins.add("".join(rng.choice("abc ") for _ in range(rng.randint(0, 6))))
        for s in sorted(ins):
            for da in (True, False):
                cases.append((t, s, da))
    return cases


def oracle_gate(t, s, da, log):
    """fired_ids_firable on the real code: an action fires only where do_actions or its call_during_try allows"""
    allowed = firable(t, da)
    bad = [i for i, _ in log if i not in allowed]
    if bad:
        return (f"action id(s) {sorted(set(bad))} fired although they sit only in trial-matched positions "
                f"(do_actions={da}) without call_during_try", "PP.ActionGate.fired_ids_firable / no_actions_when_trying")
    bad = [i for i, child in getattr(log, "trial_events", []) if i not in firable(child, False)]
    if bad:
        return (f"action id(s) {sorted(set(bad))} fired inside the first (trial) pass of an Or / Each although their "
                f"element has no call_during_try", "PP.ActionGate.or_first_pass_fires_nothing / each_first_pass_fires_nothing")
    return None


DBG_CONFIGS = [dict(via=False, packrat=False, ignore=False), dict(via=True, packrat=False, ignore=False),
               dict(via=False, packrat=True, ignore=False), dict(via=True, packrat=True, ignore=False),
               dict(via=False, packrat=False, ignore=True), dict(via=True, packrat=False, ignore=True)]


def with_ignorables(s):
    """`#` is an ignorable of the grammar: put some in front of the tokens"""
    return ("#" + s).replace(" ", " #", 2).replace("\n", "\n# ", 1)


def oracle_dbg(pp, t, s, da, configs=DBG_CONFIGS):
    """debug_branch_agrees / action_loc_is_match_start on the real code: the grammar with set_debug /
    set_debug_actions / set_fail_action on some elements and the same grammar without them give the same result and
    the same action calls (ids, order, loc); and an action on a Literal gets the location its match starts at.
    Returns None or (description, theorem, impl output, config)"""
    if not has_dbg(t):
        return None
    plain = strip_dbg(t)
    lits = lit_actions(t)
    acts = acts_of(t)
    for cf in configs:
        if cf["via"] and not da:
            continue
        text = with_ignorables(s) if cf["ignore"] else s
        kw = dict(via_parse_string=cf["via"], packrat=cf["packrat"], ignore=cf["ignore"])
        io, log = run_gate_real(pp, t, text, da, **kw)
        io0, _ = run_gate_real(pp, plain, text, da, **kw)
        how = ("parse_string" if cf["via"] else f"try_parse(do_actions={bool(da)})") + \
              (", packrat" if cf["packrat"] else "") + (f", '#' ignorable, input {text!r}" if cf["ignore"] else "")
        seen = text.expandtabs() if cf["via"] else text
        for i, l in log:
            if i in lits and SHAPE_HAS_LOC[acts[i]["shape"]] and seen[l:l + 1] != lits[i]:
                return (f"action {i} sits on Literal({lits[i]!r}) (an element with debug settings / a fail action in the "
                        f"grammar) and was called with loc={l}, but the input has {seen[l:l + 1]!r} there: loc is not the "
                        f"start of the match after skipping [{how}]",
                        "PP.ActionGate.action_loc_is_match_start", io, cf)
        if io != io0:
            return (f"with set_debug / set_debug_actions / set_fail_action the grammar gives {io}, the same grammar "
                    f"without them gives {io0} [{how}]", "PP.ActionGate.debug_branch_agrees", io, cf)
    return None


def check_gate(ctx, pp, stream="gate", cases=None, max_fail=3, dbg_configs=DBG_CONFIGS[:2]):
    cases = gen_gate_cases(ctx) if cases is None else cases
    lines = [sx(Sym("gate"), tree_sexp(t), s, da) for t, s, da in cases]
    mouts = ctx.driver.run_sharded(lines)
    keep_c, keep_l, keep_m, impl, js = [], [], [], [], []
    n_fail = n_dbg = 0
    seen_da, seen_thm = set(), set()
    skipped = 0
    for (t, s, da), ln, mo in zip(cases, lines, mouts):
        if mo.startswith("(hang") or mo in ("bad-op", "bad-line"):
            skipped += 1
            if mo in ("bad-op", "bad-line"):
                raise common.HarnessError(f"driver rejected {ln}")
            continue
        io, log = run_gate_real(pp, t, s, da)
        acts = acts_of(t)
        keep_m.append(project_gate(mo, acts))
        keep_l.append(ln)
        impl.append(io)
        js.append({"tree": sx(tree_sexp(t)), "shapes": {str(i): a["shape"] for i, a in acts.items()}, "s": s, "da": da,
                   "_case": (t, s, da)})
        bad = oracle_gate(t, s, da, log)
        if not bad and da:
            io2, log2 = run_gate_real(pp, t, s, True, via_parse_string=True)
            bad = oracle_gate(t, s, True, log2)
            if bad:
                io = io2
        if bad and n_fail < max_fail and (max_fail >= 3 or da not in seen_da):
            n_fail += 1
            seen_da.add(da)  # one trial-entry witness, one through a real parse (Or / Each / SkipTo / stop_on inside)
            ctx.fail_input("action fired during trial matching", {"tree": t, "s": s, "da": da}, bad[0], io,
                           theorem=bad[1], how="harness/props/c13.py run_gate_real(tree, s, da)")
        badd = None if bad else oracle_dbg(pp, t, s, da, dbg_configs)
        if badd and n_dbg < 3 and badd[1] not in seen_thm:
            n_dbg += 1
            seen_thm.add(badd[1])
            ctx.fail_input("parse action protocol differs on an element with debug settings / a fail action",
                           {"tree": t, "s": s, "da": da, "config": badd[3]}, badd[0], badd[2], theorem=badd[1],
                           how="harness/props/c13.py oracle_dbg(tree, s, da)")
    ctx.notes[stream + "_skipped_model_hang"] = skipped
    kept = [j.pop("_case") for j in js]
    diffs = ctx.correspond(stream, js, keep_l, impl, model_outputs=keep_m,
                           nontrivial=lambda c, o: "((" in o.split(" ", 1)[-1] or o.startswith("((ok"),
                           outcome_of=lambda c, o: o.split(" ", 1)[0].lstrip("(").rstrip(")") + ("/da" if c["da"] else "/try"))
    return [kept[i] for i in diffs]


# ---- one `_parseNoCache` call with / without debug settings: PP.ActionGate.parseNoCache (both branches) -----------
def gen_pnc_cases(ctx, n, tag="pnc"):
    rng = ctx.subrng(tag)
    cases = []
    for _ in range(n):
        before = rng.choice(["", "", "b", "a ", "ab"])
        ws = "".join(rng.choice(" \t\n\r") for _ in range(rng.choice([0, 1, 1, 2, 3])))
        s = before + ws + rng.choice(["a", "a", "ab", "b", "", "a a"])
        g = TreeGen(rng)
        acts = g.act_list() if rng.random() < 0.85 else []
        if acts and rng.random() < 0.3:
            acts = acts + g.act_list()
        for a in acts:
            a["shape"] = rng.choice(["def3", "def2", "lambda3", "bound2", "varargs", "partial2"])
        cases.append({"s": s, "loc": len(before), "acts": acts, "cdt": rng.random() < 0.3,
                      "mode": rng.choice([None] + DBG_MODES + ["both", "fail"]), "da": rng.random() < 0.6,
                      "cp": rng.random() < 0.75, "cond": rng.random() < 0.25})
    return cases


def run_pnc_real(pp, c, mode):
    """Literal('a') carrying the actions (or conditions) and the debug settings `mode`; one e._parse call"""
    log = Log()
    e = pp.Literal("a")
    if c["acts"]:
        kw = {"call_during_try": True} if c["cdt"] else {}
        if c["cond"] and all(a["kind"] in ("keep", "fail", "err") for a in c["acts"]):
            e.add_condition(*[make_logger(pp, a, log, as_cond=True) for a in c["acts"]], **kw)
        else:
            e.set_parse_action(*[make_logger(pp, a, log) for a in c["acts"]], **kw)
    if mode is not None:
        apply_dbg(pp, e, mode, log)
    old_out, sys.stdout = sys.stdout, _Quiet()
    try:
        end, _ = common.with_alarm(5, e._parse, c["s"], c["loc"], bool(c["da"]), callPreParse=bool(c["cp"]))
        res = [Sym("ok"), end]
    except pp.ParseFatalException:
        res = Sym("fatal")
    except pp.ParseException:
        res = Sym("fail")
    except ValueError:
        res = Sym("err")
    finally:
        sys.stdout = old_out
    evs = [[Sym(ev[0])] + list(ev[1:]) for ev in log.order]
    return sx([res, evs]), bool(e.mayIndexError)


def oracle_pnc(c, io, io_plain):
    """action_loc_is_match_start / debug_settings_keep_the_firing_rule / debug_branch_agrees on the real element"""
    res, evs = loads(io)
    s, pre = c["s"], c["loc"]
    if c["cp"]:
        while pre < len(s) and s[pre] in " \t\n\r":
            pre += 1
    acts = [ev for ev in evs if ev[0] == "a"]
    for ev in acts:
        if ev[2] != pre:
            return (f"action {ev[1]} of Literal('a') (debug settings: {c['mode']}) was called with loc={ev[2]}; the match "
                    f"starts at {pre} after skipping from {c['loc']} in {s!r}", "PP.ActionGate.action_loc_is_match_start")
    if acts and not (c["da"] or c["cdt"]):
        return (f"actions {[ev[1] for ev in acts]} fired with do_actions=False and no call_during_try (debug settings: "
                f"{c['mode']})", "PP.ActionGate.debug_settings_keep_the_firing_rule")
    res0, evs0 = loads(io_plain)
    if sx(res) != sx(res0) or sx(acts) != sx(evs0):
        return (f"with debug settings {c['mode']}: result {sx(res)}, action calls {sx(acts)}; without: {sx(res0)}, "
                f"{sx(evs0)}", "PP.ActionGate.debug_branch_agrees")
    return None


def check_pnc(ctx, pp, n, tag="pnc", correspond=True):
    cases = gen_pnc_cases(ctx, n, tag)
    lines, impl, mfilter = [], [], []
    n_fail = 0
    for c in cases:
        io, mie = run_pnc_real(pp, c, c["mode"])
        io0, _ = run_pnc_real(pp, c, None)
        impl.append(io)
        dbg = c["mode"] in ("debug", "actions", "both", "null")
        lines.append(sx(Sym("pnc"), c["s"], "a", [[a["id"], Sym(a["kind"])] for a in c["acts"]], bool(c["cdt"]), dbg,
                        c["mode"] in ("fail", "both"), mie, c["loc"], bool(c["da"]), bool(c["cp"])))
        mfilter.append(c["mode"] in ("debug", "null"))  # printing / null callbacks are not observable
        bad = oracle_pnc(c, io, io0)
        if bad and n_fail < 2:
            n_fail += 1
            ctx.fail_input("parse action protocol on an element with debug settings / a fail action", dict(c), bad[0], io,
                           theorem=bad[1], how="harness/props/c13.py run_pnc_real(case, case['mode'])")
    if not correspond:
        ctx.count_cases("search-" + tag, len(cases))
        return []
    mouts = []
    for mo, drop, c in zip(ctx.driver.run_sharded(lines), mfilter, cases):
        try:
            res, evs = loads(mo)
            shapes = {a["id"]: a["shape"] for a in c["acts"]}
            evs = [ev for ev in evs if not (drop and ev[0] in ("try", "match", "dfail"))]
            mouts.append(sx([res, evs]))
        except Exception:  # noqa
            mouts.append(mo)
    diffs = ctx.correspond(tag, [dict(c) for c in cases], lines, impl, model_outputs=mouts,
                           outcome_of=lambda c, o: f"{c['mode']}/{'da' if c['da'] else 'try'}")
    return [cases[i] for i in diffs]


# ---- operation histories on one element: the live attributes against PP.ActionGate.runOps ---------------------
def gen_ops_cases(ctx, n, tag="gate-ops"):
    rng = ctx.subrng(tag)
    g = TreeGen(rng)
    cases = []
    for _ in range(n):
        ops = g.history(focus=rng.random() < 0.5)
        if rng.random() < 0.4:
            ops = ops + g.history(focus=rng.random() < 0.5)
        for op in ops:
            for a in op.get("acts", ()):
                a["kind"] = "keep"  # every installed action fires, in order, when the element matches for real
        cases.append((rng.choice(["lit", "word", "and"]), ops))
    return cases


def run_ops_real(pp, base, ops):
    """after every operation: (ids fired by a real match, bool(callDuringTry), ids fired by a trial match)"""
    log = Log()
    e = {"lit": lambda: pp.Literal("a"), "word": lambda: pp.Word("a"),
         "and": lambda: pp.And([pp.Literal("a")])}[base]()
    out = []
    for i in range(len(ops)):
        e = apply_ops(pp, e, ops[i:i + 1], log)
        del log[:]
        try:
            common.with_alarm(5, e.parse_string, "a")
        except common.CaseTimeout:
            raise
        except Exception as x:  # noqa
            log.append(("exc-" + type(x).__name__, 0))
        real = [i_ for i_, _ in log]
        del log[:]
        try:
            common.with_alarm(5, e.try_parse, "a", 0)
        except common.CaseTimeout:
            raise
        except Exception as x:  # noqa
            log.append(("exc-" + type(x).__name__, 0))
        trial = [i_ for i_, _ in log]
        out.append((real, bool(e.callDuringTry), trial))
    return out


def oracle_ops(ops, obs):
    """flag_after_history / acts_after_history / replaced_action_silent_when_trying on the real element"""
    for i, (real, _flag, trial) in enumerate(obs):
        acts, cdt = hist_cfg(ops[: i + 1])
        ids = [a["id"] for a in acts]
        if real != ids:
            return (f"after operation {i} ({ops[i]['op']}) a real match fires the actions {real}, installed are {ids}",
                    "PP.ActionGate.acts_after_history / set_parse_action_replaces")
        if not cdt and trial:
            return (f"after operation {i} ({ops[i]['op']}) the element has no call_during_try in force, yet a trial "
                    f"match (try_parse, do_actions=False) fires {trial}",
                    "PP.ActionGate.replaced_action_silent_when_trying / flag_after_history")
        if cdt and trial != ids:
            return (f"after operation {i} call_during_try is in force, a trial match fires {trial}, expected {ids}",
                    "PP.ActionGate.flag_after_history / add_never_clears")
    return None


def check_ops(ctx, pp, n, tag="gate-ops"):
    cases = gen_ops_cases(ctx, n, tag)
    lines = [sx(Sym("ops"), [op_sexp(op) for op in ops]) for _, ops in cases]
    impl, js = [], []
    n_fail = 0
    for base, ops in cases:
        obs = run_ops_real(pp, base, ops)
        impl.append(sx([[real, flag] for real, flag, _ in obs]))
        js.append({"base": base, "ops": ops})
        bad = oracle_ops(ops, obs)
        if bad and n_fail < 1:
            n_fail += 1
            ctx.fail_input("action configuration after a history of set_/add_ operations", {"base": base, "ops": ops},
                           bad[0], sx([[r, f, t] for r, f, t in obs]), theorem=bad[1],
                           how="harness/props/c13.py run_ops_real(base, ops)")
    diffs = ctx.correspond("gate-ops", js, lines, impl,
                           outcome_of=lambda c, o: "+".join(op["op"] for op in c["ops"][:3]))
    return [cases[i] for i in diffs]


# ================================================================================================
# run
# ================================================================================================
def check_trim(ctx, pp, cfg):
    cases = gen_trim_cases(ctx)
    lines, impl, js = [], [], []
    n_fail = 0
    for c in cases:
        mode, kind, k, behs = c
        obs, acc, is_class = run_real(pp, mode, kind, k, behs)
        lines.append(model_line(mode, cfg, kind, acc, is_class, behs))
        impl.append(sx(obs))
        js.append(_trim_case_json(c))
        bad = oracle_trim(mode, acc, is_class, behs, obs)
        if bad and n_fail < 3:
            n_fail += 1
            ctx.fail_input("parse action protocol broken", _trim_case_json(c), bad[0], sx(obs), theorem=bad[1],
                           signature=bad[2], how="harness/props/c13.py run_real(mode, kind, k, behs)")
    mouts = [project_model(o) for o in ctx.driver.run_sharded(lines)]
    ctx.correspond("trim", js, lines, impl, model_outputs=mouts,
                   nontrivial=lambda c, o: True,
                   outcome_of=lambda c, o: f"{c['mode']}/{c['kind']}")
    return cases


# ---- C-level callables (no Python frame of their own): the `frames = []` branch of the traceback rule --------
def clevel_specs():
    """(name, callable, accepted counts, behaviour per k as model S-expression, expected as_list per value id)"""
    T = [Sym("raise"), Sym("T")]  # TypeError raised by the C code itself: no frame below the wrapper
    return [
        ("int", int, [0, 1, 2], {2: T, 1: T, 0: [Sym("ret"), 0]}, {0: [0]}),
        ("bool", bool, [0, 1], {1: [Sym("ret"), 1], 0: [Sym("ret"), 2]}, {1: [True], 2: [False]}),
        ("str", str, [0, 1, 2, 3], {3: T, 2: T, 1: [Sym("ret"), 3], 0: [Sym("ret"), 4]}, {3: ["['ab']"], 4: [""]}),
        ("itemgetter", operator.itemgetter(0), [1], {1: [Sym("ret"), 5]}, {5: ["ab"]}),
        ("str.join", "-".join, [1], {1: [Sym("ret"), 6]}, {6: ["ab"]}),
        ("object", object, [0], {0: [Sym("ret"), 7]}, {7: "object"}),
    ]


def check_clevel(ctx, pp, cfg):
    cases, lines, impl, mouts = [], [], [], []
    for name, fn, acc, behs, vals in clevel_specs():
        e = pp.Word("ab").set_parse_action(fn)
        obs = []
        for _ in range(2):  # second call exercises the sticky fast path
            try:
                lst = e.parse_string(INPUT).as_list()
                vid = next((v for v, want in vals.items()
                            if lst == want or (want == "object" and len(lst) == 1 and type(lst[0]) is object)), None)
                if vid is not None and lst == TOKS and vals[vid] != TOKS:
                    vid = None
                top = [Sym("returns"), [Sym("replaced"), vid]] if vid is not None else \
                    ([Sym("returns"), Sym("matched")] if lst == TOKS else [Sym("returns"), [Sym("other"), repr(lst)]])
            except BaseException as x:  # noqa
                top = [Sym("raises"), Sym(classify_exc(pp, x))]
            obs.append(top)
        beh_list = [behs.get(k, [Sym("ret"), Sym("none")]) for k in range(4)]
        line = sx(Sym("trim"), Sym("act"), cfg, 3, [False, 0], [acc, beh_list], [acc, beh_list])
        mo = ctx.driver.run([line])[0]
        try:
            mtops = [it[2] for it in loads(mo)]
        except Exception:
            mtops = mo
        cases.append({"callable": name})
        lines.append(line)
        impl.append(sx(obs))
        mouts.append(sx(mtops) if not isinstance(mtops, str) else mtops)
    ctx.correspond("trim-clevel", cases, lines, impl, model_outputs=mouts, outcome_of=lambda c, o: c["callable"])


# ---- the supported single-argument builtins (core.py:209-211, 261-262): called with the tokens only --------
def check_builtins(ctx, pp):
    n = 0
    for b in sorted(pp.core._single_arg_builtins, key=lambda f: f.__name__):
        def canon(fn):
            item = pp.Word("123").add_parse_action(lambda t: int(t[0]))
            e = pp.OneOrMore(item).set_parse_action(fn)
            try:
                r = e.parse_string(" 3 1 2 2").as_list()
                r = [sorted(x) if isinstance(x, (set, frozenset)) else (list(x) if hasattr(x, "__next__") else x)
                     for x in r]
                return ("ok", repr(r))
            except BaseException as x:  # noqa
                return ("exc", type(x).__name__)
        got = canon(b)
        want = canon(lambda t: b(t))  # the documented reading: fn(tokens)
        n += 1
        if got != want:
            ctx.fail_input("supported builtin not called with the tokens only", {"builtin": b.__name__}, want, got,
                           theorem="_single_arg_builtins short-cut == lambda s, l, t: func(t) (oracle only)")
    ctx.count_cases("oracle-builtins", n, distinct_keys=[b.__name__ for b in pp.core._single_arg_builtins])


def _tup(x):
    """a gate tree back from JSON"""
    return tuple(_tup(y) if isinstance(y, list) and y and isinstance(y[0], str) else y for y in x)


def replay_witnesses(ctx, pp, cfg):
    """corpus: registered witnesses run first"""
    if not CORPUS.exists():
        return
    for p in sorted(CORPUS.glob("*.json")):
        w = json.loads(p.read_text())
        if w.get("stream") == "nest":
            c = _nest_case_of(w)
            obs, oacc, o_is_class, iacc, i_is_class, clevel = run_nest_real(pp, *c)
            bad = oracle_nest(c[0], oacc, o_is_class, iacc, i_is_class, clevel, c[4], obs)
            ctx.count_cases("corpus", 1, distinct_keys=[p.name], samples=[{"witness": p.name, "impl": sx(obs)}])
            if bad:
                ctx.fail_input("nested parse action: exception not propagated unchanged (corpus witness)",
                               {**_nest_case_json(c), "file": p.name}, bad[0], sx(obs), theorem="PP.TrimArity." + bad[1])
            line = nest_model_line(cfg, c[0], c[1], oacc, o_is_class, c[3], iacc, i_is_class, clevel, c[4])
            ctx.correspond("corpus-nest", [_nest_case_json(c)], [line], [sx(obs)],
                           model_outputs=[project_nest(ctx.driver.run([line])[0], c[0], c[3][0] == "c")])
            continue
        if w.get("stream") == "ops":
            obs = run_ops_real(pp, w["base"], w["ops"])
            bad = oracle_ops(w["ops"], obs)
            ctx.count_cases("corpus", 1, distinct_keys=[p.name], samples=[{"witness": p.name}])
            if bad:
                ctx.fail_input("action configuration after a history of set_/add_ operations (corpus witness)",
                               {"base": w["base"], "ops": w["ops"], "file": p.name}, bad[0],
                               sx([[r, f, t] for r, f, t in obs]), theorem=bad[1])
            ctx.correspond("corpus-ops", [{"base": w["base"], "ops": w["ops"]}],
                           [sx(Sym("ops"), [op_sexp(op) for op in w["ops"]])],
                           [sx([[real, flag] for real, flag, _ in obs])])
            continue
        if w.get("stream") == "gate":
            t = _tup(w["tree"])
            bad, io = None, ""
            for via in (False, True):
                io, log = run_gate_real(pp, t, w["s"], w["da"], via_parse_string=via and w["da"])
                bad = bad or oracle_gate(t, w["s"], w["da"], log)
            bad = bad or oracle_dbg(pp, t, w["s"], w["da"])
            ctx.count_cases("corpus", 1, distinct_keys=[p.name], samples=[{"witness": p.name, "impl": io}])
            if bad:
                ctx.fail_input("parse action protocol / firing rule broken (corpus witness)",
                               {"tree": w["tree"], "s": w["s"], "da": w["da"], "file": p.name}, bad[0],
                               bad[2] if len(bad) > 2 else io, theorem=bad[1])
            line = sx(Sym("gate"), tree_sexp(t), w["s"], bool(w["da"]))
            io0, _ = run_gate_real(pp, t, w["s"], w["da"])
            ctx.correspond("corpus-gate", [{"tree": sx(tree_sexp(t)), "s": w["s"], "da": w["da"]}], [line], [io0],
                           model_outputs=[project_gate(ctx.driver.run([line])[0], acts_of(t))])
            continue
        if w.get("stream") != "trim":
            continue
        behs = [tuple(b) for b in w["behs"]]
        obs, acc, is_class = run_real(pp, w["mode"], w["kind"], w["k"], behs)
        bad = oracle_trim(w["mode"], acc, is_class, behs, obs)
        ctx.count_cases("corpus", 1, distinct_keys=[p.name], samples=[{"witness": p.name, "impl": sx(obs)}])
        if bad:
            ctx.fail_input("parse action protocol broken (corpus witness)", {**w, "file": p.name}, bad[0], sx(obs),
                           theorem=bad[1], signature=bad[2] or w.get("signature"))
        # the model must predict what the code does on the witness too
        line = model_line(w["mode"], cfg, w["kind"], acc, is_class, behs)
        mo = project_model(ctx.driver.run([line])[0])
        ctx.correspond("corpus-trim", [w], [line], [sx(obs)], model_outputs=[mo])


# ---- C-level callables: the supported single-argument builtins, and builtins / builtin methods of other arities -------
def builtin_cases(pp):
    """(name, grammar factory, input, expected as_list / probe) — expected values are computed from the documented
    protocol: the callable receives the trailing k of (s, loc, toks) it accepts; None keeps, anything else replaces"""
    nums = lambda: pp.Word("0123456789").add_parse_action(lambda t: int(t[0]))
    many = lambda: nums()[1, ...]
    out = []
    text = "  3 1 2"
    for f, exp in [(sum, [6]), (len, [3]), (sorted, [1, 2, 3]), (list, [3, 1, 2]), (tuple, [(3, 1, 2)]), (max, [3]), (min, [1]),
                   (any, [True]), (all, [True]), (set, [{1, 2, 3}])]:
        out.append((f"supported builtin {f.__name__}", (lambda f=f: many().add_parse_action(f)), text, exp, None))
    # `reversed` returns an iterator: whatever the library makes of it, it is called with the tokens only
    # builtin METHODS / functions accepting other argument counts (not in the supported set): trailing-k protocol
    out.append(("str.format with three fields (a varargs builtin method: all of s, loc, toks)",
                lambda: pp.Word("ab").add_parse_action("{1}:{2[0]}:{0}".format), "  ab", ["2:ab:  ab"], None))
    d = {}
    out.append(("dict.setdefault (a two-argument builtin method: loc, toks; returns the tokens)",
                lambda: pp.Word("ab").add_parse_action(d.setdefault), "  ab", ["ab"], (d, {2: ["ab"]})))
    lst = []
    out.append(("list.append (a one-argument builtin method: toks; returns None)",
                lambda: pp.Word("ab").add_parse_action(lst.append), "  ab", ["ab"], (lst, [["ab"]])))
    return out


def check_builtins(ctx, pp):
    n = 0
    for name, mk, s, exp, probe in builtin_cases(pp):
        n += 1
        try:
            got = mk().parse_string(s, parse_all=True).as_list()
        except Exception as ex:  # noqa: BLE001
            got = f"{type(ex).__name__}: {ex}"
        side = None
        if probe is not None:
            box, want = probe
            lst_ = lambda v: list(v) if isinstance(v, (list, tuple, pp.ParseResults)) else repr(v)
            seen = {k: lst_(v) for k, v in box.items()} if isinstance(box, dict) else [lst_(v) for v in box]
            if seen != want:
                side = (seen, want)
        if got != exp or side:
            ctx.fail_input(f"C-level callable as parse action: {name}", {"builtin": name, "input": s},
                           {"as_list": repr(exp), "side_effect": repr(side[1]) if side else None},
                           {"as_list": repr(got), "side_effect": repr(side[0]) if side else None},
                           theorem="PP.TrimArity.called_once_with_trailing_args (oracle only: C-level callables are outside "
                                   "the abstract callable class)", how="harness.props.c13.check_builtins")
    ctx.count_cases("oracle:builtin-callables", n)


# ------------------------------------------------------------------------------------------------
# directed protocol cases (real code only; expectations constructed from the statement):
#   (a) a callable whose OWN signature differs from what introspection of a wrapped function would suggest
#       (functools.wraps sets __wrapped__): it is called with the trailing arguments IT accepts;
#   (b) SkipTo(target, include=...): while scanning, actions inside the target do not run; with include=True they run
#       once, for the target match that is returned, at its location; with include=False not at all.
# ------------------------------------------------------------------------------------------------
def directed_cases():
    import functools
    import re as _re
    out = []

    def wraps_case(own, inner_arity):
        def build(pp):
            def inner3(s, l, t):
                return [str(t[0]) + "!"]

            def inner1(t):
                return [str(t[0]) + "!"]

            def inner0():
                return ["!"]

            base = {3: inner3, 1: inner1, 0: inner0}[inner_arity]
            calls = []
            if own == 3:
                @functools.wraps(base)
                def deco(s, l, t):
                    calls.append(3)
                    return [str(t[0]) + "?"]
            elif own == 2:
                @functools.wraps(base)
                def deco(l, t):
                    calls.append(2)
                    return [str(t[0]) + "?"]
            elif own == 1:
                @functools.wraps(base)
                def deco(t):
                    calls.append(1)
                    return [str(t[0]) + "?"]
            else:
                @functools.wraps(base)
                def deco():
                    calls.append(0)
                    return ["?"]
            e = pp.Word("ab").set_parse_action(deco)
            c = pp.Word("ab").add_condition(functools.wraps(base)(
                {3: lambda s, l, t: True, 2: lambda l, t: True, 1: lambda t: True, 0: lambda: True}[own]))
            got = []
            for x in (e, c):
                for _ in range(2):     # first call (arity search) and a later call (sticky arity)
                    try:
                        got.append(x.parse_string("ab").as_list())
                    except Exception as ex:  # noqa
                        got.append(f"{type(ex).__name__}: {ex}"[:80])
            want = [["ab?"] if own else ["?"]] * 2 + [["ab"]] * 2
            return want, got
        return (f"functools.wraps: own arity {own} over a wrapped function of arity {inner_arity}", build)

    for own in (0, 1, 2, 3):
        for inner_arity in (0, 1, 3):
            if own != inner_arity:
                out.append(wraps_case(own, inner_arity))

    def skipto_case(include, text, shape):
        def build(pp):
            log = []
            num = pp.Word("0123456789").add_parse_action(lambda s, l, t: log.append((l, t[0])))
            if shape == "seq":
                target = num + pp.Literal(";")
                rx = _re.compile(r"\d+[ \t]*;")
            elif shape == "group":
                target = pp.Group(num + pp.Literal(";"))
                rx = _re.compile(r"\d+[ \t]*;")
            else:
                target = num + pp.FollowedBy(pp.Literal("!")) + pp.Literal("!")
                rx = _re.compile(r"\d+[ \t]*!")
            e = pp.SkipTo(target, include=include)
            m = rx.search(text)
            try:
                e.parse_string(text)
                ok = True
            except pp.ParseBaseException:
                ok = False
            if m is None:
                want = []
            else:
                want = [(m.start(), _re.match(r"\d+", text[m.start():]).group())] if include else []
            # a run of digits is entered at its first digit only (Word is greedy), so the returned match starts there
            return want, (log if ok == (m is not None) else f"parse {'succeeded' if ok else 'failed'} unexpectedly; log {log}")
        return (f"SkipTo(include={include}, target {shape}) on {text!r}", build)

    for include in (True, False):
        for shape in ("seq", "group", "lookahead"):
            for text in ("a 1 b 22; rest", "1 2 3;", "x 7 ! 8!", "12 ;", "no match 5", "9 9! 10 ;"):
                out.append(skipto_case(include, text, shape))
    return out


def check_directed(ctx, pp):
    n = bad = 0
    cases = directed_cases()
    for desc, build in cases:
        n += 1
        try:
            want, got = common.with_alarm(5, build, pp)
        except common.CaseTimeout:
            want, got = "returns", "does not return"
        if got != want and bad < 3:
            bad += 1
            thm = "PP.ActionGate.skipTo_scan_fires_nothing / skipTo_without_include_is_silent" if desc.startswith("SkipTo") \
                else "PP.TrimArity.called_once_with_trailing_args"
            ctx.fail_input("parse action protocol (directed case)", {"directed": desc}, want, got, theorem=thm)
    ctx.count_cases("oracle:directed-protocol", n, distinct_keys=[d for d, _ in cases], outcomes={"cases": n, "problems": bad})


def run(ctx):
    pp = common.import_pyparsing()
    facts = live_facts(pp)
    cfg = cfg_sexp(facts)
    ctx.notes["live_facts"] = {k: (str(v) if k.endswith("file") else v) for k, v in facts.items()}
    ok = ctx.proof_leg("PPProofs.Props.C13", THEOREMS,
                       generated={"PPProofs/Props/Gen/TrimArity.lean": gen_lean(facts)},
                       extra_modules=("PPProofs.Props.C13Gate",))
    ctx.obligation("generated fact: pa_call_line_synth == (file, line) of the frame calling the action "
                   "(consumed by PP.TrimArity.live_call_line)",
                   facts["synth_file"] == facts["call_file"] and facts["synth_line"] == facts["call_line"]
                   and facts["max_limit"] == 3,
                   json.dumps(ctx.notes["live_facts"]))
    ctx.rule.append(
        "trim: 3 modes (set_parse_action, add_condition, add_condition fatal) x 13 callable kinds x arity 0..4 x "
        "{return None/same/value | raise TypeError (explicit, bad call) / IndexError (+subclass) / ParseException / "
        "ParseFatalException / ParseSyntaxException / ValueError / KeyError at depth 0,1,2}, plus random 2-4 "
        "invocation sequences on one wrapper, including IndexError raised after an earlier call returned (the region "
        "of the fixed finding indexerror_after_arity_found, also replayed from corpus/C13 first); every case is "
        "non-trivial (one real parse_string per invocation)")
    ctx.rule.append(
        "pnc: one _parse call of Literal('a') carrying actions / conditions x {no debug settings, set_debug(True), "
        "set_debug_actions(logging), set_debug_actions(null), set_fail_action, both} x leading blanks / tabs / newlines / "
        "CR x do_actions x callPreParse x call_during_try; the full event order (actions, debug_try / _match / _fail, fail "
        "action, each with its loc) is compared with PP.ActionGate.parseNoCache; gate-dbg (and 8% of the decorated nodes "
        "of gate / gate-hist): the same debug settings on the elements that carry the actions inside every trial "
        "construct, inputs with blanks / tabs / newlines; oracle = the grammar with and without the debug settings gives "
        "the same result and (id, loc) trace under try_parse, parse_string, packrat on/off and with '#' ignorables, and an "
        "action on a Literal gets the index its character is at")
    ctx.rule.append(
        "nest: 6 nesting scenarios (inner_expr.parse_string in the body of 19 outer callables, the same with an inner "
        "condition, trace_parse_action, condition_as_parse_action (+fatal), OnlyOnce) x inner actions that cannot be "
        "called at all (4+ parameters, required keyword-only, ord) systematically + random inner kinds / behaviours, "
        "1-3 invocations on the same pair of wrappers; observed: outer body runs, inner body runs, class AND identity "
        "of what leaves parse_string; gate-hist / gate-ops: elements configured through random histories of "
        "set_parse_action / add_parse_action / add_condition / set_parse_action(None) / copy / results name, each with "
        "or without call_during_try (both spellings; set_parse_action(None) while the flag is set included since the "
        "fix 7688521, also replayed from corpus/C13 first), matched inside every trial construct resp. compared attribute by "
        "attribute (fired ids on a real match, callDuringTry, fired ids on try_parse) after every operation")
    replay_witnesses(ctx, pp, cfg)
    check_trim(ctx, pp, cfg)
    seeds = {}
    seeds["nest"] = check_nest(ctx, pp, cfg, gen_nest_cases(ctx, ctx.budget(3000, 40000)))
    check_clevel(ctx, pp, cfg)
    check_builtins(ctx, pp)
    check_directed(ctx, pp)
    # elements configured through histories of set_parse_action / add_parse_action / add_condition / copy
    seeds["gate-ops"] = check_ops(ctx, pp, ctx.budget(800, 10000))
    hist_cases = gen_gate_cases(ctx, tag="gate-hist", n=ctx.budget(600, 8000), p_hist=1.0, p_focus=0.7,
                                depths=(1, 1, 2, 2, 3))
    hist_cases.sort(key=lambda c: len(sx(tree_sexp(c[0]))))  # small grammars first: the first failing input is readable
    seeds["gate-hist"] = check_gate(ctx, pp, stream="gate-hist", cases=hist_cases, max_fail=2)
    seeds["gate"] = check_gate(ctx, pp)
    # elements with set_debug / set_debug_actions / set_fail_action: the debugging branch of _parseNoCache
    seeds["pnc"] = check_pnc(ctx, pp, ctx.budget(1500, 20000))
    seeds["gate-dbg"] = check_gate(ctx, pp, stream="gate-dbg", cases=gen_gate_cases(
        ctx, tag="gate-dbg", n=ctx.budget(350, 4000), p_hist=0.3, p_focus=0.35, p_dbg=0.75, vary_ws=True,
        depths=(1, 1, 2, 2, 3)), dbg_configs=DBG_CONFIGS)
    # "an action fires only for the match that is actually returned" with memoization on: a container with call_during_try
    # over children with ordinary token-changing actions, trial-parsed and then really parsed at one location (oracle only;
    # templates shared with C02)
    from . import c02
    c02.run_oracle(ctx, "oracle:trial-then-real-under-packrat", c02.trykey_jobs(ctx, ctx.budget(200, 2000), tag="C13"),
                   what="with packrat enabled the returned match does not carry the results of its elements' parse actions "
                        "(the trial parse's result was served for the real parse)",
                   theorem="PP.ActionGate.fired_ids_firable (real parse: every action of the returned match fires) / oracle only")
    check_builtins(ctx, pp)
    outside_class_note(ctx, pp)
    if ctx.broken and not ctx.fail_inputs:
        deep_search(ctx, pp, cfg, seeds)
    ctx.assumptions.append("C13: CPython traceback layout (binding failure has no callee frame) is assumed by the model "
                           "and validated only by the correspondence run")


def outside_class_note(ctx, pp):
    """informational only: an element's already wrapped parseAction entries given to set_parse_action again make the
    action a `_trim_arity` wrapper (its frame IS the call line): outside the claimed class of callables (META.note),
    never generated, never reported"""
    calls = []

    def act(*a):
        calls.append(len(a))
        raise TypeError("boom")

    a = pp.Word("ab").set_parse_action(act)
    b = pp.Word("ab").set_parse_action(*a.parseAction)
    try:
        b.parse_string("ab")
    except BaseException:  # noqa
        pass
    ctx.notes["outside_claimed_class"] = {
        "history": "b.set_parse_action(*a.parseAction)  # def act(*a): raise TypeError", "body_runs": list(calls)}


def deep_search(ctx, pp, cfg, seeds):
    """a proof obligation or a correspondence broke and the streams above met no failing input: look for one with a
    bigger budget (oracles only), first around the cases on which model and code disagreed"""
    ctx.notes["deep_search"] = {k: len(v) for k, v in seeds.items()}
    # nested wrappers: every outer kind x every inner action that cannot be called x every scenario, longer sequences
    rng = ctx.subrng("deep")
    more = list(seeds.get("nest", []))[:200]
    for c in list(more):
        scen, okind, ok, ispec, invs = c
        more.append((scen, okind, ok, ispec, invs + invs))
    more += gen_nest_cases(ctx, ctx.budget(6000, 20000), tag="nest-deep")
    check_nest(ctx, pp, cfg, more, stream="search-nest", correspond=False)
    if ctx.fail_inputs:
        return
    # histories: every diffing tree again through parse_string and with the other do_actions, plus a bigger focused run
    n_fail = 0
    trees = [(t, s, da2) for t, s, da in list(seeds.get("gate-hist", []))[:300] + list(seeds.get("gate", []))[:300]
             for da2 in (True, False)]
    trees += gen_gate_cases(ctx, tag="gate-deep", n=ctx.budget(1500, 6000), p_hist=1.0, p_focus=0.9, depths=(1, 1, 2, 2))
    for t, s_, da in trees:
        for via in ((False, True) if da else (False,)):
            io, log = run_gate_real(pp, t, s_, da, via_parse_string=via)
            bad = oracle_gate(t, s_, da, log)
            if bad and n_fail < 3:
                n_fail += 1
                ctx.fail_input("action fired during trial matching", {"tree": t, "s": s_, "da": da}, bad[0], io,
                               theorem=bad[1], how="harness/props/c13.py run_gate_real(tree, s, da)")
    ctx.count_cases("search-gate", len(trees))
    if ctx.fail_inputs:
        return
    # debug settings: the diffing cases again under every configuration, then a bigger run
    check_pnc(ctx, pp, ctx.budget(4000, 12000), tag="pnc-deep", correspond=False)
    n_d = 0
    for t, s_, da in list(seeds.get("gate-dbg", []))[:300] + [c for c in trees if has_dbg(c[0])][:300] + gen_gate_cases(
            ctx, tag="gate-dbg-deep", n=ctx.budget(300, 1500), p_dbg=0.9, vary_ws=True, depths=(1, 1, 2, 2)):
        n_d += 1
        badd = oracle_dbg(pp, t, s_, da)
        if badd and n_fail < 3:
            n_fail += 1
            ctx.fail_input("parse action protocol differs on an element with debug settings / a fail action",
                           {"tree": t, "s": s_, "da": da, "config": badd[3]}, badd[0], badd[2], theorem=badd[1],
                           how="harness/props/c13.py oracle_dbg(tree, s, da)")
    ctx.count_cases("search-gate-dbg", n_d)
    if ctx.fail_inputs:
        return
    for base, ops in list(seeds.get("gate-ops", []))[:300] + gen_ops_cases(ctx, ctx.budget(3000, 10000), tag="ops-deep"):
        bad = oracle_ops(ops, run_ops_real(pp, base, ops))
        if bad and n_fail < 3:
            n_fail += 1
            ctx.fail_input("action configuration after a history of set_/add_ operations", {"base": base, "ops": ops},
                           bad[0], "", theorem=bad[1], how="harness/props/c13.py run_ops_real(base, ops)")
    # the single-wrapper stream with longer sequences
    rng2 = ctx.subrng("trim-deep")
    n_t = 0
    for _ in range(ctx.budget(3000, 10000)):
        mode = rng2.choice(["act", "cond", "condfatal"])
        rets = RETS_ACT if mode == "act" else RETS_COND
        kind, k = rng2.choice(KINDS), rng2.randrange(5)
        if kind == "varargs" and k > 3:
            continue
        behs = [rng2.choice(rets + raises()) for _ in range(rng2.randint(3, 6))]
        behs = [("ret", "none") if (b == ("ret", "same") and k == 0) else b for b in behs]
        obs, acc, is_class = run_real(pp, mode, kind, k, behs)
        n_t += 1
        bad = oracle_trim(mode, acc, is_class, behs, obs)
        if bad and n_fail < 3:
            n_fail += 1
            ctx.fail_input("parse action protocol broken", _trim_case_json((mode, kind, k, behs)), bad[0], sx(obs),
                           theorem=bad[1], signature=bad[2], how="harness/props/c13.py run_real(mode, kind, k, behs)")
    ctx.count_cases("search-trim", n_t)


def replay(data):
    pp = common.import_pyparsing()
    case = data.get("case", {})
    if "scenario" in case:
        c = _nest_case_of(case)
        obs, oacc, o_is_class, iacc, i_is_class, clevel = run_nest_real(pp, *c)
        return oracle_nest(c[0], oacc, o_is_class, iacc, i_is_class, clevel, c[4], obs) is not None
    if "directed" in case:
        want, got = dict(directed_cases())[case["directed"]](pp)
        return want != got
    if "builtin" in case:
        c2 = common.Ctx("C13", "quick", 0)
        check_builtins(c2, pp)
        return bool(c2.fail_inputs)
    if "prog" in case and "root" in case:
        from . import c02
        return bool(c02.oracle_job(dict(prog=case["prog"], root=case["root"], inputs=[case["input"]]))[1])
    if "tree" in case:
        t = _tup(case["tree"])
        _, log = run_gate_real(pp, t, case["s"], case["da"])
        bad = oracle_gate(t, case["s"], case["da"], log)
        if not bad and case["da"]:
            _, log = run_gate_real(pp, t, case["s"], True, via_parse_string=True)
            bad = oracle_gate(t, case["s"], True, log)
        return bad is not None or oracle_dbg(pp, t, case["s"], case["da"]) is not None
    if "mode" in case and "cp" in case:
        return oracle_pnc(case, run_pnc_real(pp, case, case["mode"])[0], run_pnc_real(pp, case, None)[0]) is not None
    if "ops" in case:
        return oracle_ops(case["ops"], run_ops_real(pp, case["base"], case["ops"])) is not None
    if "behs" in case:
        behs = [tuple(b) for b in case["behs"]]
        obs, acc, is_class = run_real(pp, case["mode"], case["kind"], case["k"], behs)
        return oracle_trim(case["mode"], acc, is_class, behs, obs) is not None
    ctx = common.Ctx("C13", "quick", data.get("seed", 0))
    run(ctx)
    return bool(ctx.broken or ctx.fail_inputs)
