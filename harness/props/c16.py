"""C16 — infix_notation honours precedence, associativity and arity.

proof:           lean/PPProofs/Props/C16.lean, C16Left.lean and C16Gen.lean about lean/PPModel/Mod/Infix.lean: `infixGrammar tbl` (the node table
                 infix_notation builds, after streamline) parsed by `parseX` (the shared parse model + the captive `_FB`
                 lookahead class) yields `nest tbl t` on `render tbl t`, for ALL trees t in normal form (see META).
tie:             (S) structure: the node table extracted from the LIVE infix_notation(...) object is compared, up to
                     node numbering and with every attribute, with `infixGrammar tbl` (driver command infixg);
                 (B) behaviour: parseX on the extracted live table vs the real parse_string(parse_all=True), memoization
                     off and packrat, on rendered trees, mutated and ill-formed strings (driver command ppx);
                 (M) behaviour of `infixGrammar tbl` itself vs the real code (driver command infixp);
                 (N) the theorem's right-hand side: `render`/`nest` computed by Lean vs as_list() of the real parse.
search (oracle): an independent Python tokenizer + precedence-climbing parser/evaluator over the same operator table;
                 nesting and evaluated value compared with the real infix_notation, with and without packrat.
"""
from __future__ import annotations

import json
import random

from .. import common, corr_parse, gram
from ..sexp import Sym, dumps, loads

META = dict(
    text="Lean theorem PP.Infix.infix_roundtrip_general_partial (PPProofs/Props/C16Gen.lean), for ALL operator tables of class G "
         "with ANY number of levels (in any order) and ALL expression trees of ALL sizes in the table's normal form, written "
         "with arbitrary blanks before every token and trailing blanks: parse_string(parse_all=True) of the model parser "
         "(shared parse model + the captive _FB lookahead) on infixGrammar(table) returns exactly [nest table tree] for every "
         "fuel from some point on - tighter levels nest inside looser ones, a LEFT-associative chain a op b op c is ONE flat "
         "group [a, op, b, op, c], a POSTFIX chain a op op is ONE flat group [a, op, op] (chains of any length; loop "
         "induction over manyLoop), right-associative chains nest to the right, a RIGHT-associative ternary a op1 b op2 c "
         "is one group of five nesting to the right, a LEFT-associative ternary chain a op1 b op2 c op1 d op2 e is ONE flat "
         "group, prefix operators stack, parentheses override "
         "all; a kept (non-Suppress) lpar/rpar gives the group [lpar?, inner, rpar?], suppressed ones leave no trace. "
         "Class G: operand Word(cs); lpar and rpar each suppressed or kept; every level a LEFT- or RIGHT-associative binary, "
         "a prefix, a postfix or a LEFT- or RIGHT-associative ternary operator without parse action (all six kinds L1 L2 L3 R1 R2 "
         "R3); spellings non-empty, not starting "
         "with a blank or operand character, first operators pairwise prefix-incomparable, a ternary level's second operator "
         "prefix-incomparable with every first operator. The earlier statements are kept and are instances: "
         "PP.Infix.infix_roundtrip_left_partial (C16Left.lean; class TL = G without postfix levels, suppressed parentheses; "
         "infix_roundtrip_general_covers_left) and PP.Infix.infix_roundtrip_partial (C16.lean; class T = TL without "
         "LEFT-associative levels; infix_roundtrip_left_covers_right). infix_roundtrip_post_partial spells the conclusion "
         "out for a postfix application. Supporting theorems: Gen.post_parse/Gen.goal_post (the _FB(last + op) lookahead "
         "succeeds, Group(last + op[1,...]) collects every operator and stops where the literal does not match), "
         "Gen.chain_parse/Gen.goal_binL (left-associative chains), Gen.goal_paren (all four suppress/keep combinations), "
         "Gen.goal_lift (a tighter tree passes through a looser level of any of the six kinds unchanged: the _FB lookahead "
         "fails), Gen.goal_atom/goal_pre/goal_binR/goal_ternR, Gen.goal_ternL/tern_parse/t_nest, Gen.p_nest, Left.chain_nest. "
         "PARTIAL - NOT proved, covered by the correspondence legs and the independent precedence-climbing oracle only: "
         "level parse actions, overlapping spellings (<, <=, *, **), ill-formed strings, evaluation (a corollary of the "
         "nesting) and packrat (C02's packrat_transparent covers the shared model, not parseStepX/_FB; packrat is compared on "
         "the real code on every case).",
    note="Trusted: Lean kernel; axioms propext/Classical.choice/Quot.sound; the shared parse model + parseStepX (_FB), "
         "validated differentially on every run against the live objects; infixGrammar is the POST-streamline shape and is "
         "compared with the live object graph on every run (node numbering and len(str(e)) excepted).",
    technique="Lean 4 proof over a transcribed grammar constructor and parse model; structure + behaviour correspondence; "
              "independent precedence-climbing oracle on the real code",
    design="§5 C16",
)

THEOREMS = [
    "PP.Infix.infix_roundtrip_partial",
    "PP.Infix.goal_all",
    "PP.Infix.lift_all",
    "PP.Infix.goal_lift",
    "PP.Infix.goal_atom",
    "PP.Infix.goal_paren",
    "PP.Infix.goal_pre",
    "PP.Infix.goal_binR",
    # LEFT-associative binary levels (PPProofs/Props/C16Left.lean, PPProofs/Lemmas/InfixLeft.lean)
    "PP.Infix.infix_roundtrip_left_partial",
    "PP.Infix.infix_roundtrip_left_covers_right",
    "PP.Infix.Left.goal_all",
    "PP.Infix.Left.lift_all",
    "PP.Infix.Left.goal_binL",
    "PP.Infix.Left.chain_parse",
    "PP.Infix.Left.chain_nest",
    "PP.Infix.Left.goal_lift",
    "PP.Infix.Left.goal_atom",
    "PP.Infix.Left.goal_paren",
    "PP.Infix.Left.goal_pre",
    "PP.Infix.Left.goal_binR",
    # POSTFIX levels and kept parentheses (PPProofs/Props/C16Gen.lean, PPProofs/Lemmas/InfixGen.lean)
    "PP.Infix.infix_roundtrip_general_partial",
    "PP.Infix.infix_roundtrip_general_covers_left",
    "PP.Infix.infix_roundtrip_post_partial",
    "PP.Infix.Gen.goal_all",
    "PP.Infix.Gen.lift_all",
    "PP.Infix.Gen.goal_post",
    "PP.Infix.Gen.post_parse",
    "PP.Infix.Gen.p_nest",
    "PP.Infix.Gen.goal_binL",
    "PP.Infix.Gen.chain_parse",
    "PP.Infix.Gen.goal_lift",
    "PP.Infix.Gen.goal_atom",
    "PP.Infix.Gen.goal_paren",
    "PP.Infix.Gen.goal_pre",
    "PP.Infix.Gen.goal_binR",
    "PP.Infix.Gen.goal_ternR",
    "PP.Infix.Gen.goal_ternL",
    "PP.Infix.Gen.tern_parse",
    "PP.Infix.Gen.t_nest",
]

WS_DEFAULT = " \t\n\r"

# ---------------------------------------------------------------------------------------------------------------
# operator tables
#   tbl = dict(base=<Word chars>, levels=[dict(arity, right, op1, op2, acts)], lpar, rpar, lsup, rsup)
# ---------------------------------------------------------------------------------------------------------------
SYM_POOL = ["+", "-", "*", "/", "^", "!", "~", "<", ">", "=", "&", "|", "%", "@", "?", ":", "<>", "&&", "||", "==",
            "!=", "->", "::", "**", "<=", ">=", "--", "<<", ">>", "<-", "=>"]
WORD_OPS = ["and", "or", "not", "xor", "mod"]


def level_kind(lv):
    return ("R" if lv["right"] else "L") + str(lv["arity"])


def spellings(tbl):
    out = [tbl["lpar"], tbl["rpar"]]
    for lv in tbl["levels"]:
        out.append(lv["op1"])
        if lv["arity"] == 3:
            out.append(lv["op2"])
    return out


def is_prefix(a, b):
    return b.startswith(a)


def class_T(tbl):
    """the class the theorem quantifies over: spellings non-empty, start with a non-blank that is not an operand
    character, and are pairwise prefix-incomparable (in particular distinct)"""
    sp = spellings(tbl)
    for x in sp:
        if not x or x[0] in WS_DEFAULT or x[0] in tbl["base"]:
            return False
    for i, x in enumerate(sp):
        for j, y in enumerate(sp):
            if i != j and is_prefix(x, y):
                return False
    return bool(tbl["base"]) and not (set(tbl["base"]) & set(WS_DEFAULT)) and tbl["lsup"] and tbl["rsup"] \
        and not any(lv["acts"] for lv in tbl["levels"])


def postfix_shadow(tbl):
    """signature region of the registered finding `postfix_op_prefix_of_longer_operator`: a postfix (arity 1, LEFT)
    operator whose spelling is a proper prefix of another operator/paren spelling of the table"""
    sp = spellings(tbl)
    for lv in tbl["levels"]:
        if level_kind(lv) == "L1" and any(x != lv["op1"] and x.startswith(lv["op1"]) for x in sp):
            return True
    return False


def prefix_shadow(tbl):
    """signature region of `prefix_op_prefix_of_longer_prefix_op`: a prefix (arity 1, RIGHT) operator whose spelling is
    a proper prefix of another prefix operator's spelling or of lpar"""
    pre = [lv["op1"] for lv in tbl["levels"] if level_kind(lv) == "R1"]
    for p in pre:
        if any(x != p and x.startswith(p) for x in pre + [tbl["lpar"]]):
            return True
    return False


def infix_shadow(tbl):
    """signature region of `infix_op_prefix_and_remainder_starts_operand`: an operator met in operator position (binary,
    ternary, postfix) whose spelling `a` is a proper prefix of another spelling `b`, where the remainder b[len(a):] can
    begin an operand (it is prefix-comparable with a prefix operator or lpar, or starts with an operand character)"""
    starts = [lv["op1"] for lv in tbl["levels"] if level_kind(lv) == "R1"] + [tbl["lpar"]]
    inop = []
    for lv in tbl["levels"]:
        if level_kind(lv) != "R1":
            inop.append(lv["op1"])
            if lv["arity"] == 3:
                inop.append(lv["op2"])
    for a in inop:
        for b in spellings(tbl):
            if b != a and b.startswith(a):
                r = b[len(a):]
                if r[0] in tbl["base"] or any(x.startswith(r) or r.startswith(x) for x in starts):
                    return True
    return False


def gen_table(rng, overlapping=False, max_levels=6, acts=False, kinds=None, pars=False):
    base = rng.choice(["0123456789", "0123456789", "abc", "xyz01"])
    pool = list(SYM_POOL)
    if base == "0123456789" and rng.random() < 0.3:
        pool += WORD_OPS
    n = rng.choice([1, 1, 2, 2, 3, 3, 4, 5, 6][: max(1, min(9, max_levels + 3))])
    n = min(n, max_levels)
    lpar, rpar = rng.choice([("(", ")"), ("(", ")"), ("[", "]"), ("{", "}"), ("<<", ">>")]) if not overlapping else ("(", ")")
    for _ in range(200):
        levels = []
        used = [lpar, rpar]
        ok = True
        for _k in range(n):
            kind = rng.choice(kinds or ["L2", "L2", "L2", "R2", "R2", "R1", "R1", "L1", "L3", "R3"])
            need = 2 if kind[1] == "3" else 1
            ops = []
            for _j in range(need):
                cands = [x for x in pool if x not in used]
                if not overlapping:
                    cands = [x for x in cands if not any(is_prefix(x, u) or is_prefix(u, x) for u in used)]
                if not cands:
                    ok = False
                    break
                o = rng.choice(cands)
                ops.append(o)
                used.append(o)
            if not ok:
                break
            lv = dict(arity=int(kind[1]), right=kind[0] == "R", op1=ops[0], op2=ops[1] if need == 2 else "", acts=[])
            if acts and rng.random() < 0.4:
                lv["acts"] = [rng.choice([["none"], ["rev"], ["dup"], ["const", "K"], ["app", "z"], ["drop"], ["failP"], ["failF"]])]
            levels.append(lv)
        if ok:
            tbl = dict(base=base, levels=levels, lpar=lpar, rpar=rpar, lsup=True, rsup=True)
            if pars:
                tbl["lsup"], tbl["rsup"] = rng.choice([(True, True), (False, False), (False, False), (True, False), (False, True)])
            if any(s[0] in base for s in spellings(tbl)):
                continue
            if postfix_shadow(tbl) or prefix_shadow(tbl) or infix_shadow(tbl):
                continue  # registered finding: only its witness touches that region
            return tbl
    return dict(base="0123456789", levels=[dict(arity=2, right=False, op1="+", op2="", acts=[])], lpar="(", rpar=")",
                lsup=True, rsup=True)


def table_prog(tbl, par_variant=0):
    """the grammar program that builds the table with the real API"""
    levels = []
    for lv in tbl["levels"]:
        op = [lv["op1"], lv["op2"]] if lv["arity"] == 3 else lv["op1"]
        spec = [op, lv["arity"], "R" if lv["right"] else "L"]
        if lv["acts"]:
            spec.append(lv["acts"])
        levels.append(spec)
    lp = (tbl["lpar"] if par_variant == 0 else {"sup": tbl["lpar"]}) if tbl["lsup"] else {"lit": tbl["lpar"]}
    rp = (tbl["rpar"] if par_variant == 0 else {"sup": tbl["rpar"]}) if tbl["rsup"] else {"lit": tbl["rpar"]}
    return [["b", "Word", tbl["base"]], ["x", "infix_notation", "b", levels, {"lpar": lp, "rpar": rp}]], "x"


def act_sexp(tag):
    return [Sym(tag[0])] + list(tag[1:])


def table_sexp(tbl, base_node, white):
    return [white, base_node, tbl["lpar"], tbl["rpar"], bool(tbl["lsup"]), bool(tbl["rsup"]),
            [[lv["arity"], bool(lv["right"]), lv["op1"], lv["op2"], [act_sexp(a) for a in lv["acts"]]] for lv in tbl["levels"]]]


# ---------------------------------------------------------------------------------------------------------------
# trees: ("atom", ws, w) ("paren", wl, e, wr) ("pre", k, wo, e) ("post", k, e, wo) ("bin", k, a, wo, b)
#        ("tern", k, a, w1, b, w2, c)   — k is the 1-based level; blanks precede their token
# ---------------------------------------------------------------------------------------------------------------
def gen_ws(rng, must=False):
    r = rng.random()
    if must:
        return rng.choice([" ", " ", "  ", "\t", "\n", " \r\n"]) if r < 0.9 else " "
    if r < 0.45:
        return ""
    if r < 0.85:
        return " "
    return rng.choice(["  ", "\t", "\n", " \t ", "\r\n"])


def gen_tree(rng, tbl, k, budget, ws):
    """a tree of level <= k in the table's normal form; budget bounds the number of operator applications"""
    n = len(tbl["levels"])
    if budget[0] <= 0 or k == 0 or rng.random() < 0.18:
        if k == 0 or rng.random() < 0.7 or budget[0] <= 0:
            if budget[0] > 0 and rng.random() < 0.25:
                budget[0] -= 1
                return ("paren", ws(), gen_tree(rng, tbl, n, budget, ws), ws())
            w = "".join(rng.choice(tbl["base"]) for _ in range(rng.choice([1, 1, 1, 2, 3])))
            return ("atom", ws(), w)
    j = rng.randint(1, k)
    lv = tbl["levels"][j - 1]
    kind = level_kind(lv)
    budget[0] -= 1
    lo = lambda: gen_tree(rng, tbl, j - 1, budget, ws)  # noqa: E731
    same = lambda: gen_tree(rng, tbl, j, budget, ws)  # noqa: E731
    if kind == "R1":
        return ("pre", j, ws(), same())
    if kind == "L1":
        e = lo()
        for _ in range(rng.choice([1, 1, 2, 3])):
            e = ("post", j, e, ws())
        return e
    if kind == "L2":
        e = lo()
        for _ in range(rng.choice([1, 1, 2, 3, 4])):
            e = ("bin", j, e, ws(), lo())
        return e
    if kind == "R2":
        return ("bin", j, lo(), ws(), same())
    if kind == "L3":
        e = lo()
        for _ in range(rng.choice([1, 1, 2])):
            e = ("tern", j, e, ws(), lo(), ws(), lo())
        return e
    return ("tern", j, lo(), ws(), same(), ws(), same())


def tree_tokens(tbl, t, out):
    """[(ws, text)]"""
    tag = t[0]
    lv = tbl["levels"][t[1] - 1] if tag in ("pre", "post", "bin", "tern") else None
    if tag == "atom":
        out.append((t[1], t[2]))
    elif tag == "paren":
        out.append((t[1], tbl["lpar"]))
        tree_tokens(tbl, t[2], out)
        out.append((t[3], tbl["rpar"]))
    elif tag == "pre":
        out.append((t[2], lv["op1"]))
        tree_tokens(tbl, t[3], out)
    elif tag == "post":
        tree_tokens(tbl, t[2], out)
        out.append((t[3], lv["op1"]))
    elif tag == "bin":
        tree_tokens(tbl, t[2], out)
        out.append((t[3], lv["op1"]))
        tree_tokens(tbl, t[4], out)
    else:
        tree_tokens(tbl, t[2], out)
        out.append((t[3], lv["op1"]))
        tree_tokens(tbl, t[4], out)
        out.append((t[5], lv["op2"]))
        tree_tokens(tbl, t[6], out)
    return out


def render(tbl, t):
    return "".join(w + x for w, x in tree_tokens(tbl, t, []))


def tree_sexp(t):
    tag = t[0]
    if tag == "atom":
        return [Sym("atom"), t[1], t[2]]
    if tag == "paren":
        return [Sym("paren"), t[1], tree_sexp(t[2]), t[3]]
    if tag == "pre":
        return [Sym("pre"), t[1], t[2], tree_sexp(t[3])]
    if tag == "post":
        return [Sym("post"), t[1], tree_sexp(t[2]), t[3]]
    if tag == "bin":
        return [Sym("bin"), t[1], tree_sexp(t[2]), t[3], tree_sexp(t[4])]
    return [Sym("tern"), t[1], tree_sexp(t[2]), t[3], tree_sexp(t[4]), t[5], tree_sexp(t[6])]


def nest_py(tbl, t):
    """the documented nesting, written independently of the Lean `nest` (used by the oracle on rendered trees)"""
    tag = t[0]
    if tag == "atom":
        return t[2]
    if tag == "paren":
        inner = nest_py(tbl, t[2])
        if tbl["lsup"] and tbl["rsup"]:
            return inner
        return ([] if tbl["lsup"] else [tbl["lpar"]]) + [inner] + ([] if tbl["rsup"] else [tbl["rpar"]])
    lv = tbl["levels"][t[1] - 1]
    if tag == "pre":
        return [lv["op1"], nest_py(tbl, t[3])]
    if tag == "post":
        ops, e = [], t
        while e[0] == "post" and e[1] == t[1]:
            ops.append(lv["op1"])
            e = e[2]
        return [nest_py(tbl, e)] + ops
    if tag == "bin":
        if lv["right"]:
            return [nest_py(tbl, t[2]), lv["op1"], nest_py(tbl, t[4])]
        items, e = [], t
        while e[0] == "bin" and e[1] == t[1]:
            items = [lv["op1"], nest_py(tbl, e[4])] + items
            e = e[2]
        return [nest_py(tbl, e)] + items
    if lv["right"]:
        return [nest_py(tbl, t[2]), lv["op1"], nest_py(tbl, t[4]), lv["op2"], nest_py(tbl, t[6])]
    items, e = [], t
    while e[0] == "tern" and e[1] == t[1]:
        items = [lv["op1"], nest_py(tbl, e[4]), lv["op2"], nest_py(tbl, e[6])] + items
        e = e[2]
    return [nest_py(tbl, e)] + items


# ---------------------------------------------------------------------------------------------------------------
# the reference: maximal-munch tokenizer + precedence climbing (one routine per level kind), independent of Lean
# ---------------------------------------------------------------------------------------------------------------
class RefError(Exception):
    pass


def tokenize(tbl, s, white):
    sp = sorted(set(spellings(tbl)), key=len, reverse=True)
    toks, i, n = [], 0, len(s)
    while True:
        while i < n and s[i] in white:
            i += 1
        if i >= n:
            return toks
        for x in sp:
            if s.startswith(x, i):
                toks.append(("op", x))
                i += len(x)
                break
        else:
            if s[i] in tbl["base"]:
                j = i
                while j < n and s[j] in tbl["base"]:
                    j += 1
                toks.append(("atom", s[i:j]))
                i = j
            else:
                raise RefError(f"bad character at {i}")


def combine(k, vals):
    """a non-commutative, non-associative meaning for the operator of level k"""
    acc = 7 + k
    for v in vals:
        acc = (acc * 1000003 + v * 31 + 17) % 2147483629
    return acc


def atom_val(w):
    acc = 5
    for ch in w:
        acc = (acc * 131 + ord(ch)) % 2147483629
    return acc


class Ref:
    """returns (nesting, value); value computed while climbing, not from the nesting"""

    def __init__(self, tbl, toks):
        self.t, self.toks, self.i = tbl, toks, 0
        self.n = len(tbl["levels"])

    def peek(self, x):
        return self.i < len(self.toks) and self.toks[self.i] == ("op", x)

    def eat(self, x):
        if not self.peek(x):
            raise RefError(f"expected {x!r} at token {self.i}")
        self.i += 1

    def top(self):
        r = self.level(self.n)
        if self.i != len(self.toks):
            raise RefError(f"trailing token {self.i}")
        return r

    def paren_wrap(self, inner):
        t = self.t
        if t["lsup"] and t["rsup"]:
            return inner
        return ([] if t["lsup"] else [t["lpar"]]) + [inner] + ([] if t["rsup"] else [t["rpar"]])

    def level(self, k):
        t = self.t
        if k == 0:
            if self.i < len(self.toks) and self.toks[self.i][0] == "atom":
                w = self.toks[self.i][1]
                self.i += 1
                return w, atom_val(w)
            self.eat(t["lpar"])
            nst, v = self.level(self.n)
            self.eat(t["rpar"])
            return self.paren_wrap(nst), v
        lv = t["levels"][k - 1]
        kind, op1, op2 = level_kind(lv), lv["op1"], lv["op2"]
        if kind == "R1":
            if self.peek(op1) and not self.operand_is_lower(k):
                self.i += 1
                nst, v = self.level(k)
                return [op1, nst], combine(k, [v])
            return self.level(k - 1)
        a, va = self.level(k - 1)
        if kind == "L1":
            if not self.peek(op1):
                return a, va
            items = [a]
            while self.peek(op1):
                self.i += 1
                items.append(op1)
                va = combine(k, [va])
            return items, va
        if kind == "L2":
            if not self.peek(op1):
                return a, va
            items = [a]
            while self.peek(op1):
                self.i += 1
                b, vb = self.level(k - 1)
                items += [op1, b]
                va = combine(k, [va, vb])
            return items, va
        if kind == "R2":
            if not self.peek(op1):
                return a, va
            self.i += 1
            b, vb = self.level(k)
            return [a, op1, b], combine(k, [va, vb])
        if kind == "L3":
            if not self.peek(op1):
                return a, va
            items = [a]
            while self.peek(op1):
                self.i += 1
                b, vb = self.level(k - 1)
                self.eat(op2)
                c, vc = self.level(k - 1)
                items += [op1, b, op2, c]
                va = combine(k, [va, vb, vc])
            return items, va
        if not self.peek(op1):
            return a, va
        self.i += 1
        b, vb = self.level(k)
        self.eat(op2)
        c, vc = self.level(k)
        return [a, op1, b, op2, c], combine(k, [va, vb, vc])

    def operand_is_lower(self, k):
        return False


def ref_parse(tbl, s, white=WS_DEFAULT):
    """('ok', nesting, value) | ('err', msg)"""
    try:
        toks = tokenize(tbl, s.expandtabs(), white)
        if not toks:
            raise RefError("empty")
        nst, v = Ref(tbl, toks).top()
        return ("ok", nst, v)
    except RefError as ex:
        return ("err", str(ex))
    except RecursionError:
        return ("err", "recursion")


def eval_nesting(tbl, x):
    """value of a nesting as produced by infix_notation: the level of a group is recognised from its operator tokens.
    Raises RefError when the group is not one of the documented shapes."""
    if isinstance(x, str):
        return atom_val(x)
    if not isinstance(x, list) or not x:
        raise RefError("shape")
    if not (tbl["lsup"] and tbl["rsup"]):
        exp = ([] if tbl["lsup"] else [tbl["lpar"]]) + [None] + ([] if tbl["rsup"] else [tbl["rpar"]])
        if len(x) == len(exp) and all(e is None or e == y for e, y in zip(exp, x)) and not (
                len(x) == 2 and isinstance(x[1 if tbl["lsup"] else 0], str) and False):
            # a kept-paren group; ambiguity with operator groups is avoided by the generator (paren spellings are
            # never operator spellings)
            return eval_nesting(tbl, x[0 if tbl["lsup"] else 1])
    for k, lv in enumerate(tbl["levels"], 1):
        kind, op1, op2 = level_kind(lv), lv["op1"], lv["op2"]
        if kind == "R1" and len(x) == 2 and x[0] == op1:
            return combine(k, [eval_nesting(tbl, x[1])])
        if kind == "L1" and len(x) >= 2 and all(y == op1 for y in x[1:]) and not (len(x) == 2 and x[0] == op1 and False):
            v = eval_nesting(tbl, x[0])
            for _ in x[1:]:
                v = combine(k, [v])
            return v
        if kind == "L2" and len(x) >= 3 and len(x) % 2 == 1 and all(y == op1 for y in x[1::2]):
            v = eval_nesting(tbl, x[0])
            for y in x[2::2]:
                v = combine(k, [v, eval_nesting(tbl, y)])
            return v
        if kind == "R2" and len(x) == 3 and x[1] == op1:
            return combine(k, [eval_nesting(tbl, x[0]), eval_nesting(tbl, x[2])])
        if kind == "L3" and len(x) >= 5 and len(x) % 4 == 1 and all(y == op1 for y in x[1::4]) and all(y == op2 for y in x[3::4]):
            v = eval_nesting(tbl, x[0])
            for i in range(1, len(x), 4):
                v = combine(k, [v, eval_nesting(tbl, x[i + 1]), eval_nesting(tbl, x[i + 3])])
            return v
        if kind == "R3" and len(x) == 5 and x[1] == op1 and x[3] == op2:
            return combine(k, [eval_nesting(tbl, x[0]), eval_nesting(tbl, x[2]), eval_nesting(tbl, x[4])])
    raise RefError("shape")


# ---------------------------------------------------------------------------------------------------------------
# inputs
# ---------------------------------------------------------------------------------------------------------------
def mutate(rng, tbl, s):
    toks = spellings(tbl) + [rng.choice(tbl["base"]), " ", ""]
    r = rng.random()
    if not s:
        return rng.choice(toks)
    i = rng.randrange(len(s) + 1)
    if r < 0.3:
        return s[:i] + rng.choice(toks) + s[i:]
    if r < 0.55:
        j = min(len(s), i + rng.choice([1, 1, 2]))
        return s[:i] + s[j:]
    if r < 0.7:
        j = min(len(s), i + rng.choice([1, 2, 3]))
        return s[:i] + s[i:j] * 2 + s[j:]
    if r < 0.85:
        return s[:i]
    return s[:i] + rng.choice(toks) + s[min(len(s), i + 1):]


def gen_inputs(rng, tbl, n_trees, n_mut, must_ws=False, size=None):
    """[(string, tree | None)]"""
    out = []
    n = len(tbl["levels"])
    size = size or {1: 8, 2: 7, 3: 6, 4: 5, 5: 4}.get(n, 3)  # the real parser is exponential in levels x depth
    ws = (lambda: gen_ws(rng, must=True)) if must_ws else (lambda: gen_ws(rng))
    for _ in range(n_trees):
        t = gen_tree(rng, tbl, n, [rng.randint(1, size)], ws)
        s = render(tbl, t) + rng.choice(["", "", " ", "\n"])
        out.append((s, t))
        for _m in range(n_mut):
            out.append((mutate(rng, tbl, s), None))
    return out


# ---------------------------------------------------------------------------------------------------------------
# structure tie
# ---------------------------------------------------------------------------------------------------------------
CHILD_ARGS = {"and": None, "matchFirst": None, "or": None, "opt": [0], "many": [0, 1], "notAny": [0], "followedBy": [0],
              "located": [0], "group": [0], "suppress": [0], "combine": [0], "enhance": [0], "forward": [0],
              "skipTo": [0, 2, 3]}


def canon_graph(nodes, fb, root=0):
    """reachable part, renumbered in BFS order (children in argument order); nameLen masked; `_FB` marked"""
    ids, order = {}, []

    def visit(i):
        if i not in ids:
            ids[i] = len(order)
            order.append(i)
        return ids[i]

    visit(root)
    out, q = [], 0
    while q < len(order):
        i = order[q]
        q += 1
        nd = nodes[i]
        kind = list(nd[0])
        name = str(kind[0])
        if name in CHILD_ARGS:
            pos = CHILD_ARGS[name]
            for a in range(1, len(kind)):
                if (pos is None or (a - 1) in pos) and isinstance(kind[a], int) and not isinstance(kind[a], bool):
                    kind[a] = visit(kind[a])
        if i in fb:
            kind[0] = Sym("_FB")
        rest = list(nd[1:])
        rest[4] = [visit(x) for x in rest[4]]  # ignore ids
        rest[7] = 0  # nameLen = len(str(e)) is consulted by Or/Each only
        out.append(dumps([kind] + rest))
    return out


def structure_job(job):
    """worker: build the real object, extract; returns dict(real=[canon], line=<infixg line>) or dict(skip=..)"""
    pp = common.import_pyparsing()
    tbl = job["tbl"]
    prog, rootv = table_prog(tbl, job.get("par_variant", 0))
    try:
        b = gram.build(pp, prog)
        root = gram.prepare(b, rootv)
        nodes, _ = gram.extract(b, root, allow_fb=True)
        b1 = gram.build(pp, prog[:1])
        base_nodes, _ = gram.extract(b1, gram.prepare(b1, "b"))
    except gram.Unsupported as ex:
        return {"skip": f"unsupported:{ex}"}
    white = pp.ParserElement.DEFAULT_WHITE_CHARS
    real = canon_graph(nodes, set(b.fb_ids))
    line = dumps([Sym("infixg"), table_sexp(tbl, base_nodes[0], "".join(sorted(white)))])[1:-1]
    return {"real": real, "line": line}


def run_structure(ctx, stream, tables):
    jobs = [dict(tbl=t, par_variant=i % 2) for i, t in enumerate(tables)]
    res = common.pmap(structure_job, jobs)
    keep = [(j, r) for j, r in zip(jobs, res) if "skip" not in r]
    outs = ctx.driver.run_sharded([r["line"] for _, r in keep])
    model = []
    for o in outs:
        try:
            root, fb, nodes = loads(o)
            model.append(json.dumps(canon_graph(nodes, set(fb), root)))
        except Exception:  # noqa
            model.append("unreadable:" + o[:200])
    impl = [json.dumps(r["real"]) for _, r in keep]
    cases = [{"table": j["tbl"], "par_variant": j["par_variant"]} for j, _ in keep]
    diffs = ctx.correspond(stream, cases, [r["line"] for _, r in keep], impl, model_outputs=model,
                           outcome_of=lambda c, io: "/".join(level_kind(lv) for lv in c["table"]["levels"])[:24])
    return [cases[i] for i in diffs]


# ---------------------------------------------------------------------------------------------------------------
# behaviour: real parse_string(parse_all=True) vs the model
# ---------------------------------------------------------------------------------------------------------------
FUEL = 3000
CASE_TIMEOUT = 4.0
MODES = [("none",), ("packrat", 128)]


def real_outcome(pp, root, s, mode):
    corr_parse.set_mode(pp, mode)
    try:
        return common.with_alarm(CASE_TIMEOUT, gram.run_entry, pp, root, "parseAll", s, ())
    except common.CaseTimeout:
        return "hang"
    finally:
        pp.ParserElement.disable_memoization()


def behaviour_job(job):
    """job: dict(prog, root, tbl|None, inputs=[str], via='ppx'|'infixp')"""
    pp = common.import_pyparsing()
    try:
        b = gram.build(pp, job["prog"])
        root = gram.prepare(b, job["root"])
        nodes, ri = gram.extract(b, root, allow_fb=True)
        fb = list(b.fb_ids)
    except gram.Unsupported as ex:
        return {"skip": f"unsupported:{ex}"}
    except Exception as ex:  # noqa
        return {"skip": f"build:{type(ex).__name__}"}
    dw = pp.ParserElement.DEFAULT_WHITE_CHARS
    tsx = None
    if job.get("via") == "infixp":
        b1 = gram.build(pp, job["prog"][:1])
        base_nodes, _ = gram.extract(b1, gram.prepare(b1, "b"))
        tsx = table_sexp(job["tbl"], base_nodes[0], "".join(sorted(dw)))
    recs = []
    for s in job["inputs"]:
        outs = [real_outcome(pp, root, s, m) for m in MODES]
        if "hang" in outs:
            continue  # exponential time without packrat (documented); not compared
        if tsx is not None:
            line = dumps([Sym("infixp"), tsx, FUEL, True, s])[1:-1]
        else:
            line = dumps([Sym("ppx"), fb, Sym("parseAll"), FUEL, ri, dw, s, nodes])[1:-1]
        recs.append((s, outs, line))
    return {"records": recs}


def run_behaviour(ctx, stream, jobs):
    res = common.pmap(behaviour_job, jobs)
    cases, lines, impl = [], [], []
    packrat_bad = []
    skipped = 0
    for job, r in zip(jobs, res):
        if "skip" in r:
            skipped += 1
            continue
        for s, outs, line in r["records"]:
            c = {"prog": job["prog"], "root": job["root"], "input": s, "via": job.get("via", "ppx")}
            if job.get("tbl"):
                c["table"] = job["tbl"]
            cases.append(c)
            lines.append(line)
            impl.append(outs[0])
            if outs[1] != outs[0]:
                packrat_bad.append((c, outs))
    model = ctx.driver.run_sharded(lines) if lines else []
    model = ["hang" if i == "hang" and m == "hang" else m for m, i in zip(model, impl)]
    diffs = ctx.correspond(stream, cases, lines, impl, model_outputs=model,
                           outcome_of=lambda c, io: io.split(" ", 2)[0].lstrip("(") + ("-" + io.split(" ", 2)[1] if io.startswith("(fail") else ""))
    ctx.cov["streams"][stream]["skipped_grammars"] = skipped
    for c, outs in packrat_bad[:2]:
        ctx.fail_input("packrat changes the outcome of an infix_notation parse", c, outs[0], outs[1],
                       theorem="infix_roundtrip + C02 packrat_transparent", how="harness.props.c16.replay")
    return [cases[i] for i in diffs]


# ---------------------------------------------------------------------------------------------------------------
# the oracle on the real code
# ---------------------------------------------------------------------------------------------------------------
def parse_real(pp, root, s, mode):
    corr_parse.set_mode(pp, mode)
    try:
        def f():
            try:
                return ("ok", root.parse_string(s, parse_all=True).as_list())
            except pp.ParseBaseException as ex:
                return ("err", type(ex).__name__)
            except RecursionError:
                return ("err", "RecursionError")
        return common.with_alarm(CASE_TIMEOUT, f)
    except common.CaseTimeout:
        return ("hang",)
    finally:
        pp.ParserElement.disable_memoization()


def oracle_check(pp, root, tbl, s, tree, mode):
    """returns None or (clause, expected, actual)"""
    got = parse_real(pp, root, s, mode)
    if got[0] == "hang":
        # exponential time without packrat is documented (helpers.py:732-735) and not part of the property
        return None
    ref = ref_parse(tbl, s)
    if tree is not None:
        want = [nest_py(tbl, tree)]
        if got != ("ok", want):
            return ("rendered tree parses to its documented nesting", ["ok", want], list(got))
    if ref[0] == "ok":
        if got[0] != "ok":
            return ("well-formed expression is accepted", ["ok", [ref[1]]], list(got))
        if got[1] != [ref[1]]:
            return ("nesting equals the precedence-climbing nesting", [ref[1]], got[1])
        if tbl["lsup"] and tbl["rsup"]:
            try:
                v = eval_nesting(tbl, got[1][0])
            except RefError:
                return ("result groups have a documented shape", [ref[1]], got[1])
            if v != ref[2]:
                return ("evaluated value equals the precedence-climbing value", ref[2], v)
    else:
        if got[0] == "ok":
            return ("ill-formed expression is rejected", ["err", ref[1]], list(got))
    return None


def oracle_job(job):
    """job: dict(tbl, par_variant, inputs=[(s, tree|None)])"""
    pp = common.import_pyparsing()
    tbl = job["tbl"]
    prog, rootv = table_prog(tbl, job.get("par_variant", 0))
    try:
        root = gram.prepare(gram.build(pp, prog), rootv)
    except Exception as ex:  # noqa
        return 0, [dict(tbl=tbl, par_variant=job.get("par_variant", 0), input="", tree=None, mode=["none"],
                        clause="infix_notation accepts the table", expected="a parser", actual=type(ex).__name__)], {}
    n, bad, hist = 0, [], {}
    for s, tree in job["inputs"]:
        for mode in MODES:
            n += 1
            r = oracle_check(pp, root, tbl, s, tree, mode)
            if r is not None:
                bad.append(dict(tbl=tbl, par_variant=job.get("par_variant", 0), input=s, tree=tree, mode=list(mode),
                                clause=r[0], expected=r[1], actual=r[2]))
                break
        k = "tree" if tree is not None else ("wellformed" if ref_parse(tbl, s)[0] == "ok" else "illformed")
        hist[k] = hist.get(k, 0) + 1
    return n, bad, hist


def shrink_bad(m):
    """greedy shrinking of a failing oracle case: drop levels / shorten the input while the same clause fails"""
    pp = common.import_pyparsing()

    def fails(tbl, s):
        if not tbl["levels"]:
            return False
        try:
            prog, rootv = table_prog(tbl, m.get("par_variant", 0))
            root = gram.prepare(gram.build(pp, prog), rootv)
        except Exception:  # noqa
            return False
        for mode in MODES:
            r = oracle_check(pp, root, tbl, s, None, mode)
            if r is not None:
                return r
        return False

    tbl, s = m["tbl"], m["input"]
    cur = fails(tbl, s)
    if not cur:
        return m
    changed = True
    while changed:
        changed = False
        for i in range(len(tbl["levels"])):
            t2 = dict(tbl, levels=tbl["levels"][:i] + tbl["levels"][i + 1:])
            r = fails(t2, s)
            if r and r[0] == cur[0]:
                tbl, cur, changed = t2, r, True
                break
        if changed:
            continue
        for i in range(len(s)):
            for ln in (3, 2, 1):
                s2 = s[:i] + s[i + ln:]
                if s2 != s:
                    r = fails(tbl, s2)
                    if r and r[0] == cur[0]:
                        s, cur, changed = s2, r, True
                        break
            if changed:
                break
    return dict(m, tbl=tbl, input=s, tree=None, clause=cur[0], expected=cur[1], actual=cur[2], shrunk_from=m["input"])


def run_oracle(ctx, stream, jobs, theorem="infix_roundtrip (oracle)", signature_of=None):
    res = common.pmap(oracle_job, jobs)
    n = sum(r[0] for r in res)
    bad = [m for r in res for m in r[1]]
    hist = {}
    for r in res:
        for k, v in r[2].items():
            hist[k] = hist.get(k, 0) + v
    hist["mismatch"] = len(bad)
    ctx.count_cases(stream, n, distinct_keys=[json.dumps([j["tbl"], s]) for j in jobs for s, _ in j["inputs"]],
                    outcomes=hist,
                    samples=[{"table": jobs[0]["tbl"], "input": jobs[0]["inputs"][0][0]}] if jobs and jobs[0]["inputs"] else [])
    seen = set()
    for m in bad:
        sig = signature_of(m) if signature_of else None
        key = (m["clause"], sig)
        if key in seen or len(seen) >= 4:
            continue
        seen.add(key)
        m = shrink_bad(m) if sig is None else m
        ctx.fail_input(m["clause"], {k: m[k] for k in ("tbl", "par_variant", "input", "tree", "mode", "clause") if k in m},
                       m["expected"], m["actual"], theorem=theorem, signature=sig, how="harness.props.c16.replay")
    return bad


# ---------------------------------------------------------------------------------------------------------------
# spec tie (N): Lean `render`/`nest` vs the real parse
# ---------------------------------------------------------------------------------------------------------------
def spec_job(job):
    pp = common.import_pyparsing()
    tbl = job["tbl"]
    prog, rootv = table_prog(tbl, 0)
    b = gram.build(pp, prog)
    root = gram.prepare(b, rootv)
    b1 = gram.build(pp, prog[:1])
    base_nodes, _ = gram.extract(b1, gram.prepare(b1, "b"))
    dw = "".join(sorted(pp.ParserElement.DEFAULT_WHITE_CHARS))
    tsx = table_sexp(tbl, base_nodes[0], dw)
    recs = []
    for s, tree in job["inputs"]:
        if tree is None:
            continue
        core = render(tbl, tree)
        got = real_outcome(pp, root, core, ("none",))
        if got == "hang":
            continue
        line = dumps([Sym("infixnest"), tsx, tree_sexp(tree)])[1:-1]
        recs.append((core, tree, got, line))
    return recs


def run_spec(ctx, stream, jobs):
    res = common.pmap(spec_job, jobs)
    cases, lines, impl = [], [], []
    for job, recs in zip(jobs, res):
        for core, tree, got, line in recs:
            cases.append({"table": job["tbl"], "tree": tree, "input": core})
            lines.append(line)
            impl.append(got)
    outs = ctx.driver.run_sharded(lines) if lines else []
    model = []
    for o, c in zip(outs, cases):
        try:
            rendered, nst = loads(o)
            model.append(dumps([Sym("ok"), [nst]]) if rendered == c["input"] else "render-differs:" + repr(rendered))
        except Exception:  # noqa
            model.append("unreadable:" + o[:100])
    diffs = ctx.correspond(stream, cases, lines, impl, model_outputs=model)
    return [cases[i] for i in diffs]


# ---------------------------------------------------------------------------------------------------------------
# run
# ---------------------------------------------------------------------------------------------------------------
def make_jobs(ctx, tag, n_tables, gen_kw, n_trees, n_mut, must_ws=False, need_T=None, size=None):
    jobs = []
    i = 0
    tries = 0
    while len(jobs) < n_tables and tries < n_tables * 20:
        tries += 1
        rng = random.Random(f"C16-{ctx.seed}-{tag}-{tries}")
        tbl = gen_table(rng, **gen_kw)
        if need_T is not None and class_T(tbl) != need_T:
            continue
        i += 1
        jobs.append(dict(tbl=tbl, par_variant=i % 2, inputs=gen_inputs(rng, tbl, n_trees, n_mut, must_ws=must_ws, size=size)))
    return jobs


# ---- the documented EMPTY operator (None, arity 2: juxtaposed operands), outside the Lean model: oracle only ----------
def juxta_case(rng):
    """a table with exactly one (None, 2, assoc) level among 0-2 ordinary binary levels (tightest first), and a well-formed
    expression over single-letter operands"""
    syms = ["*", "+", "="]
    rng.shuffle(syms)
    n = rng.randint(1, 3)
    pos = rng.randrange(n)
    levels = []
    for i in range(n):
        assoc = rng.choice(["L", "R"])
        levels.append([None if i == pos else syms[i], assoc])

    def gen(k, depth=0):
        # an expression of precedence level k (k == -1: an operand); levels[k] is the loosest level it may use
        if k < 0:
            return [rng.choice("xyz")]
        sym = levels[k][0]
        m = rng.choice([1, 1, 2, 2, 3, 4]) if depth < 3 else 1
        out = gen(k - 1, depth + 1)
        for _ in range(m - 1):
            if sym is not None:
                out.append(sym)
            out += gen(k - 1, depth + 1)
        return out
    toks = gen(n - 1)
    return {"levels": levels, "tokens": toks, "blank": rng.random() < 0.8}


def juxta_expected(levels, toks):
    """reference: recursive descent, loosest level last; left-associative chains are ONE flat group, right-associative
    chains nest to the right; a level that finds a single operand adds no group"""
    pos = [0]

    def level(k):
        if k < 0:
            x = toks[pos[0]]
            pos[0] += 1
            return x
        sym, assoc = levels[k]
        items = [level(k - 1)]
        ops = set(s for s, _ in levels if s is not None)
        while pos[0] < len(toks) and ((sym is not None and toks[pos[0]] == sym) or (sym is None and toks[pos[0]] not in ops)):
            if sym is not None:
                pos[0] += 1
            items.append(level(k - 1))
        if len(items) == 1:
            return items[0]
        if assoc == "L":
            out = [items[0]]
            for it in items[1:]:
                if sym is not None:
                    out.append(sym)
                out.append(it)
            return out
        acc = items[-1]
        for it in reversed(items[:-1]):
            acc = [it, sym, acc] if sym is not None else [it, acc]
        return acc
    r = level(len(levels) - 1)
    if pos[0] != len(toks):
        return None
    return r if isinstance(r, list) else [r]


def juxta_job(seed):
    pp = common.import_pyparsing()
    rng = random.Random(seed)
    c = juxta_case(rng)
    exp = juxta_expected(c["levels"], c["tokens"])
    if exp is None:
        return 0, []
    s = (" " if c["blank"] else "").join(c["tokens"])
    bad, n = [], 0
    for mode in MODES:
        corr_parse.set_mode(pp, tuple(mode) if isinstance(mode, list) else mode)
        try:
            base = pp.Char("xyz")
            tbl = [(sym, 2, pp.OpAssoc.LEFT if a == "L" else pp.OpAssoc.RIGHT) for sym, a in c["levels"]]
            g = pp.infix_notation(base, tbl)
            try:
                got = common.with_alarm(5.0, lambda: g.parse_string(s, parse_all=True).as_list())
            except pp.ParseBaseException as ex:
                got = f"{type(ex).__name__} at {ex.loc}"
        finally:
            pp.ParserElement.disable_memoization()
        n += 1
        want = exp if (len(exp) == 1 and not isinstance(exp[0], list)) else [exp]
        if got != want:
            bad.append({"juxta_seed": seed, "levels": c["levels"], "input": s, "mode": list(mode), "expected": want, "actual": got})
            break
    return n, bad


def run(ctx):
    common.import_pyparsing()
    if THEOREMS:
        ctx.proof_leg("PPProofs.Props.C16", THEOREMS, extra_modules=("PPProofs.Props.C16Left", "PPProofs.Props.C16Gen"))
    else:
        b = common.lake_build(["PPModel", "ppdriver"])
        if not b.ok:
            raise common.HarnessError("driver does not build")
    ctx.rule.append("tables: 1-6 levels, kinds L1 L2 L3 R1 R2 R3, symbolic and word spellings, several paren spellings; "
                    "inputs: rendered normal-form trees with random blanks + token/char mutations; non-trivial = distinct "
                    "(table, input)")
    # corpus first
    run_corpus(ctx)
    # class T tables
    jt = make_jobs(ctx, "T", ctx.budget(250, 2500), dict(overlapping=False), 6, 2, need_T=True)
    run_structure(ctx, "structure:infixGrammar-vs-live-object", [j["tbl"] for j in jt])
    bj = []
    for j in jt:
        prog, rootv = table_prog(j["tbl"], j["par_variant"])
        bj.append(dict(prog=prog, root=rootv, tbl=j["tbl"], inputs=[s for s, _ in j["inputs"]], via="infixp"))
    run_behaviour(ctx, "model-vs-real:infixGrammar+parseX", bj)
    run_spec(ctx, "spec-vs-real:render/nest", jt)
    run_oracle(ctx, "oracle:class-T", jt)
    # the empty operator (juxtaposition), left and right associative, next to ordinary binary levels (oracle only)
    jseeds = [f"C16-{ctx.seed}-jx-{i}" for i in range(ctx.budget(400, 4000))]
    resj = common.pmap(juxta_job, jseeds)
    badj = [m for r_ in resj for m in r_[1]]
    ctx.count_cases("oracle:empty-operator", sum(r_[0] for r_ in resj), outcomes={"mismatch": len(badj)}, samples=[{"juxta_seed": jseeds[0]}])
    for m in badj[:2]:
        ctx.fail_input("infix_notation with the empty operator (None, 2, assoc) does not group as precedence and associativity dictate",
                       m, m["expected"], m["actual"], theorem="C16 statement (oracle only: the empty operator is outside PP.Infix)",
                       how="harness.props.c16.juxta_job(juxta_seed)")
    # overlapping spellings (<, <=, *, **, -, --): tokens separated by blanks, rendered trees only (a mutation may glue
    # two tokens into a longer spelling, where scannerless matching and maximal munch legitimately differ)
    jo = make_jobs(ctx, "OV", ctx.budget(120, 1200), dict(overlapping=True, max_levels=4), 6, 0, must_ws=True, need_T=False)
    bo = []
    for j in jo:
        prog, rootv = table_prog(j["tbl"], j["par_variant"])
        bo.append(dict(prog=prog, root=rootv, tbl=j["tbl"], inputs=[s for s, _ in j["inputs"]], via="infixp"))
    run_behaviour(ctx, "model-vs-real:overlapping-spellings", bo)
    run_oracle(ctx, "oracle:overlapping-spellings", jo)
    # kept parentheses and level parse actions (incl. failing and fatal ones)
    jg = make_jobs(ctx, "G", ctx.budget(150, 1500), dict(overlapping=False, acts=True, pars=True, max_levels=4), 5, 2)
    run_structure(ctx, "structure:kept-parens+actions", [j["tbl"] for j in jg])
    bg = []
    for j in jg:
        prog, rootv = table_prog(j["tbl"], j["par_variant"])
        bg.append(dict(prog=prog, root=rootv, tbl=j["tbl"], inputs=[s for s, _ in j["inputs"]], via="infixp"))
        bg.append(dict(prog=prog, root=rootv, tbl=j["tbl"], inputs=[s for s, _ in j["inputs"][:4]], via="ppx"))
    run_behaviour(ctx, "model-vs-real:kept-parens+actions", bg)
    run_oracle(ctx, "oracle:kept-parens", [j for j in jg if not any(lv["acts"] for lv in j["tbl"]["levels"])])
    if ctx.broken and not ctx.fail_inputs:
        # a broken obligation or a correspondence diff: search harder on the real code
        for r in range(4):
            jx = make_jobs(ctx, f"X{r}", ctx.budget(400, 2000), dict(overlapping=False), 8, 3, need_T=True)
            run_oracle(ctx, "oracle:search", jx)
            if ctx.fail_inputs:
                break


def run_corpus(ctx):
    d = common.VERIF / "corpus" / "C16"
    if not d.exists():
        return
    for p in sorted(d.glob("*.json")):
        c = json.loads(p.read_text())
        job = dict(tbl=c["tbl"], par_variant=c.get("par_variant", 0), inputs=[(c["input"], c.get("tree"))])
        run_oracle(ctx, "corpus", [job], signature_of=(lambda m, sig=c.get("signature"): sig) if c.get("signature") else None)


def replay(data):
    if data.get("replay_kind") == "failing-input":
        c = data["case"]
        if "juxta_seed" in c:
            return bool(juxta_job(c["juxta_seed"])[1])
        if "tbl" in c:
            pp = common.import_pyparsing()
            prog, rootv = table_prog(c["tbl"], c.get("par_variant", 0))
            root = gram.prepare(gram.build(pp, prog), rootv)
            for mode in MODES:
                if oracle_check(pp, root, c["tbl"], c["input"], c.get("tree"), mode) is not None:
                    return True
            return False
        if "prog" in c:
            pp = common.import_pyparsing()
            root = gram.prepare(gram.build(pp, c["prog"]), c["root"])
            outs = [real_outcome(pp, root, c["input"], m) for m in MODES]
            return outs[0] != outs[1]
    ctx = common.Ctx("C16", "quick", data.get("seed", 0))
    run(ctx)
    return bool(ctx.broken or ctx.fail_inputs)
