"""C08 — all parsing entry points agree with one another.

proof:           lean/PPProofs/Props/C08.lean — the scan_string driver loop, split, transform_string and parse_all as
                 functions of ANY parse function p: every reported match is a direct parse begun at its start, matches
                 are ordered and (overlap=False) non-overlapping, at most max_matches; rejoining split's pieces with the
                 matched texts restores the parsed string; transform_string keeps unmatched text verbatim and substitutes
                 tokens; parse_all returns the plain parse's tokens and succeeds iff only skippable text remains.
correspondence:  parse model entry points vs the real ones over entry-point options (parse_all, max_matches, overlap,
                 always_skip_whitespace, maxsplit) — this is what ties "no position skipped over would have matched" to
                 the code, since the model runs the same loop over a model parser that corresponds call by call.
search (oracle): the theorem statements executed on the real code (cross-checks between the real entry points).
"""
from __future__ import annotations

import json
import random

from .. import common, corr_parse, gen, gram

META = dict(
    text="Lean theorems (PPProofs/Props/C08.lean) hold for EVERY parse function p (so for the uncached, packrat and LR "
         "parsers), every input and option value: scan_each_is_direct_parse, scan_sorted_disjoint, scan_match_forward, "
         "scan_max_matches (scanLoop_spec by induction on the driver loop); parse_fwd / scan_match_forward_parse (the model "
         "parser is forward-moving for every grammar, so start <= end of every reported match holds unconditionally); split_join (pieces + matched texts = parsed "
         "string, for any ordered non-overlapping forward match list), split_pieces_are_gaps, transform_spec / "
         "transform_no_match; parseAll_tokens_eq_plain, parseAll_of_plain_and_end, parseAll_fails_on_trailing_text. "
         "search_string/matches/== are definitional projections checked by the oracle. PARTIAL: 'no position skipped over "
         "would have matched' is not a separate theorem - the model's loop is the code's loop (incl. the zero-width rule "
         "nextLoc > loc and the overlap rule) and is tied by correspondence; the literal reading "
         "'parse_all == expr + StringEnd()' is false when expr carries ignorables (registered finding), the proved "
         "equivalence is parseAll_of_plain_and_end/fails_on_trailing_text (ignorables carried by expr's own preParse).",
    note="Trusted: Lean kernel; axioms propext/Classical.choice/Quot.sound; the Entry model (transcription of core.py "
         "1157-1452, validated differentially every run); include_separators yields t[0], not the matched text - only the "
         "text-level statement is proved.",
    technique="Lean 4 proof about the entry-point driver loops, generic in the parse function; differential "
              "correspondence over entry-point options; cross-entry-point oracle on the real code",
    design="§5 C08",
)

THEOREMS = [
    "PP.Parse.scanLoop_spec", "PP.Parse.parse_fwd", "PP.Parse.scan_match_forward_parse",
    "PP.Parse.scanString_spec",
    "PP.Parse.scan_each_is_direct_parse",
    "PP.Parse.scan_sorted_disjoint",
    "PP.Parse.scan_match_forward",
    "PP.Parse.scan_max_matches",
    "PP.Parse.split_join",
    "PP.Parse.split_pieces_are_gaps",
    "PP.Parse.transform_spec",
    "PP.Parse.transform_no_match",
    "PP.Parse.parseAll_tokens_eq_plain",
    "PP.Parse.parseAll_of_plain_and_end",
    "PP.Parse.parseAll_fails_on_trailing_text",
    "PP.Parse.preParse_ge",
]

ENTRIES = [("parse", ()), ("parseAll", ()), ("scan", (100, True, False)), ("scan", (2, True, False)), ("scan", (100, False, False)),
           ("scan", (100, True, True)), ("scan", (3, False, True)), ("transform", ()), ("split", (100,)), ("split", (1,))]


def _res(pp, f):
    try:
        return ("ok", f())
    except pp.ParseBaseException as ex:
        return ("exc", type(ex).__name__, ex.loc)
    except RecursionError:
        return ("rec",)


def oracle_job(job):
    pp = common.import_pyparsing()
    if job.get("default_ws") is not None:
        pp.Empty().parse_string("", parse_all=True)  # a parse_all call under the standard defaults comes first
        with pp.testing.reset_pyparsing_context():
            pp.ParserElement.set_default_whitespace_chars(job["default_ws"])
            return _oracle_job(pp, job)
    return _oracle_job(pp, job)


def _oracle_job(pp, job):

    def fresh():
        return gram.prepare(gram.build(pp, job["prog"]), job["root"])

    try:
        root = fresh()
    except Exception:
        return 0, []
    if corr_parse.nullable_rep(pp, root):
        return 0, []
    pp.ParserElement.disable_memoization()
    has_ign = bool(root.ignoreExprs)
    # wrapping expr in And([expr, StringEnd()]) makes the And pre-skip with expr's *own* whitespace set before calling
    # expr without pre-parse; that is the same thing only when every element uses the default whitespace set
    dflt = set(pp.ParserElement.DEFAULT_WHITE_CHARS)
    todo, seen_, uniform_ws = [root], set(), True
    while todo:
        e = todo.pop()
        if id(e) in seen_:
            continue
        seen_.add(id(e))
        if set(e.whiteChars) != dflt:
            uniform_ws = False
        todo.extend(corr_parse._children(pp, e))
    n, bad = 0, []

    def rec(kind, s, exp, act, sig=None):
        bad.append({"prog": job["prog"], "root": job["root"], "input": s, "clause": kind, "expected": exp, "actual": act, "sig": sig})

    for s in job["inputs"]:
        if corr_parse._TIMEOUTS.value >= corr_parse.MAX_TIMEOUTS:
            break
        try:
            def work():
                parsed = s if root.keepTabs else s.expandtabs()
                # --- parse_all vs plain vs matches vs == vs expr + StringEnd() ---------------------------
                plain = _res(pp, lambda: root.parse_string(s).as_list())
                pall = _res(pp, lambda: root.parse_string(s, parse_all=True).as_list())
                if pall[0] == "ok":
                    if plain != pall:
                        rec("parse_all tokens == plain tokens", s, plain, pall)
                m1 = _res(pp, lambda: root.matches(s))
                if m1[0] == "ok" and pall[0] in ("ok", "exc") and m1[1] != (pall[0] == "ok"):
                    rec("matches(s) == parse_all succeeds", s, pall[0] == "ok", m1[1])
                if m1[0] == "exc" and pall[0] == "exc":
                    # matches() answers whether parse_all succeeds: a parse that fails - softly or fatally - is `False`
                    rec("matches(s) == parse_all succeeds", s, False, list(m1))
                eq = _res(pp, lambda: root == s)
                if eq[0] == "ok" and pall[0] in ("ok", "exc") and eq[1] != (pall[0] == "ok"):
                    rec("(expr == s) == parse_all succeeds", s, pall[0] == "ok", eq[1])
                if eq[0] == "exc" and pall[0] == "exc":
                    rec("(expr == s) == parse_all succeeds", s, False, list(eq))
                se = _res(pp, lambda: (fresh() + pp.StringEnd()).parse_string(s).as_list())
                # asserted for grammars without ignorables only: with ignorables the literal reading is false (registered
                # finding parse_all_vs_stringend_ignorables - the appended StringEnd / And do not know expr's ignorables);
                # that region is left to the registered witness, which is replayed on every run
                # ... and for roots that pre-parse themselves: a root whose callPreparse is off (a repetition / Opt / Group
                # ... over alternatives) starts at position 0, inside `expr + StringEnd()` it starts after the And's
                # whitespace skip, and a non-skipping stop_on / lookahead then looks at a different character
                # (registered finding parse_all_vs_stringend_start_position, witness replayed on every run)
                if uniform_ws and pall[0] in ("ok", "exc") and se[0] in ("ok", "exc") and \
                        ((not has_ign and root.callPreparse) or job.get("witness")):
                    # the statement equates *success*; tokens are compared with the plain parse above (an And skips
                    # leading whitespace where a root whose callPreparse is off - SkipTo over alternatives - keeps it
                    # in its skipped text, so the token lists may legitimately differ)
                    if (se[0] == "ok") != (pall[0] == "ok"):
                        rec("parse_all == (expr + StringEnd())", s, pall, se,
                            sig="parse_all_vs_stringend_ignorables" if has_ign else
                            ("parse_all_vs_stringend_start_position" if not root.callPreparse else None))
                # --- scan_string ------------------------------------------------------------------------
                full = _res(pp, lambda: [(t.as_list(), a, b) for t, a, b in root.scan_string(s)])
                if full[0] == "ok":
                    ms = full[1]
                    for (t, a, b), (t2, a2, b2) in zip(ms, ms[1:]):
                        if not (b <= a2):
                            rec("scan_string matches are ordered and non-overlapping", s, "end <= next start", [a, b, a2, b2])
                    for t, a, b in ms:
                        if not (0 <= a <= b <= len(parsed) + 1):
                            rec("scan_string bounds", s, "0<=start<=end<=len+1", [a, b, len(parsed)])
                        d = _res(pp, lambda: (lambda r: (r[1].as_list(), r[0]))(root._parse(parsed, a, callPreParse=False)))
                        if d != ("ok", (t, b)):
                            rec("each scan_string match equals a direct parse begun at start", s, [t, b], d)
                    # "no position skipped over would have matched": between two reported matches (and after the last one)
                    # every position that the scanner cannot have skipped as whitespace - a character outside the
                    # expression's own whitespace set - was tried, so a direct parse begun there must not succeed with a
                    # non-empty match.  (With ignorables a position inside skipped comment text is legitimately passed
                    # over; zero-width matches fall under the driver's nextLoc > loc rule - both stay out of this clause.)
                    if not has_ign:
                        wsset = set(root.whiteChars)
                        gaps, prev = [], 0
                        for t, a, b in ms:
                            gaps.append((prev, a))
                            prev = max(prev, b)
                        gaps.append((prev, len(parsed)))
                        for lo, hi in gaps:
                            for q in range(lo, min(hi, len(parsed))):
                                if parsed[q] in wsset:
                                    continue
                                d = _res(pp, lambda: root._parse(parsed, q, callPreParse=False)[0])
                                if d[0] == "ok" and d[1] > q:
                                    rec("no position skipped over by scan_string would have matched", s,
                                        f"no match begins at {q}", f"a direct parse at {q} matches up to {d[1]}; scan_string reported {[(a, b) for _, a, b in ms]}")
                                    break
                    for k in (1, 2):
                        part = _res(pp, lambda: [(t.as_list(), a, b) for t, a, b in root.scan_string(s, max_matches=k)])
                        if part != ("ok", ms[:k]):
                            rec("max_matches=k reports the first k matches", s, ms[:k], part)
                    # search_string is the token list of scan_string(always_skip_whitespace=False)
                    ss = _res(pp, lambda: root.search_string(s).as_list())
                    sc = _res(pp, lambda: [t.as_list() for t, _, _ in root.scan_string(s, always_skip_whitespace=False)])
                    if ss != sc:
                        rec("search_string == tokens of scan_string", s, sc, ss)
                    # split: pieces + matched text restore the parsed string
                    sp = _res(pp, lambda: list(root.split(s)))
                    if sp[0] == "ok":
                        pieces = sp[1]
                        texts = [parsed[a:b] for _, a, b in ms]
                        if len(pieces) == len(texts) + 1:
                            out = "".join(p + x for p, x in zip(pieces, texts + [""]))
                            if out != parsed:
                                rec("rejoining split pieces with matched texts restores the input", s, parsed, out)
                        else:
                            rec("split yields one more piece than there are matches", s, len(texts) + 1, len(pieces))
                    ovl = _res(pp, lambda: [a for _, a, _ in root.scan_string(s, overlap=True)])
                    if ovl[0] == "ok" and any(x >= y for x, y in zip(ovl[1], ovl[1][1:])):
                        rec("overlap=True: starts strictly increase", s, "increasing", ovl[1])
                # --- transform_string (keepTabs forced): unmatched text verbatim + tokens -------------------
                r2 = fresh()
                tr = _res(pp, lambda: r2.transform_string(s))
                sc2 = _res(pp, lambda: [(t.as_list(), a, b) for t, a, b in fresh().parse_with_tabs().scan_string(s)])
                if tr[0] == "ok" and sc2[0] == "ok":
                    def flat(x):
                        return "".join(flat(y) for y in x) if isinstance(x, list) else str(x)
                    out, last = [], 0
                    for t, a, b in sc2[1]:
                        if a > last:
                            out.append(s[last:a])
                        last = b
                        out.append("".join(flat(y) for y in t if y))
                    out.append(s[last:])
                    if "".join(out) != tr[1]:
                        rec("transform_string == unmatched text + tokens of each match", s, "".join(out), tr[1])
            common.with_alarm_retry(4.0, work)
            n += 1
        except common.CaseTimeout:
            with corr_parse._TIMEOUTS.get_lock():
                corr_parse._TIMEOUTS.value += 1
            rec("every entry point terminates", s, "returns within 4 s (no nullable repetition body)", "timeout")
    return n, bad


def run_oracle(ctx, stream, jobs, job_fn=None):
    corr_parse._TIMEOUTS.value = 0
    res = common.pmap(job_fn or oracle_job, jobs)
    n = sum(r[0] for r in res)
    bad = [m for r in res for m in r[1]]
    ctx.count_cases(stream, n, distinct_keys=[json.dumps([j["prog"], s]) for j in jobs for s in j["inputs"]],
                    outcomes={"inputs": n, "mismatch": len(bad)},
                    samples=[{"prog": jobs[0]["prog"], "root": jobs[0]["root"], "input": jobs[0]["inputs"][0]}] if jobs else [])
    seen = set()
    for m in sorted(bad, key=lambda m: (m["sig"] is not None, len(m["prog"]), len(m["input"]))):
        # one report per (clause, known-finding signature): a registered finding must never mask another violation of
        # the same clause
        if (m["clause"], m["sig"]) in seen or len([k for k in seen if k[1] is None]) >= 3:
            continue
        seen.add((m["clause"], m["sig"]))
        ctx.fail_input(m["clause"], {k: m[k] for k in ("prog", "root", "input", "clause", "mode", "others") if k in m}, m["expected"], m["actual"],
                       theorem="C08 statement (oracle)", signature=m["sig"], how="harness.props.c08.oracle_job")


def prior_job(job):
    """every entry point starts from scratch (it resets the packrat cache AND the left-recursion memo): what it returns
    for s does not depend on which other strings were parsed - successfully or not - with the same objects before"""
    pp = common.import_pyparsing()
    n, bad = 0, []

    def views(root, s, before=None):
        out = []
        for name, f in (("scan", lambda: [(t.as_list(), a, b) for t, a, b in root.scan_string(s)]),
                        ("search", lambda: root.search_string(s).as_list()),
                        ("transform", lambda: root.transform_string(s)),
                        ("split", lambda: list(root.split(s))),
                        ("parse", lambda: root.parse_string(s).as_list())):
            if before is not None:
                before()          # another entry point ran on another string right before this one
            out.append((name, _res(pp, f)))
        return out

    for mode in [("none",), ("packrat", 128), ("lr", None)]:
        for s in job["inputs"][:3]:
            corr_parse.set_mode(pp, mode)
            try:
                def both():
                    root = gram.prepare(gram.build(pp, job["prog"]), job["root"])
                    if corr_parse.nullable_rep(pp, root):
                        return None
                    fresh = views(root, s)
                    root2 = gram.prepare(gram.build(pp, job["prog"]), job["root"])
                    for other in job["inputs"]:
                        if other != s:
                            _res(pp, lambda: root2.parse_string(other, parse_all=True))
                            _res(pp, lambda: root2.matches(other))
                            # entry points that return without a final reset leave their memo entries behind: the next
                            # entry point must still start from scratch
                            _res(pp, lambda: root2.search_string(other).as_list())
                            _res(pp, lambda: [t.as_list() for t, _, _ in root2.scan_string(other, max_matches=1)])
                    res = []
                    for (name, a) in fresh:
                        b = dict(views(root2, s))[name] if False else None
                    others = [o for o in job["inputs"] if o != s]
                    k = [0]

                    def before():
                        # search_string / scan_string return without a final reset: their memo entries are still there
                        if others:
                            o = others[k[0] % len(others)]
                            k[0] += 1
                            _res(pp, lambda: root2.search_string(o).as_list())
                    after = views(root2, s, before)
                    return fresh, after
                r = common.with_alarm_retry(corr_parse.CASE_TIMEOUT * 4, both)
            except common.CaseTimeout:
                r = None
            except Exception:  # noqa
                r = None
            finally:
                pp.ParserElement.disable_memoization()
            if r is None:
                continue
            fresh, after = r
            n += len(fresh)
            for (name, a), (_, b) in zip(fresh, after):
                if a != b:
                    bad.append({"prog": job["prog"], "root": job["root"], "input": s, "clause": f"{name}(s) is independent of earlier calls",
                                "expected": a, "actual": b, "sig": None, "mode": list(mode), "others": job["inputs"]})
                    break
    return n, bad


WITNESS_F8 = dict(witness=True, prog=[["w", "Word", "ab"], ["h", "Literal", "#"], ["root", "OneOrMore", "w"], ["_", "ignore", "root", "h"]],
                  root="root", inputs=["ab ab #"])


def run(ctx):
    common.import_pyparsing()
    ctx.proof_leg("PPProofs.Props.C08", THEOREMS)
    ctx.rule.append("programs from harness/gen.py x sampled/mutated/random inputs x 10 entry-point option combinations; the "
                    "parse_all-vs-StringEnd clause is asserted for default-whitespace grammars without ignorables (registered "
                    "finding for ignorables: witness replayed); non-trivial = distinct (program,input)")
    run_oracle(ctx, "known-finding-witness", [WITNESS_F8])
    run_oracle(ctx, "known-finding-witness", [dict(witness=True, root="root", inputs=[" x"], prog=[
        ["x", "Literal", "x"], ["alt", "|", "x", "x"], ["st", "CharsNotIn", "b ,"], ["root", "ZeroOrMore", "alt", "st"]])])
    jobs = []
    for i in range(ctx.budget(2500, 20000)):
        rng = random.Random(f"C08-{ctx.seed}-corr-{i}")
        prog, root, inputs = gen.gen_case(rng, gen.Cfg(ignore=0.0), 5)
        jobs.append(dict(prog=prog, root=root, inputs=inputs, entries=ENTRIES, modes=[("none",)]))
    for i in range(ctx.budget(500, 4000)):
        rng = random.Random(f"C08-{ctx.seed}-corr-ign-{i}")
        prog, root, inputs = gen.gen_case(rng, gen.Cfg(ignore=1.0), 5)
        jobs.append(dict(prog=prog, root=root, inputs=[s + rng.choice(["", " #", "#"]) for s in inputs], entries=ENTRIES, modes=[("none",)]))
    # entry points under a changed default whitespace set (grammar built after the change; a parse_all call was made
    # before it): parse_all's end-of-text test must use the defaults in force now, like a user-written `+ StringEnd()`
    for i in range(ctx.budget(400, 3000)):
        rng = random.Random(f"C08-{ctx.seed}-corr-ws-{i}")
        prog, root, inputs = gen.gen_case(rng, gen.Cfg(ignore=0.0, ws_variants=0.0), 4)
        jobs.append(dict(prog=prog, root=root, inputs=[s + rng.choice(["\n", " \n", "", "\t"]) for s in inputs],
                         entries=ENTRIES[:4], modes=[("none",)], default_ws=rng.choice([" \t", " ", " \t\r"])))
    corr_parse.run_jobs(ctx, "model-vs-real:entry-points", jobs)
    mult = 5 if (ctx.broken and not ctx.fail_inputs) else 1
    oj = [dict(prog=j["prog"], root=j["root"], inputs=j["inputs"], default_ws=j.get("default_ws"))
          for j in (jobs[: ctx.budget(1500, 12000) * mult] + [j for j in jobs if j.get("default_ws")])]
    run_oracle(ctx, "oracle:cross-entry", oj)
    # entry points are independent of earlier calls, in every memoization mode
    pj = []
    for i in range(ctx.budget(500, 5000) * mult):
        rng = random.Random(f"C08-{ctx.seed}-prior-{i}")
        prog, root, inputs = gen.gen_case(rng, gen.Cfg(forwards=rng.choice([1, 2]), ignore=0.0, actions=0.0), 5)
        pj.append(dict(prog=prog, root=root, inputs=inputs))
    run_oracle(ctx, "oracle:independent-of-earlier-calls", pj, job_fn=prior_job)


def replay(data):
    if data.get("replay_kind") == "failing-input":
        c = data["case"]
        if c.get("others") is not None:
            return bool(prior_job(dict(prog=c["prog"], root=c["root"], inputs=[c["input"]] + [o for o in c["others"] if o != c["input"]]))[1])
        return any(m["clause"] == c["clause"] for m in oracle_job(dict(prog=c["prog"], root=c["root"], inputs=[c["input"]]))[1])
    ctx = common.Ctx("C08", "quick", data.get("seed", 0))
    run(ctx)
    return bool(ctx.broken or ctx.fail_inputs)
